"""Translator plug-in of unit `conc` (C43, C44, C33).

GenConc.v — from the current source of
  crates/aranya-fast-channels/src/mutex.rs          (C43)
  crates/aranya-fast-channels/src/memory/lender.rs  (C44)
  crates/aranya-policy-text/src/repr.rs             (C33, `mod arc`)
the constants the interleaving models use (PASSIVE_SPIN, the three mutex
states, the BiArc states, MAX_REFCOUNT) and, per file, the *ledger of
synchronisation operations*: every atomic access, fence, futex/ulock/yield call
and deallocation outside `#[cfg(test)]` code, in source order, as
(enclosing fn, operation, memory-ordering arguments).  The models pin these
lists (`…_ops_pinned` lemmas), so adding, removing or re-ordering an atomic
operation — or changing a memory ordering — stops a proof from compiling.
For mutex.rs additionally `futex_calls`: every call of the futex / ulock wrappers
and of the raw `syscall`, with the complete list of argument expressions (the op
constant with any flags OR-ed in, the address, the value, the timeout), pinned by
`futex_calls_pinned`: the model's futex stands for a process-SHARED futex on the
key word, so e.g. adding FUTEX_PRIVATE_FLAG must break the proof build.
Lines under `#[cfg(aranya_core_verif)]` (the hooks) are removed first.
"""
import re

import gen

OPS = ["compare_exchange_weak", "compare_exchange", "fetch_add", "fetch_sub", "fetch_or", "fetch_and",
       "load", "store", "swap"]
CALLS = ["futex_wait", "futex_wake", "sched_yield", "syscall", "__ulock_wait", "__ulock_wake", "fence",
         "dealloc", "from_raw", "spin_loop"]


def _strip_hook_items(src):
    """Remove `#[cfg(aranya_core_verif)]` and the statement/item it guards."""
    out = []
    i = 0
    tag = "#[cfg(aranya_core_verif)]"
    while True:
        j = src.find(tag, i)
        if j < 0:
            out.append(src[i:])
            break
        out.append(src[i:j])
        k = j + len(tag)
        # further attributes on the same item
        while True:
            m = re.match(r"\s*#\[[^\]]*\]", src[k:])
            if not m:
                break
            k += m.end()
        depth = 0
        while k < len(src):
            c = src[k]
            if c in "([":
                depth += 1
            elif c in ")]":
                depth -= 1
            elif c == ";" and depth == 0:
                k += 1
                break
            elif c == "{" and depth == 0:
                d2 = 1
                k += 1
                while k < len(src) and d2:
                    if src[k] == "{":
                        d2 += 1
                    elif src[k] == "}":
                        d2 -= 1
                    k += 1
                break
            k += 1
        i = k
    return "".join(out)


def _cut_tests(src):
    m = re.search(r"#\[cfg\(test\)\]\s*mod\s+\w+\s*\{", src)
    return src[:m.start()] if m else src


def _prep(repo, rel):
    src = gen.read(repo, rel)
    src = gen.strip_rust_comments(src)
    src = _strip_hook_items(src)
    return _cut_tests(src)


def _ledger(src):
    """[(fn, op, orderings)] in source order."""
    fns = [(m.start(), m.group(1)) for m in re.finditer(r"\bfn\s+([A-Za-z_][A-Za-z0-9_]*)", src)]
    pat = re.compile(r"\.\s*(%s)\s*\(|\b(%s)\s*\(" % ("|".join(OPS), "|".join(re.escape(c) for c in CALLS)))
    out = []
    for m in pat.finditer(src):
        op = m.group(1) or m.group(2)
        # skip definitions / declarations / imports of the called functions
        pre = src[max(0, m.start() - 12):m.start()]
        if re.search(r"\bfn\s+$", pre):
            continue
        # argument text up to the matching parenthesis
        k = m.end()
        depth = 1
        while k < len(src) and depth:
            if src[k] == "(":
                depth += 1
            elif src[k] == ")":
                depth -= 1
            k += 1
        args = src[m.end():k - 1]
        ords = re.findall(r"Ordering::([A-Za-z]+)", args)
        fn = "?"
        for (pos, name) in fns:
            if pos < m.start():
                fn = name
        out.append((fn, op, ",".join(ords)))
    return out


def _coq_str(s):
    return '"' + s.replace('"', '""') + '"%string'


def _coq_ledger(name, led):
    body = ";\n   ".join("(%s, %s, %s)" % (_coq_str(a), _coq_str(b), _coq_str(c)) for (a, b, c) in led)
    return "Definition %s : list (string * string * string) :=\n  [%s].\n" % (name, body)


SYS_CALLEES = ["syscall", "futex", "futex_wait", "futex_wake", "__ulock_wait", "__ulock_wake"]


def _split_args(args):
    out, depth, cur = [], 0, []
    for c in args:
        if c in "([{<":
            depth += 1
        elif c in ")]}>":
            depth -= 1
        if c == "," and depth == 0:
            out.append("".join(cur))
            cur = []
        else:
            cur.append(c)
    if "".join(cur).strip():
        out.append("".join(cur))
    return [re.sub(r"\s+", "", a) for a in out]


def _sys_calls(src):
    """[(enclosing fn, callee, [argument expressions, whitespace removed])] for every call of
    the futex / ulock wrappers and the raw syscall, in source order (definitions excluded)."""
    fns = [(m.start(), m.group(1)) for m in re.finditer(r"\bfn\s+([A-Za-z_][A-Za-z0-9_]*)", src)]
    pat = re.compile(r"(?<![A-Za-z0-9_])(%s)\s*\(" % "|".join(re.escape(c) for c in SYS_CALLEES))
    out = []
    for m in pat.finditer(src):
        pre = src[max(0, m.start() - 12):m.start()]
        if re.search(r"\bfn\s+$", pre):
            continue
        k = m.end()
        depth = 1
        while k < len(src) and depth:
            if src[k] == "(":
                depth += 1
            elif src[k] == ")":
                depth -= 1
            k += 1
        fn = "?"
        for (pos, name) in fns:
            if pos < m.start():
                fn = name
        out.append((fn, m.group(1), _split_args(src[m.end():k - 1])))
    return out


def _coq_calls(name, calls):
    body = ";\n   ".join("(%s, %s, [%s])" % (_coq_str(a), _coq_str(b), "; ".join(_coq_str(x) for x in c))
                         for (a, b, c) in calls)
    return "Definition %s : list (string * string * list string) :=\n  [%s].\n" % (name, body)


GETTERS = ["try_clone", "get_unconditional", "get_if_shared"]


def _impl_accessors(src, ty):
    """[(type, fn, internal BiArc getters called in its body)] for every fn of `impl<..> ty<..>`."""
    out = []
    for m in re.finditer(r"\bimpl\s*<[^>]*>\s*%s\s*<[^>]*>\s*\{" % re.escape(ty), src):
        k = m.end()
        depth = 1
        while k < len(src) and depth:
            if src[k] == "{":
                depth += 1
            elif src[k] == "}":
                depth -= 1
            k += 1
        body = src[m.end():k - 1]
        for fm in re.finditer(r"\b(pub\s+)?fn\s+([A-Za-z_][A-Za-z0-9_]*)[^{]*\{", body):
            j = fm.end()
            d2 = 1
            while j < len(body) and d2:
                if body[j] == "{":
                    d2 += 1
                elif body[j] == "}":
                    d2 -= 1
                j += 1
            fbody = body[fm.end():j - 1]
            calls = [g for g in re.findall(r"\.\s*(%s)\s*\(" % "|".join(GETTERS), fbody)]
            out.append((ty, ("pub " if fm.group(1) else "") + fm.group(2), ",".join(calls)))
    return out


@gen.generator
def gen_conc(repo):
    probs = []
    out = [gen.HEADER]
    # ---- mutex.rs
    m_src = _prep(repo, "crates/aranya-fast-channels/src/mutex.rs")
    for cname in ("PASSIVE_SPIN", "MUTEX_UNLOCKED", "MUTEX_LOCKED", "MUTEX_SLEEPING"):
        v = gen.find_const(m_src, cname)
        if v is None or not re.fullmatch(r"[0-9_]+", v):
            probs.append("gen_conc: constant %s not found as an integer literal in mutex.rs (%r)" % (cname, v))
            v = "0"
        kind = "nat" if cname == "PASSIVE_SPIN" else "N"
        out.append("Definition %s : %s := %s%%%s.\n" % (cname.lower(), kind, v.replace("_", ""), kind))
    out.append(_coq_ledger("mutex_ops", _ledger(m_src)))
    # every futex / ulock system-call site with its full argument list, the libc names the
    # Linux module imports (a renamed import would change what FUTEX_WAIT means) and the
    # ulock operation constants
    out.append(_coq_calls("futex_calls", _sys_calls(m_src)))
    lm = re.search(r"\bmod\s+linux\s*\{", m_src)
    imports = []
    if lm:
        im = re.search(r"use\s+libc\s*::\s*\{([^}]*)\}\s*;", m_src[lm.end():])
        if im:
            imports = sorted(re.sub(r"\s+", " ", x).strip() for x in im.group(1).split(",") if x.strip())
    if not imports:
        probs.append("gen_conc: `use libc::{…}` of mod linux not found in mutex.rs")
    out.append("Definition futex_libc_imports : list string := [%s].\n" % "; ".join(_coq_str(x) for x in imports))
    consts = []
    for cname in ("UL_COMPARE_AND_WAIT", "ULF_NO_ERRNO"):
        v = gen.find_const(m_src, cname)
        consts.append("%s=%s" % (cname, re.sub(r"\s+", "", v or "?")))
    out.append("Definition ulock_consts : list string := [%s].\n" % "; ".join(_coq_str(x) for x in consts))
    # ---- lender.rs
    l_src = _prep(repo, "crates/aranya-fast-channels/src/memory/lender.rs")
    for cname in ("STATE_UNSHARED", "STATE_SHARED"):
        v = gen.find_const(l_src, cname)
        if v not in ("true", "false"):
            probs.append("gen_conc: constant %s not found as a bool literal in lender.rs (%r)" % (cname, v))
            v = "false"
        out.append("Definition %s : bool := %s.\n" % (cname.lower(), v))
    out.append(_coq_ledger("lender_ops", _ledger(l_src)))
    # which internal BiArc getter every method of Lender / Loan goes through (the conditional
    # `get_if_shared` load vs. the unconditional read): rerouting an accessor changes this table
    acc = _impl_accessors(l_src, "Lender") + _impl_accessors(l_src, "Loan")
    if not acc:
        probs.append("gen_conc: no `impl Lender` / `impl Loan` methods found in lender.rs")
    out.append(_coq_ledger("lender_accessors", acc))
    # ---- repr.rs (mod arc)
    r_src = _prep(repo, "crates/aranya-policy-text/src/repr.rs")
    m = re.search(r"\bmod\s+arc\s*\{", r_src)
    if not m:
        probs.append("gen_conc: `mod arc` not found in repr.rs")
        arc = ""
    else:
        arc = r_src[m.start():]
    v = gen.find_const(arc, "MAX_REFCOUNT")
    if v is not None and re.sub(r"\s+", " ", v) == "isize::MAX as usize":
        out.append("(* MAX_REFCOUNT = isize::MAX as usize, 64-bit target *)\n"
                   "Definition max_refcount : N := 9223372036854775807%N.\n")
    else:
        probs.append("gen_conc: MAX_REFCOUNT is no longer `isize::MAX as usize` (%r)" % (v,))
        out.append("Definition max_refcount : N := 0%N.\n")
    out.append(_coq_ledger("arcstr_ops", _ledger(arc)))
    return ("GenConc.v", "".join(out), probs)
