"""Translator plug-in for the unit `queue-lookup` (C21, C11, C20).

Writes coq/gen/GenQueue.v from /repo's current source:
  * QUEUE_CAPACITY, MIN_SKIP_GAP, PEER_HEAD_MAX
  * the field order of `Location` (its derived `Ord` compares fields in
    declaration order) as the function [loc_key], plus the derive list
  * the names of the methods of `impl TraversalQueue` (the model has one
    clause per method; a new method makes a pinned lemma fail)
  * the field list of `TraversalQueue` and of `PeerCache`
"""
import re

import gen

STORAGE = "crates/aranya-runtime/src/storage/mod.rs"
LINEAR = "crates/aranya-runtime/src/storage/linear/mod.rs"
SYNC = "crates/aranya-runtime/src/sync/mod.rs"
RESPONDER = "crates/aranya-runtime/src/sync/responder.rs"


def _block(src, start):
    """Text between the `{` at/after `start` and its matching `}`."""
    i = src.index("{", start)
    depth, j = 0, i
    while j < len(src):
        if src[j] == "{":
            depth += 1
        elif src[j] == "}":
            depth -= 1
            if depth == 0:
                return src[i + 1:j]
        j += 1
    raise ValueError("unbalanced braces")


def _struct_fields(src, name):
    m = re.search(r"\bstruct\s+%s\s*\{" % re.escape(name), src)
    if not m:
        return None
    body = _block(src, m.start())
    body = re.sub(r"#\[[^\]]*\]", "", body)
    fields = []
    depth = 0
    cur = []
    for c in body:
        if c in "<({[":
            depth += 1
        elif c in ">)}]":
            depth -= 1
        if c == "," and depth == 0:
            fields.append("".join(cur))
            cur = []
        else:
            cur.append(c)
    fields.append("".join(cur))
    out = []
    for f in fields:
        m2 = re.match(r"\s*(?:pub(?:\([^)]*\))?\s+)?([A-Za-z_][A-Za-z0-9_]*)\s*:", f)
        if m2:
            out.append(m2.group(1))
    return out


def _derives_before(src, name):
    """The derive list attached to `struct name`."""
    m = re.search(r"\bstruct\s+%s\b" % re.escape(name), src)
    if not m:
        return None
    head = src[:m.start()]
    # attributes directly preceding the struct (stop at the previous item end)
    k = max(head.rfind("}"), head.rfind(";"))
    attrs = head[k + 1:]
    ds = []
    for d in re.findall(r"#\[derive\(([^\]]*)\)\]", attrs, flags=re.S):
        ds += [x.strip() for x in d.split(",") if x.strip()]
    return ds


def _impl_methods(src, ty):
    m = re.search(r"^impl\s+%s\s*\{" % re.escape(ty), src, flags=re.M)
    if not m:
        return None
    body = _block(src, m.start())
    out = []
    depth = 0
    i = 0
    # only depth-0 `fn` items of the impl block
    for mm in re.finditer(r"[{}]|\bfn\s+([A-Za-z_][A-Za-z0-9_]*)", body):
        t = mm.group(0)
        if t == "{":
            depth += 1
        elif t == "}":
            depth -= 1
        elif depth == 0:
            out.append(mm.group(1))
    return out


def _coq_strings(xs):
    return "[" + "; ".join('"%s"' % x for x in xs) + "]"


@gen.generator
def gen_queue(repo):
    problems = []
    st = gen.strip_rust_comments(gen.read(repo, STORAGE))
    lin = gen.strip_rust_comments(gen.read(repo, LINEAR))
    syn = gen.strip_rust_comments(gen.read(repo, SYNC))
    rsp = gen.strip_rust_comments(gen.read(repo, RESPONDER))
    # the test module is not part of the implementation
    st_impl = st.split("#[cfg(test)]")[0]

    def const(src, name, what):
        v = gen.find_const(src, name)
        if v is None or not re.fullmatch(r"[0-9_]+", v):
            problems.append("GenQueue: constant %s not found as a literal in %s" % (name, what))
            return "0"
        return v.replace("_", "")

    qcap = const(st_impl, "QUEUE_CAPACITY", STORAGE)
    gap = const(lin, "MIN_SKIP_GAP", LINEAR)
    phm = const(syn, "PEER_HEAD_MAX", SYNC)

    lf = _struct_fields(st_impl, "Location")
    if not lf or sorted(lf) != ["max_cut", "segment"]:
        problems.append("GenQueue: struct Location no longer has exactly the fields max_cut, segment: %r" % (lf,))
        lf = lf or ["max_cut", "segment"]
    ld = _derives_before(st_impl, "Location") or []
    if "Ord" not in ld or "PartialOrd" not in ld:
        problems.append("GenQueue: Location no longer derives Ord/PartialOrd (hand-written order is not modelled)")
    if re.search(r"impl\s+(?:PartialOrd|Ord)\s+for\s+Location", st_impl):
        problems.append("GenQueue: hand-written Ord impl for Location")
    qf = _struct_fields(st_impl, "TraversalQueue") or []
    qm = _impl_methods(st_impl, "TraversalQueue")
    if qm is None:
        problems.append("GenQueue: impl TraversalQueue not found")
        qm = []
    pf = _struct_fields(rsp, "PeerCache") or []
    pm = _impl_methods(rsp, "PeerCache")
    if pm is None:
        problems.append("GenQueue: impl PeerCache not found")
        pm = []
    # peer-cache capacity expression in the field type
    m = re.search(r"struct\s+PeerCache\s*\{[^}]*heads\s*:\s*Vec<\s*LocatedAddress\s*,\s*\{?\s*([A-Za-z0-9_]+)\s*\}?\s*>", rsp)
    pcap = m.group(1) if m else "?"
    if pcap != "PEER_HEAD_MAX":
        problems.append("GenQueue: PeerCache.heads capacity is %s, expected PEER_HEAD_MAX" % pcap)

    key_args = " ".join(lf)
    text = gen.HEADER + "Local Open Scope string_scope.\n"
    text += "(* %s *)\n" % STORAGE
    text += "Definition QUEUE_CAPACITY : N := %s%%N.\n" % qcap
    text += "Definition location_fields : list string := %s.\n" % _coq_strings(lf)
    text += "Definition location_derives_ord : bool := %s.\n" % ("true" if ("Ord" in ld and "PartialOrd" in ld) else "false")
    text += "(* key of the derived lexicographic Ord of Location: fields in declaration order *)\n"
    text += "Definition loc_key (max_cut segment : N) : N * N := (%s, %s).\n" % (lf[0], lf[1] if len(lf) > 1 else lf[0])
    text += "Definition queue_fields : list string := %s.\n" % _coq_strings(qf)
    text += "Definition queue_methods : list string := %s.\n" % _coq_strings(qm)
    text += "(* %s *)\n" % LINEAR
    text += "Definition MIN_SKIP_GAP : N := %s%%N.\n" % gap
    text += "(* %s, %s *)\n" % (SYNC, RESPONDER)
    text += "Definition PEER_HEAD_MAX : N := %s%%N.\n" % phm
    text += "Definition peercache_fields : list string := %s.\n" % _coq_strings(pf)
    text += "Definition peercache_methods : list string := %s.\n" % _coq_strings(pm)
    return ("GenQueue.v", text, problems)
