"""Translator plug-in of unit `facts` (C12, C13, C14).

GenFacts.v — constants and small shape facts of
  crates/aranya-runtime/src/storage/linear/mod.rs  (fact index depth limit, the
  two guards of write_facts_with_prior that use it),
  crates/aranya-runtime/src/storage/mod.rs         (fields of `Checkpoint`),
  crates/aranya-runtime/src/client/session.rs      (what the session checkpoint
  records, the receiver type of Session::action/receive for the frame property).
Shapes are emitted as whitespace-normalised strings which the proofs pin.
"""
import re

import gen

LINEAR = "crates/aranya-runtime/src/storage/linear/mod.rs"
STORAGE = "crates/aranya-runtime/src/storage/mod.rs"
SESSION = "crates/aranya-runtime/src/client/session.rs"


def _norm(s):
    return re.sub(r"\s+", " ", s).strip()


def _coq_str(s):
    return '"' + s.replace('"', '""') + '"'


def _fn_body(src, header_re):
    """Text of the body of the first fn whose header matches header_re."""
    m = re.search(header_re, src)
    if not m:
        return None
    i = src.find("{", m.end())
    # skip a possible `where` clause / return type: the first `{` after the header that opens the body
    depth, j = 0, i
    while j < len(src):
        if src[j] == "{":
            depth += 1
        elif src[j] == "}":
            depth -= 1
            if depth == 0:
                return src[i:j + 1]
        j += 1
    return None


@gen.generator
def gen_facts(repo):
    probs = []
    out = [gen.HEADER, "Open Scope N_scope.\nOpen Scope string_scope.\n"]
    lin = gen.strip_rust_comments(gen.read(repo, LINEAR))
    sto = gen.strip_rust_comments(gen.read(repo, STORAGE))
    ses = gen.strip_rust_comments(gen.read(repo, SESSION))

    v = gen.find_const(lin, "MAX_FACT_INDEX_DEPTH")
    if v is None or not re.fullmatch(r"[0-9_]+", v):
        probs.append("gen_facts: MAX_FACT_INDEX_DEPTH not found as an integer literal in " + LINEAR)
        v = "0"
    out.append("(* %s: const MAX_FACT_INDEX_DEPTH *)\nDefinition max_fact_index_depth : N := %d.\n" % (LINEAR, int(v.replace("_", ""))))

    body = _fn_body(lin, r"\bfn\s+write_facts_with_prior\b")
    guards = []
    if body is None:
        probs.append("gen_facts: fn write_facts_with_prior not found")
    else:
        guards = [_norm(g) for g in re.findall(r"\bif\s+([^{]*MAX_FACT_INDEX_DEPTH[^{]*)\{", body)]
    out.append("(* the conditions of write_facts_with_prior that mention the limit, in order *)\n"
               "Definition depth_guards : list string := [%s].\n" % "; ".join(_coq_str(g) for g in guards))

    m = re.search(r"\bpub\s+struct\s+Checkpoint\s*\{([^}]*)\}", sto)
    fields = []
    if not m:
        probs.append("gen_facts: struct Checkpoint not found")
    else:
        fields = re.findall(r"\bpub\s+([a-z_]+)\s*:\s*([A-Za-z0-9_]+)", m.group(1))
    out.append("(* %s: fields of Checkpoint *)\nDefinition checkpoint_fields : list (string * string) := [%s].\n"
               % (STORAGE, "; ".join("(%s, %s)" % (_coq_str(a), _coq_str(b)) for a, b in fields)))

    # what LinearPerspective::checkpoint / SessionPerspective::checkpoint record
    def ckpt_expr(src, what):
        m2 = re.search(r"fn\s+checkpoint\s*\(\s*&self\s*\)\s*->\s*Checkpoint\s*\{\s*Checkpoint\s*\{([^}]*)\}", src)
        if not m2:
            probs.append("gen_facts: fn checkpoint not found in " + what)
            return ""
        return _norm(m2.group(1)).rstrip(",")
    out.append("Definition linear_checkpoint : string := %s.\n" % _coq_str(ckpt_expr(lin, LINEAR)))
    out.append("Definition session_checkpoint : string := %s.\n" % _coq_str(ckpt_expr(ses, SESSION)))

    # frame: Session::action / receive borrow the client state immutably
    recv = []
    for fn in ("action", "receive"):
        m3 = re.search(r"pub\s+fn\s+%s\b[^(]*\(\s*&mut\s+self\s*,\s*client\s*:\s*(&\s*(?:mut\s+)?ClientState\s*<[^>]*>)" % fn, ses)
        if not m3:
            probs.append("gen_facts: Session::%s signature not recognised" % fn)
            recv.append("")
        else:
            recv.append(_norm(m3.group(1)))
    out.append("(* how Session::action and Session::receive borrow the client state *)\n"
               "Definition session_client_borrow : list string := [%s].\n" % "; ".join(_coq_str(r) for r in recv))
    return ("GenFacts.v", "".join(out), probs)
