"""Translator plug-in for the unit `shm` (C42, C41, C40).

Writes coq/gen/GenShm.v from /repo's current source:
  * the width of the per-list `generation` counter and of `next_chan_id`
    (AtomicU32 / AtomicU64 -> wrap moduli), their initial values and the
    initial read/write offsets of `SharedMem::init`
  * the discriminants of `ChanDirection` and `Op` (`matches` is a bit test)
  * for every writer / reader / list function the model transcribes, the
    *skeleton*: the ordered list of its shared-memory relevant actions
    (atomic accesses, lock acquisitions, generation bumps, list edits, early
    returns, cache updates).  proofs/ShmProofs.v pins each skeleton against the
    one the model was written from, so an edit that drops a generation bump or
    reorders the offset swap breaks a pinned lemma.
  * the `Seq` increment discipline of `aranya-crypto/src/afc/keys.rs`
    (which `SealCtx` method a seal delegates to) and the `SealError ->
    Error` mapping used for the sequence limit.
"""
import re

import gen

SHARED = "crates/aranya-fast-channels/src/shm/shared.rs"
WRITE = "crates/aranya-fast-channels/src/shm/write.rs"
READ = "crates/aranya-fast-channels/src/shm/read.rs"
MEMORY = "crates/aranya-fast-channels/src/memory.rs"
LENDER = "crates/aranya-fast-channels/src/memory/lender.rs"
KEYS = "crates/aranya-crypto/src/afc/keys.rs"
ERROR = "crates/aranya-fast-channels/src/error.rs"


def _block(src, start):
    i = src.index("{", start)
    depth, j = 0, i
    while j < len(src):
        if src[j] == "{":
            depth += 1
        elif src[j] == "}":
            depth -= 1
            if depth == 0:
                return src[i + 1:j]
        j += 1
    raise ValueError("unbalanced braces")


def _fn_body(src, name, after=None):
    """Body of `fn name` (first occurrence at/after the marker `after`)."""
    base = 0
    if after is not None:
        base = src.index(after)
    m = re.compile(r"\bfn\s+%s\s*(?:<[^>{]*>)?\s*\(" % re.escape(name)).search(src, base)
    if not m:
        return None
    # skip the signature: the body is the first `{` after the closing `)` of the
    # parameter list at depth 0 (where clauses contain no braces here)
    i, depth = m.end() - 1, 0
    while i < len(src):
        if src[i] == "(":
            depth += 1
        elif src[i] == ")":
            depth -= 1
            if depth == 0:
                break
        i += 1
    return _block(src, i)


def _clean(body):
    body = gen.strip_rust_comments(body)
    # hook lines and debug output are not part of the algorithm
    body = re.sub(r"#\[cfg\(aranya_core_verif\)\]\s*[^;{]*;", "", body)
    body = re.sub(r"\bdebug!\s*\((?:[^()]|\([^()]*\))*\)\s*;", "", body)
    return body


# token patterns, tried at every position in textual order
TOKENS = [
    ("fetch_add_next_id", r"next_chan_id\s*\.\s*fetch_add\s*\(\s*1\s*,"),
    ("load_write_list", r"\.load_write_list\s*\("),
    ("load_read_list", r"\.load_read_list\s*\("),
    ("load_write_off", r"\.write_off\s*\("),
    ("store_write_off", r"write_off\s*\.\s*store\s*\("),
    ("swap_read_off", r"\.swap_offsets\s*\("),
    ("lock", r"\.lock\s*\(\s*\)"),
    ("gen_load_unlocked", r"inner_unsynchronized\s*\(\s*\)\s*\.\s*generation\s*\.\s*load\s*\("),
    ("gen_load_locked", r"list\s*\.\s*generation\s*\.\s*load\s*\("),
    ("gen_bump", r"generation\s*\.\s*fetch_add\s*\(\s*1\s*,"),
    ("if_full_ret_oos", r"if\s+side\.len\s*>=\s*side\.cap\s*\{\s*return\s+Err\s*\(\s*Error::OutOfSpace\s*\)"),
    ("if_empty_ret_ok", r"if\s+side\.len\s*==\s*0\s*\{\s*return\s+Ok\s*\(\s*\(\s*\)\s*\)"),
    ("notfound_ret_ok", r"None\s*=>\s*return\s+Ok\s*\(\s*\(\s*\)\s*\)"),
    ("find_by_id", r"try_find\s*\(\s*\|\s*\(\s*_\s*,\s*chan\s*\)\s*\|\s*Ok::<bool,\s*Corrupted>\s*\(\s*chan\.id\(\)\?\s*==\s*id\s*\)\s*\)"),
    ("init_chan_at_idx", r"ShmChan::<CS>::init\s*\("),
    ("idx_is_len", r"let\s+idx\s*=\s*usize::try_from\s*\(\s*side\.len\s*\)"),
    ("len_inc", r"side\.len\s*\+=\s*1"),
    ("assert_len_le_cap", r"assert!\s*\(\s*(?:side|self)\.len\s*<=\s*(?:side|self)\.cap\s*\)"),
    ("swap_remove_idx", r"\.swap_remove\s*\(\s*idx\s*\)"),
    ("list_remove_if", r"\.remove_if\s*\(\s*&mut\s+f\s*\)"),
    ("list_clear", r"\.clear\s*\(\s*\)"),
    ("list_exists_any", r"\.exists\s*\(\s*id\s*,\s*None\s*,\s*Op::Any\s*\)"),
    ("ctx_none_ret_key_expired", r"ok_or\s*\(\s*crate::Error::KeyExpired\s*\)"),
    ("if_gen_eq_hit_call_f", r"if\s+cache\.generation\s*==\s*generation\s*\{[^}]*?return\s+Ok\s*\(\s*f\s*\("),
    ("hint_is_cache_idx", r"Some\s*\(\s*cache\.idx\s*\)"),
    ("find_seal_hint", r"\.find_mut\s*\(\s*id\s*,\s*hint\s*,\s*Op::Seal\s*\)"),
    ("find_open_hint", r"\.find\s*\(\s*id\s*,\s*hint\s*,\s*Op::Open\s*\)"),
    ("find_seal_nohint", r"\.find_mut\s*\(\s*id\s*,\s*None\s*,\s*Op::Seal\s*\)"),
    ("find_open_nohint", r"\.find_mut\s*\(\s*id\s*,\s*None\s*,\s*Op::Open\s*\)"),
    ("ctx_clear", r"\*ctx\s*=\s*SealCtx\s*\(\s*None\s*\)"),
    ("ret_not_found", r"return\s+Err\s*\(\s*crate::Error::NotFound\s*\(\s*id\s*\)\s*\)"),
    ("key_from_raw_seq_zero", r"SealKey::from_raw\s*\(\s*&chan\.seal_key\s*,\s*Seq::ZERO\s*\)"),
    ("key_from_raw_cached_seq", r"SealKey::from_raw\s*\(\s*&chan\.seal_key\s*,\s*cache\.key\.seq\s*\(\s*\)\s*\)"),
    ("open_key_from_raw", r"OpenKey::from_raw\s*\(\s*&chan\.open_key\s*\)"),
    ("call_f", r"let\s+result\s*=\s*f\s*\("),
    ("if_ok", r"if\s+(?:likely!\s*\(\s*)?result\.is_ok\s*\(\s*\)"),
    ("cache_idx", r"cache\.idx\s*=\s*idx"),
    ("cache_gen_locked", r"cache\.generation\s*=\s*list\.generation\.load"),
    ("cache_gen", r"cache\.generation\s*=\s*generation"),
    ("cache_key", r"cache\.key\s*=\s*key"),
    ("new_cache", r"Some\s*\(\s*Cache\s*\{"),
    ("ret_result", r"Ok\s*\(\s*result\s*\)"),
    # ChanListData
    ("len_zero", r"self\.len\s*=\s*U64::new\s*\(\s*0\s*\)"),
    ("while_get_idx", r"while\s+let\s+Some\s*\(\s*chan\s*\)\s*=\s*self\.get\s*\(\s*idx\s*\)\s*\?"),
    ("if_not_f_next", r"if\s*!\s*f\s*\(\s*RemoveIfParams::new\s*\(\s*id\s*,\s*label_id\s*,\s*peer_id\s*,\s*direction\s*\)\s*\)\s*\{\s*idx\s*\+=\s*1\s*;\s*continue"),
    ("if_not_updated", r"if\s*!\s*updated"),
    ("set_updated", r"updated\s*=\s*true"),
    ("self_swap_remove_idx", r"self\.swap_remove\s*\(\s*idx\s*\)"),
    ("err_if_len_zero", r"if\s+unlikely!\s*\(\s*len\s*==\s*0\s*\)\s*\{\s*Err"),
    ("err_if_idx_ge_len", r"else\s+if\s+unlikely!\s*\(\s*idx\s*>=\s*len\s*\)\s*\{\s*Err"),
    ("swap_if_len_gt_1", r"if\s+len\s*>\s*1\s*\{\s*self\.chans_mut\s*\(\s*\)\s*\?\s*\.swap\s*\(\s*idx\s*,\s*len\s*-\s*1\s*\)"),
    ("len_dec", r"self\.len\s*-=\s*1"),
    ("hint_get", r"self\s*\.get(?:_mut)?\s*\(\s*hint\.0\s*\)"),
    ("hint_filter_id_and_op", r"chan\.id\(\)\.is_ok_and\s*\(\s*\|got\|\s*got\s*==\s*ch\s*\)\s*&&\s*chan\.matches\s*\(\s*op\s*\)\.is_ok_and"),
    ("ret_hint", r"return\s+Ok\s*\(\s*Some\s*\(\s*\(\s*(?:chan|unsafe\s*\{\s*&mut\s*\*chan\s*\})\s*,\s*hint\s*\)\s*\)\s*\)"),
    ("linear_find_id_and_op", r"try_find\s*\(\s*\|\s*\(\s*_\s*,\s*chan\s*\)\s*\|\s*\{\s*let\s+ok\s*=\s*chan\.id\(\)\?\s*==\s*ch\s*&&\s*chan\.matches\s*\(\s*op\s*\)\?"),
    # memory.rs
    ("mutex_lock", r"self\s*\.\s*inner\s*\.\s*lock\s*\(\s*\)"),
    ("map_get_mut_or_notfound", r"chans\s*\.\s*get_mut\s*\(\s*&id\s*\)\s*\.\s*ok_or\s*\(\s*Error::NotFound\s*\(\s*id\s*\)\s*\)"),
    ("dir_ne_seal_notfound", r"direction\s*!=\s*ChannelDirection::Seal\s*\{\s*return\s+Err\s*\(\s*Error::NotFound"),
    ("dir_ne_open_notfound", r"direction\s*!=\s*ChannelDirection::Open\s*\{\s*return\s+Err\s*\(\s*Error::NotFound"),
    ("lend_or_notfound", r"\.lend\s*\(\s*\)\s*\.\s*ok_or\s*\(\s*Error::NotFound\s*\(\s*id\s*\)\s*\)"),
    ("loan_get_mut_or_notfound", r"handle\s*\.\s*get_mut\s*\(\s*\)\s*\.\s*ok_or\s*\(\s*Error::NotFound\s*\(\s*ctx\.id\s*\)\s*\)"),
    ("call_f_on_key", r"Ok\s*\(\s*f\s*\(\s*key\s*,"),
    ("next_id_take", r"LocalChannelId::new\s*\(\s*inner\.next_chan_id\s*\)"),
    ("next_id_checked_inc", r"next_chan_id\s*\.\s*checked_add\s*\(\s*1\s*\)"),
    ("map_insert_new_lender", r"chans\s*\.\s*insert\s*\(\s*id\s*,\s*Lender::new"),
    ("map_remove", r"chans\s*\.\s*remove\s*\(\s*&id\s*\)"),
    ("map_clear", r"chans\s*\.\s*clear\s*\(\s*\)"),
    ("map_retain_not_f", r"chans\s*\.\s*retain\s*\("),
    ("map_contains", r"chans\s*\.\s*contains_key\s*\(\s*&id\s*\)"),
    # lender.rs
    ("state_swap_shared", r"state\s*\.\s*swap\s*\(\s*STATE_SHARED"),
    ("state_swap_unshared", r"state\s*\.\s*swap\s*\(\s*STATE_UNSHARED"),
    ("state_load", r"state\s*\.\s*load\s*\("),
    ("unshared_some", r"STATE_UNSHARED\s*=>\s*Some"),
    ("shared_none", r"STATE_SHARED\s*=>\s*None"),
    ("unshared_none", r"STATE_UNSHARED\s*=>\s*None"),
    ("shared_some", r"STATE_SHARED\s*=>\s*Some"),
    ("free_if_was_unshared", r"==\s*STATE_UNSHARED\s*\{"),
    ("try_clone", r"\.try_clone\s*\(\s*\)\s*\?"),
    ("get_if_shared", r"\.get_if_shared\s*\(\s*\)\s*\?"),
    # keys.rs
    ("ctx_seal", r"self\.ctx\.seal\s*\("),
    ("ctx_seal_in_place", r"self\.ctx\.seal_in_place\s*\("),
    ("ctx_seq", r"self\.ctx\.seq\s*\(\s*\)"),
    ("sealctx_new_with_seq", r"SealCtx::new\s*\(\s*key\s*,\s*base_nonce\s*,\s*seq\.0\s*\)"),
]
_COMPILED = [(n, re.compile(p, re.S)) for (n, p) in TOKENS]


def skeleton(body):
    body = _clean(body)
    hits = []
    for name, rx in _COMPILED:
        for m in rx.finditer(body):
            hits.append((m.start(), -len(m.group(0)), name, m.end()))
    hits.sort()
    out, last_end = [], -1
    for (st, _, name, en) in hits:
        # a longer match starting at the same place wins; tokens starting inside an accepted one are dropped
        if st < last_end:
            continue
        out.append(name)
        last_end = en
    return out


def _coq_strs(xs):
    return "[" + "; ".join('"%s"' % x for x in xs) + "]"


def _atomic_bits(src, field):
    m = re.search(r"\b%s\s*:\s*(?:CacheAligned<)?Atomic(U32|U64|Usize)" % re.escape(field), src)
    return {"U32": 32, "U64": 64, "Usize": 64}.get(m.group(1)) if m else None


def _enum_discr(src, name):
    vs = gen.enum_variants(src, name)
    if vs is None:
        return None
    out = []
    for (v, rest) in vs:
        m = re.match(r"=\s*(\d+)", rest)
        out.append((v, int(m.group(1)) if m else None))
    return out


@gen.generator
def gen_shm(repo):
    problems = []
    shared = gen.read(repo, SHARED)
    write = gen.read(repo, WRITE)
    read = gen.read(repo, READ)
    memory = gen.read(repo, MEMORY)
    lender = gen.read(repo, LENDER)
    keys = gen.read(repo, KEYS)
    error = gen.read(repo, ERROR)
    sh_nc = gen.strip_rust_comments(shared)
    L = [gen.HEADER, "Local Open Scope string_scope.\n"]

    L.append("(* %s *)\n" % SHARED)
    gbits = _atomic_bits(sh_nc, "generation")
    ibits = _atomic_bits(sh_nc, "next_chan_id")
    if gbits is None or ibits is None:
        problems.append("gen_shm: generation / next_chan_id atomic type not found")
    L.append("Definition gen_bits : N := %d%%N.\n" % (gbits or 0))
    L.append("Definition gen_modulus : N := %d%%N.\n" % (1 << (gbits or 0)))
    L.append("Definition chan_id_bits : N := %d%%N.\n" % (ibits or 0))
    m = re.search(r"next_chan_id\s*:\s*AtomicU64::new\s*\(\s*(\d+)\s*\)", sh_nc)
    L.append("Definition next_chan_id_init : N := %s%%N.\n" % (m.group(1) if m else "999"))
    if not m:
        problems.append("gen_shm: next_chan_id initial value not found")
    m = re.search(r"generation\s*:\s*AtomicU32::new\s*\(\s*(\d+)\s*\)", sh_nc)
    L.append("Definition generation_init : N := %s%%N.\n" % (m.group(1) if m else "999"))
    if not m:
        problems.append("gen_shm: generation initial value not found")
    m = re.search(r"len\s*:\s*U64::new\s*\(\s*(\d+)\s*\)\s*,\s*cap\s*:\s*U64::new\s*\(\s*max_chans\s+as\s+u64\s*\)", sh_nc)
    L.append("Definition list_init_len_zero_cap_max : bool := %s.\n" % ("true" if (m and m.group(1) == "0") else "false"))
    mr = re.search(r"read_off\s*:\s*CacheAligned::new\s*\(\s*AtomicUsize::new\s*\(\s*layout\.(side_[ab])\s*\)", sh_nc)
    mw = re.search(r"write_off\s*:\s*CacheAligned::new\s*\(\s*AtomicUsize::new\s*\(\s*layout\.(side_[ab])\s*\)", sh_nc)
    if not (mr and mw):
        problems.append("gen_shm: initial read_off/write_off not found")
    L.append('Definition read_off_init : string := "%s".\n' % (mr.group(1) if mr else "?"))
    L.append('Definition write_off_init : string := "%s".\n' % (mw.group(1) if mw else "?"))
    for en in ("ChanDirection", "Op"):
        ds = _enum_discr(shared, en)
        if not ds or any(d is None for (_, d) in ds):
            problems.append("gen_shm: discriminants of %s not found" % en)
            ds = ds or []
        L.append("Definition %s_discr : list (string * N) := [%s].\n" % (
            en.lower(), "; ".join('("%s", %d%%N)' % (v, d or 0) for (v, d) in ds)))
    m = re.search(r"self\.to_u32\(\)\s*&\s*op\.to_u32\(\)\s*!=\s*0", sh_nc)
    L.append("Definition matches_is_bit_and_nonzero : bool := %s.\n" % ("true" if m else "false"))

    def emit(prefix, src, fns, after=None):
        for fn in fns:
            body = _fn_body(src, fn, after)
            if body is None:
                problems.append("gen_shm: fn %s not found (%s)" % (fn, prefix))
                sk = []
            else:
                sk = skeleton(body)
            L.append("Definition sk_%s_%s : list string := %s.\n" % (prefix, fn, _coq_strs(sk)))

    emit("list", shared, ["clear", "remove_if", "swap_remove", "find", "find_mut"], after="impl<CS: CipherSuite> ChanListData<CS>")
    L.append("(* %s *)\n" % WRITE)
    emit("write", write, ["add", "remove", "remove_all", "remove_if", "exists"], after="impl<CS, R> AranyaState for WriteState")
    L.append("(* %s *)\n" % READ)
    emit("read", read, ["setup_seal_ctx", "setup_open_ctx", "seal", "open", "exists"], after="impl<CS> AfcState for ReadState")
    L.append("(* %s *)\n" % MEMORY)
    emit("mem_afc", memory, ["setup_seal_ctx", "setup_open_ctx", "seal", "open", "exists"], after="impl<CS> AfcState for State")
    emit("mem_aranya", memory, ["add", "remove", "remove_all", "remove_if", "exists"], after="impl<CS> AranyaState for State")
    L.append("(* %s *)\n" % LENDER)
    emit("biarc", lender, ["try_clone", "get_if_shared", "drop"])
    emit("lender", lender, ["lend", "get_mut"])
    L.append("(* %s *)\n" % KEYS)
    emit("keys", keys, ["from_raw", "seal", "seal_in_place", "seq"], after="impl<CS: CipherSuite> SealKey<CS>")
    L.append("(* %s *)\n" % ERROR)
    m = re.search(r"SealError::MessageLimitReached\s*=>\s*Self::(\w+)", gen.strip_rust_comments(error))
    L.append('Definition seal_limit_maps_to : string := "%s".\n' % (m.group(1) if m else "?"))
    if not m:
        problems.append("gen_shm: SealError::MessageLimitReached mapping not found")
    return ("GenShm.v", "".join(L), problems)
