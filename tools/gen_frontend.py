"""Translator plug-in of unit `frontend` (C27, C28).

Regenerates from the *current* text of /repo:

* `GenFrontendSites.v` (C27) — the ledger of panic-capable sites of the policy
  front end (parser, markdown chunker, compiler, lowering, validate): every
  non-test occurrence of the token shapes listed in `SITE_KINDS` below, as
  `(file, function, kind, normalised text, ordinal)`.
* `GenGrammar.v` (C27) — `policy.pest` as one PEG term per rule with its
  silent / atomic / normal flag.
* `GenDeterminism.v` (C28) — every use (method call, `for … in`, borrow passed
  on) of a binding that the compiler crate declares with a hash-collection
  type, and every `HashMap`/`HashSet` type mention.

The reader is a real Rust tokenizer (strings, raw strings, chars vs. lifetimes,
nested block comments), not a regex over lines.  Detection is deliberately an
over-approximation: a `+` between two identifiers is listed even when it later
turns out to be a trait bound; the Coq side has to give a reason for every
listed site, so a false positive costs a table row and a false negative would
cost soundness.
"""
import os
import re

import gen

# ------------------------------------------------------------------ anchors

FRONTEND_FILES = [
    "crates/aranya-policy-lang/src/lang/parse.rs",
    "crates/aranya-policy-lang/src/lang/parse/markdown.rs",
    "crates/aranya-policy-lang/src/lang/parse/error.rs",
    "crates/aranya-policy-lang/src/lang/parse/keywords.rs",
    "crates/aranya-policy-compiler/src/compile.rs",
    "crates/aranya-policy-compiler/src/compile/lower.rs",
    "crates/aranya-policy-compiler/src/compile/types.rs",
    "crates/aranya-policy-compiler/src/compile/target.rs",
    "crates/aranya-policy-compiler/src/compile/topo.rs",
    "crates/aranya-policy-compiler/src/compile/error.rs",
    "crates/aranya-policy-compiler/src/validate.rs",
]
GRAMMAR = "crates/aranya-policy-lang/src/lang/parse/policy.pest"
COMPILER_SRC = "crates/aranya-policy-compiler/src"

PANIC_METHODS = {
    "unwrap", "expect", "unwrap_err", "expect_err", "unwrap_unchecked",
    "assume",                                   # buggy::BugExt: panics under debug_assertions
    "copy_from_slice", "clone_from_slice", "split_at", "split_at_mut", "split_off",
    "swap_remove", "remove", "swap", "drain", "chunks", "chunks_exact", "windows", "step_by",
    "borrow_mut", "borrow",                     # RefCell
    "with_capacity", "reserve", "reserve_exact",
    "sum", "product", "pow", "abs",
}
PANIC_MACROS = {
    "panic", "todo", "unimplemented", "unreachable", "assert", "assert_eq", "assert_ne",
    "debug_assert", "debug_assert_eq", "debug_assert_ne", "bug", "unreachable_unchecked",
}
ARITH_OPS = {"+", "-", "*", "/", "%", "<<", ">>", "+=", "-=", "*=", "/=", "%=", "<<=", ">>="}
KEYWORDS = {
    "as", "break", "const", "continue", "crate", "else", "enum", "extern", "false", "fn", "for", "if",
    "impl", "in", "let", "loop", "match", "mod", "move", "mut", "pub", "ref", "return", "self", "Self",
    "static", "struct", "super", "trait", "true", "type", "unsafe", "use", "where", "while", "async",
    "await", "dyn",
}
# keywords after which an expression (not an operator) is expected
NON_VALUE_KW = KEYWORDS - {"self", "Self", "true", "false", "crate", "super"}

SITE_KINDS = ("method", "macro", "index", "slice", "arith")


# ------------------------------------------------------------------ Rust tokenizer

class Tok:
    __slots__ = ("k", "s", "line")

    def __init__(self, k, s, line):
        self.k, self.s, self.line = k, s, line

    def __repr__(self):
        return "%s:%s" % (self.k, self.s)


PUNCT3 = ("<<=", ">>=", "...", "..=")
PUNCT2 = ("::", "->", "=>", "==", "!=", "<=", ">=", "&&", "||", "+=", "-=", "*=", "/=", "%=", "^=", "&=", "|=", "<<", "..")


def tokenize(src):
    """Rust source -> tokens.  kinds: id, num, str, chr, life, p (punctuation).
    `>>` is never produced as one token (generic closers); shifts are recognised later."""
    toks, i, n, line = [], 0, len(src), 1
    while i < n:
        c = src[i]
        if c == "\n":
            line += 1
            i += 1
        elif c.isspace():
            i += 1
        elif src.startswith("//", i):
            j = src.find("\n", i)
            i = n if j < 0 else j
        elif src.startswith("/*", i):
            depth, j = 1, i + 2
            while j < n and depth:
                if src.startswith("/*", j):
                    depth += 1
                    j += 2
                elif src.startswith("*/", j):
                    depth -= 1
                    j += 2
                else:
                    if src[j] == "\n":
                        line += 1
                    j += 1
            i = j
        elif c == '"' or (c == "b" and src.startswith('b"', i)):
            j = i + (2 if c == "b" else 1)
            while j < n and src[j] != '"':
                if src[j] == "\n":
                    line += 1
                j += 2 if src[j] == "\\" else 1
            toks.append(Tok("str", src[i:j + 1], line))
            i = j + 1
        elif re.match(r"b?r#*\"", src[i:i + 8]) and (c == "r" or src.startswith("br", i)):
            m = re.match(r"b?r(#*)\"", src[i:])
            close = '"' + m.group(1)
            j = src.index(close, i + m.end())
            line += src.count("\n", i, j)
            toks.append(Tok("str", src[i:j + len(close)], line))
            i = j + len(close)
        elif c == "'" or (c == "b" and src.startswith("b'", i)):
            k = i + (1 if c == "b" else 0)
            # char literal: 'x' or '\..'; otherwise a lifetime
            if k + 2 < n and src[k + 1] == "\\":
                j = src.index("'", k + 3) if src[k + 2] != "'" or src[k + 3:k + 4] == "'" else k + 3
                if src[k + 2] == "'":
                    j = k + 3
                toks.append(Tok("chr", src[i:j + 1], line))
                i = j + 1
            elif k + 2 < n and src[k + 2] == "'":
                toks.append(Tok("chr", src[i:k + 3], line))
                i = k + 3
            else:
                m = re.match(r"'[A-Za-z_][A-Za-z0-9_]*", src[k:])
                if m:
                    toks.append(Tok("life", m.group(0), line))
                    i = k + m.end()
                else:  # a char literal holding a multi-byte character
                    j = src.index("'", k + 1)
                    toks.append(Tok("chr", src[i:j + 1], line))
                    i = j + 1
        elif c.isalpha() or c == "_":
            m = re.match(r"[A-Za-z_][A-Za-z0-9_]*", src[i:])
            toks.append(Tok("id", m.group(0), line))
            i += m.end()
        elif c.isdigit():
            m = re.match(r"0[xob][0-9a-fA-F_]+[a-z0-9]*|[0-9][0-9_]*(\.[0-9][0-9_]*)?([eE][+-]?[0-9]+)?[a-z0-9_]*", src[i:])
            s = m.group(0)
            # `0..2`: do not swallow the range dots
            if ".." in src[i:i + len(s) + 1] and "." in s:
                s = s[:s.index(".")]
            toks.append(Tok("num", s, line))
            i += len(s)
        else:
            for p in PUNCT3 + PUNCT2:
                if src.startswith(p, i):
                    toks.append(Tok("p", p, line))
                    i += len(p)
                    break
            else:
                toks.append(Tok("p", c, line))
                i += 1
    return toks


def match_close(toks, i):
    """index of the token closing the bracket opened at toks[i]"""
    op = toks[i].s
    cl = {"(": ")", "[": "]", "{": "}"}[op]
    d = 0
    for j in range(i, len(toks)):
        if toks[j].k == "p":
            if toks[j].s == op:
                d += 1
            elif toks[j].s == cl:
                d -= 1
                if d == 0:
                    return j
    return len(toks) - 1


def strip_cfg_test(toks):
    """Drop every item that carries #[cfg(test)] (and #[test])."""
    out, i, n = [], 0, len(toks)
    while i < n:
        if (toks[i].s == "#" and i + 1 < n and toks[i + 1].s == "["):
            j = match_close(toks, i + 1)
            attr = "".join(t.s for t in toks[i + 2:j])
            if attr in ("cfg(test)", "test") or attr.startswith("cfg(all(test") or attr.startswith("cfg(any(test"):
                # skip further attributes, then the item
                k = j + 1
                while k < n and toks[k].s == "#" and toks[k + 1].s == "[":
                    k = match_close(toks, k + 1) + 1
                while k < n and toks[k].s not in (";", "{"):
                    if toks[k].s in ("(", "["):
                        k = match_close(toks, k)
                    k += 1
                if k < n and toks[k].s == "{":
                    k = match_close(toks, k)
                i = k + 1
                continue
            # keep ordinary attributes but mark their tokens so that `[` in them is not an index
            for t in toks[i:j + 1]:
                out.append(Tok("attr", t.s, t.line))
            i = j + 1
            continue
        out.append(toks[i])
        i += 1
    return out


def fn_spans(toks):
    """[(name, body_open_idx, body_close_idx)] for every fn / macro_rules body, outermost first."""
    spans, n = [], len(toks)
    i = 0
    while i < n:
        t = toks[i]
        if t.k == "id" and t.s == "fn" and i + 1 < n and toks[i + 1].k == "id":
            name = toks[i + 1].s
            k = i + 2
            while k < n and toks[k].s not in ("{", ";"):
                if toks[k].s in ("(", "["):
                    k = match_close(toks, k)
                k += 1
            if k < n and toks[k].s == "{":
                spans.append((name, k, match_close(toks, k)))
            i = i + 2
            continue
        if t.k == "id" and t.s == "macro_rules" and i + 3 < n and toks[i + 1].s == "!":
            name = "macro_rules!" + toks[i + 2].s
            k = i + 3
            if toks[k].s in ("{", "(", "["):
                spans.append((name, k, match_close(toks, k)))
            i = k
            continue
        i += 1
    return spans


def fn_path_at(spans, idx):
    names = [nm for (nm, a, b) in spans if a < idx < b]
    return "::".join(names) if names else "<top>"


def is_value_end(t):
    """can this token end an operand (so that a following + - * [ is binary / an index)?"""
    if t.k in ("num", "chr", "str"):
        return True
    if t.k == "id":
        return t.s not in NON_VALUE_KW
    return t.k == "p" and t.s in (")", "]", "?")


def is_value_start(t):
    if t.k in ("num", "chr", "str", "id"):
        return t.k != "id" or t.s not in (NON_VALUE_KW - {"if", "match", "loop", "unsafe", "move"})
    return t.k == "p" and t.s in ("(", "-", "!", "*", "&", "[", "|")


def norm(ts):
    return " ".join(t.s for t in ts)


def receiver_tail(toks, i, limit=10):
    """tokens of the postfix chain that ends just before toks[i] (the `.` of a method call)"""
    j = i - 1
    while j >= 0:
        t = toks[j]
        if t.s in (")", "]"):
            # find the opener
            d, k = 0, j
            cl, op = t.s, {")": "(", "]": "["}[t.s]
            while k >= 0:
                if toks[k].s == cl:
                    d += 1
                elif toks[k].s == op:
                    d -= 1
                    if d == 0:
                        break
                k -= 1
            j = k - 1
            continue
        if (t.k == "id" and t.s not in NON_VALUE_KW) or t.s in (".", "::", "?") or t.k in ("num", "str", "chr"):
            j -= 1
            continue
        break
    seg = toks[j + 1:i]
    return seg[-limit:]


def sites_of(src):
    toks = strip_cfg_test(tokenize(src))
    spans = fn_spans(toks)
    raw = []  # (fn, kind, text, line)
    n = len(toks)
    for i, t in enumerate(toks):
        if t.k == "attr":
            continue
        prev = toks[i - 1] if i else Tok("p", ";", 0)
        nxt = toks[i + 1] if i + 1 < n else Tok("p", ";", 0)
        # ---- method calls
        if t.k == "id" and prev.s == "." and nxt.s in ("(", "::") and t.s in PANIC_METHODS:
            if nxt.s == "::":   # turbofish  .sum::<u64>()
                pass
            j = i + 1
            while j < n and toks[j].s != "(":
                j += 1
            close = match_close(toks, j)
            args = toks[j + 1:close]
            lit = [a.s for a in args if a.k == "str"]
            if t.s in ("expect", "assume", "expect_err") and lit:
                text = "%s(%s)" % (t.s, lit[0])
            else:
                text = "%s . %s(%s)" % (norm(receiver_tail(toks, i - 1)), t.s, norm(args[:8]))
            raw.append((fn_path_at(spans, i), "method", text, t.line))
        # ---- macros
        elif t.k == "id" and nxt.s == "!" and t.s in PANIC_MACROS and i + 2 < n and toks[i + 2].s in ("(", "[", "{"):
            close = match_close(toks, i + 2)
            raw.append((fn_path_at(spans, i), "macro", "%s!(%s)" % (t.s, norm(toks[i + 3:close][:14])), t.line))
        # ---- indexing / slicing
        elif t.k == "p" and t.s == "[" and is_value_end(prev) and prev.s != "!" :
            if i >= 2 and toks[i - 2].s == "!" and prev.k == "id":
                pass
            close = match_close(toks, i)
            inner = toks[i + 1:close]
            depth, is_range = 0, False
            for a in inner:
                if a.s in ("(", "[", "{"):
                    depth += 1
                elif a.s in (")", "]", "}"):
                    depth -= 1
                elif depth == 0 and a.s in ("..", "..="):
                    is_range = True
            base = receiver_tail(toks, i, 6)
            raw.append((fn_path_at(spans, i), "slice" if is_range else "index",
                        "%s [ %s ]" % (norm(base), norm(inner[:10])), t.line))
        # ---- arithmetic
        elif t.k == "p" and t.s in ARITH_OPS and is_value_end(prev) and is_value_start(nxt):
            raw.append((fn_path_at(spans, i), "arith",
                        "%s %s %s" % (norm(receiver_tail(toks, i, 5)), t.s, norm(toks[i + 1:i + 4])), t.line))
        elif (t.k == "p" and t.s == ">" and nxt.s == ">" and is_value_end(prev)
              and i + 2 < n and is_value_start(toks[i + 2]) and toks[i + 2].s not in ("(", "[", "&", "|")):
            raw.append((fn_path_at(spans, i), "arith",
                        "%s >> %s" % (norm(receiver_tail(toks, i, 5)), norm(toks[i + 2:i + 5])), t.line))
    # ordinals among identical (fn, kind, text)
    seen, out = {}, []
    for (fn, kind, text, line) in raw:
        key = (fn, kind, text)
        seen[key] = seen.get(key, 0) + 1
        out.append((fn, kind, text, seen[key] - 1, line))
    return out


def coq_str(s):
    return '"' + s.replace('"', '""') + '"'


@gen.generator
def gen_frontend_sites(repo):
    problems, rows = [], []
    for rel in FRONTEND_FILES:
        p = os.path.join(repo, rel)
        if not os.path.exists(p):
            problems.append("gen_frontend_sites: anchored file missing: " + rel)
            continue
        short = rel.split("/src/", 1)[1]
        crate = rel.split("/")[1].replace("aranya-policy-", "")
        for (fn, kind, text, ordn, line) in sites_of(open(p, encoding="utf-8").read()):
            rows.append((crate + "/" + short, fn, kind, text, ordn, line))
    body = [
        "(* GENERATED by tools/gen_frontend.py from /repo — do not edit *)",
        "From Coq Require Import String List NArith.",
        "Import ListNotations.",
        "Open Scope string_scope.",
        "(** One entry per panic-capable token shape in the non-test code of the anchored front-end files.",
        "    kinds: method = call of one of {%s};" % ", ".join(sorted(PANIC_METHODS)),
        "           macro = invocation of one of {%s};" % ", ".join(sorted(PANIC_MACROS)),
        "           index / slice = `e[i]` / `e[a..b]`; arith = binary + - * / %% << >> and their assignments. *)",
        "Record site := { s_file : string; s_fn : string; s_kind : string; s_text : string; s_ord : N }.",
        "Definition frontend_files : list string := [%s]." % "; ".join(
            coq_str(r.split("/")[1].replace("aranya-policy-", "") + "/" + r.split("/src/", 1)[1]) for r in FRONTEND_FILES),
        "Definition frontend_sites : list site := [",
    ]
    for k, (f, fn, kind, text, ordn, line) in enumerate(rows):
        body.append("  {| s_file := %s; s_fn := %s; s_kind := %s; s_text := %s; s_ord := %d |}%s (* line %d *)" % (
            coq_str(f), coq_str(fn), coq_str(kind), coq_str(text), ordn, ";" if k + 1 < len(rows) else "", line))
    body.append("].")
    return "GenFrontendSites.v", "\n".join(body) + "\n", problems


# ------------------------------------------------------------------ rule-assert call graph (parse.rs)

PARSE_RS = "crates/aranya-policy-lang/src/lang/parse.rs"


def rules_in(ts):
    out = []
    for i, t in enumerate(ts):
        if t.k == "id" and t.s == "Rule" and i + 2 < len(ts) and ts[i + 1].s == "::" and ts[i + 2].k == "id":
            out.append(ts[i + 2].s)
    return out


def parser_call_graph(src):
    """(asserting, calls): functions of parse.rs that assert the rule of their pair parameter on entry, and
    every call of such a function with the guard that the caller's text provides for the argument:
      arm:R1|R2   the call sits in an arm `Rule::R1 | Rule::R2 =>` of a `match <arg>.as_rule()`
      cot:R       the argument is (bound from) `<x>.consume_of_type(Rule::R)?`
      (empty)     no textual guard: a grammar-shape fact is needed."""
    toks = [t for t in strip_cfg_test(tokenize(src)) if t.k != "attr"]
    spans = fn_spans(toks)
    n = len(toks)
    asserting = {}
    for (name, a, b) in spans:
        # parameter of type Pair<...>: first `ident : Pair`
        k = a
        while k > 0 and not (toks[k].k == "id" and toks[k].s == "fn"):
            k -= 1
        param = None
        for j in range(k, a):
            if toks[j].k == "id" and toks[j].s == "Pair" and toks[j - 1].s == ":" and toks[j - 2].k == "id":
                param = toks[j - 2].s
                break
        if not param:
            continue
        # an assert among the first statements of the body that mentions <param>.as_rule() (possibly via `let rule = ...`)
        alias = {param}
        j = a + 1
        stmts = 0
        while j < b and stmts < 3:
            if toks[j].s == "let" and toks[j + 2].s == "=" and toks[j + 3].s in alias and toks[j + 5].s == "as_rule":
                alias.add(toks[j + 1].s)
            if toks[j].k == "id" and toks[j].s in ("assert", "assert_eq") and toks[j + 1].s == "!":
                close = match_close(toks, j + 2)
                inner = toks[j + 3:close]
                if any(x.k == "id" and x.s in alias for x in inner):
                    rs = rules_in(inner)
                    if rs:
                        asserting[name] = rs
                break
            if toks[j].s == ";":
                stmts += 1
            j += 1
    # all matches: (scrutinee text, body open, body close)
    matches = []
    for i, t in enumerate(toks):
        if t.k == "id" and t.s == "match":
            j = i + 1
            while j < n and toks[j].s != "{":
                if toks[j].s in ("(", "["):
                    j = match_close(toks, j)
                j += 1
            if j < n:
                matches.append((norm(toks[i + 1:j]), j, match_close(toks, j)))
    calls = []
    for i, t in enumerate(toks):
        if not (t.k == "id" and t.s in asserting and i + 1 < n and toks[i + 1].s == "(" and toks[i - 1].s in (".", "::")):
            continue
        close = match_close(toks, i + 1)
        args = toks[i + 2:close]
        argtxt = norm(args)
        base = args[0].s if args and args[0].k == "id" else ""
        caller = fn_path_at(spans, i)
        guard = ""
        if "consume_of_type" in argtxt:
            rs = rules_in(args)
            if rs:
                guard = "cot:" + rs[0]
        if not guard and base:
            # innermost enclosing match on <base>.as_rule()
            best = None
            for (scrut, a, b) in matches:
                if a < i < b and scrut == base + " . as_rule ( )" and (best is None or a > best[1]):
                    best = (scrut, a, b)
            if best:
                depth, last = 0, None
                for j in range(best[1], i):
                    if toks[j].s in ("{", "(", "["):
                        depth += 1
                    elif toks[j].s in ("}", ")", "]"):
                        depth -= 1
                    elif toks[j].s == "=>" and depth == 1:
                        last = j
                if last is not None:
                    k = last - 1
                    while k > best[1] and (toks[k].s in ("Rule", "::", "|") or (toks[k].k == "id" and toks[k - 1].s == "::")):
                        k -= 1
                    rs = rules_in(toks[k + 1:last])
                    rebound = any(toks[j].s == "let" and (toks[j + 1].s == base or (toks[j + 1].s == "mut" and toks[j + 2].s == base))
                                  for j in range(last, i))
                    if rs and toks[k].s in ("{", ",", "}") and not rebound:
                        guard = "arm:" + "|".join(rs)
        if not guard and base:
            # `let <base> = <...>.consume_of_type(Rule::R)?;` earlier in the same function
            span = [sp for sp in spans if sp[1] < i < sp[2]]
            if span:
                a = max(sp[1] for sp in span)
                for j in range(a, i):
                    if toks[j].s == "let" and toks[j + 1].s == base and toks[j + 2].s == "=":
                        k = j
                        while k < i and toks[k].s != ";":
                            k += 1
                        seg = toks[j:k]
                        if any(x.s == "consume_of_type" for x in seg):
                            rs = rules_in(seg)
                            if rs:
                                guard = "cot:" + rs[0]
        calls.append((caller, t.s, argtxt, guard))
    seen, out = {}, []
    for c in calls:
        seen[c] = seen.get(c, 0) + 1
        out.append(c + (seen[c] - 1,))
    return asserting, out


@gen.generator
def gen_frontend_calls(repo):
    src = open(os.path.join(repo, PARSE_RS), encoding="utf-8").read()
    asserting, calls = parser_call_graph(src)
    problems = [] if asserting else ["gen_frontend_calls: no rule-asserting parser function found"]
    body = [
        "(* GENERATED by tools/gen_frontend.py from %s — do not edit *)" % PARSE_RS,
        "From Coq Require Import String List NArith.",
        "Import ListNotations.",
        "Open Scope string_scope.",
        "(** Parser functions that assert the pest rule of their pair argument on entry, with the rules they accept. *)",
        "Definition parser_asserting : list (string * list string) := [%s]." % "; ".join(
            "(%s, [%s])" % (coq_str(k), "; ".join(coq_str(r) for r in v)) for k, v in sorted(asserting.items())),
        "(** Every call of such a function: caller, callee, argument text, textual guard (arm:R|.. / cot:R / empty), ordinal. *)",
        "Record pcall := { c_caller : string; c_callee : string; c_arg : string; c_guard : string; c_rules : list string; c_ord : N }.",
        "Definition parser_calls : list pcall := [",
    ]
    for k, (caller, callee, arg, guard, ordn) in enumerate(calls):
        gk, _, gr = guard.partition(":")
        body.append("  {| c_caller := %s; c_callee := %s; c_arg := %s; c_guard := %s; c_rules := [%s]; c_ord := %d |}%s" % (
            coq_str(caller), coq_str(callee), coq_str(arg), coq_str(gk), "; ".join(coq_str(x) for x in gr.split("|") if x),
            ordn, ";" if k + 1 < len(calls) else ""))
    body.append("].")
    return "GenFrontendCalls.v", "\n".join(body) + "\n", problems


# ------------------------------------------------------------------ front-matter guard (parse/markdown.rs)

MARKDOWN_RS = "crates/aranya-policy-lang/src/lang/parse/markdown.rs"


def rust_char(tok):
    """code point of a Rust char literal token"""
    b = tok[1:-1]
    esc = {"\\n": 10, "\\r": 13, "\\t": 9, "\\0": 0, "\\\\": 92, "\\'": 39, '\\"': 34}
    if b in esc:
        return esc[b]
    m = re.fullmatch(r"\\u\{([0-9a-fA-F_]+)\}", b)
    if m:
        return int(m.group(1).replace("_", ""), 16)
    m = re.fullmatch(r"\\x([0-9a-fA-F]{2})", b)
    if m:
        return int(m.group(1), 16)
    return ord(b) if len(b) == 1 else None


@gen.generator
def gen_front_matter(repo):
    problems = []
    src = open(os.path.join(repo, MARKDOWN_RS), encoding="utf-8").read()
    toks = [t for t in strip_cfg_test(tokenize(src)) if t.k != "attr"]
    spans = [sp for sp in fn_spans(toks) if sp[0] == "has_unterminated_front_matter"]
    trim, fences, seps, skip = 'TrimOther "guard function not found"', [], [], []
    if not spans:
        problems.append("gen_front_matter: has_unterminated_front_matter not found in " + MARKDOWN_RS)
    else:
        _, a, b = spans[0]
        body = toks[a:b + 1]
        trim = None
        for i, t in enumerate(body):
            if t.k == "id" and t.s.startswith("trim") and body[i - 1].s == "." and body[i + 1].s == "(":
                close = match_close(body, i + 1)
                args = body[i + 2:close]
                if t.s == "trim_end_matches" and args and args[0].s == "[" and all(x.k == "chr" or x.s in ("[", "]", ",") for x in args):
                    cps = [rust_char(x.s) for x in args if x.k == "chr"]
                    this = "TrimChars [%s]" % "; ".join("%d%%N" % c for c in cps) if None not in cps else 'TrimOther "unreadable char"'
                elif t.s == "trim_end" and not args:
                    this = "TrimUnicodeWhitespace"
                else:
                    this = "TrimOther %s" % coq_str(t.s + "(" + norm(args) + ")")
                if trim is not None and trim != this:
                    this = 'TrimOther "several different trims"'
                trim = this
            if t.k == "id" and t.s == "matches" and body[i + 1].s == "!":
                close = match_close(body, i + 2)
                fences += [x.s[1:-1] for x in body[i + 2:close] if x.k == "str"]
            if t.k == "id" and t.s == "strip_prefix" and body[i - 1].s == "." and body[i + 1].s == "(":
                close = match_close(body, i + 1)
                cps = [rust_char(x.s) for x in body[i + 2:close] if x.k == "chr"]
                if len(cps) != 1 or cps[0] is None or close != i + 3:
                    problems.append("gen_front_matter: strip_prefix argument not a single char literal")
                else:
                    skip += cps
            if t.k == "id" and t.s == "split" and body[i - 1].s == "." and body[i + 1].s == "(":
                close = match_close(body, i + 1)
                seps += [rust_char(x.s) for x in body[i + 2:close] if x.k == "chr"]
        if trim is None:
            trim = 'TrimOther "no trim call: the line is compared as is"'
        if not fences or not seps or None in seps:
            problems.append("gen_front_matter: fence literals / line separators of the guard not recognised")
    text = "\n".join([
        "(* GENERATED by tools/gen_frontend.py from %s — do not edit *)" % MARKDOWN_RS,
        "From Coq Require Import String List NArith.",
        "From Aranya Require Import model.FrontMatterSyntax.",
        "Import ListNotations.",
        "Open Scope string_scope.",
        "(** `has_unterminated_front_matter`: how a line is trimmed before it is compared with the fence literals,",
        "    the fence literals (as code points), and the characters the document is split on. *)",
        "Definition fm_trim : trim_spec := %s." % trim,
        "Definition fm_fences : list (list N) := [%s]." % "; ".join(
            "[%s]" % "; ".join("%d%%N" % ord(c) for c in f) for f in fences),
        "Definition fm_line_seps : list N := [%s]." % "; ".join("%d%%N" % c for c in seps if c is not None),
        "(** leading code points removed once before the document is split (`strip_prefix`) *)",
        "Definition fm_skip_prefix : list N := [%s]." % "; ".join("%d%%N" % c for c in skip),
    ]) + "\n"
    return "GenFrontMatter.v", text, problems


# ------------------------------------------------------------------ pest grammar

def pest_tokens(src):
    toks, i, n = [], 0, len(src)
    while i < n:
        c = src[i]
        if c.isspace():
            i += 1
        elif src.startswith("//", i):
            j = src.find("\n", i)
            i = n if j < 0 else j
        elif src.startswith("/*", i):
            j = src.find("*/", i + 2)
            i = n if j < 0 else j + 2
        elif c == '"':
            j = i + 1
            while src[j] != '"':
                j += 2 if src[j] == "\\" else 1
            toks.append(("str", src[i + 1:j]))
            i = j + 1
        elif c == "'":
            j = i + 1
            while src[j] != "'":
                j += 2 if src[j] == "\\" else 1
            toks.append(("chr", src[i + 1:j]))
            i = j + 1
        elif c.isalpha() or c == "_":
            m = re.match(r"[A-Za-z_][A-Za-z0-9_]*", src[i:])
            toks.append(("id", m.group(0)))
            i += m.end()
        elif c.isdigit():
            m = re.match(r"[0-9]+", src[i:])
            toks.append(("num", m.group(0)))
            i += m.end()
        elif src.startswith("..", i):
            toks.append(("p", ".."))
            i += 2
        else:
            toks.append(("p", c))
            i += 1
    return toks


def pest_unescape(s):
    out, i = [], 0
    while i < len(s):
        if s[i] == "\\":
            c = s[i + 1]
            if c == "u":
                j = s.index("}", i)
                out.append(chr(int(s[i + 3:j], 16)))
                i = j + 1
                continue
            if c == "x":
                out.append(chr(int(s[i + 2:i + 4], 16)))
                i += 4
                continue
            out.append({"n": "\n", "r": "\r", "t": "\t", "0": "\0", "\\": "\\", '"': '"', "'": "'"}[c])
            i += 2
        else:
            out.append(s[i])
            i += 1
    return "".join(out)


class PestParser:
    def __init__(self, toks):
        self.t, self.i = toks, 0

    def peek(self):
        return self.t[self.i] if self.i < len(self.t) else ("eof", "")

    def take(self, v=None):
        tok = self.peek()
        if v is not None and tok != ("p", v):
            raise ValueError("pest: expected %r, found %r at token %d" % (v, tok, self.i))
        self.i += 1
        return tok

    def rules(self):
        out = []
        while self.peek()[0] != "eof":
            name = self.take()
            if name[0] != "id":
                raise ValueError("pest: rule name expected, found %r" % (name,))
            self.take("=")
            kind = "Normal"
            if self.peek() == ("p", "_"):
                self.take()
                kind = "Silent"
            elif self.peek() == ("id", "_"):
                self.take()
                kind = "Silent"
            elif self.peek() == ("p", "@"):
                self.take()
                kind = "Atomic"
            elif self.peek() == ("p", "$"):
                self.take()
                kind = "CompoundAtomic"
            elif self.peek() == ("p", "!"):
                self.take()
                kind = "NonAtomic"
            self.take("{")
            e = self.expr()
            self.take("}")
            out.append((name[1], kind, e))
        return out

    def expr(self):
        if self.peek() == ("p", "|"):
            self.take()
        alts = [self.seq()]
        while self.peek() == ("p", "|"):
            self.take()
            alts.append(self.seq())
        e = alts[-1]
        for a in reversed(alts[:-1]):
            e = ("Alt", a, e)
        return e

    def seq(self):
        items = [self.term()]
        while self.peek() == ("p", "~"):
            self.take()
            items.append(self.term())
        e = items[-1]
        for a in reversed(items[:-1]):
            e = ("Seq", a, e)
        return e

    def term(self):
        pre = []
        while self.peek() in (("p", "!"), ("p", "&")):
            pre.append(self.take()[1])
        e = self.atom()
        while True:
            p = self.peek()
            if p == ("p", "*"):
                self.take()
                e = ("Star", e)
            elif p == ("p", "+"):
                self.take()
                e = ("Plus", e)
            elif p == ("p", "?"):
                self.take()
                e = ("Opt", e)
            elif p == ("p", "{"):
                # bounded repetition e{n} / e{n,m} / e{n,} / e{,m}
                self.take()
                lo = hi = None
                if self.peek()[0] == "num":
                    lo = int(self.take()[1])
                    hi = lo
                if self.peek() == ("p", ","):
                    self.take()
                    hi = None
                    if self.peek()[0] == "num":
                        hi = int(self.take()[1])
                    elif lo is None:
                        raise ValueError("pest: bad repetition")
                    else:
                        hi = -1
                self.take("}")
                e = ("Rep", lo or 0, hi, e)
            else:
                break
        for p in reversed(pre):
            e = ("NegPred", e) if p == "!" else ("PosPred", e)
        return e

    def atom(self):
        k, v = self.take()
        if k == "str":
            return ("Str", pest_unescape(v))
        if k == "p" and v == "^":
            k2, v2 = self.take()
            return ("Insens", pest_unescape(v2))
        if k == "chr":
            self.take("..")
            k2, v2 = self.take()
            return ("Range", pest_unescape(v), pest_unescape(v2))
        if k == "id":
            if v in ("PUSH", "PEEK", "POP", "PEEK_ALL", "POP_ALL", "DROP", "PUSH_LITERAL"):
                raise ValueError("pest: stack operation %s is outside the modelled PEG fragment" % v)
            return ("Ref", v)
        if k == "p" and v == "(":
            e = self.expr()
            self.take(")")
            return e
        raise ValueError("pest: unexpected token %r" % ((k, v),))


def coq_ascii_string(s):
    """Coq string literal for text that may hold control characters: built from bytes"""
    b = s.encode("utf-8")
    if all(32 <= x < 127 and x != 34 for x in b):
        return '"' + s + '"'
    return "(bytes_to_string [%s])" % "; ".join("%d%%N" % x for x in b)


def peg_to_coq(e):
    k = e[0]
    if k == "Str":
        return "(Str %s)" % coq_ascii_string(e[1])
    if k == "Insens":
        return "(Insens %s)" % coq_ascii_string(e[1])
    if k == "Range":
        return "(Range %s %s)" % (coq_ascii_string(e[1]), coq_ascii_string(e[2]))
    if k == "Ref":
        return "(Ref %s)" % coq_str(e[1])
    if k in ("Seq", "Alt"):
        return "(%s %s %s)" % (k, peg_to_coq(e[1]), peg_to_coq(e[2]))
    if k in ("Star", "Plus", "Opt", "NegPred", "PosPred"):
        return "(%s %s)" % (k, peg_to_coq(e[1]))
    if k == "Rep":
        lo, hi, x = e[1], e[2], e[3]
        return "(Rep %d %s %s)" % (lo, "None" if hi in (None, -1) else "(Some %d%%nat)" % hi, peg_to_coq(x))
    raise ValueError("peg_to_coq: " + repr(e))


def parse_grammar(repo):
    src = open(os.path.join(repo, GRAMMAR), encoding="utf-8").read()
    return PestParser(pest_tokens(src)).rules()


@gen.generator
def gen_grammar(repo):
    problems = []
    try:
        rules = parse_grammar(repo)
    except Exception as e:  # structural surprise: emit a file that does not type-check
        return "GenGrammar.v", "(* GENERATED *)\nDefinition grammar := unparsed_pest_grammar.\n", ["gen_grammar: %s" % e]
    names = [r[0] for r in rules]
    if len(set(names)) != len(names):
        problems.append("gen_grammar: duplicate rule names")
    body = [
        "(* GENERATED by tools/gen_frontend.py from %s — do not edit *)" % GRAMMAR,
        "From Coq Require Import String List NArith.",
        "From Aranya Require Import model.PegSyntax.",
        "Import ListNotations.",
        "Open Scope string_scope.",
        "Definition grammar : list rule := [",
    ]
    for k, (name, kind, e) in enumerate(rules):
        body.append("  {| r_name := %s; r_kind := %s; r_body := %s |}%s" % (
            coq_str(name), kind, peg_to_coq(e), ";" if k + 1 < len(rules) else ""))
    body.append("].")
    return "GenGrammar.v", "\n".join(body) + "\n", problems


# ------------------------------------------------------------------ determinism (C28)

HASH_TYPES = ("HashMap", "HashSet")


def hash_bindings(toks):
    """names (locals, fields, params) that a file declares with a hash-collection type, and functions
    whose return type mentions one"""
    names = {}
    n = len(toks)
    for i, t in enumerate(toks):
        if t.k != "id" or t.s not in HASH_TYPES:
            continue
        # `name : ... HashMap<` (field / param / let with annotation) or `name = HashMap::new()`:
        # walk back over type-ish tokens to the nearest `:` / `=`
        j = i - 1
        while j >= 0 and i - j < 16:
            tj = toks[j]
            if tj.s in (":", "="):
                break
            if tj.k in ("id", "life") or tj.s in ("<", ">", "::", "&", "(", "[", ",", "mut"):
                j -= 1
                continue
            break
        if j >= 1 and toks[j].s in (":", "=") and toks[j - 1].k == "id" and toks[j - 1].s not in KEYWORDS:
            names.setdefault(toks[j - 1].s, t.s)
        elif j >= 0 and toks[j].s == "->":
            # fn name(...) -> ... HashMap: the function is a source
            k = j - 1
            if toks[k].s == ")":
                d = 0
                while k >= 0:
                    if toks[k].s == ")":
                        d += 1
                    elif toks[k].s == "(":
                        d -= 1
                        if d == 0:
                            break
                    k -= 1
                k -= 1
                while k >= 0 and toks[k].s != "fn" and toks[k].k != "id":
                    k -= 1
                if k >= 1 and toks[k].k == "id" and toks[k - 1].s == "fn":
                    names.setdefault(toks[k].s, t.s + " (returned)")
    return names


def pattern_idents(ts):
    return [t.s for t in ts if t.k == "id" and t.s not in KEYWORDS and not t.s[0].isupper()]


def taint_in_fn(toks, a, b, roots):
    """names bound (let / for / if let / while let / closure-free) from an expression mentioning a tainted name"""
    tainted = set()
    changed = True
    while changed:
        changed = False
        i = a
        while i < b:
            t = toks[i]
            if t.k == "id" and t.s in ("let", "for"):
                sep = "=" if t.s == "let" else "in"
                j = i + 1
                depth = 0
                while j < b and not (depth == 0 and toks[j].s == sep and toks[j].k in ("p", "id")):
                    if toks[j].s in ("(", "[", "{"):
                        depth += 1
                    elif toks[j].s in (")", "]", "}"):
                        depth -= 1
                    if toks[j].s == ";" or depth < 0:
                        break
                    j += 1
                if j < b and toks[j].s == sep:
                    pat = toks[i + 1:j]
                    # a type annotation `let x: T = ...`: only the part before `:` at depth 0 is the pattern
                    k = j + 1
                    depth = 0
                    while k < b:
                        if toks[k].s in ("(", "[", "{"):
                            if toks[k].s == "{" and depth == 0 and t.s == "for":
                                break
                            depth += 1
                        elif toks[k].s in (")", "]", "}"):
                            depth -= 1
                            if depth < 0:
                                break
                        elif depth == 0 and toks[k].s == ";":
                            break
                        elif depth == 0 and toks[k].s == "else" and t.s == "let":
                            break
                        k += 1
                    rhs = toks[j + 1:k]
                    if any(x.k == "id" and (x.s in roots or x.s in tainted) for x in rhs):
                        for nm in pattern_idents(pat):
                            if nm not in tainted and nm not in roots:
                                tainted.add(nm)
                                changed = True
            i += 1
    return tainted


ORDER_FREE = None  # (the classification lives in Coq: proofs/Determinism.v)


def determinism_rows(repo):
    rows, mentions, problems = [], [], []
    root = os.path.join(repo, COMPILER_SRC)
    files = []
    for d, _, fs in os.walk(root):
        for f in sorted(fs):
            if f.endswith(".rs"):
                files.append(os.path.join(d, f))
    files.sort()
    per_file = {}
    all_names = {}
    for p in files:
        rel = os.path.relpath(p, root)
        if rel.startswith("tests") or rel.endswith("tests.rs") or "/bin/" in "/" + rel:
            continue
        toks = strip_cfg_test(tokenize(open(p, encoding="utf-8").read()))
        toks = [t for t in toks if t.k != "attr"]
        per_file[rel] = toks
        for nm, ty in hash_bindings(toks).items():
            all_names.setdefault(nm, ty)
    for rel, toks in sorted(per_file.items()):
        spans = fn_spans(toks)
        n = len(toks)
        # per-function taint (outermost functions)
        tainted_at = {}
        for (nm, a, b) in spans:
            tn = taint_in_fn(toks, a, b, all_names)
            for i in range(a, b):
                tainted_at.setdefault(i, set()).update(tn)
        for i, t in enumerate(toks):
            if t.k == "id" and t.s in HASH_TYPES:
                mentions.append((rel, fn_path_at(spans, i), t.s))
            if t.k != "id":
                continue
            is_root = t.s in all_names
            if not is_root and t.s not in tainted_at.get(i, ()):
                continue
            prev = toks[i - 1] if i else Tok("p", ";", 0)
            nxt = toks[i + 1] if i + 1 < n else Tok("p", ";", 0)
            if nxt.s == ":" or (prev.s in ("let", "mut", "for", "|", "(", ",", "Some") and nxt.s in ("=", ":", "in", "|", ")", ",")
                                and not (prev.s in ("(", ",") and nxt.s in (")", ","))):
                continue    # a declaration / pattern position
            if prev.s == "fn":
                continue
            recv = norm(receiver_tail(toks, i + 1, 8))
            if nxt.s == "." and i + 2 < n and toks[i + 2].k == "id":
                use = toks[i + 2].s
                if i + 3 < n and toks[i + 3].s not in ("(", "::"):
                    use = "field:" + use     # a field path continues (e.g. self.m.interface.globals.x)
            elif nxt.s == "(" and is_root:
                use = "call"
            elif prev.s == "in" or (prev.s in ("&", "mut") and any(toks[k].s == "in" for k in range(max(0, i - 3), i))):
                use = "for-in"
            elif prev.s == "&" or (prev.s == "mut" and i >= 2 and toks[i - 2].s == "&"):
                use = "borrow"
            elif nxt.s in (",", ")", ";", "}") or prev.s in ("(", ","):
                use = "moved"
            else:
                use = "other:" + nxt.s
            rows.append((rel, fn_path_at(spans, i), recv, use, "root" if is_root else "derived"))
    # ordinals
    seen, out = {}, []
    for r in rows:
        seen[r] = seen.get(r, 0) + 1
        out.append(r + (seen[r] - 1,))
    return out, all_names, mentions, problems


@gen.generator
def gen_determinism(repo):
    rows, names, mentions, problems = determinism_rows(repo)
    body = [
        "(* GENERATED by tools/gen_frontend.py from %s — do not edit *)" % COMPILER_SRC,
        "From Coq Require Import String List NArith.",
        "Import ListNotations.",
        "Open Scope string_scope.",
        "(** Bindings (locals, parameters, struct fields) that some non-test file of the compiler crate",
        "    declares with type HashMap / HashSet, by name; and every use of an identifier with such a name",
        "    anywhere in the crate (over-approximation by name: a BTreeMap field that shares the name of a",
        "    HashMap field is listed too and has to be discharged by its declared type). *)",
        "Definition hash_bindings : list (string * string) := [%s]." % "; ".join(
            "(%s, %s)" % (coq_str(k), coq_str(v)) for k, v in sorted(names.items())),
        "Record huse := { h_file : string; h_fn : string; h_recv : string; h_use : string; h_ord : N }.",
        "Definition hash_uses : list huse := [",
    ]
    for k, (rel, fn, recv, use, ty, ordn) in enumerate(rows):
        body.append("  {| h_file := %s; h_fn := %s; h_recv := %s; h_use := %s; h_ord := %d |}%s (* %s *)" % (
            coq_str(rel), coq_str(fn), coq_str(recv), coq_str(use), ordn, ";" if k + 1 < len(rows) else "", ty))
    body.append("].")
    body.append("Definition hash_type_mentions : list (string * string * string) := [%s]." % "; ".join(
        "(%s, %s, %s)" % (coq_str(a), coq_str(b), coq_str(c)) for (a, b, c) in mentions))
    return "GenDeterminism.v", "\n".join(body) + "\n", problems
