"""Translator plug-in of unit `vmpolicy` (C29, C35).

GenKeyEnc.v   — from crates/aranya-runtime/src/vm_policy/io.rs: the `KeyType` tag table (declaration
                order = `as u8` value) and its `from_u8` inverse, which tag each `HashableValue`
                variant is serialised with, the identifier-length framing, the sign-flip bit, the
                byte order, the bool bytes and the concatenation order of `ser_key`;
                from crates/aranya-policy-vm/src/data.rs: the declaration order of `HashableValue`
                (its derived `Ord`);
                from crates/aranya-policy-compiler/src/compile.rs: the instruction sequences
                `compile_counting_function` emits per `FactCountType`, its limit guard, and the
                lowering of `exists`.
GenEnvelope.v — from crates/aranya-runtime/src/vm_policy.rs + vm_policy/protocol.rs: the provenance of
                each `Envelope` field handed to the `open` block by `VmPolicy::call_rule`, the field
                list of `VmProtocolData`; from crates/aranya-crypto-ffi/src/ffi.rs: what `verify` binds
                (the `Cmd` it reconstructs and the id comparison).
"""
import re

import gen

IO_RS = "crates/aranya-runtime/src/vm_policy/io.rs"
DATA_RS = "crates/aranya-policy-vm/src/data.rs"
COMPILE_RS = "crates/aranya-policy-compiler/src/compile.rs"
VMPOLICY_RS = "crates/aranya-runtime/src/vm_policy.rs"
PROTOCOL_RS = "crates/aranya-runtime/src/vm_policy/protocol.rs"
CRYPTO_FFI_RS = "crates/aranya-crypto-ffi/src/ffi.rs"


def _coq_str(s):
    return '"' + s.replace('"', '""') + '"'


def _coq_strs(xs):
    return "[" + "; ".join(_coq_str(x) for x in xs) + "]"


def _fn_body(src, name):
    """Text of `fn name ... { body }` (brace matched)."""
    m = re.search(r"\bfn\s+%s\b" % re.escape(name), src)
    if not m:
        return None
    # skip the parameter list (it may contain a struct pattern with braces)
    i = src.find("(", m.end())
    if i < 0:
        return None
    depth, j = 0, i
    while j < len(src):
        if src[j] == "(":
            depth += 1
        elif src[j] == ")":
            depth -= 1
            if depth == 0:
                break
        j += 1
    i = src.find("{", j)
    if i < 0:
        return None
    depth, j = 0, i
    while j < len(src):
        if src[j] == "{":
            depth += 1
        elif src[j] == "}":
            depth -= 1
            if depth == 0:
                return src[i + 1:j]
        j += 1
    return None


def _match_arms(body, scrutinee_re):
    """Top-level arms `pat => expr` of the first `match <scrutinee> {`."""
    m = re.search(r"match\s+%s\s*\{" % scrutinee_re, body)
    if not m:
        return None
    i = m.end()
    depth, j = 1, i
    while j < len(body) and depth:
        if body[j] == "{":
            depth += 1
        elif body[j] == "}":
            depth -= 1
        j += 1
    inner = body[i:j - 1]
    arms, depth, cur, k = [], 0, [], 0
    while k < len(inner):
        c = inner[k]
        if c in "{([":
            depth += 1
        elif c in "})]":
            depth -= 1
            if depth == 0 and c == "}":
                cur.append(c)
                arms.append("".join(cur))
                cur = []
                k += 1
                # optional trailing comma
                while k < len(inner) and inner[k] in " \n\t,":
                    k += 1
                continue
        if c == "," and depth == 0:
            arms.append("".join(cur))
            cur = []
        else:
            cur.append(c)
        k += 1
    if "".join(cur).strip():
        arms.append("".join(cur))
    out = []
    for a in arms:
        if "=>" in a:
            p, e = a.split("=>", 1)
            out.append((p.strip(), e.strip()))
    return out


def _norm(s):
    return re.sub(r"\s+", " ", s).strip()


@gen.generator
def gen_keyenc(repo):
    probs = []
    out = [gen.HEADER, "Open Scope N_scope.\n"]
    io = gen.strip_rust_comments(gen.read(repo, IO_RS))
    out.append("(* %s *)\n" % IO_RS)

    # --- KeyType tag table -------------------------------------------------
    variants = gen.enum_variants(io, "KeyType")
    if not variants:
        probs.append("GenKeyEnc: enum KeyType not found")
        variants = []
    if not re.search(r"#\[repr\(u8\)\]\s*enum\s+KeyType", io):
        probs.append("GenKeyEnc: KeyType is no longer #[repr(u8)]")
    tags = {}
    nxt = 0
    for (name, rest) in variants:
        m = re.match(r"=\s*(\d+)", rest)
        if m:
            nxt = int(m.group(1))
        elif rest:
            probs.append("GenKeyEnc: KeyType::%s carries data" % name)
        tags[name] = nxt
        nxt += 1
    out.append("Definition keytype_tags : list (string * N) := [%s].\n" %
               "; ".join("(%s%%string, %d)" % (_coq_str(n), t) for n, t in tags.items()))
    body = _fn_body(io, "from_u8") or ""
    inv = re.findall(r"(\d+)\s*=>\s*Self::(\w+)", body)
    if not inv:
        probs.append("GenKeyEnc: KeyType::from_u8 arms not found")
    out.append("Definition keytype_from_u8_table : list (N * string) := [%s].\n" %
               "; ".join("(%s, %s%%string)" % (n, _coq_str(v)) for n, v in inv))

    # --- ser_key -----------------------------------------------------------
    sk = _fn_body(io, "ser_key") or ""
    if not sk:
        probs.append("GenKeyEnc: fn ser_key not found")
    arms = _match_arms(sk, r"value") or []
    variant_tag = {}
    shapes = {}
    for pat, expr in arms:
        m = re.search(r"HashableValue::(\w+)", pat)
        t = re.search(r"\(\s*KeyType::(\w+)\s*,", expr)
        if m and t:
            variant_tag[m.group(1)] = t.group(1)
            shapes[m.group(1)] = _norm(expr)
    want = ["Int", "Bool", "String", "Id", "Enum"]
    for v in want:
        if v not in variant_tag:
            probs.append("GenKeyEnc: ser_key has no arm for HashableValue::%s" % v)
    for v in variant_tag:
        if v not in want:
            probs.append("GenKeyEnc: ser_key has an arm for an unmodelled variant HashableValue::%s" % v)
    for v in want:
        out.append("Definition tag_%s : N := %d.\n" % (v.lower(), tags.get(variant_tag.get(v, ""), 255)))
    # the value-byte expressions, normalised, so that a rewrite of an arm is surfaced
    out.append("Definition ser_key_arms : list (string * string) := [%s].\n" %
               "; ".join("(%s%%string, %s%%string)" % (_coq_str(v), _coq_str(shapes.get(v, ""))) for v in want))

    m = re.search(r"identifier\.len\(\)\s+as\s+u(\d+)\s*\)\s*\.to_(be|le)_bytes\(\)", sk)
    if m:
        out.append("Definition ident_len_width : nat := %d.\n" % (int(m.group(1)) // 8))
        out.append("Definition ident_len_big_endian : bool := %s.\n" % ("true" if m.group(2) == "be" else "false"))
    else:
        probs.append("GenKeyEnc: identifier length framing not found in ser_key")
        out.append("Definition ident_len_width : nat := 0.\nDefinition ident_len_big_endian : bool := false.\n")
    flips = re.findall(r"i(\d+)::to_(be|le)_bytes\(\s*(\w+)\s*\^\s*\(\s*1\s*<<\s*(\d+)\s*\)\s*\)", sk)
    if len(flips) == 2 and len(set((a, b, d) for a, b, c, d in flips)) == 1:
        out.append("Definition int_width : nat := %d.\n" % (int(flips[0][0]) // 8))
        out.append("Definition int_big_endian : bool := %s.\n" % ("true" if flips[0][1] == "be" else "false"))
        out.append("Definition sign_flip_bit : N := %s.\n" % flips[0][3])
    else:
        probs.append("GenKeyEnc: sign-flip encoding `iN::to_be_bytes(x ^ (1 << k))` not found twice in ser_key")
        out.append("Definition int_width : nat := 0.\nDefinition int_big_endian : bool := false.\nDefinition sign_flip_bit : N := 0.\n")
    m = re.search(r"if\s+bool\s*\{\s*&\[(\d+)\]\s*\}\s*else\s*\{\s*&\[(\d+)\]\s*\}", sk)
    if m:
        out.append("Definition bool_true_byte : N := %s.\nDefinition bool_false_byte : N := %s.\n" % (m.group(1), m.group(2)))
    else:
        probs.append("GenKeyEnc: bool bytes not found in ser_key")
        out.append("Definition bool_true_byte : N := 0.\nDefinition bool_false_byte : N := 0.\n")
    m = re.search(r"bytes\s*=\s*\[([^\]]*)\]\s*\.concat\(\)", sk)
    out.append("Definition enum_concat_order : list string := %s%%string.\n" %
               _coq_strs([_norm(x) for x in m.group(1).split(",") if x.strip()] if m else []))
    if not m:
        probs.append("GenKeyEnc: enum concat not found in ser_key")
    m = re.search(r"\[\s*(identifier_len\b.*?)\s*,?\s*\]\s*\.concat\(\)\s*\.into_boxed_slice\(\)", sk, re.S)
    out.append("Definition key_concat_order : list string := %s%%string.\n" %
               _coq_strs([_norm(x) for x in m.group(1).split(",") if x.strip()] if m else []))
    if not m:
        probs.append("GenKeyEnc: key concat not found in ser_key")
    # ser_keys = one serialised element per key, in order
    sks = _fn_body(io, "ser_keys") or ""
    out.append("Definition ser_keys_body : string := %s%%string.\n" % _coq_str(_norm(sks)))
    # fact_query passes the serialised keys to query_prefix
    fq = _fn_body(io, "fact_query") or ""
    out.append("Definition fact_query_uses_query_prefix : bool := %s.\n" %
               ("true" if re.search(r"ser_keys\(key\)", fq) and re.search(r"\.query_prefix\(\s*name\.as_str\(\)\s*,\s*&keys\s*\)", fq) else "false"))

    # --- HashableValue derive order (data.rs) ------------------------------
    data = gen.strip_rust_comments(gen.read(repo, DATA_RS))
    hv = gen.enum_variants(data, "HashableValue")
    if not hv:
        probs.append("GenKeyEnc: enum HashableValue not found")
        hv = []
    out.append("(* %s *)\n" % DATA_RS)
    out.append("Definition hashable_variants : list string := %s%%string.\n" % _coq_strs([n for n, _ in hv]))

    # --- counting functions (compile.rs) -----------------------------------
    comp = gen.strip_rust_comments(gen.read(repo, COMPILE_RS))
    out.append("(* %s *)\n" % COMPILE_RS)
    out.append("Inductive gopnd := GLimit | GLimitPlus1.\n"
               "Inductive ginstr := GFactCount (o : gopnd) | GConstLimit | GConstNone | GQuery | GLt | GGt | GEq | GNot.\n"
               "Inductive gkind := GUpTo | GAtLeast | GAtMost | GExactly.\n")
    ccf = _fn_body(comp, "compile_counting_function") or ""
    if not ccf:
        probs.append("GenKeyEnc: fn compile_counting_function not found")
    m = re.search(r"if\s+(\*limit\s*<=\s*0)\s*\{\s*return\s+Err", ccf)
    out.append("Definition counting_guard : string := %s%%string.\n" % _coq_str(_norm(m.group(1)) if m else ""))
    if not m:
        probs.append("GenKeyEnc: limit guard of compile_counting_function not found")
    if not re.search(r"self\.compile_fact_literal\(fact\)\?;\s*match\s+cmp_type", ccf):
        probs.append("GenKeyEnc: compile_counting_function no longer compiles the fact literal right before the match")

    sb = _fn_body(comp, "count_limit_successor") or ""
    succ_ok = bool(re.match(r"\s*limit\.checked_add\(1\)\.ok_or_else\(\|\|\s*\{?\s*self\.err\(", sb))

    def instrs(text):
        res = []
        for im in re.finditer(r"Instruction::(\w+)(\s*\(((?:[^()]|\((?:[^()]|\([^()]*\))*\))*)\))?", text):
            name, arg = im.group(1), _norm(im.group(3) or "")
            if name == "FactCount":
                if arg == "*limit":
                    res.append("GFactCount GLimit")
                elif re.fullmatch(r'limit\.checked_add\(1\)\.assume\("[^"]*"\)\?\s*,?', arg):
                    res.append("GFactCount GLimitPlus1")
                elif re.fullmatch(r'self\.count_limit_successor\(&limit\)\?\s*,?', arg) and succ_ok:
                    # helper = `limit.checked_add(1).ok_or_else(|| error)`: limit + 1, a compile error on overflow
                    res.append("GFactCount GLimitPlus1")
                else:
                    return None, "FactCount(%s)" % arg
            elif name == "Const":
                if arg == "ConstValue::Int(*limit)":
                    res.append("GConstLimit")
                elif arg == "ConstValue::NONE":
                    res.append("GConstNone")
                else:
                    return None, "Const(%s)" % arg
            elif name in ("Lt", "Gt", "Eq", "Not", "Query") and not arg:
                res.append("G" + name)
            else:
                return None, "%s(%s)" % (name, arg)
        return res, None

    kinds = {"UpTo": "GUpTo", "AtLeast": "GAtLeast", "AtMost": "GAtMost", "Exactly": "GExactly"}
    table = []
    arms = _match_arms(ccf, r"cmp_type") or []
    seen = set()
    for pat, expr in arms:
        m = re.search(r"FactCountType::(\w+)", pat)
        if not m or m.group(1) not in kinds:
            probs.append("GenKeyEnc: unknown counting arm %s" % _norm(pat))
            continue
        seq, bad = instrs(expr)
        if seq is None:
            probs.append("GenKeyEnc: counting arm %s emits an instruction with no rule: %s" % (m.group(1), bad))
            continue
        seen.add(m.group(1))
        table.append("(%s, [%s])" % (kinds[m.group(1)], "; ".join(seq)))
    for k in kinds:
        if k not in seen:
            probs.append("GenKeyEnc: compile_counting_function has no arm for FactCountType::%s" % k)
    out.append("Definition counting_table : list (gkind * list ginstr) := [%s].\n" % "; ".join(table))
    # what an overflowing limit + 1 is reported as: BadArgument (helper with ok_or_else) or Bug (buggy::assume)
    uses_helper = "count_limit_successor(&limit)" in ccf
    uses_assume = re.search(r"limit\.checked_add\(1\)\.assume\(", ccf) is not None
    if uses_helper == uses_assume:
        probs.append("GenKeyEnc: cannot tell how compile_counting_function reports limit + 1 overflow")
    if uses_helper and not re.search(r"self\.err\(\s*BadArgument\(", sb):
        probs.append("GenKeyEnc: count_limit_successor no longer reports BadArgument")
    out.append("Definition limit_overflow_is_bad_argument : bool := %s.\n" % ("true" if uses_helper else "false"))
    # exists
    m = re.search(r"thir::InternalFunction::Exists\(f\)\s*=>\s*\{(.*?)\}\s*thir::InternalFunction::", comp, re.S)
    seq = None
    if m and re.search(r"self\.compile_fact_literal\(f\)\?;", m.group(1)):
        seq, bad = instrs(m.group(1))
    if seq is None:
        probs.append("GenKeyEnc: lowering of `exists` not found")
        seq = []
    out.append("Definition exists_lowering : list ginstr := [%s].\n" % "; ".join(seq))
    # query / map / create / update / delete lowerings: one instruction after the literal
    def after_literal(pattern, what):
        mm = re.search(pattern, comp, re.S)
        if not mm:
            probs.append("GenKeyEnc: lowering of %s not found" % what)
            return []
        return re.findall(r"Instruction::(\w+)", mm.group(1))
    out.append("Definition query_lowering : list string := %s%%string.\n" % _coq_strs(
        after_literal(r"thir::InternalFunction::Query\(f\)\s*=>\s*\{\s*self\.compile_fact_literal\(f\)\?;(.*?)\}", "query")))
    out.append("Definition create_lowering : list string := %s%%string.\n" % _coq_strs(
        after_literal(r"thir::StmtKind::Create\(s\)\s*=>\s*\{\s*self\.compile_fact_literal\(s\.fact\)\?;(.*?)\}", "create")))
    out.append("Definition delete_lowering : list string := %s%%string.\n" % _coq_strs(
        after_literal(r"thir::StmtKind::Delete\(s\)\s*=>\s*\{\s*self\.compile_fact_literal\(s\.fact\)\?;(.*?)\}", "delete")))
    out.append("Definition update_lowering : list string := %s%%string.\n" % _coq_strs(
        after_literal(r"thir::StmtKind::Update\(s\)\s*=>\s*\{\s*self\.compile_fact_literal\(s\.fact\)\?;(.*?)\n            \}", "update")))
    out.append("Definition map_lowering : list string := %s%%string.\n" % _coq_strs(
        after_literal(r"thir::StmtKind::Map\(map_stmt\)\s*=>\s*\{.*?self\.compile_fact_literal\(map_stmt\.fact\)\?;(.*?)\n            \}", "map")))
    fl = _fn_body(comp, "compile_fact_literal") or ""
    out.append("Definition fact_literal_lowering : list string := %s%%string.\n" % _coq_strs(re.findall(r"Instruction::(\w+)", fl)))
    return ("GenKeyEnc.v", "".join(out), probs)


@gen.generator
def gen_envelope(repo):
    probs = []
    out = [gen.HEADER, "Open Scope N_scope.\n"]
    vp = gen.strip_rust_comments(gen.read(repo, VMPOLICY_RS))
    cr = _fn_body(vp, "call_rule") or ""
    if not cr:
        probs.append("GenEnvelope: fn call_rule not found")
    out.append("(* %s : VmPolicy::call_rule *)\n" % VMPOLICY_RS)
    # parent_id provenance
    arms = _match_arms(cr, r"command\.parent\(\)") or []
    out.append("Definition parent_id_arms : list (string * string) := [%s].\n" %
               "; ".join("(%s%%string, %s%%string)" % (_coq_str(_norm(p)), _coq_str(_norm(e))) for p, e in arms))
    if not arms:
        probs.append("GenEnvelope: `match command.parent()` not found in call_rule")
    # destructured wire payload
    m = re.search(r"let\s+VmProtocolData\s*\{([^}]*)\}\s*=\s*postcard::from_bytes\(\s*command\.bytes\(\)\s*\)", cr)
    binds = []
    if m:
        for f in m.group(1).split(","):
            f = _norm(f)
            if not f:
                continue
            if ":" in f:
                a, b = [x.strip() for x in f.split(":", 1)]
            else:
                a, b = f, f
            binds.append((a, b))
    else:
        probs.append("GenEnvelope: VmProtocolData is no longer decoded from command.bytes() in call_rule")
    out.append("Definition wire_bindings : list (string * string) := [%s].\n" %
               "; ".join("(%s%%string, %s%%string)" % (_coq_str(a), _coq_str(b)) for a, b in binds))
    # envelope construction
    m = re.search(r"let\s+envelope\s*=\s*Envelope\s*\{([^}]*)\}", cr)
    env = []
    if m:
        for f in m.group(1).split(","):
            f = _norm(f)
            if not f:
                continue
            if ":" in f:
                a, b = [x.strip() for x in f.split(":", 1)]
            else:
                a, b = f, f
            env.append((a, b))
    else:
        probs.append("GenEnvelope: envelope construction not found in call_rule")
    out.append("Definition envelope_fields : list (string * string) := [%s].\n" %
               "; ".join("(%s%%string, %s%%string)" % (_coq_str(a), _coq_str(b)) for a, b in env))
    # open is run at origin / off-graph placements, with (command_struct, payload, envelope, facts)
    arms = _match_arms(cr[cr.find("deserialize_struct"):] if "deserialize_struct" in cr else "", r"placement") or []
    out.append("Definition open_placement_arms : list (string * bool) := [%s].\n" %
               "; ".join("(%s%%string, %s)" % (_coq_str(_norm(p)), "true" if "open_command" in e else "false") for p, e in arms))
    m = re.search(r"self\.open_command\(\s*command_struct\.clone\(\)\s*,\s*payload\.to_vec\(\)\s*,\s*envelope\.clone\(\)\s*,\s*facts\s*,?\s*\)\?", cr)
    out.append("Definition open_gets_payload_and_envelope : bool := %s.\n" % ("true" if m else "false"))
    # open precedes evaluate_rule
    io, ie = cr.find("open_command"), cr.find("evaluate_rule")
    out.append("Definition open_before_policy : bool := %s.\n" % ("true" if 0 <= io < ie else "false"))
    oc = _fn_body(vp, "open_command") or ""
    m = re.search(r"CommandContext::Open\(\s*OpenContext\s*\{\s*name\s*:\s*this_data\.name\.clone\(\)\s*,?\s*\}\s*\)", oc)
    out.append("Definition open_ctx_name_is_command_kind : bool := %s.\n" % ("true" if m else "false"))
    arms = _match_arms(oc, r"reason") or []
    out.append("Definition open_exit_arms : list (string * string) := [%s].\n" %
               "; ".join("(%s%%string, %s%%string)" % (_coq_str(_norm(p)), _coq_str(re.sub(r".*(Ok\(\(\)\)|PolicyError::\w+|bug!).*", r"\1", _norm(e)))) for p, e in arms))
    m = re.search(r"Err\(e\)\s*=>\s*\{.*?Err\((PolicyError::\w+)\)", oc, re.S)
    out.append("Definition open_machine_error : string := %s%%string.\n" % _coq_str(m.group(1) if m else ""))

    pr = gen.strip_rust_comments(gen.read(repo, PROTOCOL_RS))
    out.append("(* %s *)\n" % PROTOCOL_RS)
    m = re.search(r"struct\s+VmProtocolData\s*<[^>]*>\s*\{(.*?)\}", pr, re.S)
    fields = re.findall(r"pub\s+(\w+)\s*:\s*([^,]+),", m.group(1)) if m else []
    if not fields:
        probs.append("GenEnvelope: struct VmProtocolData not found")
    out.append("Definition wire_fields : list (string * string) := [%s].\n" %
               "; ".join("(%s%%string, %s%%string)" % (_coq_str(a), _coq_str(_norm(b))) for a, b in fields))
    m = re.search(r"impl\s+From<Envelope<'_>>\s+for\s+Struct\s*\{(.*?)\n\}", pr, re.S)
    sf = re.findall(r'ident!\("(\w+)"\)\s*,\s*e\.(\w+)', m.group(1)) if m else []
    out.append("Definition envelope_struct_fields : list (string * string) := [%s].\n" %
               "; ".join("(%s%%string, %s%%string)" % (_coq_str(a), _coq_str(b)) for a, b in sf))

    cf = gen.strip_rust_comments(gen.read(repo, CRYPTO_FFI_RS))
    out.append("(* %s : Ffi::verify / Ffi::sign *)\n" % CRYPTO_FFI_RS)
    vf = _fn_body(cf, "verify") or ""
    m = re.search(r"let\s+cmd\s*=\s*Cmd\s*\{([^}]*)\}", vf)
    cmd = [tuple(_norm(x) for x in f.split(":", 1)) for f in (m.group(1).split(",") if m else []) if ":" in f]
    if not cmd:
        probs.append("GenEnvelope: Cmd construction not found in crypto-ffi verify")
    out.append("Definition verify_cmd_fields : list (string * string) := [%s].\n" %
               "; ".join("(%s%%string, %s%%string)" % (_coq_str(a), _coq_str(b)) for a, b in cmd))
    out.append("Definition verify_checks_id : bool := %s.\n" % (
        "true" if re.search(r"let\s+id\s*=\s*pk\.verify_cmd\(cmd,\s*&signature\)\?;\s*if\s+bool::from\(id\.ct_eq\(&command_id\)\)\s*\{\s*Ok\(\(\)\)\s*\}\s*else\s*\{\s*Err\(", vf) else "false"))
    out.append("Definition verify_requires_open_ctx : bool := %s.\n" % (
        "true" if re.search(r"let\s+CommandContext::Open\(ctx\)\s*=\s*ctx\s+else\s*\{\s*return\s+Err", vf) else "false"))
    sg = _fn_body(cf, "sign") or ""
    m = re.search(r"sk\.sign_cmd\(\s*Cmd\s*\{([^}]*)\}", sg)
    cmd = [tuple(_norm(x) for x in f.split(":", 1)) for f in (m.group(1).split(",") if m else []) if ":" in f]
    if not cmd:
        probs.append("GenEnvelope: Cmd construction not found in crypto-ffi sign")
    out.append("Definition sign_cmd_fields : list (string * string) := [%s].\n" %
               "; ".join("(%s%%string, %s%%string)" % (_coq_str(a), _coq_str(b)) for a, b in cmd))
    return ("GenEnvelope.v", "".join(out), probs)
