#!/usr/bin/env python3
"""Validate one independently written property-breaking change and run our check against it.

usage: tools/seedcheck.py <slot> <dir-with patch.diff,demo/,meta.json> [--name ID] [--skip-tests]

Uses a persistent scratch worktree /tmp/sv-<slot> (so cargo builds are incremental across
changes), never /repo itself.  Confirms: patch applies to /repo's HEAD; demo passes without
and fails with the change; the existing tests of the modified crates still pass with it;
then runs `VERIF_REPO=/tmp/sv-<slot> ./check <property>` and records whether a VIOLATION
was reported.  Result is stored in /verif/seeded/<ID>/ (patch.diff, demo/, meta.json).
"""
import json, os, re, shutil, subprocess, sys, time

R = os.path.dirname(os.path.dirname(os.path.abspath(__file__)))


def sh(cmd, cwd=None, env=None, timeout=3600):
    e = dict(os.environ); e["CARGO_NET_OFFLINE"] = "true"
    if env: e.update(env)
    try:
        p = subprocess.run(cmd, cwd=cwd, env=e, shell=isinstance(cmd, str), stdout=subprocess.PIPE,
                           stderr=subprocess.STDOUT, text=True, errors="replace", timeout=timeout)
        return p.returncode, p.stdout
    except subprocess.TimeoutExpired as ex:
        return 124, "TIMEOUT\n" + (ex.stdout or "")[-2000:] if isinstance(ex.stdout, str) else "TIMEOUT"


def main():
    args = sys.argv[1:]
    slot, src = args[0], args[1].rstrip("/")
    name = None; skip_tests = False
    i = 2
    while i < len(args):
        if args[i] == "--name": name = args[i + 1]; i += 2
        elif args[i] == "--skip-tests": skip_tests = True; i += 1
        else: i += 1
    meta = json.load(open(os.path.join(src, "meta.json")))
    prop = re.search(r"C\d\d", meta.get("property", "") or os.path.basename(src)).group(0)
    name = name or os.path.basename(src)
    wt = "/tmp/sv-%s" % slot
    tgt = "/tmp/sv-%s-target" % slot
    head = subprocess.check_output(["git", "-C", "/repo", "rev-parse", "HEAD"], text=True).strip()
    if not os.path.exists(wt):
        sh(["git", "-C", "/repo", "worktree", "add", "-q", "--detach", wt, head])
    sh("git checkout -q -- . && git clean -fdq && git checkout -q --detach %s" % head, cwd=wt)
    if not os.path.exists(tgt) and os.path.exists("/repo/target/debug"):
        # warm start from the repository's own build output (hard links; registry deps are reused)
        subprocess.run(["cp", "-al", "/repo/target", tgt])
    env = {"CARGO_TARGET_DIR": tgt, "CARGO_BUILD_JOBS": "8"}
    res = {"repo_head": head, "ran": []}
    patch = os.path.join(src, "patch.diff")
    rc, out = sh(["git", "apply", "--check", patch], cwd=wt)
    res["patch_applies"] = rc == 0
    if rc != 0:
        res["patch_error"] = out[-1500:]
        return finish(src, name, prop, meta, res, wt)
    demo = os.path.join(src, "demo")
    runsh = os.path.join(demo, "run.sh")
    t = time.time()
    # demo files that live inside the repo tree are installed by run.sh itself (given the repo root)
    rc0, out0 = sh(["bash", runsh, wt], cwd=demo, env=env, timeout=3000)
    res["demo_without_change"] = {"rc": rc0, "tail": out0[-800:]}
    res["ran"].append("bash demo/run.sh %s (unchanged) -> rc %d" % (wt, rc0))
    sh(["git", "apply", patch], cwd=wt)
    rc1, out1 = sh(["bash", runsh, wt], cwd=demo, env=env, timeout=3000)
    res["demo_with_change"] = {"rc": rc1, "tail": out1[-800:]}
    res["ran"].append("git apply patch.diff; bash demo/run.sh %s -> rc %d" % (wt, rc1))
    res["demo_s"] = round(time.time() - t)
    if rc0 == 124:
        # cold build under load timed out: repeat the unchanged run now that the build is warm
        sh(["git", "apply", "-R", patch], cwd=wt)
        rc0, out0 = sh(["bash", runsh, wt], cwd=demo, env=env, timeout=3400)
        res["demo_without_change"] = {"rc": rc0, "tail": out0[-800:], "note": "first attempt timed out during the cold build; repeated"}
        res["ran"].append("bash demo/run.sh %s (unchanged, repeated) -> rc %d" % (wt, rc0))
        sh(["git", "apply", patch], cwd=wt)
    # existing tests of the modified crates
    crates = sorted({m.group(1) for f in meta.get("files_changed", []) for m in [re.search(r"crates/([^/]+)/", f)] if m})
    if not crates:
        rcd, outd = sh(["git", "diff", "--name-only"], cwd=wt)
        crates = sorted({m.group(1) for f in outd.split() for m in [re.search(r"crates/([^/]+)/", f)] if m})
    res["crates"] = crates
    tests_ok = None
    if not skip_tests:
        tests_ok = True
        # remove demo files the run.sh may have copied into the tree so they do not count as existing tests
        sh("git clean -fdq", cwd=wt)
        for c in crates:
            t = time.time()
            rct, outt = sh(["cargo", "test", "-p", c, "--offline", "-q"], cwd=wt, env=env, timeout=3400)
            tail = [l for l in outt.splitlines() if l.startswith("test result") or "FAILED" in l or "error" in l][-8:]
            res["ran"].append("cargo test -p %s --offline (with change) -> rc %d in %ds" % (c, rct, time.time() - t))
            res.setdefault("tests", {})[c] = {"rc": rct, "tail": tail}
            tests_ok = tests_ok and rct == 0
    res["existing_tests_pass_with_change"] = tests_ok
    # our check against the changed tree
    t = time.time()
    rcc, outc = sh(["./check", prop], cwd=R, env={"VERIF_REPO": wt}, timeout=9000)
    viol = [l for l in outc.splitlines() if l.startswith("VIOLATION")]
    res["check"] = {"cmd": "VERIF_REPO=%s ./check %s" % (wt, prop), "rc": rcc, "violation_lines": viol[:4],
                    "failed_obligations": [l[:300] for l in outc.splitlines() if "OBLIGATION FAILED" in l][:6],
                    "wall_s": round(time.time() - t)}
    res["ran"].append("VERIF_REPO=%s ./check %s -> rc %d %s" % (wt, prop, rcc, viol[:1]))
    res["caught"] = rcc == 1 and bool(viol)
    res["caught_with_concrete_input"] = any("no-failing-input-found" not in v for v in viol)
    # copy the replay the check wrote
    for v in viol[:1]:
        m = re.search(r"replay=(\S+)", v)
        if m and os.path.exists(m.group(1)):
            res["check"]["replay_excerpt"] = open(m.group(1)).read()[:1500]
    return finish(src, name, prop, meta, res, wt)


def finish(src, name, prop, meta, res, wt):
    sh("git checkout -q -- . && git clean -fdq", cwd=wt)
    valid = (res.get("patch_applies") and res.get("demo_without_change", {}).get("rc") == 0
             and res.get("demo_with_change", {}).get("rc", 0) != 0
             and res.get("existing_tests_pass_with_change") in (True, None))
    res["valid_seed"] = bool(valid)
    dst = os.path.join(R, "seeded", name)
    if valid:
        if os.path.exists(dst): shutil.rmtree(dst)
        os.makedirs(dst)
        shutil.copy(os.path.join(src, "patch.diff"), dst)
        shutil.copytree(os.path.join(src, "demo"), os.path.join(dst, "demo"))
        m = dict(meta); m["verification"] = res
        json.dump(m, open(os.path.join(dst, "meta.json"), "w"), indent=1)
    os.makedirs(os.path.join(R, "build", "seedlogs"), exist_ok=True)
    json.dump(res, open(os.path.join(R, "build", "seedlogs", name + ".json"), "w"), indent=1)
    print("%s prop=%s valid=%s caught=%s concrete=%s" % (name, prop, res["valid_seed"], res.get("caught"), res.get("caught_with_concrete_input")), flush=True)


if __name__ == "__main__":
    main()
