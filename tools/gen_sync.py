"""Translator plug-in of unit `sync` (C16-C19).

GenSync.v — from crates/aranya-runtime/src/sync/{mod,requester,responder,wire}.rs,
storage/mod.rs, command.rs, prior.rs (current working tree):
  * the limits PEER_HEAD_MAX, COMMAND_SAMPLE_MAX, REQUEST_MISSING_MAX,
    COMMAND_RESPONSE_MAX, SEGMENT_BUFFER_MAX (the default, not `low-mem-usage`,
    values), MAX_COMMAND_LENGTH and the *expression* of MAX_SYNC_MESSAGE_SIZE;
  * variant lists (declaration order = postcard variant index) with field
    names/types of SyncType, SyncHelloType, SubscribeResult,
    SyncRequestMessage, SyncResponseMessage, Priority, Prior, SyncError and the
    state enums SyncRequesterState / SyncResponderState; field lists of
    CommandMeta, Address, SyncRequester, SyncResponder; the `ready()` tables;
  * the panic-site ledger of the non-test code of the four sync files: every
    unwrap / expect / panicking macro / bug! / assume / index / slice /
    arithmetic operator / `as` cast / copy_from_slice / split_at occurrence,
    as (file, fn, kind, normalised source line, ordinal).
"""
import re

import gen

SYNC = "crates/aranya-runtime/src/sync/"
FILES = ["mod.rs", "requester.rs", "responder.rs", "wire.rs"]


def _s(x):
    return '"' + x.replace('"', '""') + '"'


def _strs(xs):
    return "[" + "; ".join(_s(x) for x in xs) + "]"


def _mask(src):
    """Replace comments and the contents of string/char literals by spaces (same length)."""
    out = list(src)
    i, n = 0, len(src)
    while i < n:
        c = src[i]
        if src.startswith("//", i):
            j = src.find("\n", i)
            j = n if j < 0 else j
            for k in range(i, j):
                out[k] = " "
            i = j
        elif src.startswith("/*", i):
            j = src.find("*/", i + 2)
            j = n if j < 0 else j + 2
            for k in range(i, j):
                if out[k] != "\n":
                    out[k] = " "
            i = j
        elif c == '"':
            j = i + 1
            while j < n and src[j] != '"':
                j += 2 if src[j] == "\\" else 1
            for k in range(i + 1, min(j, n)):
                if out[k] != "\n":
                    out[k] = " "
            i = j + 1
        elif c == "'" and i + 2 < n and (src[i + 2] == "'" or (src[i + 1] == "\\" and src.find("'", i + 2) in range(i + 2, i + 6))):
            j = src.find("'", i + 2)
            for k in range(i + 1, j):
                out[k] = " "
            i = j + 1
        else:
            i += 1
    return "".join(out)


def _match_brace(s, i):
    depth = 0
    while i < len(s):
        if s[i] == "{":
            depth += 1
        elif s[i] == "}":
            depth -= 1
            if depth == 0:
                return i
        i += 1
    return len(s) - 1


def _strip_tests(src, masked):
    """Blank out `#[cfg(test)] mod … { … }` blocks."""
    for m in list(re.finditer(r"#\[cfg\(test\)\]\s*mod\s+\w+\s*\{", masked)):
        a = m.start()
        b = _match_brace(masked, m.end() - 1)
        blank = "".join(ch if ch == "\n" else " " for ch in masked[a:b + 1])
        masked = masked[:a] + blank + masked[b + 1:]
        src = src[:a] + blank + src[b + 1:]
    return src, masked


KW = {"mut", "in", "return", "as", "dyn", "impl", "where", "const", "else", "let", "match", "if", "for", "while", "ref", "move", "static", "type", "pub", "crate", "fn"}
MACROS = r"\b(panic|todo|unimplemented|unreachable|assert|assert_eq|assert_ne|debug_assert|debug_assert_eq|debug_assert_ne|bug)!"
INT_TYPES = r"(u8|u16|u32|u64|u128|usize|i8|i16|i32|i64|i128|isize)"


def _sites_in(body_src, body_masked):
    """(kind, offset) list inside one function body (masked text used for matching)."""
    found = []
    for m in re.finditer(r"\.\s*(unwrap|expect|unwrap_unchecked|expect_err|unwrap_err)\s*\(", body_masked):
        found.append(("unwrap" if m.group(1).startswith("unwrap") else "expect", m.start()))
    for m in re.finditer(MACROS, body_masked):
        found.append((m.group(1), m.start()))
    for m in re.finditer(r"\.\s*assume\s*\(", body_masked):
        found.append(("assume", m.start()))
    for m in re.finditer(r"\.\s*(copy_from_slice|clone_from_slice|split_at|split_at_mut|swap_remove|remove|insert|split_off|truncate|drain|swap)\s*\(", body_masked):
        found.append((m.group(1), m.start()))
    for m in re.finditer(r"\bas\s+" + INT_TYPES + r"\b", body_masked):
        found.append(("cast", m.start()))
    # indexing / slicing: `[` directly after an identifier, `)` or `]`
    for m in re.finditer(r"\[", body_masked):
        i = m.start()
        j = i - 1
        while j >= 0 and body_masked[j] in " \t":
            j -= 1
        if j < 0:
            continue
        ch = body_masked[j]
        if ch in ")]":
            prev_ok = True
        elif ch.isalnum() or ch == "_":
            k = j
            while k >= 0 and (body_masked[k].isalnum() or body_masked[k] == "_"):
                k -= 1
            word = body_masked[k + 1:j + 1]
            prev_ok = word not in KW and not word[0].isdigit() and not (k >= 0 and body_masked[k] in "#'")
            # `#[attr]`
        else:
            prev_ok = False
        if not prev_ok:
            continue
        close = i
        depth = 0
        while close < len(body_masked):
            if body_masked[close] == "[":
                depth += 1
            elif body_masked[close] == "]":
                depth -= 1
                if depth == 0:
                    break
            close += 1
        inner = body_masked[i + 1:close]
        found.append(("slice" if ".." in inner else "index", i))
    # arithmetic (rustfmt puts spaces around binary operators)
    for m in re.finditer(r"(?<=[\w\)\]\?]) (\+|-|\*|/|%|<<|>>|\+=|-=|\*=|/=|%=|<<=|>>=) (?=[\w\(\&\-\*])", body_masked):
        found.append(("arith", m.start() + 1))
    found.sort(key=lambda x: x[1])
    return found


def _functions(masked):
    """(name, body_start, body_end) for every fn with a body, outermost first; nested fns are separate."""
    out = []
    for m in re.finditer(r"\bfn\s+([A-Za-z_]\w*)", masked):
        # find the opening brace of the body (skip the signature); a `;` first means no body
        i = m.end()
        depth = 0
        while i < len(masked):
            c = masked[i]
            if c in "(<[":
                depth += 1
            elif c in ")>]":
                depth -= 1 if not (c == ">" and masked[i - 1] == "-") else 0
            elif c == ";" and depth <= 0:
                i = -1
                break
            elif c == "{" and depth <= 0:
                break
            i += 1
        if i < 0 or i >= len(masked):
            continue
        out.append((m.group(1), i, _match_brace(masked, i)))
    return out


def ledger(repo):
    sites = []
    probs = []
    for f in FILES:
        src = gen.read(repo, SYNC + f)
        masked = _mask(src)
        src, masked = _strip_tests(src, masked)
        fns = _functions(masked)
        # attribute each offset to the innermost enclosing fn
        def owner(off):
            best = None
            for (name, a, b) in fns:
                if a <= off <= b and (best is None or a >= best[1]):
                    best = (name, a, b)
            return best[0] if best else "<item>"
        found = _sites_in(src, masked)
        counts = {}
        for kind, off in found:
            fn = owner(off)
            ls = src.rfind("\n", 0, off) + 1
            le = src.find("\n", off)
            line = re.sub(r"\s+", " ", src[ls:le if le >= 0 else len(src)]).strip()
            key = (fn, kind, line)
            counts[key] = counts.get(key, 0) + 1
            sites.append((f, fn, kind, line[:100], counts[key]))
    return sites, probs


def _const(src, name):
    """Value expression of `const name`, preferring the not(low-mem-usage) definition."""
    cands = []
    for m in re.finditer(r"((?:#\[[^\]]*\]\s*)*)(?:pub(?:\([^)]*\))?\s+)?const\s+%s\s*:\s*\w+\s*=\s*([^;]+);" % re.escape(name), src):
        attrs, expr = m.group(1), m.group(2).strip()
        if 'cfg(feature = "low-mem-usage")' in attrs:
            continue
        cands.append(expr)
    return cands[0] if cands else None


def _expr_to_coq(expr):
    expr = expr.strip()
    if not re.fullmatch(r"[A-Za-z0-9_\s\+\*\(\)]+", expr):
        return None
    return re.sub(r"\b(\d[\d_]*)\b", lambda m: m.group(1).replace("_", ""), expr)


def _variants(src, name):
    vs = gen.enum_variants(src, name)
    if vs is None:
        return None
    out = []
    for (vn, rest) in vs:
        rest = rest.strip()
        fields = []
        if rest.startswith("{"):
            body = rest[1:rest.rfind("}")]
            depth, cur, parts = 0, [], []
            for c in body:
                if c in "<({[":
                    depth += 1
                elif c in ">)}]":
                    depth -= 1
                if c == "," and depth == 0:
                    parts.append("".join(cur))
                    cur = []
                else:
                    cur.append(c)
            parts.append("".join(cur))
            for p in parts:
                p = re.sub(r"#\[[^\]]*\]", "", p).strip()
                if p:
                    fields.append(re.sub(r"\s+", "", p))
        elif rest.startswith("("):
            fields.append(re.sub(r"\s+", "", rest))
        out.append((vn, fields))
    return out


def _struct_fields(src, name):
    m = re.search(r"\bstruct\s+%s\b[^{;]*\{" % re.escape(name), gen.strip_rust_comments(src))
    if not m:
        return None
    s = gen.strip_rust_comments(src)
    b = _match_brace(s, m.end() - 1)
    body = s[m.end():b]
    depth, cur, parts = 0, [], []
    for c in body:
        if c in "<({[":
            depth += 1
        elif c in ">)}]":
            depth -= 1
        if c == "," and depth == 0:
            parts.append("".join(cur))
            cur = []
        else:
            cur.append(c)
    parts.append("".join(cur))
    out = []
    for p in parts:
        p = re.sub(r"#\[[^\]]*\]", "", p)
        p = re.sub(r"\bpub(\([^)]*\))?\s+", "", p)
        p = re.sub(r"\s+", "", p)
        if p:
            out.append(p)
    return out


def _ready_table(src, ty_prefix):
    """Names of the states for which `ready()` returns true."""
    m = re.search(r"pub fn ready\(&self\) -> bool \{", src)
    if not m:
        return None
    b = _match_brace(src, m.end() - 1)
    body = gen.strip_rust_comments(src[m.end():b])
    t = re.search(r"((?:\w+::)?\w+(?:\s*\|\s*(?:\w+::)?\w+)*)\s*=>\s*true", body)
    if not t:
        return None
    return [x.strip().split("::")[-1] for x in t.group(1).split("|")]


@gen.generator
def gen_sync(repo):
    probs = []
    out = [gen.HEADER, "Local Open Scope string_scope.\nLocal Open Scope N_scope.\n"]
    mod = gen.read(repo, SYNC + "mod.rs")
    req = gen.read(repo, SYNC + "requester.rs")
    resp = gen.read(repo, SYNC + "responder.rs")
    wire = gen.read(repo, SYNC + "wire.rs")
    storage = gen.read(repo, "crates/aranya-runtime/src/storage/mod.rs")
    command = gen.read(repo, "crates/aranya-runtime/src/command.rs")
    prior = gen.read(repo, "crates/aranya-runtime/src/prior.rs")
    out.append("(* %smod.rs, storage/mod.rs *)\n" % SYNC)
    e = _const(storage, "MAX_COMMAND_LENGTH")
    if e is None or _expr_to_coq(e) is None:
        probs.append("gen_sync: MAX_COMMAND_LENGTH not found")
    else:
        out.append("Definition MAX_COMMAND_LENGTH : N := %s.\n" % _expr_to_coq(e))
    for name in ["PEER_HEAD_MAX", "COMMAND_SAMPLE_MAX", "REQUEST_MISSING_MAX", "COMMAND_RESPONSE_MAX", "SEGMENT_BUFFER_MAX", "MAX_SYNC_MESSAGE_SIZE"]:
        e = _const(mod, name)
        c = _expr_to_coq(e) if e else None
        if c is None:
            probs.append("gen_sync: constant %s not found / not a +,* expression (%r)" % (name, e))
            continue
        out.append("Definition %s : N := %s.\n" % (name, c))
    for (src, name, cname) in [(wire, "SyncType", "sync_type_variants"), (wire, "SyncHelloType", "sync_hello_variants"),
                               (wire, "SubscribeResult", "subscribe_result_variants"),
                               (req, "SyncRequestMessage", "request_variants"), (resp, "SyncResponseMessage", "response_variants"),
                               (req, "SyncRequesterState", "requester_states"), (resp, "SyncResponderState", "responder_states"),
                               (mod, "SyncError", "sync_error_variants"),
                               (command, "Priority", "priority_variants"), (prior, "Prior", "prior_variants")]:
        vs = _variants(src, name)
        if not vs:
            probs.append("gen_sync: enum %s not found" % name)
            continue
        out.append("Definition %s : list (string * list string) := [%s].\n" % (
            cname, "; ".join("(%s, %s)" % (_s(v), _strs(fs)) for (v, fs) in vs)))
    for (src, name, cname) in [(wire, "CommandMeta", "command_meta_fields"), (command, "Address", "address_fields"),
                               (req, "SyncRequester", "requester_fields"), (resp, "SyncResponder", "responder_fields"),
                               (mod, "SyncCommand", "sync_command_fields")]:
        fs = _struct_fields(src, name)
        if not fs:
            probs.append("gen_sync: struct %s not found" % name)
            continue
        out.append("Definition %s : list string := %s.\n" % (cname, _strs(fs)))
    for (src, cname) in [(req, "requester_ready"), (resp, "responder_ready")]:
        t = _ready_table(src, "")
        if t is None:
            probs.append("gen_sync: ready() table of %s not found" % cname)
            continue
        out.append("Definition %s : list string := %s.\n" % (cname, _strs(t)))
    sites, p2 = ledger(repo)
    probs += p2
    out.append("(* panic-site ledger of the non-test code of sync/{mod,requester,responder,wire}.rs: (file, fn, kind, line, ordinal) *)\n")
    out.append("Definition site := (string * string * string * string * N)%type.\n")
    out.append("Definition sites_sync : list site := [\n  %s].\n" % ";\n  ".join(
        "(%s, %s, %s, %s, %d)" % (_s(f), _s(fn), _s(k), _s(l), n) for (f, fn, k, l, n) in sites))
    return "GenSync.v", "".join(out), probs
