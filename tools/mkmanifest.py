#!/usr/bin/env python3
"""Regenerates /verif/MANIFEST.json from checks/*.json fragments and not_applicable.json."""
import json, os, glob
R = os.path.dirname(os.path.dirname(os.path.abspath(__file__)))
props = [json.loads(l)["id"] for l in open(os.path.join(R, "properties.jsonl"))]
checks = []
for pid in props:
    mp = os.path.join(R, "checks", pid + ".json")
    if not (os.path.exists(mp) and os.path.exists(os.path.join(R, "checks", pid + ".py"))):
        continue
    m = json.load(open(mp))
    checks.append({
        "property_id": pid,
        "quick_cmd": "./check %s --tier quick" % pid,
        "thorough_cmd": "./check %s --tier thorough" % pid,
        "evidence_file": "/verif/evidence/%s.json" % pid,
        "replay_cmd_template": "./check %s --replay {path}" % pid,
        "engine": "coq-proof+correspondence",
        "level_claimed": {"category": "proof", "text": m["level_text"], "design_ref": m.get("design_ref", "DESIGN.md §7")},
        "level_note": m["level_note"],
        "technique": m["technique"],
    })
na = json.load(open(os.path.join(R, "not_applicable.json"))) if os.path.exists(os.path.join(R, "not_applicable.json")) else {}
claimed = {c["property_id"] for c in checks}
not_app = [{"property_id": p, "reason": na.get(p, "not claimed yet: the model/proof/correspondence for this property is not built in this round (see DESIGN.md §8); no alternative technique is substituted")}
           for p in props if p not in claimed]
hooks_commits = json.load(open(os.path.join(R, "hooks.json"))) if os.path.exists(os.path.join(R, "hooks.json")) else []
man = {
    "version": 1,
    "setup_cmd": "./setup",
    "hooks": {
        "guard": "--cfg aranya_core_verif",
        "enable": "RUSTFLAGS=\"--cfg aranya_core_verif\" (set by lib/vlib.py cargo_build for every harness crate, which depends on /repo/crates/* by path)",
        "baseline_off_cmd": "cd /repo && cargo nextest run --workspace --no-fail-fast --offline || cargo test --workspace --no-fail-fast --offline",
        "source_commits": hooks_commits,
        "add_only": True,
    },
    "engines": [{
        "name": "coq-proof+correspondence",
        "path": "/verif/coq (models, proofs, props) + /verif/lib/vlib.py + /verif/harness (Rust runners) + /verif/tools/gen.py (translator)",
        "serves_properties": sorted(claimed),
        "kind_free_text": "Rocq/Coq 8.16.1 machine-checked theorems about executable Gallina models; model tied to the code on every run by regenerated definitions (tools/gen.py) and by differential correspondence runs (model evaluated by vm_compute vs. the real crates linked by path)",
    }],
    "checks": checks,
    "not_applicable": not_app,
    "notes": "See DESIGN.md. ./check Cxx --tier quick|thorough. known_findings.json lists recorded defects.",
}
json.dump(man, open(os.path.join(R, "MANIFEST.json"), "w"), indent=1)
# known findings: merge fragments known_findings.d/*.json into the committed file
kf = {"findings": [], "fixed": []}
for fp in sorted(glob.glob(os.path.join(R, "known_findings.d", "*.json"))):
    frag = json.load(open(fp))
    for f in frag.get("findings", []):
        kf["findings"].append(f)
    for f in frag.get("fixed", []):
        kf["fixed"].append(f)
json.dump(kf, open(os.path.join(R, "known_findings.json"), "w"), indent=1)
print("claimed", len(checks), "unclaimed", len(not_app), "open findings", len(kf["findings"]), "fixed", len(kf["fixed"]))
