"""Translator plug-in of unit codec-cli.

GenCli.v (C31): the decision skeleton of `policy-compiler`'s `main` — the ordered
list of early exits / panicking `expect`s / file effects with the boolean
condition guarding each, over named atoms — and the summary of what
`validate::validate` returns in terms of "some trace reported a failure" /
"a trace could not be completed".

GenSer.v (C26): the variant lists of `TypeKind` and `Value` (name, payload text),
the numeric constants of the struct codec, and the list of `TypeKind` /
`Value` variants that `serialize.rs` has a clause for.

Everything is regenerated from the *current* text of the anchored files.  The
readers are small hand-written recognisers over the Rust token stream; they are
deliberately strict: any statement or expression that is not one of the shapes
they know is returned as a problem (which fails the translator obligation) and
is rendered as a term that does not type-check, so a proof can never silently
go through over a skeleton that was only partly understood.
"""
import re

import gen

MAIN_RS = "crates/aranya-policy-compiler/src/bin/policy-compiler/main.rs"
VALIDATE_RS = "crates/aranya-policy-compiler/src/validate.rs"


# ---------------------------------------------------------------- tiny Rust reader

def blank_comments(src):
    """Remove // and /* */ comments (string literals are respected)."""
    out, i, n = [], 0, len(src)
    while i < n:
        c = src[i]
        if c == '"':
            j = i + 1
            while j < n and src[j] != '"':
                j += 2 if src[j] == "\\" else 1
            out.append(src[i:j + 1])
            i = j + 1
        elif src.startswith("r#\"", i):
            j = src.index("\"#", i + 3)
            out.append(src[i:j + 2])
            i = j + 2
        elif src.startswith("//", i):
            j = src.find("\n", i)
            i = n if j < 0 else j
        elif src.startswith("/*", i):
            j = src.find("*/", i + 2)
            i = n if j < 0 else j + 2
        elif c == "'" and i + 2 < n and (src[i + 2] == "'" or (src[i + 1] == "\\" and src.find("'", i + 2) in (i + 3, i + 4))):
            j = src.find("'", i + 2)
            out.append(src[i:j + 1])
            i = j + 1
        else:
            out.append(c)
            i += 1
    return "".join(out)


TOKEN = re.compile(r'''"(?:[^"\\]|\\.)*"|r#".*?"#|'(?:[^'\\]|\\.)'|'[A-Za-z_][A-Za-z0-9_]*|[A-Za-z_][A-Za-z0-9_]*!?|\d[\dA-Za-z_.]*|::|->|=>|&&|\|\||==|!=|<=|>=|\.\.=?|[-+*/%^&|!=<>.,;:#?@$~(){}\[\]]''', re.S)


def tokens(src):
    src = blank_comments(src)
    toks, pos = [], 0
    for m in TOKEN.finditer(src):
        if src[pos:m.start()].strip():
            raise ValueError("untokenisable text %r" % src[pos:m.start()][:40])
        toks.append(m.group(0))
        pos = m.end()
    if src[pos:].strip():
        raise ValueError("untokenisable text %r" % src[pos:][:40])
    return toks


OPEN = {"(": ")", "[": "]", "{": "}"}
CLOSE = set(OPEN.values())


def match_close(toks, i):
    """index of the bracket closing toks[i]"""
    depth = 0
    for j in range(i, len(toks)):
        if toks[j] in OPEN:
            depth += 1
        elif toks[j] in CLOSE:
            depth -= 1
            if depth == 0:
                return j
    raise ValueError("unbalanced bracket")


def fn_body(toks, name):
    """tokens of the body of the unique non-nested `fn name`"""
    hits = [i for i in range(len(toks) - 1) if toks[i] == "fn" and toks[i + 1] == name]
    if len(hits) != 1:
        raise ValueError("expected exactly one `fn %s`, found %d" % (name, len(hits)))
    i = hits[0]
    while toks[i] != "{":
        if toks[i] in ("(", "["):
            i = match_close(toks, i)
        i += 1
    j = match_close(toks, i)
    return toks[i + 1:j]


BLOCK_HEADS = ("if", "match", "for", "while", "loop", "{", "unsafe")


def skip_pattern(toks, i):
    """`for <pat> in` / `if let <pat> =` / `while let <pat> =`: a pattern may contain braces that
    are not the statement's block; return the index just after the pattern."""
    n = len(toks)
    if i < n and toks[i] == "for":
        stop = "in"
    elif i + 1 < n and toks[i] in ("if", "while") and toks[i + 1] == "let":
        stop = "="
    else:
        return i
    j = i + 1
    while j < n and toks[j] != stop:
        j = match_close(toks, j) + 1 if toks[j] in OPEN else j + 1
    return j


def statements(toks):
    """Split a block body into statements; returns list of (tokens, has_semicolon)."""
    out, i, n = [], 0, len(toks)
    while i < n:
        start = i
        blocklike = toks[i] in BLOCK_HEADS
        i = skip_pattern(toks, i)
        while i < n:
            t = toks[i]
            if t in OPEN:
                j = match_close(toks, i)
                if t == "{" and blocklike:
                    # a block-like expression statement ends at its closing brace unless `else` follows
                    if j + 1 < n and toks[j + 1] == "else":
                        i = skip_pattern(toks, j + 2) if toks[j + 2:j + 3] == ["if"] else j + 1
                        continue
                    if j + 1 < n and toks[j + 1] in (".", "?"):
                        blocklike = False
                        i = j + 1
                        continue
                    out.append((toks[start:j + 1], False))
                    i = j + 1
                    break
                i = j + 1
                continue
            if t == ";":
                out.append((toks[start:i], True))
                i += 1
                break
            i += 1
        else:
            out.append((toks[start:n], False))
    return out


def txt(toks):
    return " ".join(toks)


def contains_seq(toks, seq):
    k = len(seq)
    return any(toks[i:i + k] == seq for i in range(len(toks) - k + 1))


CONTROL = {"return", "?", "break", "continue", "panic!", "unreachable!", "todo!", "unimplemented!", "assert!",
           "assert_eq!", "exit", "abort", "expect", "unwrap"}


def is_inert(toks):
    """no way to leave `main` or to abort from inside these tokens"""
    return not (set(toks) & CONTROL)


# ---------------------------------------------------------------- main.rs

ATOMS = ["read_ok", "parse_ok", "compile_ok", "no_validate", "validate_ret", "stub_ffi", "verbose",
         "create_ok", "write_ok"]
ARG_FLAGS = {"no_validate", "stub_ffi", "verbose"}


class Unknown(Exception):
    pass


def parse_cond(toks):
    """boolean expression over `args.<flag>` and `validate(&module)`"""
    pos = [0]

    def peek():
        return toks[pos[0]] if pos[0] < len(toks) else None

    def eat(t):
        if peek() != t:
            raise Unknown("condition: expected %r at %r" % (t, txt(toks[pos[0]:pos[0] + 4])))
        pos[0] += 1

    def p_or():
        a = p_and()
        while peek() == "||":
            pos[0] += 1
            a = "(COr %s %s)" % (a, p_and())
        return a

    def p_and():
        a = p_not()
        while peek() == "&&":
            pos[0] += 1
            a = "(CAnd %s %s)" % (a, p_not())
        return a

    def p_not():
        if peek() == "!":
            pos[0] += 1
            return "(CNot %s)" % p_not()
        return p_atom()

    def p_atom():
        t = peek()
        if t == "(":
            pos[0] += 1
            a = p_or()
            eat(")")
            return a
        if t == "args":
            pos[0] += 1
            eat(".")
            f = peek()
            pos[0] += 1
            if f not in ARG_FLAGS or peek() in ("(", "."):
                raise Unknown("condition: unknown command-line flag args.%s" % f)
            return "(CAtom A_%s)" % f
        if toks[pos[0]:pos[0] + 5] == ["validate", "(", "&", "module", ")"]:
            pos[0] += 5
            return "(CAtom A_validate_ret)"
        if t in ("true", "false"):
            pos[0] += 1
            return "(CConst %s)" % t
        raise Unknown("condition: cannot read %r" % txt(toks[pos[0]:pos[0] + 6]))

    c = p_or()
    if pos[0] != len(toks):
        raise Unknown("condition: trailing tokens %r" % txt(toks[pos[0]:]))
    return c


def exit_code(toks):
    """`return ExitCode::X` -> X"""
    if len(toks) == 4 and toks[0] == "return" and toks[1:3] == ["ExitCode", "::"] and toks[3] in ("SUCCESS", "FAILURE"):
        return "Exit" + toks[3].capitalize()
    raise Unknown("cannot read exit statement %r" % txt(toks))


def exiting_block(toks):
    """a `{ ... }` block made of inert statements followed by `return ExitCode::X;`  -> code,
    or None when the block is inert (cannot leave main)."""
    if toks[0] != "{" or match_close(toks, 0) != len(toks) - 1:
        raise Unknown("not a block: %r" % txt(toks)[:60])
    sts = statements(toks[1:-1])
    if all(is_inert(s) for s, _ in sts):
        return None
    for s, _ in sts[:-1]:
        if not is_inert(s):
            raise Unknown("block leaves main before its last statement: %r" % txt(s)[:80])
    return exit_code(sts[-1][0])


def scrutinee_atom(toks):
    if contains_seq(toks, ["parse_policy_document", "("]):
        return "parse_ok"
    if contains_seq(toks, [".", "compile", "(", ")"]):
        return "compile_ok"
    raise Unknown("match on an unknown fallible call: %r" % txt(toks)[:80])


def read_main_statement(st, semi, last):
    """-> list of Coq `step` terms for one top-level statement of main"""
    if last and not semi:
        if st[:2] == ["ExitCode", "::"] and len(st) == 3 and st[2] in ("SUCCESS", "FAILURE"):
            return ["SFinal Exit" + st[2].capitalize()]
        raise Unknown("tail expression of main: %r" % txt(st)[:80])
    if st[0] == "if":
        i = st.index("{")
        cond, blk = st[1:i], st[i:]
        j = match_close(blk, 0)
        if j != len(blk) - 1:
            raise Unknown("`if` with an else branch: %r" % txt(st)[:80])
        code = exiting_block(blk)
        c = parse_cond(cond)
        return [] if code is None else ["SExit %s %s" % (c, code)]
    body = st
    if st[0] == "let":
        if "=" not in st:
            raise Unknown("let without initialiser")
        body = st[st.index("=") + 1:]
    if body and body[0] == "match":
        i = body.index("{")
        if match_close(body, i) != len(body) - 1:
            raise Unknown("match followed by more tokens: %r" % txt(st)[:80])
        atom = scrutinee_atom(body[1:i])
        arms = body[i + 1:-1]
        # Ok(x) => x , Err(e) => { ...; return ExitCode::X; }
        if not (arms[0] == "Ok" and arms[1] == "(" and arms[3] == ")" and arms[4] == "=>" and arms[5] == arms[2] and arms[6] == ","
                and arms[7] == "Err" and arms[8] == "(" and arms[10] == ")" and arms[11] == "=>" and arms[12] == "{"):
            raise Unknown("match arms are not `Ok(x) => x, Err(e) => {..}`: %r" % txt(arms)[:100])
        k = match_close(arms, 12)
        if arms[k + 1:] not in ([], [","]):
            raise Unknown("extra match arm: %r" % txt(arms[k + 1:])[:60])
        code = exiting_block(arms[12:k + 1])
        if code is None:
            raise Unknown("Err arm does not leave main")
        return ["SExit (CNot (CAtom A_%s)) %s" % (atom, code)]
    # a statement that aborts the process when a fallible call fails
    if len(body) >= 5 and body[-4] == "expect" and body[-5] == "." and body[-3] == "(" and body[-1] == ")":
        call = body[:-5]
        if not is_inert(call):
            raise Unknown("nested control flow in %r" % txt(call)[:80])
        if contains_seq(call, ["read_to_string", "(", "&", "args", ".", "file", ")"]):
            return ["SExpect A_read_ok"]
        if contains_seq(call, ["File", "::", "create", "(", "out_path", ")"]):
            return ["SCreate"]
        if contains_seq(call, ["into_writer", "(", "&", "module", ","]):
            return ["SWrite"]
        raise Unknown("unknown aborting call %r" % txt(call)[:80])
    if is_inert(body):
        if contains_seq(body, ["File", "::", "create"]) or contains_seq(body, ["into_writer"]) or contains_seq(body, ["write"]):
            raise Unknown("file effect in an unrecognised shape: %r" % txt(st)[:80])
        return []
    raise Unknown("statement of main not understood: %r" % txt(st)[:100])


def read_main(src):
    problems, steps = [], []
    try:
        body = fn_body(tokens(src), "main")
        sts = statements(body)
    except (ValueError, IndexError) as e:
        return ["SUnknown"], ["main.rs: %s" % e]
    for k, (st, semi) in enumerate(sts):
        try:
            steps += read_main_statement(st, semi, k == len(sts) - 1)
        except (Unknown, ValueError, IndexError) as e:
            problems.append("main.rs statement %d: %s" % (k, e))
            steps.append("SUnknown (* %s *)" % txt(st)[:60].replace("*)", "* )"))
    if not any(s.startswith("SFinal") for s in steps):
        problems.append("main.rs: no tail exit code found")
    return steps, problems


# ---------------------------------------------------------------- validate.rs

def read_validate(src):
    """-> (dict of Coq terms, problems)"""
    problems = []
    out = {"init": "VUnknown", "on_failure": "VUnknown", "on_error": "VUnknown", "result": "VUnknown"}
    try:
        toks = tokens(src)
        body = fn_body(toks, "validate")
        sts = statements(body)
    except (ValueError, IndexError) as e:
        return out, ["validate.rs: %s" % e]
    sig = toks[toks.index("validate") - 1: toks.index("validate") + 12]
    if "bool" not in sig:
        problems.append("validate.rs: validate no longer returns bool: %r" % txt(sig))
    loops = []
    flag = None
    for k, (st, semi) in enumerate(sts):
        last = k == len(sts) - 1
        if st[0] == "let" and st[1] == "mut" and len(st) == 5 and st[3] == "=" and st[4] in ("true", "false"):
            if flag is not None:
                problems.append("validate.rs: second mutable flag %s" % st[2])
            flag = st[2]
            out["init"] = "VConst %s" % st[4]
        elif st[0] == "let" and is_inert(st):
            pass
        elif st[0] == "for":
            loops.append(st)
        elif last and not semi:
            if flag and st == [flag]:
                out["result"] = "VFlag"
            elif flag and st == ["!", flag]:
                out["result"] = "VNotFlag"
            elif st in (["true"], ["false"]):
                out["result"] = "VConst %s" % st[0]
            else:
                problems.append("validate.rs: tail expression not understood: %r" % txt(st))
        else:
            problems.append("validate.rs: statement not understood: %r" % txt(st)[:80])
    if flag is None:
        problems.append("validate.rs: no `let mut <flag> = <bool>` found")
        return out, problems
    if len(loops) != 1:
        problems.append("validate.rs: expected exactly one loop over the labels, found %d" % len(loops))
        return out, problems
    loop = loops[0]
    lb = loop[loop.index("{") + 1:-1]
    # the loop body: inert statements, one `match l.ltype {..}` choosing analyzers (may hold unreachable!),
    # and `match tracer.trace(l) { Ok(failures) => {..} Err(e) => {..} }`
    trace_match = None
    for st, semi in statements(lb):
        if st[0] == "match" and contains_seq(st, [".", "trace", "("]):
            if trace_match is not None:
                problems.append("validate.rs: two trace matches")
            trace_match = st
        elif st[0] == "match" and contains_seq(st, ["ltype"]):
            inner = [t for t in st if t in CONTROL and t != "unreachable!"]
            if inner or flag in st:
                problems.append("validate.rs: analyzer selection leaves the loop or touches the flag")
        elif is_inert(st) and flag not in st:
            pass
        else:
            problems.append("validate.rs: loop statement not understood: %r" % txt(st)[:80])
    if trace_match is None:
        problems.append("validate.rs: no `match tracer.trace(l)`")
        return out, problems
    i = trace_match.index("{")
    arms = trace_match[i + 1:-1]
    try:
        if not (arms[0] == "Ok" and arms[1] == "(" and arms[3] == ")" and arms[4] == "=>" and arms[5] == "{"):
            raise Unknown("first arm is not Ok(..) => {..}")
        fails = arms[2]
        k = match_close(arms, 5)
        ok_blk = arms[6:k]
        rest = arms[k + 1:]
        if rest and rest[0] == ",":
            rest = rest[1:]
        if not (rest[0] == "Err" and rest[1] == "(" and rest[3] == ")" and rest[4] == "=>" and rest[5] == "{"):
            raise Unknown("second arm is not Err(..) => {..}")
        k2 = match_close(rest, 5)
        err_blk = rest[6:k2]
        if rest[k2 + 1:] not in ([], [","]):
            raise Unknown("extra arm")
        # Ok arm: exactly one statement, `for <pat> in <fails> { ...; flag = b; }`, nothing leaves
        oks = statements(ok_blk)
        if len(oks) != 1 or oks[0][0][0] != "for":
            raise Unknown("Ok arm is not a single for loop over the failures")
        f = oks[0][0]
        # find ` in <fails> {` at bracket depth 0 of the for header
        hdr_end = None
        d = 0
        for q, t in enumerate(f):
            if t in ("(", "["):
                d += 1
            elif t in (")", "]"):
                d -= 1
            elif t == "{" and d == 0 and q > 0 and f[q - 1] == fails and f[q - 2] == "in":
                hdr_end = q
                break
            elif t == "{" and d == 0:
                q2 = match_close(f, q)
                # struct pattern braces: skip
                continue
        if hdr_end is None:
            raise Unknown("the loop in the Ok arm does not iterate over `%s`" % fails)
        fb = f[hdr_end + 1:match_close(f, hdr_end)]
        assigns = []
        for st, semi in statements(fb):
            if len(st) == 3 and st[0] == flag and st[1] == "=" and st[2] in ("true", "false"):
                assigns.append(st[2])
            elif flag in st:
                raise Unknown("flag used in %r" % txt(st)[:60])
            elif set(st) & {"return", "break", "continue", "?"}:
                raise Unknown("per-failure loop leaves early: %r" % txt(st)[:60])
        if len(assigns) != 1:
            raise Unknown("expected one assignment to the flag per failure, found %d" % len(assigns))
        out["on_failure"] = "VConst %s" % assigns[0]
        # Err arm: inert statements then optionally `return <bool>` / `flag = b`
        act = None
        for st, semi in statements(err_blk):
            if st[0] == "return" and len(st) == 2 and st[1] in ("true", "false"):
                act = "VReturn %s" % st[1]
            elif st[0] == "return" and st[1:] == [flag]:
                act = "VReturnFlag"
            elif len(st) == 3 and st[0] == flag and st[1] == "=" and st[2] in ("true", "false"):
                act = "VSet %s" % st[2]
            elif st[0] in ("continue",) or (is_inert(st) and flag not in st):
                pass
            else:
                raise Unknown("Err arm statement %r" % txt(st)[:60])
        out["on_error"] = act or "VIgnore"
    except (Unknown, ValueError, IndexError) as e:
        problems.append("validate.rs: %s" % e)
    # no other assignment to the flag / return anywhere in the function
    nret = sum(1 for t in body if t == "return")
    nasg = sum(1 for q in range(1, len(body) - 1) if body[q] == flag and body[q + 1] == "=" and body[q - 1] != "mut")
    if nret > 1 or nasg > 1:
        problems.append("validate.rs: %d returns / %d flag assignments (at most one of each is understood)" % (nret, nasg))
    return out, problems


@gen.generator
def gen_cli(repo):
    main_src = gen.read(repo, MAIN_RS)
    val_src = gen.read(repo, VALIDATE_RS)
    steps, p1 = read_main(main_src)
    val, p2 = read_validate(val_src)
    text = gen.HEADER.replace("tools/gen.py", "tools/gen_codec_cli.py") + (
        "From Aranya Require Import model.CliSyntax.\n\n"
        "(* %s : fn main, top-level statements in order; statements that can neither leave main nor touch a file are omitted *)\n"
        "Definition main_steps : list step :=\n  [ %s ].\n\n"
        "(* %s : fn validate *)\n"
        "Definition validate_flag_init : vexpr := %s.        (* `let mut failed = ..` *)\n"
        "Definition validate_on_failure : vexpr := %s.       (* assignment executed once per reported TraceFailure *)\n"
        "Definition validate_on_trace_error : vaction := %s. (* the `Err(e)` arm of `match tracer.trace(l)` *)\n"
        "Definition validate_result : vexpr := %s.           (* tail expression *)\n"
        % (MAIN_RS, ";\n    ".join(steps), VALIDATE_RS, val["init"], val["on_failure"], val["on_error"], val["result"]))
    return "GenCli.v", text, p1 + p2


# ================================================================ GenSer.v (C26)

SERIALIZE_RS = "crates/aranya-policy-vm/src/serialize.rs"
VM_DATA_RS = "crates/aranya-policy-vm/src/data.rs"
MODULE_DATA_RS = "crates/aranya-policy-module/src/data.rs"
ID_RS = "crates/aranya-id/src/id.rs"


def coq_str(s):
    return '"%s"' % s.replace('"', '""')


def non_test(src):
    """source text without the trailing `#[cfg(test)] mod ... { }`"""
    i = src.find("#[cfg(test)]")
    return src if i < 0 else src[:i]


def match_arms(body, scrut_head):
    """arms of the first `match <scrut_head...> {` in a token list -> list of (pattern tokens, body tokens)"""
    for i in range(len(body)):
        if body[i] == "match" and body[i + 1:i + 1 + len(scrut_head)] == scrut_head:
            j = body.index("{", i)
            k = match_close(body, j)
            arms, q = [], j + 1
            while q < k:
                p0 = q
                while body[q] != "=>":
                    q = match_close(body, q) + 1 if body[q] in OPEN else q + 1
                pat = body[p0:q]
                q += 1
                b0 = q
                if body[q] == "{":
                    q = match_close(body, q) + 1
                else:
                    while q < k and body[q] != ",":
                        q = match_close(body, q) + 1 if body[q] in OPEN else q + 1
                arms.append((pat, body[b0:q]))
                if q < k and body[q] == ",":
                    q += 1
            return arms
    raise ValueError("no `match %s`" % " ".join(scrut_head))


PANIC_TOKENS = {"unwrap", "expect", "panic!", "unreachable!", "todo!", "unimplemented!", "assert!", "assert_eq!",
                "assert_ne!", "debug_assert!", "debug_assert_eq!", "copy_from_slice", "split_at", "split_at_mut"}


def panic_sites(toks):
    """panic-capable constructs of a token stream: named calls/macros, `as` casts, indexing, unchecked arithmetic"""
    out = []
    cur_fn = "<item>"
    for i, t in enumerate(toks):
        if t in ("fn", "const") and i + 1 < len(toks) and re.match(r"[A-Za-z_]", toks[i + 1]):
            cur_fn = toks[i + 1]
        if t in PANIC_TOKENS:
            out.append("%s in %s" % (t, cur_fn))
        elif t == "as" and i + 1 < len(toks) and re.fullmatch(r"[ui](8|16|32|64|128|size)", toks[i + 1]):
            out.append("as %s in %s" % (toks[i + 1], cur_fn))
        elif t == "[" and i > 0 and (re.match(r"[A-Za-z_)\]]", toks[i - 1]) and toks[i - 1] not in ("mut", "const", "in", "return", "let", "as")) \
                and not toks[i - 1].endswith("!") and toks[i - 1] != "#" and (i < 2 or toks[i - 2] != "#"):
            # `x[..]` indexing (attributes `#[..]`, array types/literals are excluded by the preceding token)
            if toks[i - 1] not in ("&", "<", ",", "(", "=", ":"):
                out.append("index %s[..] in %s" % (toks[i - 1], cur_fn))
        elif t in ("+", "-", "*", "/", "%", "<<", ">>") and i > 0 and toks[i - 1] not in ("(", ",", "=", "return", "=>", "{", "[", "&", "*", "->", ":", "<"):
            if not (t == "-" and toks[i + 1:i + 2] == [">"]) and not (t == "*" and toks[i - 1] in ("&&", "||", "!", ";", "|")):
                out.append("arith %s in %s" % (t, cur_fn))
    return out


@gen.generator
def gen_ser(repo):
    problems = []
    ser_src = gen.read(repo, SERIALIZE_RS)
    tk = gen.enum_variants(gen.read(repo, MODULE_DATA_RS), "TypeKind")
    vv = gen.enum_variants(gen.read(repo, VM_DATA_RS), "Value")
    se = gen.enum_variants(ser_src, "SerializeError")
    de = gen.enum_variants(ser_src, "DeserializeError")
    for nm, x in (("TypeKind", tk), ("Value", vv), ("SerializeError", se), ("DeserializeError", de)):
        if not x:
            problems.append("GenSer: enum %s not found" % nm)
    tk, vv, se, de = tk or [], vv or [], se or [], de or []
    norm = lambda p: re.sub(r"\s+", "", re.sub(r"#\[[^\]]*\]", "", p))
    # ID_SIZE
    id_size = "0 (* not found *)"
    m = re.search(r"const\s+ID_SIZE\s*:\s*u8\s*=\s*([^;]+);", ser_src)
    m2 = re.search(r"pub struct Id<[^>]*>\s*\{\s*bytes:\s*\[u8;\s*(\d+)\]", gen.read(repo, ID_RS))
    m3 = re.search(r"custom_id!\s*\{[^}]*pub struct BaseId;", gen.read(repo, ID_RS), re.S)
    if not m or re.sub(r"\s+", "", m.group(1)) != "size_of::<BaseId>()asu8":
        problems.append("GenSer: ID_SIZE is no longer `size_of::<BaseId>() as u8`")
    elif not m2 or not m3:
        problems.append("GenSer: cannot find the byte array of aranya_id::Id / the BaseId declaration")
    elif int(m2.group(1)) > 255:
        problems.append("GenSer: BaseId is %s bytes: `as u8` truncates" % m2.group(1))
    else:
        id_size = m2.group(1)
    # the arms of serialize_value / deserialize_value
    ser_arms, de_arms = [], []
    try:
        toks = tokens(non_test(ser_src))
        for pat, body in match_arms(fn_body(toks, "serialize_value"), ["v"]):
            names = [pat[i + 2] for i in range(len(pat) - 2) if pat[i] == "Value" and pat[i + 1] == "::"]
            if not names:
                problems.append("GenSer: serialize_value arm without Value:: pattern: %s" % txt(pat))
            cls = "InternalValue" if contains_seq(body, ["SerializeError", "::", "InternalValue"]) else \
                  ("error" if "Err" in body and "match" not in body else "encodes")
            ser_arms += [(n, cls) for n in names]
        for pat, body in match_arms(fn_body(toks, "deserialize_value"), ["kind"]):
            names = [pat[i + 2] for i in range(len(pat) - 2) if pat[i] == "TypeKind" and pat[i + 1] == "::"]
            if not names:
                problems.append("GenSer: deserialize_value arm without TypeKind:: pattern: %s" % txt(pat))
            cls = "BadInput" if body[:2] == ["return", "Err"] and "Bad" in body and len(body) <= 6 else "decodes"
            de_arms += [(n, cls) for n in names]
        sites = panic_sites(toks)
    except (ValueError, IndexError) as e:
        problems.append("GenSer: serialize.rs: %s" % e)
        sites = ["<unreadable>"]
    pairs = lambda xs: "[ " + ";\n    ".join("(%s, %s)" % (coq_str(a), coq_str(b)) for a, b in xs) + " ]"
    text = gen.HEADER.replace("tools/gen.py", "tools/gen_codec_cli.py") + (
        "Local Open Scope string_scope.\n\n"
        "(* %s : `bytes: [u8; N]` of aranya_id::Id; serialize.rs: ID_SIZE = size_of::<BaseId>() as u8 *)\n"
        "Definition id_size : N := %s.\n\n"
        "(* %s : enum TypeKind, variants in declaration order with their payload *)\n"
        "Definition typekind_variants : list (string * string) :=\n  %s.\n\n"
        "(* %s : enum Value *)\n"
        "Definition value_variants : list (string * string) :=\n  %s.\n\n"
        "(* %s : the arms of SerializeCtx::serialize_value (variant, what the arm does) *)\n"
        "Definition serialize_value_arms : list (string * string) :=\n  %s.\n\n"
        "(* the arms of DeserializeCtx::deserialize_value *)\n"
        "Definition deserialize_value_arms : list (string * string) :=\n  %s.\n\n"
        "Definition serialize_errors : list string := [ %s ].\n"
        "Definition deserialize_errors : list string := [ %s ].\n\n"
        "(* panic-capable constructs in the non-test part of serialize.rs *)\n"
        "Definition panic_sites_serialize_rs : list string := [ %s ].\n"
        % (ID_RS, id_size, MODULE_DATA_RS, pairs([(a, norm(b)) for a, b in tk]), VM_DATA_RS, pairs([(a, norm(b)) for a, b in vv]),
           SERIALIZE_RS, pairs(ser_arms), pairs(de_arms),
           "; ".join(coq_str(a) for a, _ in se), "; ".join(coq_str(a) for a, _ in de),
           "; ".join(coq_str(s) for s in sites)))
    return "GenSer.v", text, problems
