#!/usr/bin/env python3
"""Render docs/seeded_table.md from seeded/*/meta.json (independently written breaking changes and which check caught them)."""
import json, os, glob
R = os.path.dirname(os.path.dirname(os.path.abspath(__file__)))
rows = []
for d in sorted(glob.glob(os.path.join(R, "seeded", "*"))):
    mp = os.path.join(d, "meta.json")
    if not os.path.exists(mp): continue
    m = json.load(open(mp)); v = m.get("verification", {})
    c = v.get("check", {})
    caught = "yes (concrete input)" if v.get("caught_with_concrete_input") else ("yes (proof/correspondence break, no-failing-input-found)" if v.get("caught") else "NO")
    extra = m.get("caught_by_other") or ""
    rows.append((os.path.basename(d), m.get("property", "")[:4], (m.get("summary", "") or "").replace("\n", " ").replace("|", "/")[:260],
                 (m.get("needs_to_manifest", "") or "").replace("\n", " ").replace("|", "/")[:200], caught + ((" — " + extra) if extra else ""),
                 "; ".join(o.split("OBLIGATION FAILED: ")[-1][:70] for o in (c.get("failed_obligations") or [])[:2]).replace("|", "/")))
out = ["| seed | property | change | needs to manifest | caught by `./check` of that property | failing obligations (excerpt) |", "|---|---|---|---|---|---|"]
for r in rows: out.append("| %s | %s | %s | %s | %s | %s |" % r)
n = len(rows); y = sum(1 for r in rows if r[4].startswith("yes")); yc = sum(1 for r in rows if r[4].startswith("yes (concrete"))
out.append("")
out.append("Totals: %d validated seeded changes; %d reported as VIOLATION by the property's own check (%d with a concrete failing input as replay); %d not detected." % (n, y, yc, n - y))
open(os.path.join(R, "docs", "seeded_table.md"), "w").write("\n".join(out) + "\n")
print(out[-1])
