#!/usr/bin/env python3
"""Extract the last assistant text message of each sub-agent transcript into docs/reports/<agent>.md"""
import json, os, glob, sys
src = "/root/.claude/projects/-verif/35596b27-1383-4ca7-ab1a-2bdbd98bdbfd/subagents"
out = "/verif/docs/reports"
os.makedirs(out, exist_ok=True)
for p in sorted(glob.glob(src + "/agent-*.jsonl")):
    last = None; name = None; alls = []
    for line in open(p, errors="replace"):
        try: o = json.loads(line)
        except Exception: continue
        m = o.get("message") or {}
        if o.get("type") == "assistant" and isinstance(m.get("content"), list):
            txt = "".join(c.get("text", "") for c in m["content"] if c.get("type") == "text")
            if len(txt) > 800: last = txt
            if len(txt) > 3000: alls.append(txt)
        if o.get("type") == "user" and name is None and isinstance(m.get("content"), (str, list)):
            c = m["content"] if isinstance(m["content"], str) else " ".join(x.get("text", "") for x in m["content"] if isinstance(x, dict))
            import re
            mm = re.search(r"Your unit name: `([a-z\-]+)`", c)
            if mm: name = mm.group(1)
    if last:
        body = "\n\n---\n\n".join(alls) if alls else last
        open(os.path.join(out, (name or os.path.basename(p)[:-6]) + ".md"), "w").write(body)
        print(name, len(last))
