"""Translator plug-in of unit `crash` (C15).

GenCrash.v — the layout constants of crates/aranya-runtime/src/storage/linear/libc/imp.rs
(PAGE, ROOT_A, ROOT_B, FREE_START, PREALLOC_CHUNK, LEN_PREFIX_LEN), the field order of
`struct Root`, the order of the writes into the SipHash in `Root::calc_checksum`, the
initial values of `Root::new` / `Writer::create`, the tie-break of `Writer::open`, and the
order of the storage calls inside `Writer::commit`, `Writer::write_root`,
`File::fallocate`, `File::sync` and `File::dump_bytes` (barrier positions).
Data only: the algorithms are transcribed by hand in coq/model/Crash.v and pinned there
against these values.
"""
import re

import gen

IMP = "crates/aranya-runtime/src/storage/linear/libc/imp.rs"


def _cs(s):
    return '"' + s.replace('"', '""') + '"'


def _strs(xs):
    return "[" + "; ".join(_cs(x) for x in xs) + "]%string"


def _fn_body(src, header_re):
    """Text between the braces of the first fn whose header matches."""
    m = re.search(header_re, src)
    if not m:
        return None
    i = src.find("{", m.end() - 1)
    if i < 0:
        return None
    depth, j = 0, i
    while j < len(src):
        c = src[j]
        if c == "{":
            depth += 1
        elif c == "}":
            depth -= 1
            if depth == 0:
                return src[i + 1:j]
        j += 1
    return None


def _eval_const(expr, env):
    expr = expr.strip().replace("_", "") if re.fullmatch(r"[0-9_]+", expr.strip()) else expr.strip()
    if not re.fullmatch(r"[A-Za-z0-9_\s\*\+\(\)]+", expr):
        return None
    names = re.findall(r"[A-Za-z_][A-Za-z0-9_]*", expr)
    for n in names:
        if n not in env:
            return None
    try:
        return int(eval(expr, {"__builtins__": {}}, dict(env)))
    except Exception:
        return None


def _calls(body, pats):
    """Order in which the given call patterns occur in a function body (comments and
    `#[cfg(aranya_core_verif)]` hook statements removed)."""
    body = re.sub(r"#\[cfg\(aranya_core_verif\)\]\s*[^;]*;", "", body)
    found = []
    for name, pat in pats:
        for m in re.finditer(pat, body):
            found.append((m.start(), name))
    return [n for (_, n) in sorted(found)]


@gen.generator
def gen_crash(repo):
    probs = []
    src = gen.strip_rust_comments(gen.read(repo, IMP))
    # the test module is not part of the mechanism
    cut = src.find("#[cfg(test)]\nmod tests")
    if cut > 0:
        src = src[:cut]
    out = [gen.HEADER, "Open Scope Z_scope.\n", "(* %s *)\n" % IMP]
    env = {}
    for name in ["PAGE", "ROOT_A", "ROOT_B", "FREE_START", "PREALLOC_CHUNK", "LEN_PREFIX_LEN"]:
        e = gen.find_const(src, name)
        v = _eval_const(e, env) if e is not None else None
        if v is None:
            probs.append("GenCrash: cannot evaluate const %s (%r)" % (name, e))
            v = 0
        env[name] = v
        out.append("Definition %s : Z := %d.\n" % (name, v))
    # struct Root: field names and types in order
    m = re.search(r"struct\s+Root\s*\{([^}]*)\}", src)
    fields = []
    if m:
        for part in m.group(1).split(","):
            part = re.sub(r"#\[[^\]]*\]", "", part).strip()
            mm = re.match(r"(?:pub\s+)?([a-z_]+)\s*:\s*(.+)$", part, re.S)
            if mm:
                fields.append((mm.group(1), re.sub(r"\s+", "", mm.group(2))))
    else:
        probs.append("GenCrash: struct Root not found")
    out.append("Definition ROOT_FIELDS : list (string * string) := [%s]%%string.\n" %
               "; ".join("(%s, %s)" % (_cs(a), _cs(b)) for a, b in fields))
    # does Root derive serde's field-order (positional) encoding?
    m = re.search(r"#\[derive\(([^)]*)\)\]\s*struct\s+Root\b", src)
    derives = [d.strip() for d in m.group(1).split(",")] if m else []
    out.append("Definition ROOT_DERIVES : list string := %s.\n" % _strs(derives))
    # Root::new
    body = _fn_body(src, r"impl\s+Root\s*\{\s*fn\s+new\s*\(\s*\)\s*->\s*Self\s*\{")
    init = []
    if body:
        for mm in re.finditer(r"([a-z_]+)\s*:\s*([A-Za-z0-9_]+)\s*,", body):
            init.append((mm.group(1), mm.group(2)))
    else:
        probs.append("GenCrash: Root::new not found")
    out.append("Definition ROOT_NEW : list (string * string) := [%s]%%string.\n" %
               "; ".join("(%s, %s)" % (_cs(a), _cs(b)) for a, b in init))
    # calc_checksum: order of hasher writes
    body = _fn_body(src, r"fn\s+calc_checksum\s*\(\s*&self\s*\)\s*->\s*u64\s*\{")
    ck = []
    if body:
        for mm in re.finditer(r"hasher\.(write_[a-z0-9]+)\(\s*([^)]*?)\s*\)|for\s+offset\s+in\s+\[([^\]]*)\]|(SipHasher[0-9]*)::new\(\)|hasher\.(finish)\(\)", body):
            if mm.group(1):
                ck.append("%s(%s)" % (mm.group(1), re.sub(r"\s+", "", mm.group(2))))
            elif mm.group(3):
                ck.append("for[%s]" % re.sub(r"\s+", "", mm.group(3)))
            elif mm.group(4):
                ck.append("new:" + mm.group(4))
            else:
                ck.append("finish")
    else:
        probs.append("GenCrash: Root::calc_checksum not found")
    out.append("Definition CHECKSUM_ORDER : list string := %s.\n" % _strs(ck))
    # barrier / call order inside the protocol functions
    specs = [
        ("COMMIT_CALLS", r"fn\s+commit\s*\(\s*&mut\s+self", [
            ("append_at", r"self\.append_at\("), ("if_data_dirty", r"if\s+self\.data_dirty\b"),
            ("file.sync", r"self\.file\.sync\(\)"), ("write_root", r"self\.write_root\(\)"),
            ("set_heads", r"self\.root\.heads\s*="), ("set_fact_cache", r"self\.root\.fact_cache\s*="),
            ("clear_dirty", r"self\.data_dirty\s*=\s*false")]),
        ("WRITE_ROOT_CALLS", r"fn\s+write_root\s*\(\s*&mut\s+self", [
            ("generation+1", r"\.generation\s*\.checked_add\(1\)"), ("calc_checksum", r"self\.root\.calc_checksum\(\)"),
            ("slot=next_root", r"let\s+slot\s*=\s*self\.next_root"), ("file.dump(slot,root)", r"self\.file\.dump\(\s*slot\s*,\s*&self\.root\s*\)"),
            ("file.sync", r"self\.file\.sync\(\)"), ("next_root=other_root(slot)", r"self\.next_root\s*=\s*other_root\(\s*slot\s*\)")]),
        ("APPEND_AT_CALLS", r"fn\s+append_at\s*<", [
            ("offset=free_offset", r"let\s+offset\s*=\s*self\.root\.free_offset"), ("ensure_capacity", r"self\.ensure_capacity\(\s*end\s*\)"),
            ("dump_bytes", r"self\.file\.dump_bytes\(\s*offset\s*,"), ("free_offset=new", r"self\.root\.free_offset\s*=\s*new_offset"),
            ("set_dirty", r"self\.data_dirty\s*=\s*true")]),
        ("ENSURE_CAPACITY_CALLS", r"fn\s+ensure_capacity\s*\(\s*&mut\s+self", [
            ("if_end<=alloc_end", r"if\s+end\s*<=\s*self\.alloc_end"), ("while_new_end<end", r"while\s+new_end\s*<\s*end"),
            ("checked_add(PREALLOC_CHUNK)", r"\.checked_add\(\s*PREALLOC_CHUNK\s*\)"), ("fallocate(0,new_end)", r"self\.file\.fallocate\(\s*0\s*,\s*new_end\s*\)"),
            ("alloc_end=new_end", r"self\.alloc_end\s*=\s*new_end")]),
        ("FALLOCATE_CALLS", r"fn\s+fallocate\s*\(\s*&self", [
            ("libc::fallocate(mode0)", r"libc::fallocate\(\s*&self\.fd\s*,\s*0\s*,"), ("libc::fsync", r"libc::fsync\("), ("libc::fdatasync", r"libc::fdatasync\(")]),
        ("SYNC_CALLS", r"fn\s+sync\s*\(\s*&self", [
            ("libc::fsync", r"libc::fsync\("), ("libc::fdatasync", r"libc::fdatasync\(")]),
        ("DUMP_BYTES_CALLS", r"fn\s+dump_bytes\s*\(\s*&self", [
            ("write_all(offset,len_be)", r"self\.write_all\(\s*offset\s*,\s*&len\.to_be_bytes\(\)\s*\)"),
            ("write_all(offset2,bytes)", r"self\.write_all\(\s*offset2\s*,\s*bytes\s*\)"),
            ("offset2=offset+LEN_PREFIX_LEN", r"offset\s*\.checked_add\(\s*LEN_PREFIX_LEN\s*\)")]),
        ("CREATE_CALLS", r"fn\s+create\s*\(\s*fd\s*:\s*OwnedFd", [
            ("alloc_end=FREE_START+PREALLOC_CHUNK", r"let\s+alloc_end\s*=\s*const\s*\{\s*FREE_START\s*\+\s*PREALLOC_CHUNK\s*\}"),
            ("fallocate(0,alloc_end)", r"file\.fallocate\(\s*0\s*,\s*alloc_end\s*\)"), ("root=Root::new", r"root\s*:\s*Root::new\(\)"),
            ("next_root=ROOT_A", r"next_root\s*:\s*ROOT_A"), ("data_dirty=false", r"data_dirty\s*:\s*false")]),
        ("OPEN_CALLS", r"fn\s+open\s*\(\s*fd\s*:\s*OwnedFd", [
            ("load(ROOT_A).validate", r"file\.load\(\s*ROOT_A\s*\)\.and_then\(\s*Root::validate\s*\)"),
            ("load(ROOT_B).validate", r"file\.load\(\s*ROOT_B\s*\)\.and_then\(\s*Root::validate\s*\)"),
            ("cmp(a.gen,b.gen)", r"root_a\.generation\.cmp\(\s*&root_b\.generation\s*\)"),
            ("Less=>B", r"Ordering::Less\s*=>\s*\(\s*root_b\s*,\s*ROOT_B\s*\)"),
            ("Equal|Greater=>A", r"Ordering::Equal\s*\|\s*Ordering::Greater\s*=>\s*\(\s*root_a\s*,\s*ROOT_A\s*\)"),
            ("(Ok,Err)=>A", r"\(\s*Ok\(root_a\)\s*,\s*Err\(_\)\s*\)\s*=>\s*\(\s*root_a\s*,\s*ROOT_A\s*\)"),
            ("(Err,Ok)=>B", r"\(\s*Err\(_\)\s*,\s*Ok\(root_b\)\s*\)\s*=>\s*\(\s*root_b\s*,\s*ROOT_B\s*\)"),
            ("(Err,Err)=>Err", r"\(\s*Err\(e\)\s*,\s*Err\(_\)\s*\)\s*=>\s*return\s+Err\(e\)"),
            ("alloc_end=root.free_offset", r"let\s+alloc_end\s*=\s*root\.free_offset"),
            ("next_root=other_root(chosen)", r"next_root\s*:\s*other_root\(\s*chosen\s*\)"), ("data_dirty=false", r"data_dirty\s*:\s*false")]),
        ("VALIDATE_CALLS", r"fn\s+validate\s*\(\s*self\s*\)", [
            ("if_checksum!=calc", r"if\s+self\.checksum\s*!=\s*self\.calc_checksum\(\)"), ("Err", r"return\s+Err\("), ("Ok(self)", r"Ok\(self\)")]),
        ("OTHER_ROOT_BODY", r"fn\s+other_root\s*\(\s*slot\s*:\s*i64\s*\)", [
            ("if_slot==ROOT_A_then_ROOT_B_else_ROOT_A", r"if\s+slot\s*==\s*ROOT_A\s*\{\s*ROOT_B\s*\}\s*else\s*\{\s*ROOT_A\s*\}")]),
    ]
    for name, hdr, pats in specs:
        body = _fn_body(src, hdr)
        if body is None:
            probs.append("GenCrash: function for %s not found" % name)
            calls = []
        else:
            calls = _calls(body, pats)
        out.append("Definition %s : list string := %s.\n" % (name, _strs(calls)))
    return "GenCrash.v", "".join(out), probs
