"""Translator plug-in for the unit `braid` (C02, C03, C05).

Writes coq/gen/GenBraid.v from /repo's current source:
  * the variant order of `Priority` (its derived `Ord` is the declaration order) and whether
    `Ord` is still derived;
  * BRAID_BLOCK_ENTRIES (braiding.rs), BLOCK_ENTRIES / NUM_BLOCKS / ROOT_CAPACITY (convergence_map.rs);
  * shape facts of the strand heap and of the braid loop that the model transcribes:
    the strand key type, the reversed comparison, the cut-off comparison, the count test of
    `consume_entry`, the `count >= 2` insertion test of the BFS, the `len() != 1` test of `lone`.
"""
import re

import gen

BRAIDING = "crates/aranya-runtime/src/client/braiding.rs"
CONV = "crates/aranya-runtime/src/client/convergence_map.rs"
COMMAND = "crates/aranya-runtime/src/command.rs"


def _norm(s):
    return re.sub(r"\s+", " ", s)


@gen.generator
def gen_braid(repo):
    problems = []
    cmd = gen.read(repo, COMMAND)
    br = gen.strip_rust_comments(gen.read(repo, BRAIDING))
    cv = gen.strip_rust_comments(gen.read(repo, CONV))
    variants = gen.enum_variants(cmd, "Priority")
    if not variants:
        problems.append("gen_braid: enum Priority not found")
        variants = []
    m = re.search(r"#\[derive\(([^\]]*?)\)\]\s*pub enum Priority", gen.strip_rust_comments(cmd), re.S)
    derives = [x.strip() for x in m.group(1).split(",")] if m else []
    consts = {}
    for (src, name) in ((br, "BRAID_BLOCK_ENTRIES"), (cv, "BLOCK_ENTRIES"), (cv, "NUM_BLOCKS"), (cv, "ROOT_CAPACITY")):
        v = gen.find_const(src, name)
        if v is None or not re.fullmatch(r"[0-9_]+", v):
            problems.append("gen_braid: constant %s not found or not a literal (%r)" % (name, v))
            v = "0"
        consts[name] = int(v.replace("_", ""))
    nb = _norm(br)
    nc = _norm(cv)
    shapes = {
        "strand_key_is_priority_id": "key: (Priority, CmdId)" in nb and "(cmd.priority(), cmd.id())" in nb,
        "strand_ord_reversed": "self.key.cmp(&other.key).reverse()" in nb,
        "strand_heap_is_binary_heap": "BinaryHeap<Strand<S>>" in nb,
        "cutoff_is_le_lca": "if location.max_cut <= lca.max_cut {" in nb and "if head.max_cut <= lca.max_cut {" in nb,
        "heads_seeded_through_convergence": "if !convergence.should_continue(storage, head)? {" in nb,
        "merge_skipped_by_prior": "if matches!(prior, Prior::Merge(..)) {" in nb,
        "lone_is_len_one": "if self.heap.len() != 1 {" in nb,
        "second_finalize_refused": "if self.has_finalize { return Err(ClientError::ParallelFinalize); }" in nb,
        "bfs_inserts_count_ge_2": "if count >= 2 {" in nc,
        "bfs_cutoff_is_le_lca": "if loc.max_cut <= self.lca.max_cut { continue; }" in nc,
        "consume_decrements_above_one": ".count > 1 {" in nc,
        "disk_block_searched_before_install": "let block = self.read_block_from_disk(ri)?; if let Some(ei) = block.find(location) { let bi = self.install_block(ri, block)?; return self.consume_entry(bi, ei); } } ri = ri.checked_add(1)" in nc,
        "lru_is_first_strictly_lowest": "if self.storage.blocks[i].last_accessed < self.storage.blocks[lru].last_accessed { lru = i; }" in nc,
    }
    for k, v in shapes.items():
        if not v:
            problems.append("gen_braid: the source no longer has the shape %s the braid model transcribes" % k)
    text = gen.HEADER + "Open Scope string_scope.\n"
    text += "(* %s *)\nDefinition priority_variants : list string := [%s].\n" % (COMMAND, "; ".join('"%s"' % v[0] for v in variants))
    text += "Definition priority_derives_ord : bool := %s.\n" % ("true" if ("Ord" in derives and "PartialOrd" in derives) else "false")
    for k, v in consts.items():
        text += "Definition %s : N := %d%%N.\n" % (k.lower(), v)
    for k, v in shapes.items():
        text += "Definition %s : bool := %s.\n" % (k, "true" if v else "false")
    return ("GenBraid.v", text, problems)
