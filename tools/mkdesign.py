#!/usr/bin/env python3
"""Splice docs/asbuilt.md and docs/seeded.md (+ generated docs/seeded_table.md) into DESIGN.md between the markers."""
import os, re
R = os.path.dirname(os.path.dirname(os.path.abspath(__file__)))
s = open(os.path.join(R, "DESIGN.md")).read()
def splice(s, tag, body):
    a, b = "<!-- %s-BEGIN -->" % tag, "<!-- %s-END -->" % tag
    i, j = s.index(a) + len(a), s.index(b)
    return s[:i] + "\n" + body.strip("\n") + "\n" + s[j:]
s = splice(s, "ASBUILT", open(os.path.join(R, "docs", "asbuilt.md")).read())
seeded = open(os.path.join(R, "docs", "seeded.md")).read() if os.path.exists(os.path.join(R, "docs", "seeded.md")) else ""
table = open(os.path.join(R, "docs", "seeded_table.md")).read() if os.path.exists(os.path.join(R, "docs", "seeded_table.md")) else ""
s = splice(s, "SEEDED", seeded + "\n\n" + table)
open(os.path.join(R, "DESIGN.md"), "w").write(s)
print("DESIGN.md", len(s.splitlines()), "lines")
