"""Translator plug-in of unit `ids-text` (C46, C32).

GenB58.v  — the tables and constants of the base58 codec that `aranya-id` uses
            (`spideroak-base58`, version taken from /repo/Cargo.lock, source in
            the cargo registry) and the shape facts of crates/aranya-id/src/id.rs
            (id width, which String type, which serde visitor methods exist).
GenText.v — MAX_INLINE, the byte classes used by `Identifier::validate` /
            `Text::validate`, and the constructor ledger of
            crates/aranya-policy-text/src/{text,ident,repr}.rs.
"""
import glob
import os
import re

import gen


def _coq_list(xs):
    return "[" + "; ".join(str(x) for x in xs) + "]"


def _coq_str(s):
    return '"' + s.replace('"', '""') + '"'


def _coq_strs(xs):
    return "[" + "; ".join(_coq_str(x) for x in xs) + "]"


def _product(expr):
    """Evaluate `58 * 58 * …` / a plain integer; None for anything else."""
    expr = expr.strip()
    if not re.fullmatch(r"[0-9_\s\*]+", expr):
        return None
    v = 1
    for f in expr.split("*"):
        f = f.strip().replace("_", "")
        if not f:
            return None
        v *= int(f)
    return v


def _base58_dir(repo):
    lock = gen.read(repo, "Cargo.lock")
    m = re.search(r'name = "spideroak-base58"\nversion = "([^"]+)"', lock)
    if not m:
        return None, None
    ver = m.group(1)
    home = os.environ.get("CARGO_HOME", os.path.expanduser("~/.cargo"))
    cands = sorted(glob.glob(os.path.join(home, "registry", "src", "*", "spideroak-base58-" + ver)))
    return (cands[0] if cands else None), ver


@gen.generator
def gen_b58(repo):
    probs = []
    out = [gen.HEADER, "Open Scope N_scope.\n"]
    d, ver = _base58_dir(repo)
    if not d:
        return ("GenB58.v", "".join(out), ["GenB58: spideroak-base58 source not found in the cargo registry"])
    src = gen.strip_rust_comments(open(os.path.join(d, "src", "base58.rs"), encoding="utf-8").read())
    out.append("(* spideroak-base58 %s, src/base58.rs *)\n" % ver)
    out.append("Definition B58_CRATE_VERSION : string := %s%%string.\n" % _coq_str(ver))

    m = re.search(r"const\s+ALPHABET\s*:\s*\[u8;\s*(\d+)\]\s*=\s*\[(.*?)\];", src, re.S)
    if m:
        chars = re.findall(r"b'(\\?.)'", m.group(2))
        alpha = [ord(c[-1]) for c in chars]
        if len(alpha) != int(m.group(1)):
            probs.append("GenB58: ALPHABET length mismatch")
        out.append("Definition ALPHABET : list N := %s.\n" % _coq_list(alpha))
    else:
        probs.append("GenB58: ALPHABET not found")

    m = re.search(r"const\s+B58\s*:\s*\[u8;\s*(\d+)\]\s*=\s*\[(.*?)\];", src, re.S)
    if m:
        tab = [int(x) for x in re.findall(r"\d+", m.group(2))]
        if len(tab) != int(m.group(1)):
            probs.append("GenB58: B58 table length mismatch")
        out.append("Definition B58 : list N := %s.\n" % _coq_list(tab))
    else:
        probs.append("GenB58: B58 table not found")

    m = re.search(r"const\s+RADII\s*:\s*\[u64;\s*(\d+)\]\s*=\s*\[(.*?)\];", src, re.S)
    if m:
        ents = [_product(e) for e in m.group(2).split(",") if e.strip()]
        if None in ents or len(ents) != int(m.group(1)):
            probs.append("GenB58: RADII not understood")
            ents = [e or 0 for e in ents]
        out.append("Definition RADII : list N := %s.\n" % _coq_list(ents))
    else:
        probs.append("GenB58: RADII not found")

    m = re.search(r"const\s+RADIX\s*:\s*u64\s*=\s*([^;]+);", src)
    v = _product(m.group(1)) if m else None
    if v is None:
        probs.append("GenB58: RADIX not found")
        v = 0
    out.append("Definition RADIX : N := %d.\n" % v)

    m = re.search(r"const\s+B58_SIZE\s*:\s*usize\s*=\s*\(\$size\s*\*\s*(\d+)\)\s*/\s*(\d+)\s*;", src)
    if m:
        out.append("Definition B58_SIZE_NUM : N := %s.\nDefinition B58_SIZE_DEN : N := %s.\n" % (m.group(1), m.group(2)))
    else:
        probs.append("GenB58: B58_SIZE formula not found")
    m = re.search(r"const\s+BUFFER_SIZE\s*:\s*usize\s*=\s*Self::B58_SIZE\s*\+\s*(\d+)\s*;", src)
    if not m:
        probs.append("GenB58: BUFFER_SIZE formula changed")
    m = re.search(r"data:\s*\[b'(.)';\s*Self::BUFFER_SIZE\]", src)
    if m:
        out.append("Definition FILL : N := %d.\n" % ord(m.group(1)))
    else:
        probs.append("GenB58: Default fill byte not found")
    m = re.search(r"\.chunks\((\d+)\)", src)
    if m:
        out.append("Definition DECODE_CHUNK : N := %s.\n" % m.group(1))
    else:
        probs.append("GenB58: decode chunk width not found")
    m = re.search(r"for\s+_\s+in\s+0\.\.(\d+)\s*\{", src)
    if m:
        out.append("Definition ENCODE_CHUNK : N := %s.\n" % m.group(1))
    else:
        probs.append("GenB58: encode chunk width not found")
    m = re.search(r"encode_x!\s*\{(.*?)\}", src, re.S)
    sizes = dict((a, int(b)) for a, b in re.findall(r"(\w+)\s*=>\s*(\d+)", m.group(1))) if m else {}

    # ---- crates/aranya-id/src/id.rs
    idsrc = gen.strip_rust_comments(gen.read(repo, "crates/aranya-id/src/id.rs"))
    out.append("(* crates/aranya-id/src/id.rs *)\n")
    m = re.search(r"pub\s+struct\s+Id<[^>]*>\s*\{\s*bytes:\s*\[u8;\s*(\d+)\]", idsrc)
    if m:
        out.append("Definition ID_BYTES : N := %s.\n" % m.group(1))
    else:
        probs.append("GenB58: Id.bytes width not found")
    m1 = re.search(r"spideroak_base58::(\w+)::decode\(", idsrc)
    m2 = re.search(r"type\s+Output\s*=\s*spideroak_base58::(\w+)\s*;", idsrc)
    if m1 and m2:
        out.append("Definition ID_DECODE_TYPE : string := %s%%string.\nDefinition ID_ENCODE_TYPE : string := %s%%string.\n"
                   % (_coq_str(m1.group(1)), _coq_str(m2.group(1))))
        out.append("Definition ID_STRING_BYTES : N := %d.\n" % sizes.get(m1.group(1), 0))
    else:
        probs.append("GenB58: base58 string type used by Id not found")
    # serde visitor inventory: (visitor struct, visit_* methods implemented)
    vis = []
    for mm in re.finditer(r"impl<[^>]*>\s*Visitor<[^>]*>\s*for\s+(\w+)<[^>]*>\s*\{", idsrc):
        i = mm.end()
        depth = 1
        j = i
        while j < len(idsrc) and depth:
            if idsrc[j] == "{":
                depth += 1
            elif idsrc[j] == "}":
                depth -= 1
            j += 1
        body = idsrc[i:j]
        vis.append((mm.group(1), re.findall(r"fn\s+(visit_\w+)", body)))
    out.append("Definition ID_VISITORS : list (string * list string) := [%s]%%string.\n"
               % "; ".join("(%s, %s)" % (_coq_str(n), _coq_strs(ms)) for n, ms in vis))
    # the four (de)serializer calls, in source order
    calls = re.findall(r"(?:serializer|deserializer)\.((?:de)?serialize_\w+)\(", idsrc)
    out.append("Definition ID_SERDE_CALLS : list string := %s%%string.\n" % _coq_strs(calls))
    hr = len(re.findall(r"\.is_human_readable\(\)", idsrc))
    out.append("Definition ID_HR_BRANCHES : N := %d.\n" % hr)
    return ("GenB58.v", "".join(out), probs)
