"""Translator plug-in of unit `ids-text` (C46, C32).

GenB58.v  — the tables and constants of the base58 codec that `aranya-id` uses
            (`spideroak-base58`, version taken from /repo/Cargo.lock, source in
            the cargo registry) and the shape facts of crates/aranya-id/src/id.rs
            (id width, which String type, which serde visitor methods exist).
GenText.v — MAX_INLINE, the byte classes used by `Identifier::validate` /
            `Text::validate`, and the constructor ledger of
            crates/aranya-policy-text/src/{text,ident,repr}.rs.
"""
import glob
import os
import re

import gen


def _coq_list(xs):
    return "[" + "; ".join(str(x) for x in xs) + "]"


def _coq_str(s):
    return '"' + s.replace('"', '""') + '"'


def _coq_strs(xs):
    return "[" + "; ".join(_coq_str(x) for x in xs) + "]"


def _product(expr):
    """Evaluate `58 * 58 * …` / a plain integer; None for anything else."""
    expr = expr.strip()
    if not re.fullmatch(r"[0-9_\s\*]+", expr):
        return None
    v = 1
    for f in expr.split("*"):
        f = f.strip().replace("_", "")
        if not f:
            return None
        v *= int(f)
    return v


def _base58_dir(repo):
    lock = gen.read(repo, "Cargo.lock")
    m = re.search(r'name = "spideroak-base58"\nversion = "([^"]+)"', lock)
    if not m:
        return None, None
    ver = m.group(1)
    home = os.environ.get("CARGO_HOME", os.path.expanduser("~/.cargo"))
    cands = sorted(glob.glob(os.path.join(home, "registry", "src", "*", "spideroak-base58-" + ver)))
    return (cands[0] if cands else None), ver


@gen.generator
def gen_b58(repo):
    probs = []
    out = [gen.HEADER, "Open Scope N_scope.\n"]
    d, ver = _base58_dir(repo)
    if not d:
        return ("GenB58.v", "".join(out), ["GenB58: spideroak-base58 source not found in the cargo registry"])
    src = gen.strip_rust_comments(open(os.path.join(d, "src", "base58.rs"), encoding="utf-8").read())
    out.append("(* spideroak-base58 %s, src/base58.rs *)\n" % ver)
    out.append("Definition B58_CRATE_VERSION : string := %s%%string.\n" % _coq_str(ver))

    m = re.search(r"const\s+ALPHABET\s*:\s*\[u8;\s*(\d+)\]\s*=\s*\[(.*?)\];", src, re.S)
    if m:
        chars = re.findall(r"b'(\\?.)'", m.group(2))
        alpha = [ord(c[-1]) for c in chars]
        if len(alpha) != int(m.group(1)):
            probs.append("GenB58: ALPHABET length mismatch")
        out.append("Definition ALPHABET : list N := %s.\n" % _coq_list(alpha))
    else:
        probs.append("GenB58: ALPHABET not found")

    m = re.search(r"const\s+B58\s*:\s*\[u8;\s*(\d+)\]\s*=\s*\[(.*?)\];", src, re.S)
    if m:
        tab = [int(x) for x in re.findall(r"\d+", m.group(2))]
        if len(tab) != int(m.group(1)):
            probs.append("GenB58: B58 table length mismatch")
        out.append("Definition B58 : list N := %s.\n" % _coq_list(tab))
    else:
        probs.append("GenB58: B58 table not found")

    m = re.search(r"const\s+RADII\s*:\s*\[u64;\s*(\d+)\]\s*=\s*\[(.*?)\];", src, re.S)
    if m:
        ents = [_product(e) for e in m.group(2).split(",") if e.strip()]
        if None in ents or len(ents) != int(m.group(1)):
            probs.append("GenB58: RADII not understood")
            ents = [e or 0 for e in ents]
        out.append("Definition RADII : list N := %s.\n" % _coq_list(ents))
    else:
        probs.append("GenB58: RADII not found")

    m = re.search(r"const\s+RADIX\s*:\s*u64\s*=\s*([^;]+);", src)
    v = _product(m.group(1)) if m else None
    if v is None:
        probs.append("GenB58: RADIX not found")
        v = 0
    out.append("Definition RADIX : N := %d.\n" % v)
    m = re.search(r"const\s+REC\s*:\s*u64\s*=\s*(0x[0-9a-fA-F_]+|[0-9_]+)\s*;", src)
    if m:
        out.append("Definition REC : N := %d.\n" % int(m.group(1).replace("_", ""), 0))
    else:
        probs.append("GenB58: REC (reciprocal of RADIX) not found")

    m = re.search(r"const\s+B58_SIZE\s*:\s*usize\s*=\s*\(\$size\s*\*\s*(\d+)\)\s*/\s*(\d+)\s*;", src)
    if m:
        out.append("Definition B58_SIZE_NUM : N := %s.\nDefinition B58_SIZE_DEN : N := %s.\n" % (m.group(1), m.group(2)))
    else:
        probs.append("GenB58: B58_SIZE formula not found")
    m = re.search(r"const\s+BUFFER_SIZE\s*:\s*usize\s*=\s*Self::B58_SIZE\s*\+\s*(\d+)\s*;", src)
    if not m:
        probs.append("GenB58: BUFFER_SIZE formula changed")
    m = re.search(r"data:\s*\[b'(.)';\s*Self::BUFFER_SIZE\]", src)
    if m:
        out.append("Definition FILL : N := %d.\n" % ord(m.group(1)))
    else:
        probs.append("GenB58: Default fill byte not found")
    m = re.search(r"\.chunks\((\d+)\)", src)
    if m:
        out.append("Definition DECODE_CHUNK : N := %s.\n" % m.group(1))
    else:
        probs.append("GenB58: decode chunk width not found")
    m = re.search(r"for\s+_\s+in\s+0\.\.(\d+)\s*\{", src)
    if m:
        out.append("Definition ENCODE_CHUNK : N := %s.\n" % m.group(1))
    else:
        probs.append("GenB58: encode chunk width not found")
    m = re.search(r"encode_x!\s*\{(.*?)\}", src, re.S)
    sizes = dict((a, int(b)) for a, b in re.findall(r"(\w+)\s*=>\s*(\d+)", m.group(1))) if m else {}

    # ---- crates/aranya-id/src/id.rs
    idsrc = gen.strip_rust_comments(gen.read(repo, "crates/aranya-id/src/id.rs"))
    out.append("(* crates/aranya-id/src/id.rs *)\n")
    m = re.search(r"pub\s+struct\s+Id<[^>]*>\s*\{\s*bytes:\s*\[u8;\s*(\d+)\]", idsrc)
    if m:
        out.append("Definition ID_BYTES : N := %s.\n" % m.group(1))
    else:
        probs.append("GenB58: Id.bytes width not found")
    m1 = re.search(r"spideroak_base58::(\w+)::decode\(", idsrc)
    m2 = re.search(r"type\s+Output\s*=\s*spideroak_base58::(\w+)\s*;", idsrc)
    if m1 and m2:
        out.append("Definition ID_DECODE_TYPE : string := %s%%string.\nDefinition ID_ENCODE_TYPE : string := %s%%string.\n"
                   % (_coq_str(m1.group(1)), _coq_str(m2.group(1))))
        out.append("Definition ID_STRING_BYTES : N := %d.\n" % sizes.get(m1.group(1), 0))
    else:
        probs.append("GenB58: base58 string type used by Id not found")
    # serde visitor inventory: (visitor struct, visit_* methods implemented)
    vis = []
    for mm in re.finditer(r"impl<[^>]*>\s*Visitor<[^>]*>\s*for\s+(\w+)<[^>]*>\s*\{", idsrc):
        i = mm.end()
        depth = 1
        j = i
        while j < len(idsrc) and depth:
            if idsrc[j] == "{":
                depth += 1
            elif idsrc[j] == "}":
                depth -= 1
            j += 1
        body = idsrc[i:j]
        vis.append((mm.group(1), re.findall(r"fn\s+(visit_\w+)", body)))
    out.append("Definition ID_VISITORS : list (string * list string) := [%s]%%string.\n"
               % "; ".join("(%s, %s)" % (_coq_str(n), _coq_strs(ms)) for n, ms in vis))
    # the four (de)serializer calls, in source order
    calls = re.findall(r"(?:serializer|deserializer)\.((?:de)?serialize_\w+)\(", idsrc)
    out.append("Definition ID_SERDE_CALLS : list string := %s%%string.\n" % _coq_strs(calls))
    hr = len(re.findall(r"\.is_human_readable\(\)", idsrc))
    out.append("Definition ID_HR_BRANCHES : N := %d.\n" % hr)
    return ("GenB58.v", "".join(out), probs)


# ====================================================================== GenText.v (C32)

ASCII_HELPERS = """(* u8::is_ascii_* as documented by the Rust standard library *)
Definition in_range (lo hi b : N) : bool := (lo <=? b) && (b <=? hi).
Definition is_ascii_uppercase (b : N) : bool := in_range 65 90 b.
Definition is_ascii_lowercase (b : N) : bool := in_range 97 122 b.
Definition is_ascii_alphabetic (b : N) : bool := is_ascii_uppercase b || is_ascii_lowercase b.
Definition is_ascii_digit (b : N) : bool := in_range 48 57 b.
Definition is_ascii_alphanumeric (b : N) : bool := is_ascii_alphabetic b || is_ascii_digit b.
Definition is_ascii (b : N) : bool := b <=? 127.
"""

_ASCII_FNS = {"is_ascii_uppercase", "is_ascii_lowercase", "is_ascii_alphabetic", "is_ascii_digit",
              "is_ascii_alphanumeric", "is_ascii"}


def _byte_lit(tok):
    """b'x' / b'\\n' / decimal → int, or None"""
    m = re.fullmatch(r"b'(\\?.)'", tok)
    if m:
        c = m.group(1)
        if len(c) == 1:
            return ord(c)
        return {"\\0": 0, "\\n": 10, "\\t": 9, "\\r": 13, "\\\\": 92, "\\'": 39}.get(c)
    if re.fullmatch(r"\d+", tok):
        return int(tok)
    return None


def _bool_expr(expr, var="b"):
    """Translate a Rust boolean expression over one byte variable into a Coq bool term; None if not understood."""
    toks = re.findall(r"b'\\?.'|\|\||&&|==|!=|<=|>=|[!()<>]|\.|\w+", expr)
    if "".join(toks) != re.sub(r"\s+", "", expr):
        return None
    pos = [0]

    def peek():
        return toks[pos[0]] if pos[0] < len(toks) else None

    def eat(t=None):
        x = peek()
        if t is not None and x != t:
            raise ValueError("expected %s got %s" % (t, x))
        pos[0] += 1
        return x

    def p_or():
        l = p_and()
        while peek() == "||":
            eat()
            l = "(%s || %s)" % (l, p_and())
        return l

    def p_and():
        l = p_not()
        while peek() == "&&":
            eat()
            l = "(%s && %s)" % (l, p_not())
        return l

    def p_not():
        if peek() == "!":
            eat()
            return "(negb %s)" % p_not()
        return p_atom()

    def p_atom():
        t = eat()
        if t == "(":
            e = p_or()
            eat(")")
            return e
        if t == var or t == "*" + var:
            if peek() == ".":
                eat()
                fn = eat()
                eat("(")
                eat(")")
                if fn not in _ASCII_FNS:
                    raise ValueError("unknown method " + fn)
                return "(%s %s)" % (fn, var)
            op = eat()
            lit = _byte_lit(eat())
            if lit is None:
                raise ValueError("literal")
            coq = {"==": "(%s =? %d)", "!=": "(negb (%s =? %d))", "<=": "(%s <=? %d)", ">=": "(%d <=? %s)",
                   "<": "(%s <? %d)", ">": "(%d <? %s)"}[op]
            return coq % ((lit, var) if op in (">=", ">") else (var, lit))
        raise ValueError("atom " + str(t))
    try:
        e = p_or()
        if pos[0] != len(toks):
            return None
        return e
    except (ValueError, KeyError, TypeError):
        return None


def _match_brace(s, i, open_c="{", close_c="}"):
    """s[i] is the opening bracket; returns index just past the matching close."""
    depth = 0
    j = i
    while j < len(s):
        if s[j] == open_c:
            depth += 1
        elif s[j] == close_c:
            depth -= 1
            if depth == 0:
                return j + 1
        j += 1
    return len(s)


def _strip_macro(body, name):
    """Remove `name!( … )` invocations (balanced)."""
    out = []
    i = 0
    pat = re.compile(r"\b%s!\s*\(" % re.escape(name))
    while True:
        m = pat.search(body, i)
        if not m:
            out.append(body[i:])
            break
        out.append(body[i:m.start()])
        i = _match_brace(body, m.end() - 1, "(", ")")
    return "".join(out)


def _strip_strings(s):
    return re.sub(r'"(?:[^"\\]|\\.)*"', '""', s)


def _ctx_name(header):
    h = header.strip()
    h = re.sub(r"\bwhere\b.*$", "", h, flags=re.S)
    if h.startswith("<"):
        h = h[_match_brace(h, 0, "<", ">"):]
    h = re.sub(r"\s+", " ", h).strip()
    h = h.replace("serde::", "").replace("de::", "").replace("rkyv::bytecheck::", "").replace("core::", "")
    return h


def _functions(src):
    """[(context, fn name, signature, body)] for every fn inside an impl block and every free fn."""
    out = []
    for m in re.finditer(r"\bimpl\b([^{;]*)\{", src):
        end = _match_brace(src, m.end() - 1)
        block = src[m.end():end - 1]
        ctx = _ctx_name(m.group(1))
        for f in re.finditer(r"\bfn\s+(\w+)\s*([^{;]*)\{", block):
            bend = _match_brace(block, f.end() - 1)
            pre = block[max(0, f.start() - 40):f.start()]
            out.append((ctx, f.group(1), pre.split("\n")[-1] + " fn " + f.group(2), block[f.end():bend - 1]))
    return out


def _ret_type(sig):
    if "->" not in sig:
        return ""
    return sig.split("->", 1)[1]


def _is_ctor(sig, body):
    ret = re.sub(r"\bwhere\b.*$", "", _ret_type(sig), flags=re.S)
    ret = re.sub(r"Self::(Target|Err|Error)\b", "", ret)
    if re.search(r"(?<![&\w])(Self|Text|Identifier)\b", ret):
        return True
    return bool(re.search(r"(?<![A-Za-z_])(Self|Text|Identifier)\s*\(", body))


def _derives(src, struct):
    m = re.search(r"((?:#\[[^\]]*\]\s*|///[^\n]*\n\s*)*)pub\s+struct\s+%s\b\s*\(([^;]*)\);" % struct, src)
    if not m:
        return None, None
    ds = []
    for a in re.finditer(r"#\[derive\((.*?)\)\]", m.group(1), re.S):
        ds += [re.sub(r"\s+", "", x) for x in a.group(1).split(",") if x.strip()]
    return ds, re.sub(r"\s+", " ", m.group(2)).strip()


@gen.generator
def gen_text(repro):
    repo = repro
    probs = []
    out = [gen.HEADER, "Open Scope N_scope.\nOpen Scope bool_scope.\n", ASCII_HELPERS]
    base = "crates/aranya-policy-text/src/"
    raw = {}
    for fn in sorted(os.listdir(os.path.join(repo, base))):
        if fn.endswith(".rs"):
            raw[fn] = gen.read(repo, base + fn)
    src = {k: gen.strip_rust_comments(_strip_strings(v)) for k, v in raw.items()}
    keep_doc = {k: re.sub(r"(?<!/)//(?!/)[^\n]*", "", v) for k, v in raw.items()}

    # ---- repr.rs
    rp = src.get("repr.rs", "")
    m = re.search(r"const\s+MAX_INLINE\s*:\s*usize\s*=\s*([^;]+);", rp)
    if m:
        e = re.sub(r"(?:core::mem::|std::mem::|mem::)?size_of::<usize>\(\)", "USIZE_BYTES", m.group(1)).strip()
        if re.fullmatch(r"[0-9\s\*\+\-\(\)]*(USIZE_BYTES[0-9\s\*\+\-\(\)]*)*", e):
            out.append("(* repr.rs: const MAX_INLINE: usize = %s;  (64-bit target) *)\n" % m.group(1).strip())
            out.append("Definition USIZE_BYTES : N := 8.\nDefinition MAX_INLINE : N := %s.\n" % e)
        else:
            probs.append("GenText: MAX_INLINE expression not understood: " + e)
    else:
        probs.append("GenText: MAX_INLINE not found")
    m = re.search(r"enum\s+Repr\s*\{(.*?)\n\}", rp, re.S)
    if m:
        vs = gen.enum_variants(rp, "Repr") or []
        out.append("Definition REPR_VARIANTS : list string := %s%%string.\n" % _coq_strs([v[0] for v in vs]))
        ml = re.search(r"Inline\s*\{\s*bytes:\s*\[u8;\s*MAX_INLINE\]\s*,\s*len:\s*u(\d+)\s*\}", m.group(1))
        if ml:
            out.append("Definition INLINE_LEN_BITS : N := %s.\n" % ml.group(1))
        else:
            probs.append("GenText: Repr::Inline shape changed")
    else:
        probs.append("GenText: enum Repr not found")
    m = re.search(r"fn\s+from_str\s*\(s:\s*&str\)\s*->\s*Self\s*\{\s*let\s+len\s*=\s*s\.len\(\);\s*if\s+len\s*(<=|<)\s*MAX_INLINE\s*\{", rp)
    if m:
        out.append("Definition FROM_STR_INLINE_LE : bool := %s.\n" % ("true" if m.group(1) == "<=" else "false"))
    else:
        probs.append("GenText: Repr::from_str shape changed")
    # how Eq / Ord / Hash of Repr are defined: each must go through as_str on both sides
    through = []
    for tr, pat in (("PartialEq", r"self\.as_str\(\)\.eq\(other\.as_str\(\)\)"),
                    ("Ord", r"self\.as_str\(\)\.cmp\(other\.as_str\(\)\)"),
                    ("Hash", r"self\.as_str\(\)\.hash\(state\)")):
        mm = re.search(r"impl\s+(?:core::\w+::)?%s\s+for\s+Repr\s*\{" % tr, rp)
        ok = False
        if mm:
            blk = rp[mm.end():_match_brace(rp, mm.end() - 1)]
            ok = re.search(pat, blk) is not None
        through.append((tr, ok))
    out.append("Definition REPR_CONTENT_IMPLS : list (string * bool) := [%s]%%string.\n"
               % "; ".join("(%s, %s)" % (_coq_str(a), "true" if b else "false") for a, b in through))

    # ---- validators
    tx = src.get("text.rs", "")
    idn = src.get("ident.rs", "")
    m = re.search(r"\.bytes\(\)\.position\(\|b\|\s*(.*?)\)\s*\{", tx, re.S)
    e = _bool_expr(m.group(1)) if m else None
    if e:
        out.append("(* text.rs Text::validate: s.bytes().position(|b| %s) *)\nDefinition text_bad (b : N) : bool := %s.\n"
                   % (m.group(1).strip(), e))
    else:
        probs.append("GenText: Text::validate predicate not understood")
    fns = {(c, f): (s, b) for (c, f, s, b) in _functions(idn)}
    vb = fns.get(("Identifier", "validate"), ("", ""))[1]
    m0 = re.search(r"if\s+s\.is_empty\(\)\s*\{\s*return\s+Err", vb)
    out.append("Definition IDENT_REJECTS_EMPTY : bool := %s.\n" % ("true" if m0 else "false"))
    m1 = re.search(r"if\s+let\s+Some\(index\)\s*=\s*NonZeroUsize::new\(i\)\s*\{\s*if\s+(.*?)\s*\{\s*return\s+Err", vb, re.S)
    m2 = re.search(r"\}\s*else\s+if\s+(.*?)\s*\{\s*return\s+Err", vb, re.S)
    e1 = _bool_expr(m1.group(1)) if m1 else None
    e2 = _bool_expr(m2.group(1)) if m2 else None
    if e1 and e2 and re.search(r"for\s*\(i,\s*b\)\s*in\s*s\.bytes\(\)\.enumerate\(\)", vb):
        out.append("(* ident.rs Identifier::validate: tail bytes rejected when %s; first byte rejected when %s *)\n"
                   % (re.sub(r"\s+", " ", m1.group(1)), re.sub(r"\s+", " ", m2.group(1))))
        out.append("Definition ident_tail_bad (b : N) : bool := %s.\nDefinition ident_first_bad (b : N) : bool := %s.\n" % (e1, e2))
    else:
        probs.append("GenText: Identifier::validate shape not understood")

    # ---- constructor ledger
    entries = []
    for fn in sorted(src):
        for (ctx, name, sig, body) in _functions(src[fn]):
            if fn in ("text.rs", "ident.rs"):
                if not _is_ctor(sig, body):
                    continue
            elif not re.search(r"(?<![A-Za-z_])(Text|Identifier)\s*\(", body):
                continue                     # other files: only direct tuple-struct constructions matter
            core = _strip_macro(body, "debug_assert")
            validated = bool(re.search(r"\bvalidate\s*\(", core) or re.search(r"\.parse\(\)", core))
            entries.append((fn, "%s::%s" % (ctx, name), validated, "unsafe" in sig.split("fn")[0]))
    out.append("(* every fn of the crate that returns or builds a Text / Identifier: (file, impl::fn, reaches validate, unsafe fn) *)\n")
    out.append("Definition CTOR_LEDGER : list (string * string * bool * bool) := [\n  %s\n]%%string.\n"
               % ";\n  ".join("(%s, %s, %s, %s)" % (_coq_str(a), _coq_str(b), "true" if c else "false", "true" if d else "false")
                              for a, b, c, d in entries))
    for st, key, fsrc in (("Text", "TEXT", keep_doc.get("text.rs", "")), ("Identifier", "IDENT", keep_doc.get("ident.rs", ""))):
        ds, field = _derives(fsrc, st)
        if ds is None:
            probs.append("GenText: struct %s not found" % st)
            continue
        out.append("Definition %s_DERIVES : list string := %s%%string.\nDefinition %s_FIELD : string := %s%%string.\n"
                   % (key, _coq_strs(ds), key, _coq_str(field)))
    for st, key, fsrc in (("Text", "TEXT", tx), ("Identifier", "IDENT", idn)):
        out.append("Definition %s_BYTECHECK_VERIFY : bool := %s.\n"
                   % (key, "true" if re.search(r"#\[rkyv\(bytecheck\(verify\)\)\]\s*(?:#\[[^\]]*\]\s*)*pub\s+struct\s+%s\b" % st, fsrc) else "false"))
    return ("GenText.v", "".join(out), probs)
