"""Translator plug-in for the unit `crypto` (C39, C45, C34, C36, C37, C38).

Writes, from /repo's current source,

  coq/gen/GenAfc.v     (C39)  AFC wire constants (protocol version, message
                       types, header / data-header / AuthData codec shapes as
                       the code writes and reads them) and the inventory of
                       panic-capable sites of client.rs, header.rs, buf.rs and
                       afc/keys.rs (non-test code);
  coq/gen/GenKeyStore.v (C45) the system-call skeleton of the fs key store
                       (open flags of every openat, what OccupiedEntry::get /
                       remove and VacantEntry::drop call, in order);
  coq/gen/GenCrypto.v  (C34, C36-C38) for every tuple_hash / Id::new /
                       labeled_extract / labeled_expand / info-struct site in
                       the anchored crypto files: the domain-separation
                       literal and the ordered argument names.

Only data and shapes are extracted; the algorithms are hand-written models
tied by the correspondence runs.
"""
import re

import gen

CLIENT = "crates/aranya-fast-channels/src/client.rs"
HEADER = "crates/aranya-fast-channels/src/header.rs"
BUF = "crates/aranya-fast-channels/src/buf.rs"
KEYS = "crates/aranya-crypto/src/afc/keys.rs"


# ---------------------------------------------------------------- lexing helpers

def strip_code(src):
    """Remove comments; blank out string / char literal contents (keeps length irrelevant)."""
    out = []
    i, n = 0, len(src)
    while i < n:
        c = src[i]
        if src.startswith("//", i):
            j = src.find("\n", i)
            i = n if j < 0 else j
        elif src.startswith("/*", i):
            depth, i = 1, i + 2
            while i < n and depth:
                if src.startswith("/*", i):
                    depth += 1
                    i += 2
                elif src.startswith("*/", i):
                    depth -= 1
                    i += 2
                else:
                    i += 1
        elif c == '"':
            j = i + 1
            while j < n and src[j] != '"':
                j += 2 if src[j] == "\\" else 1
            out.append('"S"')
            i = j + 1
        elif c == "b" and src.startswith('b"', i):
            j = i + 2
            while j < n and src[j] != '"':
                j += 2 if src[j] == "\\" else 1
            out.append('b"S"')
            i = j + 1
        elif c == "'" and re.match(r"'(\\.|[^\\'])'", src[i:i + 4]):
            m = re.match(r"'(\\.|[^\\'])'", src[i:i + 4])
            out.append("'c'")
            i += m.end()
        else:
            out.append(c)
            i += 1
    return "".join(out)


def match_brace(src, i):
    """Index just past the `}` matching the `{` at src[i]."""
    depth = 0
    j = i
    while j < len(src):
        if src[j] == "{":
            depth += 1
        elif src[j] == "}":
            depth -= 1
            if depth == 0:
                return j + 1
        j += 1
    raise ValueError("unbalanced braces")


def drop_test_modules(src):
    """Remove `#[cfg(test)] mod x { ... }` blocks."""
    while True:
        m = re.search(r"#\[cfg\(test\)\]\s*(?:#\[[^\]]*\]\s*)*(?:pub\s+)?mod\s+\w+\s*\{", src)
        if not m:
            return src
        end = match_brace(src, m.end() - 1)
        src = src[:m.start()] + src[end:]


def raw_literal(src, pos):
    """The original (unstripped) string literal starting at/after pos."""
    m = re.compile(r'b?"((?:[^"\\]|\\.)*)"').search(src, pos)
    return m.group(1) if m else None


# ---------------------------------------------------------------- panic-site inventory

KINDS = [
    ("unwrap", re.compile(r"\.\s*unwrap\s*\(")),
    ("expect", re.compile(r"\.\s*expect\s*\(")),
    ("assume", re.compile(r"\.\s*assume\s*\(")),
    ("bug", re.compile(r"\bbug!\s*\(")),
    ("panic", re.compile(r"\b(?:panic|todo|unimplemented|unreachable)!\s*[\(\[]")),
    ("assert", re.compile(r"\b(?:debug_)?assert(?:_eq|_ne)?!\s*\(")),
    ("index", re.compile(r"(?<=[\w\)\]\?])\[")),
    ("arith", re.compile(r"(?<=[\w\)\]]) (?:\+|-|\*|/|%|<<|>>)=? (?=[\w\(&\*-])")),
    ("copy_from_slice", re.compile(r"\.\s*copy_from_slice\s*\(")),
    ("split_at", re.compile(r"\.\s*split_at(?:_mut)?\s*\(")),
]


def contexts(src):
    """[(start, end, name)] for every impl / trait block."""
    out = []
    for m in re.finditer(r"(?m)^[ \t]*(?:unsafe[ \t]+)?(?:pub(?:\([^)]*\))?[ \t]+)?(impl|trait)\b([^{;]*)\{", src):
        kind, head = m.group(1), m.group(2)
        try:
            end = match_brace(src, m.end() - 1)
        except ValueError:
            continue
        head = re.sub(r"\bwhere\b.*", "", head, flags=re.S)
        if kind == "impl":
            head = re.sub(r"^\s*<[^>]*(?:<[^>]*>[^>]*)*>", "", head)      # leading generics
        head = re.sub(r"<[^<>]*(?:<[^<>]*>[^<>]*)*>", "", head)             # generic arguments
        head = re.sub(r"\s*:\s*.*", "", head, flags=re.S) if kind == "trait" else head
        head = " ".join(head.replace("'_", "").split())
        name = ("trait " + head) if kind == "trait" else head
        out.append((m.start(), end, name))
    return out


def fn_items(src):
    """[(name, body_start, body_end)] for fns with a body and for initialised consts."""
    items = []
    for m in re.finditer(r"\bfn\s+([A-Za-z_]\w*)", src):
        i = m.end()
        depth = 0
        body = None
        while i < len(src):
            c = src[i]
            if c in "(<[":
                depth += 1
            elif c in ")>]":
                if not (c == ">" and src[i - 1] == "-"):
                    depth -= 1
            elif c == ";" and depth <= 0:
                break
            elif c == "{" and depth <= 0:
                body = i
                break
            i += 1
        if body is None:
            continue
        items.append((m.group(1), body, match_brace(src, body)))
    for m in re.finditer(r"\bconst\s+([A-Z_][A-Z0-9_]*)\s*:\s*[^=;{]+=", src):
        i = m.end()
        depth = 0
        while i < len(src):
            c = src[i]
            if c in "({[":
                depth += 1
            elif c in ")}]":
                depth -= 1
            elif c == ";" and depth == 0:
                break
            i += 1
        items.append(("const " + m.group(1), m.end(), i))
    return items


def sites_of(repo, rel):
    src = drop_test_modules(strip_code(gen.read(repo, rel)))
    # macro definitions are templates, not code paths
    while True:
        m = re.search(r"\bmacro_rules!\s*\w+\s*\{", src)
        if not m:
            break
        src = src[:m.start()] + src[match_brace(src, m.end() - 1):]
    ctxs = contexts(src)
    items = fn_items(src)
    # innermost fn wins: drop sites of nested items from the outer one
    sites = []
    for (name, b, e) in sorted(items, key=lambda t: t[1]):
        inner = [(b2, e2) for (n2, b2, e2) in items if b < b2 and e2 <= e and (b2, e2) != (b, e)]
        ctx = ""
        best = None
        for (cs, ce, cn) in ctxs:
            if cs <= b and e <= ce and (best is None or cs > best):
                best, ctx = cs, cn
        path = (ctx + "::" + name) if ctx else name
        body = src[b:e]
        for (kind, rx) in KINDS:
            k = 0
            for mm in rx.finditer(body):
                pos = b + mm.start()
                if any(b2 <= pos < e2 for (b2, e2) in inner):
                    continue
                ls = src.rfind("\n", 0, pos) + 1
                le = src.find("\n", pos)
                line = " ".join(src[ls:le if le >= 0 else len(src)].split())[:90]
                sites.append((path, kind, k, line))
                k += 1
    return sites


def coq_str(s):
    return '"' + s.replace('"', '""') + '"'


# ---------------------------------------------------------------- GenAfc.v

@gen.generator
def gen_afc(repo):
    probs = []
    out = [gen.HEADER, "Local Open Scope string_scope.\n"]
    hdr = gen.read(repo, HEADER)
    hs = strip_code(hdr)
    out.append("(* %s *)\n" % HEADER)
    # protocol version and message types: `enum Version { V1 = 0x6f54 }`
    for enum in ("Version", "MsgType"):
        m = re.search(r"#\[repr\((\w+)\)\]\s*pub enum %s\s*\{([^}]*)\}" % enum, hs)
        if not m:
            probs.append("header.rs: enum %s with #[repr] not found" % enum)
            continue
        vs = re.findall(r"([A-Za-z_]\w*)\s*=\s*(0x[0-9a-fA-F]+|\d+)", m.group(2))
        out.append("Definition afc_%s_repr : string := %s.\n" % (enum.lower(), coq_str(m.group(1))))
        out.append("Definition afc_%s_variants : list (string * N) := [%s].\n" % (
            enum.lower(), "; ".join("(%s, %d%%N)" % (coq_str(n), int(v, 0)) for n, v in vs)))
    m = re.search(r"const fn current\(\) -> Self\s*\{\s*Self::(\w+)\s*\}", hs)
    out.append("Definition afc_version_current : string := %s.\n" % coq_str(m.group(1) if m else "?"))
    if not m:
        probs.append("header.rs: Version::current not found")
    # struct layouts
    for st in ("Header", "DataHeader"):
        m = re.search(r"struct %s\s*\{([^}]*)\}" % st, hs)
        if not m:
            probs.append("header.rs: struct %s not found" % st)
            continue
        fs = re.findall(r"(?:pub(?:\([^)]*\))?\s+)?([a-z_]\w*)\s*:\s*([A-Za-z_]\w*)", re.sub(r"#\[[^\]]*\]", "", m.group(1)))
        out.append("Definition afc_%s_fields : list (string * string) := [%s].\n" % (
            st.lower(), "; ".join("(%s, %s)" % (coq_str(a), coq_str(b)) for a, b in fs)))
    # codec bodies: the order of chunks and the byte order used
    for st in ("Header", "DataHeader"):
        m = re.search(r"impl %s\s*\{" % st, hs)
        if not m:
            probs.append("header.rs: impl %s not found" % st)
            continue
        body = hs[m.end():match_brace(hs, m.end() - 1)]
        enc = re.search(r"fn encode\b", body)
        par = re.search(r"fn try_parse\b", body)
        if not enc or not par:
            probs.append("header.rs: %s::encode/try_parse not found" % st)
            continue
        pb = body[body.index("{", par.end()):]
        pb = pb[:match_brace(pb, 0)]
        eb = body[body.index("{", enc.end()):]
        eb = eb[:match_brace(eb, 0)]
        # parse: sequence of `let (x, rest) = <src>.split_first_chunk()` and the conversions used
        chunks = re.findall(r"let \((\w+), (\w+)\) = (\w+)\s*\.split_first_chunk\(\)", pb)
        convs = re.findall(r"(\w+):\s*(?:(\w+)::(\w+)\()?\s*(u\d+)::(from_[lb]e_bytes)\(\*(\w+)\)", pb)
        out.append("Definition afc_%s_parse_chunks : list (string * string * string) := [%s].\n" % (
            st.lower(), "; ".join("(%s, %s, %s)" % tuple(map(coq_str, c)) for c in chunks)))
        out.append("Definition afc_%s_parse_fields : list (string * string * string * string) := [%s].\n" % (
            st.lower(), "; ".join("(%s, %s, %s, %s)" % (coq_str(c[0]), coq_str(c[3]), coq_str(c[4]), coq_str(c[5])) for c in convs)))
        out.append("Definition afc_%s_parse_checks_trailing : bool := %s.\n" % (
            st.lower(), "true" if re.search(r"if !rest\.is_empty\(\)\s*\{\s*bug!", pb) else "false"))
        echunks = re.findall(r"let \((\w+), (\w+)\) = (\w+)\s*\.split_first_chunk_mut\(\)", eb)
        writes = re.findall(r"\*(\w+) = self\.(\w+)\.(to_u\d+)\(\)\.(to_[lb]e_bytes)\(\)", eb)
        out.append("Definition afc_%s_encode_chunks : list (string * string * string) := [%s].\n" % (
            st.lower(), "; ".join("(%s, %s, %s)" % tuple(map(coq_str, c)) for c in echunks)))
        out.append("Definition afc_%s_encode_writes : list (string * string * string * string) := [%s].\n" % (
            st.lower(), "; ".join("(%s, %s, %s, %s)" % tuple(map(coq_str, c)) for c in writes)))
    # AuthData::to_bytes in afc/keys.rs
    ks = strip_code(gen.read(repo, KEYS))
    out.append("(* %s *)\n" % KEYS)
    m = re.search(r"struct AuthData\s*\{([^}]*)\}", ks)
    if m:
        fs = re.findall(r"pub\s+([a-z_]\w*)\s*:\s*([A-Za-z_]\w*)", m.group(1))
        out.append("Definition afc_authdata_fields : list (string * string) := [%s].\n" % (
            "; ".join("(%s, %s)" % (coq_str(a), coq_str(b)) for a, b in fs)))
    else:
        probs.append("keys.rs: struct AuthData not found")
    m = re.search(r"fn to_bytes\(&self\)[^{]*\{", ks)
    if m:
        body = ks[m.end() - 1:match_brace(ks, m.end() - 1)]
        w1 = re.findall(r"(LittleEndian|BigEndian)::write_(u\d+)\(&mut b\[(\d+)\.\.(\d+)\], self\.(\w+)\)", body)
        w2 = re.findall(r"b\[(\d+)\.\.(\d*)\]\.copy_from_slice\(self\.(\w+)\.as_bytes\(\)\)", body)
        out.append("Definition afc_authdata_int_writes : list (string * string * N * N * string) := [%s].\n" % (
            "; ".join("(%s, %s, %s%%N, %s%%N, %s)" % (coq_str(a), coq_str(b), c, d, coq_str(e)) for a, b, c, d, e in w1)))
        out.append("Definition afc_authdata_slice_writes : list (N * string * string) := [%s].\n" % (
            "; ".join("(%s%%N, %s, %s)" % (a, coq_str(b), coq_str(c)) for a, b, c in w2)))
    else:
        probs.append("keys.rs: AuthData::to_bytes not found")
    # client.rs: which AuthData the client builds, what it checks, where it zeroizes
    cs = strip_code(gen.read(repo, CLIENT))
    out.append("(* %s *)\n" % CLIENT)
    ads = re.findall(r"let ad = AuthData \{\s*version: ([^,]+),\s*label_id,\s*\};", cs)
    out.append("Definition afc_client_ad_versions : list string := [%s].\n" % "; ".join(coq_str(" ".join(a.split())) for a in ads))
    for fn in ("seal", "seal_in_place", "open", "open_in_place"):
        m = re.search(r"pub fn %s\b" % fn, cs)
        if not m:
            probs.append("client.rs: fn %s not found" % fn)
            continue
        b = cs.index("{", cs.index(")", m.end()))
        # skip the where-less signature: first `{` after `-> Result<...>`
        b = cs.index("{", cs.index("Error>", m.end()))
        body = cs[b:match_brace(cs, b)]
        zs = re.findall(r"inspect_err\(\|_\|\s*\{?\s*(\w+)\.zeroize\(\)", body)
        out.append("Definition afc_client_%s_zeroizes : list string := [%s].\n" % (fn, "; ".join(map(coq_str, zs))))
        out.append("Definition afc_client_%s_checked_ops : list string := [%s].\n" % (
            fn, "; ".join(map(coq_str, re.findall(r"\.(checked_\w+|split_at_mut_checked|split_last_chunk(?:_mut)?|get_mut|try_reserve_exact|try_resize|truncate)\(", body)))))
    # the panic-site inventory
    out.append("\n(* panic-capable sites: (item path, kind, ordinal within the item, source line) *)\n")
    for (rel, nm) in ((CLIENT, "client_rs"), (HEADER, "header_rs"), (BUF, "buf_rs"), (KEYS, "afc_keys_rs")):
        try:
            ss = sites_of(repo, rel)
        except Exception as e:
            probs.append("%s: site scan failed: %r" % (rel, e))
            ss = []
        out.append("Definition sites_%s : list (string * string * nat * string) := [\n%s].\n" % (
            nm, ";\n".join("  (%s, %s, %d%%nat, %s)" % (coq_str(p), coq_str(k), o, coq_str(l)) for (p, k, o, l) in ss)))
    return ("GenAfc.v", "".join(out), probs)


# ---------------------------------------------------------------- GenKeyStore.v (C45)

FSSTORE = "crates/aranya-crypto/src/keystore/fs_keystore/store.rs"
MEMSTORE = "crates/aranya-crypto/src/keystore/memstore.rs"
KSMOD = "crates/aranya-crypto/src/keystore/mod.rs"


def fn_body_in(src, ctx_rx, fn):
    """Body text of `fn <fn>` inside the first block whose header matches ctx_rx."""
    m = re.search(ctx_rx, src)
    if not m:
        return None
    b = src.index("{", m.end() - 1)
    block = src[b:match_brace(src, b)]
    m2 = re.search(r"\bfn\s+%s\b" % re.escape(fn), block)
    if not m2:
        return None
    i = m2.end()
    depth = 0
    while i < len(block):
        c = block[i]
        if c in "(<[":
            depth += 1
        elif c in ")>]" and not (c == ">" and block[i - 1] == "-"):
            depth -= 1
        elif c == "{" and depth <= 0:
            break
        i += 1
    return block[i:match_brace(block, i)]


def calls_in(body):
    """Paths of the calls in a body, in textual order (method chains as `.m`)."""
    out = []
    for m in re.finditer(r"((?:[A-Za-z_]\w*(?:::|\.))*[A-Za-z_]\w*|\.\s*[A-Za-z_]\w*)\s*(?:::<[^>]*>)?\(", body):
        name = re.sub(r"\s+", "", m.group(1))
        if name in ("Ok", "Err", "Some", "if", "match", "while", "for", "return"):
            continue
        out.append(name)
    return out


@gen.generator
def gen_keystore(repo):
    probs = []
    out = [gen.HEADER, "Local Open Scope string_scope.\n"]
    fs = strip_code(gen.read(repo, FSSTORE))
    ms = drop_test_modules(strip_code(gen.read(repo, MEMSTORE)))
    km = drop_test_modules(strip_code(gen.read(repo, KSMOD)))

    def emit(name, src, ctx, fn):
        b = fn_body_in(src, ctx, fn)
        if b is None:
            probs.append("keystore: %s not found" % name)
            b = ""
        out.append("Definition %s : list string := [%s].\n" % (name, "; ".join(coq_str(c) for c in calls_in(b))))
        return b

    out.append("(* %s *)\n" % FSSTORE)
    emit("ks_fs_occupied_get", fs, r"impl<T: WrappedKey> Occupied<T> for OccupiedEntry<'_, T>\s*\{", "get")
    emit("ks_fs_occupied_remove", fs, r"impl<T: WrappedKey> Occupied<T> for OccupiedEntry<'_, T>\s*\{", "remove")
    emit("ks_fs_vacant_insert", fs, r"impl<T: WrappedKey> Vacant<T> for VacantEntry<'_, T>\s*\{", "insert")
    bi = fn_body_in(fs, r"impl<T: WrappedKey> Vacant<T> for VacantEntry<'_, T>\s*\{", "insert") or ""
    steps = sorted([(m.start(), re.sub(r"\s+", "", m.group(0)).rstrip("(")) for m in
                    re.finditer(r"cbor::into_writer\(|self\.fd\.fsync\(|self\.dirty\s*=\s*true", bi)])
    out.append("Definition ks_fs_vacant_insert_steps : list string := [%s].\n" % "; ".join(coq_str(x) for _, x in steps))
    out.append("Definition ks_fs_vacant_insert_propagates : list string := [%s].\n" % "; ".join(
        coq_str(re.sub(r"\s+", "", x)) for x in re.findall(r"(cbor::into_writer\([^;]*\)\?|self\.fd\.fsync\(\)\?)", bi)))
    b = emit("ks_fs_vacant_drop", fs, r"impl<T> Drop for VacantEntry<'_, T>\s*\{", "drop")
    out.append("Definition ks_fs_vacant_drop_guard : string := %s.\n" % coq_str(
        (re.search(r"if\s+([^{]+?)\s*\{", b) or [None, "?"])[1]))
    b = emit("ks_fs_entry", fs, r"impl KeyStore for Store\s*\{", "entry")
    emit("ks_fs_get", fs, r"impl KeyStore for Store\s*\{", "get")
    emit("ks_fs_open", fs, r"impl Store\s*\{", "open")
    emit("ks_fs_rewind", fs, r"impl Exclusive\s*\{", "rewind")
    b = fn_body_in(fs, r"impl Exclusive\s*\{", "rewind") or ""
    out.append("Definition ks_fs_rewind_target : string := %s.\n" % coq_str(
        (re.search(r"SeekFrom::(\w+\(\d+\))", b) or [None, "?"])[1]))
    for (nm, ctx, fn) in (("ks_fs_excl_openat_flags", r"impl Exclusive\s*\{", "openat"),
                          ("ks_fs_excl_create_flags", r"impl Exclusive\s*\{", "create_new"),
                          ("ks_fs_shared_openat_flags", r"impl Shared\s*\{", "openat")):
        b = fn_body_in(fs, ctx, fn)
        if b is None:
            probs.append("keystore: %s not found" % nm)
            b = ""
        out.append("Definition %s : list string := [%s].\n" % (nm, "; ".join(coq_str(x) for x in re.findall(r"OFlags::(\w+)", b))))
    out.append("(* %s *)\n" % MEMSTORE)
    emit("ks_mem_entry", ms, r"impl KeyStore for MemStore\s*\{", "entry")
    emit("ks_mem_get", ms, r"impl KeyStore for MemStore\s*\{", "get")
    emit("ks_mem_vacant_insert", ms, r"impl<T: WrappedKey> Vacant<T> for VacantEntry<'_, T>\s*\{", "insert")
    emit("ks_mem_occupied_get", ms, r"impl<T: WrappedKey> Occupied<T> for OccupiedEntry<'_, T>\s*\{", "get")
    emit("ks_mem_occupied_remove", ms, r"impl<T: WrappedKey> Occupied<T> for OccupiedEntry<'_, T>\s*\{", "remove")
    out.append("(* %s *)\n" % KSMOD)
    emit("ks_try_insert", km, r"pub trait KeyStore\s*\{", "try_insert")
    emit("ks_remove", km, r"pub trait KeyStore\s*\{", "remove")
    return ("GenKeyStore.v", "".join(out), probs)


# ---------------------------------------------------------------- GenCrypto.v (C34, C36-C38)

CRYPTO_SRC = "crates/aranya-crypto/src/"
FRAMING_FILES = ["policy.rs", "aranya.rs", "misc.rs", "default.rs", "groupkey.rs", "id.rs", "ciphersuite/ext.rs",
                 "tls/psk.rs", "apq.rs", "afc/uni.rs", "hpke.rs"]


def strip_comments_only(src):
    """Remove comments, keep string literals intact."""
    out = []
    i, n = 0, len(src)
    while i < n:
        c = src[i]
        if src.startswith("//", i):
            j = src.find("\n", i)
            i = n if j < 0 else j
        elif src.startswith("/*", i):
            j = src.find("*/", i)
            i = n if j < 0 else j + 2
        elif c == '"':
            j = i + 1
            while j < n and src[j] != '"':
                j += 2 if src[j] == "\\" else 1
            out.append(src[i:j + 1])
            i = j + 1
        else:
            out.append(c)
            i += 1
    return "".join(out)


def split_top(s):
    """Split at top-level commas."""
    parts, depth, cur = [], 0, []
    instr = False
    for i, c in enumerate(s):
        if c == '"' and (i == 0 or s[i - 1] != "\\"):
            instr = not instr
        if not instr:
            if c in "([{":
                depth += 1
            elif c in ")]}":
                depth -= 1
            elif c == "<" and i + 1 < len(s) and s[i + 1] not in " =":
                pass
        if c == "," and depth == 0 and not instr:
            parts.append("".join(cur))
            cur = []
        else:
            cur.append(c)
    if "".join(cur).strip():
        parts.append("".join(cur))
    return [p.strip() for p in parts]


def balanced(s, i, open_c, close_c):
    """s[i] == open_c; index just past the matching close_c (string-aware)."""
    depth, j, instr = 0, i, False
    while j < len(s):
        c = s[j]
        if c == '"' and s[j - 1] != "\\":
            instr = not instr
        elif not instr:
            if c == open_c:
                depth += 1
            elif c == close_c:
                depth -= 1
                if depth == 0:
                    return j + 1
        j += 1
    raise ValueError("unbalanced")


def norm_arg(a):
    a = re.sub(r"\s+", "", a)
    a = re.sub(r"^::core::borrow::Borrow::borrow\((.*)\)$", r"\1", a)
    a = re.sub(r"^(?:::core::)?iter::once(?:::<[^>]*>)?\((.*)\)$", r"\1", a)
    a = a.lstrip("&*")
    for suf in (".as_bytes()", ".as_ref()", ".borrow()", ".as_slice()"):
        while a.endswith(suf):
            a = a[:-len(suf)]
    a = a.replace("self.", "").replace("?", "")
    return a


def lit_or_const(tok, body, whole):
    tok = tok.strip()
    m = re.fullmatch(r'\*?b"((?:[^"\\]|\\.)*)"', tok)
    if m:
        return m.group(1)
    m = re.fullmatch(r"\$?(\w+)(?:\.as_bytes\(\))?", tok)
    if m:
        for src in (body, whole):
            m2 = re.search(r'const\s+%s\s*:\s*&(?:\'static\s+)?(?:\[u8\]|str)\s*=\s*b?"((?:[^"\\]|\\.)*)"' % re.escape(m.group(1)), src)
            if m2:
                return m2.group(1)
        return "$" + m.group(1)
    return "?" + re.sub(r"\s+", "", tok)


def framing_sites(repo, rel):
    raw = gen.read(repo, CRYPTO_SRC + rel)
    src = drop_test_modules(strip_comments_only(raw))
    ctxs = contexts(src)
    items = [(n, b, e) for (n, b, e) in fn_items(src) if not n.startswith("const ")]
    # macro_rules bodies: treat each `macro_rules! name { ... }` as a context so sites inside are attributed
    macros = []
    for m in re.finditer(r"\bmacro_rules!\s*(\w+)\s*\{", src):
        try:
            macros.append((m.start(), match_brace(src, m.end() - 1), "macro " + m.group(1)))
        except ValueError:
            pass

    def where(pos):
        best, name = None, ""
        for (n, b, e) in items:
            if b <= pos < e and (best is None or b > best):
                best, name = b, n
        ctx, cb = "", None
        for (cs, ce, cn) in ctxs + macros:
            if cs <= pos < ce and (cb is None or cs > cb):
                cb, ctx = cs, cn
        body = ""
        if best is not None:
            for (n, b, e) in items:
                if b == best:
                    body = src[b:e]
        return ((ctx + "::" + name) if ctx else name), body

    out = []
    for m in re.finditer(r"\b(\w+)::tuple_hash\(", src):
        if m.group(1) in ("hash",):
            continue
        end = balanced(src, m.end() - 1, "(", ")")
        args = split_top(src[m.end():end - 1])
        path, body = where(m.start())
        if len(args) < 2:
            continue
        ctx = args[1].strip()
        lst = split_top(ctx[1:-1]) if ctx.startswith("[") else [ctx]
        out.append((path, "tuple_hash", lit_or_const(args[0], body, src), "", [norm_arg(a) for a in lst]))
    for m in re.finditer(r"(\$?\w+|\$crate::id::IdExt)::new::<CS>\(", src):
        end = balanced(src, m.end() - 1, "(", ")")
        args = split_top(src[m.end():end - 1])
        path, body = where(m.start())
        if len(args) < 2:
            continue
        ctx = args[1].strip()
        lst = split_top(ctx[1:-1]) if ctx.startswith("[") else [ctx]
        out.append((path, "id_new", lit_or_const(args[0], body, src), "", [norm_arg(a) for a in lst]))
    for m in re.finditer(r"\bCS::labeled_extract\(", src):
        end = balanced(src, m.end() - 1, "(", ")")
        args = split_top(src[m.end():end - 1])
        path, body = where(m.start())
        if len(args) < 4 or path.endswith("::labeled_extract"):
            continue
        ikm = args[3].strip()
        lst = split_top(ikm[1:-1]) if ikm.startswith("[") else [ikm]
        out.append((path, "labeled_extract", lit_or_const(args[0], body, src), lit_or_const(args[2], body, src),
                    ["salt=" + norm_arg(args[1])] + [norm_arg(a) for a in lst]))
    for m in re.finditer(r"\bCS::labeled_expand\(", src):
        end = balanced(src, m.end() - 1, "(", ")")
        args = split_top(src[m.end():end - 1])
        path, body = where(m.start())
        if len(args) < 4 or path.endswith("::labeled_expand"):
            continue
        info = args[3].strip()
        lst = split_top(info[1:-1]) if info.startswith("[") else [info]
        out.append((path, "labeled_expand", lit_or_const(args[0], body, src), lit_or_const(args[2], body, src),
                    ["prk=" + norm_arg(args[1])] + [norm_arg(a) for a in lst]))
    for m in re.finditer(r"\bhpke::(setup_send_deterministically|setup_send|setup_recv)(?:::<[^>]*>)?\(", src):
        end = balanced(src, m.end() - 1, "(", ")")
        args = split_top(src[m.end():end - 1])
        path, body = where(m.start())
        out.append((path, "hpke_" + m.group(1), "", "", [norm_arg(a) for a in args]))
    # info struct literals: `Info { domain: *b"..", f, g: expr }`
    for m in re.finditer(r"(?<!struct )\b(\w*Info)\s*\{\s*domain:", src):
        end = balanced(src, src.index("{", m.start()), "{", "}")
        fields = split_top(src[src.index("{", m.start()) + 1:end - 1])
        path, body = where(m.start())
        dom = ""
        names = []
        for f in fields:
            k, _, v = f.partition(":")
            if k.strip() == "domain":
                dom = lit_or_const(v, body, src)
            else:
                names.append(k.strip() + ("=" + norm_arg(v) if v.strip() else ""))
        out.append((path, "info_struct:" + m.group(1), dom, "", names))
    return out, src


def repr_c_structs(src):
    """#[repr(C)] structs deriving IntoBytes: name -> [(field, type)]."""
    out = []
    for m in re.finditer(r"#\[repr\(C\)\]\s*(?:#\[[^\]]*\]\s*)*(?:pub(?:\([^)]*\))?\s+)?struct\s+(\w+)\s*\{([^}]*)\}", src):
        head = src[m.start():m.end()]
        if "IntoBytes" not in head:
            continue
        fs = re.findall(r"(?:pub(?:\([^)]*\))?\s+)?([a-z_]\w*)\s*:\s*([^,\n]+)", m.group(2))
        out.append((m.group(1), [(a, re.sub(r"\s+", "", b)) for a, b in fs]))
    return out


@gen.generator
def gen_crypto_framings(repo):
    probs = []
    out = [gen.HEADER, "Local Open Scope string_scope.\n"]
    out.append("(* framing call sites: (item path, kind, domain literal, label literal, ordered argument names) *)\n")
    allsites = []
    structs = []
    for rel in FRAMING_FILES:
        try:
            sites, src = framing_sites(repo, rel)
        except Exception as e:
            probs.append("%s: framing scan failed: %r" % (rel, e))
            continue
        structs += [(rel, n, f) for (n, f) in repr_c_structs(src)]
        nm = re.sub(r"\W", "_", rel[:-3])
        out.append("Definition framings_%s : list (string * string * string * string * list string) := [\n%s].\n" % (
            nm, ";\n".join("  (%s, %s, %s, %s, [%s])" % (coq_str(p), coq_str(k), coq_str(d), coq_str(l), "; ".join(coq_str(a) for a in args))
                           for (p, k, d, l, args) in sites)))
        allsites += sites
    out.append("Definition repr_c_structs : list (string * string * list (string * string)) := [\n%s].\n" % (
        ";\n".join("  (%s, %s, [%s])" % (coq_str(rel), coq_str(n), "; ".join("(%s, %s)" % (coq_str(a), coq_str(b)) for a, b in f))
                   for (rel, n, f) in structs)))
    # key-id contexts of the key macros in aranya.rs: (secret key type, public key type, id type, context)
    ar = strip_comments_only(gen.read(repo, CRYPTO_SRC + "aranya.rs"))
    keys = re.findall(r"(signing_key|kem_key)!\s*\{\s*sk\s*=\s*(\w+),\s*pk\s*=\s*(\w+),\s*id\s*=\s*(\w+),\s*context\s*=\s*\"([^\"]*)\",?\s*\}",
                      re.sub(r"#\[[^\]]*\]|///[^\n]*", "", ar))
    out.append("Definition key_contexts : list (string * string * string * string * string) := [%s].\n" % (
        "; ".join("(%s, %s, %s, %s, %s)" % tuple(coq_str(x) for x in k) for k in keys)))
    if not keys:
        probs.append("aranya.rs: key macros not found")
    # call skeletons of sign_cmd / verify_cmd / Ffi::verify
    ars = strip_code(gen.read(repo, CRYPTO_SRC + "aranya.rs"))
    for (nm, ctx, fn) in (("calls_sign_cmd", r"impl<CS: CipherSuite> SigningKey<CS>\s*\{", "sign_cmd"),
                          ("calls_verify_cmd", r"impl<CS: CipherSuite> VerifyingKey<CS>\s*\{", "verify_cmd")):
        b = fn_body_in(ars, ctx, fn)
        if b is None:
            probs.append("aranya.rs: %s not found" % fn)
            b = ""
        out.append("Definition %s : list string := [%s].\n" % (nm, "; ".join(coq_str(c) for c in calls_in(b))))
    ffi = strip_code(gen.read(repo, "crates/aranya-crypto-ffi/src/ffi.rs"))
    m = re.search(r"pub\(crate\) fn verify<E: Engine>", ffi)
    if m:
        b = ffi[ffi.index("{", ffi.index("-> Result<(), Error>", m.end())):]
        b = b[:match_brace(b, 0)]
        out.append("Definition calls_ffi_verify : list string := [%s].\n" % "; ".join(coq_str(c) for c in calls_in(b)))
        cond = re.search(r"if\s+(.*?)\s*\{\s*Ok\(\(\)\)", b, re.S)
        out.append("Definition ffi_verify_accept_condition : string := %s.\n" % coq_str(" ".join(cond.group(1).split()) if cond else "?"))
    else:
        probs.append("ffi.rs: Ffi::verify not found")
    # unwrap_secret's (AlgId, Ciphertext) match arms
    de = strip_code(gen.read(repo, CRYPTO_SRC + "default.rs"))
    arms = re.findall(r"\(AlgId::(\w+)\((?:\(\)|[^()]*)\),\s*Ciphertext::(\w+)\(", de)
    out.append("Definition unwrap_match_arms : list (string * string) := [%s].\n" % (
        "; ".join("(%s, %s)" % (coq_str(a), coq_str(b)) for a, b in arms)))
    en = strip_code(gen.read(repo, CRYPTO_SRC + "engine.rs"))
    m = re.search(r"enum AlgId\s*\{([^}]*)\}", en)
    out.append("Definition alg_id_variants : list string := [%s].\n" % (
        "; ".join(coq_str(v) for v in re.findall(r"([A-Z]\w*)\(", m.group(1))) if m else ""))
    # apq.rs: what each seal/open entry point hands to the AEAD / HPKE context, and the Sender identity's fields
    aq = drop_test_modules(strip_comments_only(gen.read(repo, CRYPTO_SRC + "apq.rs")))
    rows = []
    for (ctx_rx, fn) in ((r"impl<CS: CipherSuite> TopicKey<CS>\s*\{", "seal_message"), (r"impl<CS: CipherSuite> TopicKey<CS>\s*\{", "open_message"),
                         (r"impl<CS: CipherSuite> ReceiverPublicKey<CS>\s*\{", "seal_topic_key"),
                         (r"impl<CS: CipherSuite> ReceiverSecretKey<CS>\s*\{", "open_topic_key")):
        b = fn_body_in(aq, ctx_rx, fn)
        if b is None:
            probs.append("apq.rs: %s not found" % fn)
            continue
        for m in re.finditer(r"\.\s*(seal|open|seal_in_place|open_in_place)\(", b):
            e = balanced(b, m.end() - 1, "(", ")")
            rows.append((fn, m.group(1), [norm_arg(a) for a in split_top(b[m.end():e - 1])]))
        for m in re.finditer(r"TopicKey::from_seed\(", b):
            e = balanced(b, m.end() - 1, "(", ")")
            rows.append((fn, "from_seed", [norm_arg(a) for a in split_top(b[m.end():e - 1])]))
    out.append("Definition apq_aead_calls : list (string * string * list string) := [\n%s].\n" % ";\n".join(
        "  (%s, %s, [%s])" % (coq_str(f), coq_str(k), "; ".join(coq_str(a) for a in args)) for (f, k, args) in rows))
    m = re.search(r"pub struct Sender<[^>]*>\s*\{([^}]*)\}", aq)
    out.append("Definition apq_sender_fields : list string := [%s].\n" % (
        "; ".join(coq_str(x) for x in re.findall(r"pub\s+(\w+)\s*:", m.group(1))) if m else ""))
    if not m:
        probs.append("apq.rs: struct Sender not found")
    # afc-util handler: role guards and the channel each entry point builds
    hs = strip_code(gen.read(repo, "crates/aranya-afc-util/src/handler.rs"))
    for fn in ("uni_channel_created", "uni_channel_received"):
        b = fn_body_in(hs, r"impl<S: KeyStore> Handler<S>\s*\{", fn)
        if b is None:
            probs.append("handler.rs: %s not found" % fn)
            b = ""
        g = re.search(r"if\s+([^{]+?)\s*\{\s*return Err\(Error::(\w+)\)", b)
        out.append("Definition handler_%s_guard : string * string := (%s, %s).\n" % (
            fn, coq_str(" ".join(g.group(1).split()) if g else "?"), coq_str(g.group(2) if g else "?")))
        m = re.search(r"let ch = UniChannel\s*\{", b)
        fields = []
        if m:
            e = balanced(b, b.index("{", m.start()), "{", "}")
            fields = [re.sub(r"\s+", "", f) for f in split_top(b[b.index("{", m.start()) + 1:e - 1])]
        out.append("Definition handler_%s_channel : list string := [%s].\n" % (fn, "; ".join(coq_str(f) for f in fields)))
        v = re.search(r"UniKey::new\(&ch,\s*\w+,\s*UniKey::(\w+)\)", b)
        out.append("Definition handler_%s_variant : string := %s.\n" % (fn, coq_str(v.group(1) if v else "?")))
    us = strip_code(gen.read(repo, CRYPTO_SRC + "afc/uni.rs"))
    out.append("Definition uni_same_id_guards : list string := [%s].\n" % "; ".join(
        coq_str(" ".join(x.split())) for x in re.findall(r"if\s+(ch\.seal_id\s*==\s*ch\.open_id)\s*\{\s*return Err\(Error::same_device_id\(\)\)", us)))
    return ("GenCrypto.v", "".join(out), probs)
