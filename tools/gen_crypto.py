"""Translator plug-in for the unit `crypto` (C39, C45, C34, C36, C37, C38).

Writes, from /repo's current source,

  coq/gen/GenAfc.v     (C39)  AFC wire constants (protocol version, message
                       types, header / data-header / AuthData codec shapes as
                       the code writes and reads them) and the inventory of
                       panic-capable sites of client.rs, header.rs, buf.rs and
                       afc/keys.rs (non-test code);
  coq/gen/GenKeyStore.v (C45) the system-call skeleton of the fs key store
                       (open flags of every openat, what OccupiedEntry::get /
                       remove and VacantEntry::drop call, in order);
  coq/gen/GenCrypto.v  (C34, C36-C38) for every tuple_hash / Id::new /
                       labeled_extract / labeled_expand / info-struct site in
                       the anchored crypto files: the domain-separation
                       literal and the ordered argument names.

Only data and shapes are extracted; the algorithms are hand-written models
tied by the correspondence runs.
"""
import re

import gen

CLIENT = "crates/aranya-fast-channels/src/client.rs"
HEADER = "crates/aranya-fast-channels/src/header.rs"
BUF = "crates/aranya-fast-channels/src/buf.rs"
KEYS = "crates/aranya-crypto/src/afc/keys.rs"


# ---------------------------------------------------------------- lexing helpers

def strip_code(src):
    """Remove comments; blank out string / char literal contents (keeps length irrelevant)."""
    out = []
    i, n = 0, len(src)
    while i < n:
        c = src[i]
        if src.startswith("//", i):
            j = src.find("\n", i)
            i = n if j < 0 else j
        elif src.startswith("/*", i):
            depth, i = 1, i + 2
            while i < n and depth:
                if src.startswith("/*", i):
                    depth += 1
                    i += 2
                elif src.startswith("*/", i):
                    depth -= 1
                    i += 2
                else:
                    i += 1
        elif c == '"':
            j = i + 1
            while j < n and src[j] != '"':
                j += 2 if src[j] == "\\" else 1
            out.append('"S"')
            i = j + 1
        elif c == "b" and src.startswith('b"', i):
            j = i + 2
            while j < n and src[j] != '"':
                j += 2 if src[j] == "\\" else 1
            out.append('b"S"')
            i = j + 1
        elif c == "'" and re.match(r"'(\\.|[^\\'])'", src[i:i + 4]):
            m = re.match(r"'(\\.|[^\\'])'", src[i:i + 4])
            out.append("'c'")
            i += m.end()
        else:
            out.append(c)
            i += 1
    return "".join(out)


def match_brace(src, i):
    """Index just past the `}` matching the `{` at src[i]."""
    depth = 0
    j = i
    while j < len(src):
        if src[j] == "{":
            depth += 1
        elif src[j] == "}":
            depth -= 1
            if depth == 0:
                return j + 1
        j += 1
    raise ValueError("unbalanced braces")


def drop_test_modules(src):
    """Remove `#[cfg(test)] mod x { ... }` blocks."""
    while True:
        m = re.search(r"#\[cfg\(test\)\]\s*(?:#\[[^\]]*\]\s*)*(?:pub\s+)?mod\s+\w+\s*\{", src)
        if not m:
            return src
        end = match_brace(src, m.end() - 1)
        src = src[:m.start()] + src[end:]


def raw_literal(src, pos):
    """The original (unstripped) string literal starting at/after pos."""
    m = re.compile(r'b?"((?:[^"\\]|\\.)*)"').search(src, pos)
    return m.group(1) if m else None


# ---------------------------------------------------------------- panic-site inventory

KINDS = [
    ("unwrap", re.compile(r"\.\s*unwrap\s*\(")),
    ("expect", re.compile(r"\.\s*expect\s*\(")),
    ("assume", re.compile(r"\.\s*assume\s*\(")),
    ("bug", re.compile(r"\bbug!\s*\(")),
    ("panic", re.compile(r"\b(?:panic|todo|unimplemented|unreachable)!\s*[\(\[]")),
    ("assert", re.compile(r"\b(?:debug_)?assert(?:_eq|_ne)?!\s*\(")),
    ("index", re.compile(r"(?<=[\w\)\]\?])\[")),
    ("arith", re.compile(r"(?<=[\w\)\]]) (?:\+|-|\*|/|%|<<|>>)=? (?=[\w\(&\*-])")),
    ("copy_from_slice", re.compile(r"\.\s*copy_from_slice\s*\(")),
    ("split_at", re.compile(r"\.\s*split_at(?:_mut)?\s*\(")),
]


def contexts(src):
    """[(start, end, name)] for every impl / trait block."""
    out = []
    for m in re.finditer(r"\b(impl|trait)\b([^{;]*)\{", src):
        kind, head = m.group(1), m.group(2)
        try:
            end = match_brace(src, m.end() - 1)
        except ValueError:
            continue
        head = re.sub(r"\bwhere\b.*", "", head, flags=re.S)
        if kind == "impl":
            head = re.sub(r"^\s*<[^>]*(?:<[^>]*>[^>]*)*>", "", head)      # leading generics
        head = re.sub(r"<[^<>]*(?:<[^<>]*>[^<>]*)*>", "", head)             # generic arguments
        head = re.sub(r"\s*:\s*.*", "", head, flags=re.S) if kind == "trait" else head
        head = " ".join(head.replace("'_", "").split())
        name = ("trait " + head) if kind == "trait" else head
        out.append((m.start(), end, name))
    return out


def fn_items(src):
    """[(name, body_start, body_end)] for fns with a body and for initialised consts."""
    items = []
    for m in re.finditer(r"\bfn\s+([A-Za-z_]\w*)", src):
        i = m.end()
        depth = 0
        body = None
        while i < len(src):
            c = src[i]
            if c in "(<[":
                depth += 1
            elif c in ")>]":
                if not (c == ">" and src[i - 1] == "-"):
                    depth -= 1
            elif c == ";" and depth <= 0:
                break
            elif c == "{" and depth <= 0:
                body = i
                break
            i += 1
        if body is None:
            continue
        items.append((m.group(1), body, match_brace(src, body)))
    for m in re.finditer(r"\bconst\s+([A-Z_][A-Z0-9_]*)\s*:\s*[^=;{]+=", src):
        i = m.end()
        depth = 0
        while i < len(src):
            c = src[i]
            if c in "({[":
                depth += 1
            elif c in ")}]":
                depth -= 1
            elif c == ";" and depth == 0:
                break
            i += 1
        items.append(("const " + m.group(1), m.end(), i))
    return items


def sites_of(repo, rel):
    src = drop_test_modules(strip_code(gen.read(repo, rel)))
    # macro definitions are templates, not code paths
    while True:
        m = re.search(r"\bmacro_rules!\s*\w+\s*\{", src)
        if not m:
            break
        src = src[:m.start()] + src[match_brace(src, m.end() - 1):]
    ctxs = contexts(src)
    items = fn_items(src)
    # innermost fn wins: drop sites of nested items from the outer one
    sites = []
    for (name, b, e) in sorted(items, key=lambda t: t[1]):
        inner = [(b2, e2) for (n2, b2, e2) in items if b < b2 and e2 <= e and (b2, e2) != (b, e)]
        ctx = ""
        best = None
        for (cs, ce, cn) in ctxs:
            if cs <= b and e <= ce and (best is None or cs > best):
                best, ctx = cs, cn
        path = (ctx + "::" + name) if ctx else name
        body = src[b:e]
        for (kind, rx) in KINDS:
            k = 0
            for mm in rx.finditer(body):
                pos = b + mm.start()
                if any(b2 <= pos < e2 for (b2, e2) in inner):
                    continue
                ls = src.rfind("\n", 0, pos) + 1
                le = src.find("\n", pos)
                line = " ".join(src[ls:le if le >= 0 else len(src)].split())[:90]
                sites.append((path, kind, k, line))
                k += 1
    return sites


def coq_str(s):
    return '"' + s.replace('"', '""') + '"'


# ---------------------------------------------------------------- GenAfc.v

@gen.generator
def gen_afc(repo):
    probs = []
    out = [gen.HEADER, "Local Open Scope string_scope.\n"]
    hdr = gen.read(repo, HEADER)
    hs = strip_code(hdr)
    out.append("(* %s *)\n" % HEADER)
    # protocol version and message types: `enum Version { V1 = 0x6f54 }`
    for enum in ("Version", "MsgType"):
        m = re.search(r"#\[repr\((\w+)\)\]\s*pub enum %s\s*\{([^}]*)\}" % enum, hs)
        if not m:
            probs.append("header.rs: enum %s with #[repr] not found" % enum)
            continue
        vs = re.findall(r"([A-Za-z_]\w*)\s*=\s*(0x[0-9a-fA-F]+|\d+)", m.group(2))
        out.append("Definition afc_%s_repr : string := %s.\n" % (enum.lower(), coq_str(m.group(1))))
        out.append("Definition afc_%s_variants : list (string * N) := [%s].\n" % (
            enum.lower(), "; ".join("(%s, %d%%N)" % (coq_str(n), int(v, 0)) for n, v in vs)))
    m = re.search(r"const fn current\(\) -> Self\s*\{\s*Self::(\w+)\s*\}", hs)
    out.append("Definition afc_version_current : string := %s.\n" % coq_str(m.group(1) if m else "?"))
    if not m:
        probs.append("header.rs: Version::current not found")
    # struct layouts
    for st in ("Header", "DataHeader"):
        m = re.search(r"struct %s\s*\{([^}]*)\}" % st, hs)
        if not m:
            probs.append("header.rs: struct %s not found" % st)
            continue
        fs = re.findall(r"(?:pub(?:\([^)]*\))?\s+)?([a-z_]\w*)\s*:\s*([A-Za-z_]\w*)", re.sub(r"#\[[^\]]*\]", "", m.group(1)))
        out.append("Definition afc_%s_fields : list (string * string) := [%s].\n" % (
            st.lower(), "; ".join("(%s, %s)" % (coq_str(a), coq_str(b)) for a, b in fs)))
    # codec bodies: the order of chunks and the byte order used
    for st in ("Header", "DataHeader"):
        m = re.search(r"impl %s\s*\{" % st, hs)
        if not m:
            probs.append("header.rs: impl %s not found" % st)
            continue
        body = hs[m.end():match_brace(hs, m.end() - 1)]
        enc = re.search(r"fn encode\b", body)
        par = re.search(r"fn try_parse\b", body)
        if not enc or not par:
            probs.append("header.rs: %s::encode/try_parse not found" % st)
            continue
        pb = body[body.index("{", par.end()):]
        pb = pb[:match_brace(pb, 0)]
        eb = body[body.index("{", enc.end()):]
        eb = eb[:match_brace(eb, 0)]
        # parse: sequence of `let (x, rest) = <src>.split_first_chunk()` and the conversions used
        chunks = re.findall(r"let \((\w+), (\w+)\) = (\w+)\s*\.split_first_chunk\(\)", pb)
        convs = re.findall(r"(\w+):\s*(?:(\w+)::(\w+)\()?\s*(u\d+)::(from_[lb]e_bytes)\(\*(\w+)\)", pb)
        out.append("Definition afc_%s_parse_chunks : list (string * string * string) := [%s].\n" % (
            st.lower(), "; ".join("(%s, %s, %s)" % tuple(map(coq_str, c)) for c in chunks)))
        out.append("Definition afc_%s_parse_fields : list (string * string * string * string) := [%s].\n" % (
            st.lower(), "; ".join("(%s, %s, %s, %s)" % (coq_str(c[0]), coq_str(c[3]), coq_str(c[4]), coq_str(c[5])) for c in convs)))
        out.append("Definition afc_%s_parse_checks_trailing : bool := %s.\n" % (
            st.lower(), "true" if re.search(r"if !rest\.is_empty\(\)\s*\{\s*bug!", pb) else "false"))
        echunks = re.findall(r"let \((\w+), (\w+)\) = (\w+)\s*\.split_first_chunk_mut\(\)", eb)
        writes = re.findall(r"\*(\w+) = self\.(\w+)\.(to_u\d+)\(\)\.(to_[lb]e_bytes)\(\)", eb)
        out.append("Definition afc_%s_encode_chunks : list (string * string * string) := [%s].\n" % (
            st.lower(), "; ".join("(%s, %s, %s)" % tuple(map(coq_str, c)) for c in echunks)))
        out.append("Definition afc_%s_encode_writes : list (string * string * string * string) := [%s].\n" % (
            st.lower(), "; ".join("(%s, %s, %s, %s)" % tuple(map(coq_str, c)) for c in writes)))
    # AuthData::to_bytes in afc/keys.rs
    ks = strip_code(gen.read(repo, KEYS))
    out.append("(* %s *)\n" % KEYS)
    m = re.search(r"struct AuthData\s*\{([^}]*)\}", ks)
    if m:
        fs = re.findall(r"pub\s+([a-z_]\w*)\s*:\s*([A-Za-z_]\w*)", m.group(1))
        out.append("Definition afc_authdata_fields : list (string * string) := [%s].\n" % (
            "; ".join("(%s, %s)" % (coq_str(a), coq_str(b)) for a, b in fs)))
    else:
        probs.append("keys.rs: struct AuthData not found")
    m = re.search(r"fn to_bytes\(&self\)[^{]*\{", ks)
    if m:
        body = ks[m.end() - 1:match_brace(ks, m.end() - 1)]
        w1 = re.findall(r"(LittleEndian|BigEndian)::write_(u\d+)\(&mut b\[(\d+)\.\.(\d+)\], self\.(\w+)\)", body)
        w2 = re.findall(r"b\[(\d+)\.\.(\d*)\]\.copy_from_slice\(self\.(\w+)\.as_bytes\(\)\)", body)
        out.append("Definition afc_authdata_int_writes : list (string * string * N * N * string) := [%s].\n" % (
            "; ".join("(%s, %s, %s%%N, %s%%N, %s)" % (coq_str(a), coq_str(b), c, d, coq_str(e)) for a, b, c, d, e in w1)))
        out.append("Definition afc_authdata_slice_writes : list (N * string * string) := [%s].\n" % (
            "; ".join("(%s%%N, %s, %s)" % (a, coq_str(b), coq_str(c)) for a, b, c in w2)))
    else:
        probs.append("keys.rs: AuthData::to_bytes not found")
    # client.rs: which AuthData the client builds, what it checks, where it zeroizes
    cs = strip_code(gen.read(repo, CLIENT))
    out.append("(* %s *)\n" % CLIENT)
    ads = re.findall(r"let ad = AuthData \{\s*version: ([^,]+),\s*label_id,\s*\};", cs)
    out.append("Definition afc_client_ad_versions : list string := [%s].\n" % "; ".join(coq_str(" ".join(a.split())) for a in ads))
    for fn in ("seal", "seal_in_place", "open", "open_in_place"):
        m = re.search(r"pub fn %s\b" % fn, cs)
        if not m:
            probs.append("client.rs: fn %s not found" % fn)
            continue
        b = cs.index("{", cs.index(")", m.end()))
        # skip the where-less signature: first `{` after `-> Result<...>`
        b = cs.index("{", cs.index("Error>", m.end()))
        body = cs[b:match_brace(cs, b)]
        zs = re.findall(r"inspect_err\(\|_\|\s*\{?\s*(\w+)\.zeroize\(\)", body)
        out.append("Definition afc_client_%s_zeroizes : list string := [%s].\n" % (fn, "; ".join(map(coq_str, zs))))
        out.append("Definition afc_client_%s_checked_ops : list string := [%s].\n" % (
            fn, "; ".join(map(coq_str, re.findall(r"\.(checked_\w+|split_at_mut_checked|split_last_chunk(?:_mut)?|get_mut|try_reserve_exact|try_resize|truncate)\(", body)))))
    # the panic-site inventory
    out.append("\n(* panic-capable sites: (item path, kind, ordinal within the item, source line) *)\n")
    for (rel, nm) in ((CLIENT, "client_rs"), (HEADER, "header_rs"), (BUF, "buf_rs"), (KEYS, "afc_keys_rs")):
        try:
            ss = sites_of(repo, rel)
        except Exception as e:
            probs.append("%s: site scan failed: %r" % (rel, e))
            ss = []
        out.append("Definition sites_%s : list (string * string * nat * string) := [\n%s].\n" % (
            nm, ";\n".join("  (%s, %s, %d%%nat, %s)" % (coq_str(p), coq_str(k), o, coq_str(l)) for (p, k, o, l) in ss)))
    return ("GenAfc.v", "".join(out), probs)


# ---------------------------------------------------------------- GenKeyStore.v (C45)

FSSTORE = "crates/aranya-crypto/src/keystore/fs_keystore/store.rs"
MEMSTORE = "crates/aranya-crypto/src/keystore/memstore.rs"
KSMOD = "crates/aranya-crypto/src/keystore/mod.rs"


def fn_body_in(src, ctx_rx, fn):
    """Body text of `fn <fn>` inside the first block whose header matches ctx_rx."""
    m = re.search(ctx_rx, src)
    if not m:
        return None
    b = src.index("{", m.end() - 1)
    block = src[b:match_brace(src, b)]
    m2 = re.search(r"\bfn\s+%s\b" % re.escape(fn), block)
    if not m2:
        return None
    i = m2.end()
    depth = 0
    while i < len(block):
        c = block[i]
        if c in "(<[":
            depth += 1
        elif c in ")>]" and not (c == ">" and block[i - 1] == "-"):
            depth -= 1
        elif c == "{" and depth <= 0:
            break
        i += 1
    return block[i:match_brace(block, i)]


def calls_in(body):
    """Paths of the calls in a body, in textual order (method chains as `.m`)."""
    out = []
    for m in re.finditer(r"((?:[A-Za-z_]\w*(?:::|\.))*[A-Za-z_]\w*|\.\s*[A-Za-z_]\w*)\s*(?:::<[^>]*>)?\(", body):
        name = re.sub(r"\s+", "", m.group(1))
        if name in ("Ok", "Err", "Some", "if", "match", "while", "for", "return"):
            continue
        out.append(name)
    return out


@gen.generator
def gen_keystore(repo):
    probs = []
    out = [gen.HEADER, "Local Open Scope string_scope.\n"]
    fs = strip_code(gen.read(repo, FSSTORE))
    ms = drop_test_modules(strip_code(gen.read(repo, MEMSTORE)))
    km = drop_test_modules(strip_code(gen.read(repo, KSMOD)))

    def emit(name, src, ctx, fn):
        b = fn_body_in(src, ctx, fn)
        if b is None:
            probs.append("keystore: %s not found" % name)
            b = ""
        out.append("Definition %s : list string := [%s].\n" % (name, "; ".join(coq_str(c) for c in calls_in(b))))
        return b

    out.append("(* %s *)\n" % FSSTORE)
    emit("ks_fs_occupied_get", fs, r"impl<T: WrappedKey> Occupied<T> for OccupiedEntry<'_, T>\s*\{", "get")
    emit("ks_fs_occupied_remove", fs, r"impl<T: WrappedKey> Occupied<T> for OccupiedEntry<'_, T>\s*\{", "remove")
    emit("ks_fs_vacant_insert", fs, r"impl<T: WrappedKey> Vacant<T> for VacantEntry<'_, T>\s*\{", "insert")
    b = emit("ks_fs_vacant_drop", fs, r"impl<T> Drop for VacantEntry<'_, T>\s*\{", "drop")
    out.append("Definition ks_fs_vacant_drop_guard : string := %s.\n" % coq_str(
        (re.search(r"if\s+([^{]+?)\s*\{", b) or [None, "?"])[1]))
    b = emit("ks_fs_entry", fs, r"impl KeyStore for Store\s*\{", "entry")
    emit("ks_fs_get", fs, r"impl KeyStore for Store\s*\{", "get")
    emit("ks_fs_open", fs, r"impl Store\s*\{", "open")
    emit("ks_fs_rewind", fs, r"impl Exclusive\s*\{", "rewind")
    b = fn_body_in(fs, r"impl Exclusive\s*\{", "rewind") or ""
    out.append("Definition ks_fs_rewind_target : string := %s.\n" % coq_str(
        (re.search(r"SeekFrom::(\w+\(\d+\))", b) or [None, "?"])[1]))
    for (nm, ctx, fn) in (("ks_fs_excl_openat_flags", r"impl Exclusive\s*\{", "openat"),
                          ("ks_fs_excl_create_flags", r"impl Exclusive\s*\{", "create_new"),
                          ("ks_fs_shared_openat_flags", r"impl Shared\s*\{", "openat")):
        b = fn_body_in(fs, ctx, fn)
        if b is None:
            probs.append("keystore: %s not found" % nm)
            b = ""
        out.append("Definition %s : list string := [%s].\n" % (nm, "; ".join(coq_str(x) for x in re.findall(r"OFlags::(\w+)", b))))
    out.append("(* %s *)\n" % MEMSTORE)
    emit("ks_mem_entry", ms, r"impl KeyStore for MemStore\s*\{", "entry")
    emit("ks_mem_get", ms, r"impl KeyStore for MemStore\s*\{", "get")
    emit("ks_mem_vacant_insert", ms, r"impl<T: WrappedKey> Vacant<T> for VacantEntry<'_, T>\s*\{", "insert")
    emit("ks_mem_occupied_get", ms, r"impl<T: WrappedKey> Occupied<T> for OccupiedEntry<'_, T>\s*\{", "get")
    emit("ks_mem_occupied_remove", ms, r"impl<T: WrappedKey> Occupied<T> for OccupiedEntry<'_, T>\s*\{", "remove")
    out.append("(* %s *)\n" % KSMOD)
    emit("ks_try_insert", km, r"pub trait KeyStore\s*\{", "try_insert")
    emit("ks_remove", km, r"pub trait KeyStore\s*\{", "remove")
    return ("GenKeyStore.v", "".join(out), probs)
