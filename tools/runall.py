#!/usr/bin/env python3
"""Run every claimed check (quick tier by default) sequentially; print a table. Usage: tools/runall.py [--tier T] [ids...]"""
import json, os, subprocess, sys, time
R = os.path.dirname(os.path.dirname(os.path.abspath(__file__)))
tier = "quick"
args = sys.argv[1:]
if args and args[0] == "--tier":
    tier = args[1]; args = args[2:]
man = json.load(open(os.path.join(R, "MANIFEST.json")))
ids = args or [c["property_id"] for c in man["checks"]]
os.makedirs(os.path.join(R, "build", "logs"), exist_ok=True)
rows = []
for pid in ids:
    t = time.time()
    p = subprocess.run(["./check", pid, "--tier", tier], cwd=R, stdout=subprocess.PIPE, stderr=subprocess.STDOUT, text=True)
    dt = time.time() - t
    open(os.path.join(R, "build", "logs", "%s.%s.log" % (pid, tier)), "w").write(p.stdout)
    viol = [l for l in p.stdout.splitlines() if l.startswith("VIOLATION")]
    known = [l for l in p.stdout.splitlines() if l.startswith("KNOWN-FINDING")]
    rows.append((pid, p.returncode, round(dt), len(viol), len(known)))
    print("%s rc=%d %4ds violations=%d known=%d" % rows[-1], flush=True)
bad = [r for r in rows if r[1] != 0]
print("TOTAL %d checks, %d failing, %.0fs" % (len(rows), len(bad), sum(r[2] for r in rows)))
sys.exit(1 if bad else 0)
