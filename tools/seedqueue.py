#!/usr/bin/env python3
"""Validate many seeded changes: tools/seedqueue.py <first-slot> <nslots> <dir>...   (dirs containing patch.diff/demo/meta.json)
Items are grouped by the crate they modify so that each slot's cargo build stays warm."""
import json, os, re, subprocess, sys, threading
first, n = int(sys.argv[1]), int(sys.argv[2])
items = [d.rstrip("/") for d in sys.argv[3:] if os.path.exists(os.path.join(d, "meta.json"))]
def crate(d):
    try:
        t = open(os.path.join(d, "patch.diff")).read()
        m = re.search(r"crates/([^/]+)/", t)
        return m.group(1) if m else ""
    except Exception:
        return ""
items.sort(key=lambda d: (crate(d), d))
lock = threading.Lock()
def worker(slot):
    while True:
        with lock:
            if not items: return
            d = items.pop(0)
        pref = os.environ.get("SEED_PREFIX", "")
        subprocess.run(["python3", os.path.join(os.path.dirname(os.path.abspath(__file__)), "seedcheck.py"), str(slot), d] + (["--name", pref + os.path.basename(d)] if pref else []), timeout=12000)
ts = [threading.Thread(target=worker, args=(first + i,)) for i in range(n)]
[t.start() for t in ts]; [t.join() for t in ts]
