"""Translator plug-in for the policy VM (C25 and the compiler/VM family).

Writes, from /repo's *current* source,

  coq/gen/GenVm.v        the VM's data types as Coq Inductives / Records
                         (names, arities, field shapes, declaration order),
                         STACK_SIZE, and field lists of the big structs;
  coq/gen/GenVmPanics.v  the inventory of panic-capable sites of the files the
                         VM's `step` lives in (non-test code only).

Nothing here is an algorithm of the VM: it is data and shapes.  A Rust type the
translator has no rule for is reported as a problem (a failed obligation),
never guessed.
"""
import os
import re

import gen

VM = "crates/aranya-policy-vm/src/"
MOD = "crates/aranya-policy-module/src/"

# ----------------------------------------------------------------- lexer


def lex(src):
    """Tokens of Rust source: (kind, text, line).  Comments dropped.
    kinds: id, num, str, chr, life, punct."""
    toks = []
    i, n, line = 0, len(src), 1
    P3 = ("<<=", ">>=", "...", "..=")
    P2 = ("::", "->", "=>", "==", "!=", "<=", ">=", "&&", "||", "+=", "-=", "*=", "/=", "%=",
          "^=", "&=", "|=", "<<", ">>", "..")
    while i < n:
        c = src[i]
        if c == "\n":
            line += 1
            i += 1
        elif c.isspace():
            i += 1
        elif src.startswith("//", i):
            j = src.find("\n", i)
            i = n if j < 0 else j
        elif src.startswith("/*", i):
            depth, j = 1, i + 2
            while j < n and depth:
                if src.startswith("/*", j):
                    depth += 1
                    j += 2
                elif src.startswith("*/", j):
                    depth -= 1
                    j += 2
                else:
                    if src[j] == "\n":
                        line += 1
                    j += 1
            i = j
        elif c == '"' or (c in "br" and re.match(r'b?r?#*"', src[i:i + 6]) and not (i and (src[i - 1].isalnum() or src[i - 1] == "_"))):
            m = re.match(r'(b?)(r?)(#*)"', src[i:])
            raw, hashes = m.group(2), m.group(3)
            j = i + m.end()
            if raw:
                end = src.find('"' + hashes, j)
                end = n if end < 0 else end + 1 + len(hashes)
            else:
                while j < n and src[j] != '"':
                    j += 2 if src[j] == "\\" else 1
                end = j + 1
            txt = src[i:end]
            toks.append(("str", txt, line))
            line += txt.count("\n")
            i = end
        elif c == "'":
            m = re.match(r"'(\\.[^']*|[^'\\])'", src[i:])
            if m:
                toks.append(("chr", m.group(0), line))
                i += m.end()
            else:
                m = re.match(r"'[A-Za-z_][A-Za-z0-9_]*", src[i:])
                if m:
                    toks.append(("life", m.group(0), line))
                    i += m.end()
                else:
                    toks.append(("punct", c, line))
                    i += 1
        elif c.isalpha() or c == "_":
            m = re.match(r"[A-Za-z_][A-Za-z0-9_]*", src[i:])
            toks.append(("id", m.group(0), line))
            i += m.end()
        elif c.isdigit():
            m = re.match(r"[0-9][0-9A-Za-z_]*(\.[0-9][0-9A-Za-z_]*)?", src[i:])
            toks.append(("num", m.group(0), line))
            i += m.end()
        else:
            for p in P3 + P2:
                if src.startswith(p, i):
                    toks.append(("punct", p, line))
                    i += len(p)
                    break
            else:
                toks.append(("punct", c, line))
                i += 1
    return toks


OPEN = {"(": ")", "[": "]", "{": "}"}
CLOSE = {")", "]", "}"}


def match_close(toks, i):
    """toks[i] is an opening bracket; index of its closing bracket."""
    depth = 0
    for j in range(i, len(toks)):
        t = toks[j][1]
        if toks[j][0] == "punct":
            if t in OPEN:
                depth += 1
            elif t in CLOSE:
                depth -= 1
                if depth == 0:
                    return j
    return len(toks) - 1


def strip_attrs(toks):
    """Remove #[...] and #![...]."""
    out, i = [], 0
    while i < len(toks):
        if toks[i][1] == "#" and i + 1 < len(toks) and (toks[i + 1][1] == "[" or (toks[i + 1][1] == "!" and i + 2 < len(toks) and toks[i + 2][1] == "[")):
            j = i + 1 if toks[i + 1][1] == "[" else i + 2
            i = match_close(toks, j) + 1
        else:
            out.append(toks[i])
            i += 1
    return out


def drop_test_modules(toks):
    """Remove `#[cfg(test)] mod x { ... }` (and `#[cfg(test)] fn/impl/use` items)."""
    out, i = [], 0
    while i < len(toks):
        if (toks[i][1] == "#" and i + 6 < len(toks) and [t[1] for t in toks[i + 1:i + 7]] == ["[", "cfg", "(", "test", ")", "]"]):
            j = i + 7
            # skip further attributes
            while j < len(toks) and toks[j][1] == "#":
                j = match_close(toks, j + 1) + 1
            # skip the item: up to `;` or a balanced `{...}` at depth 0
            k = j
            while k < len(toks):
                t = toks[k][1]
                if t == ";":
                    k += 1
                    break
                if t == "{":
                    k = match_close(toks, k) + 1
                    break
                if t in ("(", "["):
                    k = match_close(toks, k) + 1
                    continue
                k += 1
            i = k
        else:
            out.append(toks[i])
            i += 1
    return out


def split_top(toks, sep=","):
    """Split a token list on top-level `sep` (brackets and <...> generics nest)."""
    parts, cur, depth, angle = [], [], 0, 0
    for t in toks:
        x = t[1]
        if t[0] == "punct":
            if x in OPEN:
                depth += 1
            elif x in CLOSE:
                depth -= 1
            elif x == "<":
                angle += 1
            elif x == ">":
                angle -= 1
            elif x == ">>":
                angle -= 2
            elif x == "->":
                pass
        if t[0] == "punct" and x == sep and depth == 0 and angle <= 0:
            parts.append(cur)
            cur = []
        else:
            cur.append(t)
    if cur:
        parts.append(cur)
    return parts


def find_item(toks, kind, name):
    """Tokens of the body of `enum|struct name ... { body }` / `struct name(body);`.
    Returns (shape, body_tokens) with shape in {'brace','paren','unit'} or None."""
    for i in range(len(toks) - 1):
        if toks[i][1] == kind and toks[i][0] == "id" and toks[i + 1][1] == name:
            j = i + 2
            # skip generics
            if j < len(toks) and toks[j][1] == "<":
                d = 0
                while j < len(toks):
                    if toks[j][1] == "<":
                        d += 1
                    elif toks[j][1] == ">":
                        d -= 1
                    elif toks[j][1] == ">>":
                        d -= 2
                    j += 1
                    if d <= 0:
                        break
            while j < len(toks) and toks[j][1] not in ("{", "(", ";"):
                j += 1
            if j >= len(toks) or toks[j][1] == ";":
                return ("unit", [])
            k = match_close(toks, j)
            return ("brace" if toks[j][1] == "{" else "paren", toks[j + 1:k])
    return None


def ty_text(toks):
    out = ""
    for k, x, _ in toks:
        if k == "id" and out and (out[-1].isalnum() or out[-1] == "_"):
            out += " "
        if k == "life":
            out += x + " "
        else:
            out += x
    return out.strip()


def parse_fields(body):
    """`[pub] name: Type, ...` -> [(name, type tokens)]"""
    out = []
    for part in split_top(strip_attrs(body)):
        part = [t for t in part]
        while part and part[0][1] in ("pub",):
            part = part[1:]
            if part and part[0][1] == "(":
                part = part[match_close(part, 0) + 1:]
        if len(part) >= 3 and part[1][1] == ":":
            out.append((part[0][1], part[2:]))
    return out


def parse_tuple(body):
    out = []
    for part in split_top(strip_attrs(body)):
        while part and part[0][1] == "pub":
            part = part[1:]
            if part and part[0][1] == "(":
                part = part[match_close(part, 0) + 1:]
        if part:
            out.append(part)
    return out


def parse_enum(toks, name):
    """[(variant, shape, payload)] ; payload = [type toks] or [(field, type toks)]"""
    it = find_item(toks, "enum", name)
    if not it or it[0] != "brace":
        return None
    out = []
    for part in split_top(strip_attrs(it[1])):
        if not part:
            continue
        v = part[0][1]
        rest = part[1:]
        if not rest:
            out.append((v, "unit", []))
        elif rest[0][1] == "(":
            k = match_close(rest, 0)
            out.append((v, "tuple", parse_tuple(rest[1:k])))
        elif rest[0][1] == "{":
            k = match_close(rest, 0)
            out.append((v, "struct", parse_fields(rest[1:k])))
        elif rest[0][1] == "=":
            out.append((v, "unit", []))
        else:
            out.append((v, "?", []))
    return out


# ----------------------------------------------------------------- type mapping

PRIM = {
    "i64": "Z", "usize": "N", "u64": "N", "bool": "bool", "NonZeroUsize": "N",
    "String": "string", "&'static str": "string", "Text": "Text", "Identifier": "ident",
    "BaseId": "N", "CmdId": "N", "DeviceId": "N", "Bug": "Bug",
    "SerializeError": "SerializeError", "DeserializeError": "DeserializeError",
    "()": "unit", "u8": "N",
}
# `pub type X = Y;` aliases that the data types use (checked against the source by `check_aliases`)
ALIASES = {"FactKeyList": "Vec<FactKey>", "FactValueList": "Vec<FactValue>"}
# structs that contain the recursive value type: emitted parametrically
PARAM = {"Struct": "Value", "Fact": "Value", "FactValue": "Value", "ConstStruct": "ConstValue"}


class Mapper:
    def __init__(self, known):
        self.known = known      # names of generated types
        self.problems = []

    def ty(self, toks, self_name=None, param=None, inline=None):
        """Coq type for a Rust type (token list)."""
        s = ty_text(toks)
        return self.ty_s(s, self_name, param, inline or {})

    def ty_s(self, s, self_name, param, inline):
        s = s.strip()
        s = re.sub(r"^(crate|super|alloc|core|std)(::[a-z_]+)*::", "", s)
        if s == "Self" and self_name:
            s = self_name
        if s in PRIM:
            return PRIM[s]
        if s in ALIASES:
            return self.ty_s(ALIASES[s], self_name, param, inline)
        m = re.match(r"^([A-Za-z_][A-Za-z0-9_]*)<(.*)>$", s)
        if m:
            head, args = m.group(1), self.split_args(m.group(2))
            a = [self.ty_s(x, self_name, param, inline) for x in args]
            if head == "Box":
                inner = args[0].strip()
                if inner.startswith("[") and inner.endswith("]"):
                    return "(list %s)" % self.ty_s(inner[1:-1], self_name, param, inline)
                return a[0]
            if head == "Option":
                return "(option %s)" % a[0]
            if head == "Result" and len(a) == 2:
                return "(res %s %s)" % (a[0], a[1])
            if head == "Vec":
                return "(list %s)" % a[0]
            if head == "BTreeMap" and len(a) == 2:
                return "(list (%s * %s))" % (a[0], a[1])
            if head == "AutoMap":
                return "(list %s)" % a[0]
            self.problems.append("no rule for generic type `%s`" % s)
            return "unit"
        if s.startswith("(") and s.endswith(")"):
            parts = self.split_args(s[1:-1])
            return "(" + " * ".join(self.ty_s(x, self_name, param, inline) for x in parts) + ")"
        if s in inline:
            return inline[s]
        if s in PARAM:
            p = PARAM[s]
            if param == p:
                return "(%s_ V)" % s
            return "(%s_ %s)" % (s, p)
        if param and s == param:
            return "V"
        if s in self.known:
            return s
        self.problems.append("no rule for type `%s`" % s)
        return "unit"

    @staticmethod
    def split_args(s):
        parts, cur, d = [], "", 0
        for ch in s:
            if ch in "<([":
                d += 1
            elif ch in ">)]":
                d -= 1
            if ch == "," and d == 0:
                parts.append(cur)
                cur = ""
            else:
                cur += ch
        if cur.strip():
            parts.append(cur)
        return [p.strip() for p in parts]


# what to generate, in dependency order:  (file, kind, rust name, constructor prefix)
ITEMS = [
    (MOD + "label.rs", "enum", "LabelType", "LT_"),
    (MOD + "label.rs", "struct", "Label", None),
    (MOD + "instructions.rs", "enum", "ExitReason", "ER_"),
    (MOD + "instructions.rs", "enum", "Target", "T_"),
    (MOD + "instructions.rs", "enum", "WrapType", "W_"),
    (MOD + "instructions/meta.rs", "enum", "Meta", "M_"),
    (MOD + "data.rs", "enum", "TypeKind", "TK_"),
    (MOD + "data.rs", "struct", "ConstStruct", None),
    (MOD + "data.rs", "enum", "ConstValue", "CV_"),
    (MOD + "data.rs", "enum", "Persistence", "P_"),
    (MOD + "data.rs", "struct", "Field", None),
    (MOD + "instructions.rs", "enum", "Instruction", "I_"),
    (MOD + "module.rs", "struct", "Attribute", None),
    (MOD + "module.rs", "struct", "ActionDef", None),
    (MOD + "module.rs", "struct", "CommandDef", None),
    (MOD + "module.rs", "struct", "FactDef", None),
    (MOD + "module.rs", "struct", "StructDef", None),
    (MOD + "module.rs", "struct", "EnumDef", None),
    (VM + "data.rs", "enum", "HashableValue", "HV_"),
    (VM + "data.rs", "struct", "FactKey", None),
    (VM + "data.rs", "struct", "FactValue", None),
    (VM + "data.rs", "struct", "Fact", None),
    (VM + "data.rs", "struct", "Struct", None),
    (VM + "data.rs", "enum", "Value", "V_"),
    (VM + "io.rs", "enum", "MachineIOError", "IOE_"),
    (VM + "error.rs", "enum", "MachineErrorType", "ME_"),
    (VM + "context.rs", "struct", "ActionContext", None),
    (VM + "context.rs", "struct", "SealContext", None),
    (VM + "context.rs", "struct", "OpenContext", None),
    (VM + "context.rs", "struct", "PolicyContext", None),
    (VM + "context.rs", "enum", "CommandContext", "CC_"),
    (VM + "machine.rs", "enum", "MachineStatus", "MS_"),
]
# structs inlined into the constructor that mentions them (field types in order)
INLINE_STRUCTS = [(MOD + "data.rs", "ResultTypeKind")]
# structs whose field list is only pinned (the model's record is hand-written)
FIELD_LISTS = [
    (VM + "machine.rs", "Machine"), (VM + "machine.rs", "RunState"), (MOD + "module.rs", "ModuleV0"),
    (VM + "scope.rs", "ScopeManager"), (MOD + "codemap.rs", "CodeMap"), (MOD + "codemap.rs", "SpannedText"),
    (VM + "error.rs", "MachineError"), (VM + "error.rs", "MachineErrorSource"),
]

_cache = {}


def toks_of(repo, rel):
    key = (repo, rel)
    if key not in _cache:
        _cache[key] = lex(gen.read(repo, rel))
    return _cache[key]


def enum_variant_names(repo, rel, name):
    """Used by checks/C25.py: the instruction kinds of the current tree."""
    e = parse_enum(drop_test_modules(toks_of(repo, rel)), name)
    return [v for (v, _, _) in (e or [])]


def model_items(repo):
    """Parsed shapes of every ITEM: {name: ('enum', [(variant, [coq types])]) | ('struct', [(field, coq type)])}"""
    known = {n for (_, _, n, _) in ITEMS if n not in PARAM}
    mp = Mapper(known)
    problems = mp.problems
    inline = {}
    for rel, name in INLINE_STRUCTS:
        it = find_item(drop_test_modules(toks_of(repo, rel)), "struct", name)
        if not it:
            problems.append("struct %s not found in %s" % (name, rel))
            continue
        inline[name] = parse_fields(it[1])
    data_src = gen.strip_rust_comments(gen.read(repo, VM + "data.rs"))
    for a, target in ALIASES.items():
        m = re.search(r"\btype\s+%s\s*=\s*([^;]+);" % a, data_src)
        if not m or re.sub(r"\s+", "", m.group(1)) != target:
            problems.append("type alias %s is no longer %s" % (a, target))
    out = []
    for rel, kind, name, prefix in ITEMS:
        try:
            toks = drop_test_modules(toks_of(repo, rel))
        except OSError as e:
            problems.append("cannot read %s: %r" % (rel, e))
            continue
        param = PARAM.get(name)
        if kind == "enum":
            e = parse_enum(toks, name)
            if e is None:
                problems.append("enum %s not found in %s" % (name, rel))
                continue
            vs = []
            for (v, shape, payload) in e:
                if shape == "?":
                    problems.append("%s::%s: unparsed variant shape" % (name, v))
                args = []
                if shape == "tuple":
                    for t in payload:
                        s = ty_text(t)
                        s2 = re.sub(r"^Box<(.*)>$", r"\1", s)
                        if s2 in inline:
                            for (fn_, ft) in inline[s2]:
                                args.append((fn_, mp.ty(ft, name, None)))
                        else:
                            args.append((None, mp.ty(t, name, None)))
                elif shape == "struct":
                    for (fn_, t) in payload:
                        args.append((fn_, mp.ty(t, name, None)))
                vs.append((v, args))
            out.append((rel, "enum", name, prefix, vs))
        else:
            it = find_item(toks, "struct", name)
            if not it or it[0] != "brace":
                problems.append("struct %s not found in %s" % (name, rel))
                continue
            fs = [(f, mp.ty(t, name, param)) for (f, t) in parse_fields(it[1])]
            out.append((rel, "struct", name, param, fs))
    return out, problems


@gen.generator
def gen_vm(repo):
    items, problems = model_items(repo)
    L = [gen.HEADER.replace("tools/gen.py", "tools/gen_vm.py"),
         "From Aranya Require Import model.VmBase.\n",
         "Local Open Scope string_scope.\nLocal Open Scope N_scope.\n",
         "Set Implicit Arguments.\n"]
    src = gen.read(repo, VM + "machine.rs")
    ss = gen.find_const(src, "STACK_SIZE")
    if ss is None or not re.fullmatch(r"[0-9_]+", ss):
        problems.append("STACK_SIZE not found / not a literal in machine.rs")
        ss = "0"
    L.append("(* %smachine.rs: const STACK_SIZE *)\nDefinition STACK_SIZE : N := %s.\n" % (VM, ss.replace("_", "")))
    names = []
    for it in items:
        rel, kind, name = it[0], it[1], it[2]
        L.append("\n(* %s: %s %s *)" % (rel, kind, name))
        if kind == "enum":
            prefix, vs = it[3], it[4]
            L.append("Inductive %s : Type :=" % name)
            for (v, args) in vs:
                a = " ".join("(%s : %s)" % (fn_ or "_", ty) for (fn_, ty) in args)
                L.append("  | %s%s%s" % (prefix, v, (" " + a) if a else ""))
            L[-1] += "."
            L.append("Definition %s_variants : list (string * nat) := [%s]." % (
                name, "; ".join('("%s", %d%%nat)' % (v, len(args)) for (v, args) in vs)))
            names.append(name)
        else:
            param, fs = it[3], it[4]
            cname = name + "_" if param else name
            L.append("Record %s%s : Type := mk%s {" % (cname, " (V : Type)" if param else "", name))
            L.append(";\n".join("  %s_%s : %s" % (name, f, ty) for (f, ty) in fs))
            L.append("}.")
            if param:
                L.append("Arguments mk%s {V}." % name)
            L.append("Definition %s_field_names : list string := [%s]." % (name, "; ".join('"%s"' % f for (f, _) in fs)))
        # aliases once the recursive type exists
        if kind == "enum" and name in set(PARAM.values()):
            for s_, p_ in PARAM.items():
                if p_ == name:
                    L.append("Definition %s := %s_ %s." % (s_, s_, name))
    # pinned field lists (name: rust type text) of structs modelled by hand
    for rel, name in FIELD_LISTS:
        try:
            it = find_item(drop_test_modules(toks_of(repo, rel)), "struct", name)
        except OSError:
            it = None
        if not it:
            problems.append("struct %s not found in %s" % (name, rel))
            continue
        fs = parse_fields(it[1])
        # cfg-gated fields (bench stopwatch) stay in the list: they are what the code says
        L.append("\n(* %s: struct %s (pinned shape; the model's record is written by hand) *)" % (rel, name))
        L.append("Definition %s_shape : list (string * string) := [%s]." % (
            name, "; ".join('("%s", "%s")' % (f, ty_text(t).replace('"', "'")) for (f, t) in fs)))
    return "GenVm.v", "\n".join(L) + "\n", problems


# ----------------------------------------------------------------- panic-site ledger

LEDGER_FILES = [VM + "machine.rs", VM + "stack.rs", VM + "scope.rs", VM + "data.rs",
                VM + "error.rs", VM + "io.rs", VM + "context.rs", MOD + "codemap.rs",
                VM + "serialize.rs"]

PANIC_MACROS = {"todo", "unimplemented", "unreachable", "panic", "assert", "assert_eq", "assert_ne",
                "debug_assert", "debug_assert_eq", "debug_assert_ne", "bug"}
PANIC_METHODS = {"unwrap", "expect", "unwrap_err", "expect_err", "assume", "unwrap_unchecked",
                 "copy_from_slice", "clone_from_slice", "split_at", "split_at_mut", "swap_remove",
                 "split_off", "drain", "with_capacity", "reserve", "reserve_exact", "get_unchecked",
                 "get_unchecked_mut", "rotate_left", "rotate_right", "chunks", "chunks_exact", "windows",
                 "step_by", "repeat", "from_utf8_unchecked", "abs", "pow", "div_euclid", "rem_euclid",
                 "borrow_mut", "try_into_unwrap", "split_at_unchecked", "split_first_chunk", "split_last_chunk",
                 "split_off_first", "split_off_last", "first_chunk", "last_chunk", "as_chunks", "as_array", "from_utf8_lossy",
                 "extend_from_within", "truncate", "set_len", "fill", "swap", "split_first", "split_last"}
# ambiguous by name alone (Vec::insert/remove panic, BTreeMap::insert/remove do not): listed, the
# hand ledger says which they are
AMBIGUOUS_METHODS = {"insert", "remove"}
KEYWORDS = {"for", "in", "return", "mut", "as", "dyn", "const", "static", "let", "if", "else", "match",
            "while", "loop", "impl", "where", "fn", "pub", "use", "mod", "ref", "move", "break", "continue",
            "type", "struct", "enum", "trait", "unsafe", "async", "await", "crate", "super", "box"}
ARITH = {"+", "-", "*", "/", "%", "<<", ">>", "+=", "-=", "*=", "/=", "%=", "<<=", ">>="}


def is_operand_end(t):
    return (t[0] in ("num", "str", "chr") or (t[0] == "id" and t[1] not in KEYWORDS)
            or (t[0] == "punct" and t[1] in (")", "]", "?")))


def angle_spans(toks):
    """Indexes of tokens that are generic brackets (turbofish / type position) rather than operators:
    a `<` directly after `::` or after a type-like identifier (capitalised or a known generic fn)."""
    generic = set()
    i = 0
    while i < len(toks):
        if toks[i][1] == "<" and i > 0 and (toks[i - 1][1] == "::" or (toks[i - 1][0] == "id" and (toks[i - 1][1][0].isupper() or toks[i - 1][1] in ("impl", "fn")))):
            d, j = 0, i
            ok = False
            while j < len(toks):
                x = toks[j][1]
                if x == "<":
                    d += 1
                elif x == ">":
                    d -= 1
                elif x == ">>":
                    d -= 2
                elif x in (";", "{", "}") or x in ("&&", "||", "=="):
                    break
                if d <= 0:
                    ok = True
                    break
                j += 1
            if ok:
                generic.update(range(i, j + 1))
                # do not skip: nested `<` inside are handled by the same range
                i = j + 1
                continue
        i += 1
    return generic


def sites_of(repo, rel):
    toks = drop_test_modules(toks_of(repo, rel))
    toks = strip_attrs(toks)
    generic = angle_spans(toks)
    sites = []
    ctx = []            # stack of (kind, name, close_index)
    pending_fn = None
    pending_impl = None
    i = 0
    n = len(toks)

    def cur_fn():
        fn_ = [c[1] for c in ctx if c[0] == "fn"]
        im = [c[1] for c in ctx if c[0] == "impl"]
        if not fn_:
            return None
        return (im[-1] + "::" if im else "") + fn_[0]

    while i < n:
        k, x, line = toks[i]
        while ctx and i > ctx[-1][2]:
            ctx.pop()
        if k == "id" and x == "fn" and i + 1 < n and toks[i + 1][0] == "id":
            pending_fn = toks[i + 1][1]
        elif k == "id" and x == "impl":
            # self type: after `for` if present, else first type ident after generics
            j = i + 1
            if j < n and toks[j][1] == "<":
                d = 0
                while j < n:
                    if toks[j][1] == "<":
                        d += 1
                    elif toks[j][1] == ">":
                        d -= 1
                    elif toks[j][1] == ">>":
                        d -= 2
                    j += 1
                    if d <= 0:
                        break
            hdr = []
            while j < n and toks[j][1] not in ("{", "where", ";"):
                hdr.append(toks[j])
                j += 1
            names_ = [t[1] for t in hdr]
            if "for" in names_:
                hdr = hdr[names_.index("for") + 1:]
            ids = [t[1] for t in hdr if t[0] == "id" and t[1] not in KEYWORDS]
            # only an impl *item* (followed by a block), not `impl Trait` in argument position
            jj = j
            while jj < n and toks[jj][1] not in ("{", ";"):
                jj += 1
            if ids and jj < n and toks[jj][1] == "{" and not ctx_is_fn(ctx) and pending_fn is None:
                pending_impl = ids[0]
        elif k == "punct" and x == ";" and pending_fn and not ctx_in_sig(toks, i):
            pending_fn = None
        elif k == "punct" and x == "{":
            close = match_close(toks, i)
            if pending_fn is not None:
                ctx.append(("fn", pending_fn, close))
                pending_fn = None
            elif pending_impl is not None:
                ctx.append(("impl", pending_impl, close))
                pending_impl = None
        fn_ = cur_fn()
        if fn_ is not None and pending_fn is None:
            # --- macros
            if k == "id" and i + 1 < n and toks[i + 1][1] == "!" and x in PANIC_MACROS:
                j = i + 2
                arg = ""
                if j < n and toks[j][1] in OPEN:
                    c = match_close(toks, j)
                    arg = norm(toks[j:c + 1])
                sites.append((fn_, "macro:" + x, x + "!" + arg, line))
            elif k == "id" and x == "vec" and i + 2 < n and toks[i + 1][1] == "!" and toks[i + 2][1] == "[":
                c = match_close(toks, i + 2)
                if any(t[1] == ";" for t in toks[i + 3:c]):
                    sites.append((fn_, "alloc:vec-repeat", "vec!" + norm(toks[i + 2:c + 1]), line))
            # --- method calls
            elif k == "id" and i > 0 and toks[i - 1][1] in (".", "::") and i + 1 < n and (toks[i + 1][1] == "(" or (toks[i + 1][1] == "::" and x in PANIC_METHODS)) \
                    and (x in PANIC_METHODS or x in AMBIGUOUS_METHODS):
                j = i + 1
                while j < n and toks[j][1] != "(":
                    j += 1
                c = match_close(toks, j)
                recv = receiver(toks, i - 1)
                kind = "call:" + x
                sites.append((fn_, kind, recv + toks[i - 1][1] + x + norm(toks[j:c + 1]), line))
            # --- indexing / slicing
            elif k == "punct" and x == "[" and i > 0 and is_operand_end(toks[i - 1]) and toks[i - 1][1] != "?":
                c = match_close(toks, i)
                inner = toks[i + 1:c]
                kind = "slice" if any(t[1] in ("..", "..=") for t in inner) else "index"
                sites.append((fn_, kind, receiver(toks, i) + norm(toks[i:c + 1]), line))
            # --- unchecked arithmetic
            elif k == "punct" and x in ARITH and i not in generic and i > 0 and is_operand_end(toks[i - 1]) and i + 1 < n:
                nxt = toks[i + 1]
                if nxt[0] in ("num", "id", "chr") or nxt[1] in ("(", "-", "*", "&", "!"):
                    sites.append((fn_, "arith:" + x, norm(toks[max(0, i - 3):i + 4]), line))
        i += 1
    # ordinal within (fn, kind, text) so identical texts stay distinct
    seen = {}
    out = []
    for (fn_, kind, text, line) in sites:
        key = (fn_, kind, text)
        seen[key] = seen.get(key, 0) + 1
        out.append((fn_, kind, text, seen[key], line))
    return out


def ctx_is_fn(ctx):
    return any(c[0] == "fn" for c in ctx)


def ctx_in_sig(toks, i):
    """`;` inside brackets of a signature (array type `[u8; 4]`) does not end a declaration."""
    depth = 0
    j = i - 1
    while j >= 0 and toks[j][1] not in ("fn",):
        if toks[j][1] in CLOSE:
            depth += 1
        elif toks[j][1] in OPEN:
            depth -= 1
        j -= 1
    return depth < 0


def receiver(toks, i):
    """Normalised text of the postfix receiver chain ending just before toks[i]."""
    j = i - 1
    parts = []
    while j >= 0:
        t = toks[j]
        if t[0] == "punct" and t[1] in (")", "]"):
            # find matching open
            d = 0
            k = j
            while k >= 0:
                if toks[k][0] == "punct" and toks[k][1] in CLOSE:
                    d += 1
                elif toks[k][0] == "punct" and toks[k][1] in OPEN:
                    d -= 1
                    if d == 0:
                        break
                k -= 1
            parts.append(norm(toks[k:j + 1]))
            j = k - 1
        elif t[0] in ("id", "num") and t[1] not in KEYWORDS - {"crate", "super"}:
            parts.append(t[1])
            j -= 1
        elif t[0] == "punct" and t[1] in (".", "::", "?"):
            parts.append(t[1])
            j -= 1
        else:
            break
        if len(parts) > 12:
            break
    return "".join(reversed(parts))


def norm(toks):
    out = ""
    for k, x, _ in toks:
        if k == "str":
            x = x.replace("\n", " ")
        if out and (out[-1].isalnum() or out[-1] == "_") and (x[0].isalnum() or x[0] == "_"):
            out += " "
        out += x
    return out[:160]


def coq_str(s):
    return '"' + s.replace('"', '""') + '"'


@gen.generator
def gen_vm_panics(repo):
    problems = []
    L = [gen.HEADER.replace("tools/gen.py", "tools/gen_vm.py"),
         "Local Open Scope string_scope.\n",
         "(* A site = (file, function, kind, normalised token text, ordinal of that text in the function). *)",
         "Definition site : Type := (string * string * string * string * nat)%type.\n"]
    allnames = []
    for rel in LEDGER_FILES:
        try:
            ss = sites_of(repo, rel)
        except OSError as e:
            problems.append("cannot read %s: %r" % (rel, e))
            ss = []
        short = os.path.basename(rel)
        nm = "sites_" + short.replace(".", "_")
        allnames.append(nm)
        L.append("(* %s *)" % rel)
        L.append("Definition %s : list site := [" % nm)
        L.append(";\n".join("  (%s, %s, %s, %s, %d%%nat) (* line %d *)" % (
            coq_str(short), coq_str(f), coq_str(k), coq_str(t), o, ln) for (f, k, t, o, ln) in ss))
        L.append("].\n")
    L.append("Definition vm_sites : list site := %s." % " ++ ".join(allnames))
    return "GenVmPanics.v", "\n".join(L) + "\n", problems
