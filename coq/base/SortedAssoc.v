(** Sorted association lists: the model of [BTreeMap<K, V>].

    A map is the list of its entries in ascending key order (the order
    [BTreeMap] iterates in); [sget]/[sput]/[sdel] are [get]/[insert]/[remove].
    Two sorted lists with the same lookups are equal, so list equality is map
    equality. *)
From Aranya Require Import base.Tactics base.ListLex.

Section SMap.
  Context {K V : Type} (cmp : K -> K -> comparison).

  Definition slt (a b : K * V) : Prop := cmp (fst a) (fst b) = Lt.
  Definition sorted (m : list (K * V)) : Prop := StronglySorted slt m.

  Fixpoint sget (k : K) (m : list (K * V)) : option V :=
    match m with
    | [] => None
    | (k', v) :: r => match cmp k k' with Eq => Some v | _ => sget k r end
    end.

  Fixpoint sput (k : K) (v : V) (m : list (K * V)) : list (K * V) :=
    match m with
    | [] => [(k, v)]
    | (k', v') :: r =>
      match cmp k k' with
      | Eq => (k, v) :: r
      | Lt => (k, v) :: m
      | Gt => (k', v') :: sput k v r
      end
    end.

  Fixpoint sdel (k : K) (m : list (K * V)) : list (K * V) :=
    match m with
    | [] => []
    | (k', v') :: r =>
      match cmp k k' with
      | Eq => r
      | Lt => m
      | Gt => (k', v') :: sdel k r
      end
    end.

  Definition smem (k : K) (m : list (K * V)) : bool :=
    match sget k m with Some _ => true | None => false end.

  Context (L : CmpLaws cmp).

  Lemma sget_sput_same k v m : sget k (sput k v m) = Some v.
  Proof.
    induction m as [|[k' v'] r IH]; cbn.
    - rewrite (cmp_refl _ L); auto.
    - destruct (cmp k k') eqn:E; cbn; rewrite ?(cmp_refl _ L), ?E; auto.
  Qed.

  Lemma sget_sput_other k k2 v m : k2 <> k -> sget k2 (sput k v m) = sget k2 m.
  Proof.
    intros Hne. assert (Hc : cmp k2 k <> Eq) by (rewrite (cmp_eq _ L); auto).
    induction m as [|[k' v'] r IH]; cbn.
    - destruct (cmp k2 k); congruence.
    - destruct (cmp k k') eqn:E; cbn.
      + apply (cmp_eq _ L) in E; subst k'. destruct (cmp k2 k); congruence.
      + destruct (cmp k2 k); congruence.
      + rewrite IH; auto.
  Qed.

  Lemma sget_sput k k2 v m :
    sget k2 (sput k v m) = if cmp_eqb cmp k2 k then Some v else sget k2 m.
  Proof.
    destruct (cmp_eqb cmp k2 k) eqn:E.
    - apply (cmp_eqb_spec _ L) in E; subst. apply sget_sput_same.
    - apply (cmp_eqb_false _ L) in E. apply sget_sput_other; auto.
  Qed.

  Lemma lb_sget_none k m : Forall (fun e => cmp k (fst e) = Lt) m -> sget k m = None.
  Proof.
    induction 1 as [|[k' v'] r H _ IH]; cbn in *; auto. rewrite H; auto.
  Qed.

  Lemma sorted_inv e m : sorted (e :: m) -> sorted m /\ Forall (slt e) m.
  Proof. apply StronglySorted_inv. Qed.

  Lemma sorted_cons e m : sorted m -> Forall (slt e) m -> sorted (e :: m).
  Proof. intros; constructor; auto. Qed.

  Lemma sorted_nil : sorted [].
  Proof. constructor. Qed.

  Lemma Forall_slt_trans (e e' : K * V) m : slt e e' -> Forall (slt e') m -> Forall (slt e) m.
  Proof.
    intros H. apply Forall_impl. intros x Hx. unfold slt in *.
    eapply (cmp_lt_trans _ L); eauto.
  Qed.

  Lemma lt_all k (e' : K * V) m :
    cmp k (fst e') = Lt -> Forall (slt e') m -> Forall (fun e => cmp k (fst e) = Lt) m.
  Proof.
    intros H. apply Forall_impl. intros x Hx. unfold slt in *.
    eapply (cmp_lt_trans _ L); eauto.
  Qed.

  Lemma Forall_sput (P : K * V -> Prop) k v m : P (k, v) -> Forall P m -> Forall P (sput k v m).
  Proof.
    intros Hp. induction 1 as [|[k' v'] r H Hr IH]; cbn; auto.
    destruct (cmp k k'); auto.
  Qed.

  Lemma Forall_sdel (P : K * V -> Prop) k m : Forall P m -> Forall P (sdel k m).
  Proof.
    induction 1 as [|[k' v'] r H Hr IH]; cbn; auto.
    destruct (cmp k k'); auto.
  Qed.

  Lemma sorted_sput k v m : sorted m -> sorted (sput k v m).
  Proof.
    induction m as [|[k' v'] r IH]; intros S; cbn.
    - repeat constructor.
    - apply sorted_inv in S as [Sr Hall].
      destruct (cmp k k') eqn:E.
      + apply (cmp_eq _ L) in E; subst k'. apply sorted_cons; auto.
      + apply sorted_cons.
        * apply sorted_cons; auto.
        * constructor; auto. eapply Forall_slt_trans; [|exact Hall]. exact E.
      + apply sorted_cons; auto.
        apply Forall_sput; auto. unfold slt; cbn. apply (cmp_gt_lt _ L); auto.
  Qed.

  Lemma sorted_sdel k m : sorted m -> sorted (sdel k m).
  Proof.
    induction m as [|[k' v'] r IH]; intros S; cbn; auto.
    pose proof S as S0. apply sorted_inv in S as [Sr Hall].
    destruct (cmp k k') eqn:E; auto.
    apply sorted_cons; auto. apply Forall_sdel; auto.
  Qed.

  Lemma sget_sdel_same k m : sorted m -> sget k (sdel k m) = None.
  Proof.
    induction m as [|[k' v'] r IH]; intros S; cbn; auto.
    apply sorted_inv in S as [Sr Hall].
    destruct (cmp k k') eqn:E; cbn.
    - apply (cmp_eq _ L) in E; subst k'. apply lb_sget_none. exact Hall.
    - rewrite E. apply lb_sget_none.
      eapply lt_all; [|exact Hall]; auto.
    - rewrite E; auto.
  Qed.

  Lemma sget_sdel_other k k2 m : k2 <> k -> sget k2 (sdel k m) = sget k2 m.
  Proof.
    intros Hne. assert (Hc : cmp k2 k <> Eq) by (rewrite (cmp_eq _ L); auto).
    induction m as [|[k' v'] r IH]; cbn; auto.
    destruct (cmp k k') eqn:E; cbn; auto.
    - apply (cmp_eq _ L) in E; subst k'. destruct (cmp k2 k); congruence.
    - rewrite IH; auto.
  Qed.

  Lemma sget_sdel k k2 m : sorted m ->
    sget k2 (sdel k m) = if cmp_eqb cmp k2 k then None else sget k2 m.
  Proof.
    intros S. destruct (cmp_eqb cmp k2 k) eqn:E.
    - apply (cmp_eqb_spec _ L) in E; subst. apply sget_sdel_same; auto.
    - apply (cmp_eqb_false _ L) in E. apply sget_sdel_other; auto.
  Qed.

  Lemma sget_In k v m : sorted m -> (In (k, v) m <-> sget k m = Some v).
  Proof.
    induction m as [|[k' v'] r IH]; intros S; cbn.
    - split; [tauto|discriminate].
    - apply sorted_inv in S as [Sr Hall]. specialize (IH Sr).
      destruct (cmp k k') eqn:E.
      + apply (cmp_eq _ L) in E; subst k'. split.
        * intros [H|H]; [congruence|].
          rewrite Forall_forall in Hall. apply Hall in H. unfold slt in H; cbn in H.
          rewrite (cmp_refl _ L) in H; discriminate.
        * intros H; inv H; auto.
      + rewrite <- IH. split; auto. intros [H|H]; auto. inv H. rewrite (cmp_refl _ L) in E; discriminate.
      + rewrite <- IH. split; auto. intros [H|H]; auto. inv H. rewrite (cmp_refl _ L) in E; discriminate.
  Qed.

  Lemma sget_head_lt k m : sorted m -> Forall (fun e => cmp k (fst e) = Lt) m -> sget k m = None.
  Proof. intros _; apply lb_sget_none. Qed.

  (** Extensionality: list equality is map equality. *)
  Lemma sorted_ext m1 m2 : sorted m1 -> sorted m2 ->
    (forall k, sget k m1 = sget k m2) -> m1 = m2.
  Proof.
    revert m2; induction m1 as [|[k1 v1] r1 IH]; intros m2 S1 S2 H.
    - destruct m2 as [|[k2 v2] r2]; auto.
      specialize (H k2); cbn in H. rewrite (cmp_refl _ L) in H; discriminate.
    - destruct m2 as [|[k2 v2] r2].
      + specialize (H k1); cbn in H. rewrite (cmp_refl _ L) in H; discriminate.
      + apply sorted_inv in S1 as [S1 A1]. apply sorted_inv in S2 as [S2 A2].
        destruct (cmp k1 k2) eqn:E.
        * apply (cmp_eq _ L) in E; subst k2.
          pose proof (H k1) as H1; cbn in H1; rewrite (cmp_refl _ L) in H1; inv H1.
          f_equal. apply IH; auto. intros k. specialize (H k); cbn in H.
          destruct (cmp k k1) eqn:Ek; auto.
          apply (cmp_eq _ L) in Ek; subst k.
          rewrite !lb_sget_none; auto.
        * exfalso. specialize (H k1); cbn in H. rewrite (cmp_refl _ L), E in H.
          rewrite lb_sget_none in H; [discriminate|].
          eapply lt_all; [|exact A2]; auto.
        * exfalso. apply (cmp_gt_lt _ L) in E.
          specialize (H k2); cbn in H. rewrite (cmp_refl _ L), E in H.
          rewrite lb_sget_none in H; [discriminate|].
          eapply lt_all; [|exact A1]; auto.
  Qed.

  (** [retain] *)
  Lemma sorted_filter f m : sorted m -> sorted (filter f m).
  Proof.
    induction m as [|e r IH]; intros S; cbn; auto.
    apply sorted_inv in S as [Sr Hall].
    destruct (f e); auto. apply sorted_cons; auto.
    rewrite Forall_forall in *. intros x Hx. apply filter_In in Hx as [Hx _]. auto.
  Qed.

  Lemma sget_filter f k m : sorted m ->
    sget k (filter f m) = match sget k m with Some v => if f (k, v) then Some v else None | None => None end.
  Proof.
    induction m as [|[k' v'] r IH]; intros S; cbn; auto.
    apply sorted_inv in S as [Sr Hall]. specialize (IH Sr).
    destruct (cmp k k') eqn:E.
    - apply (cmp_eq _ L) in E; subst k'.
      destruct (f (k, v')); cbn; rewrite ?(cmp_refl _ L); auto.
      rewrite IH. rewrite lb_sget_none; auto.
    - destruct (f (k', v')); cbn; rewrite ?E; auto.
    - destruct (f (k', v')); cbn; rewrite ?E; auto.
  Qed.

  Lemma sget_app_lt k m1 m2 :
    Forall (fun e => cmp (fst e) k = Lt) m1 -> sget k (m1 ++ m2) = sget k m2.
  Proof.
    induction 1 as [|[k' v'] r H _ IH]; cbn in *; auto.
    rewrite (cmp_opp _ L), H; cbn; auto.
  Qed.

  Lemma sorted_map_fst_NoDup m : sorted m -> NoDup (map fst m).
  Proof.
    induction m as [|e r IH]; intros S; cbn; constructor.
    - apply sorted_inv in S as [_ Hall]. rewrite Forall_forall in Hall.
      intros Hin. apply in_map_iff in Hin as [x [Hx Hin]]. apply Hall in Hin.
      unfold slt in Hin. rewrite Hx, (cmp_refl _ L) in Hin. discriminate.
    - apply IH. apply sorted_inv in S; tauto.
  Qed.
End SMap.

Arguments sorted_nil {K V cmp}.
