(** Generic sequentially-consistent interleaving semantics.

    A system is a shared state plus a list of per-thread local states (the
    thread id is the index in the list, so the number of threads is the
    length of the list and is arbitrary).  One [event] of a schedule names a
    thread ([tid_of]) and possibly a scheduling choice; [step e l s] is the
    effect of the single atomic operation thread [tid_of e] performs next,
    on its own local state [l] and the shared state [s], or [None] when the
    event is not enabled (thread blocked / finished / not present).

    [run sched g] executes a schedule; events that are not enabled are
    skipped, so *every* list of events is a schedule.  All concurrency
    theorems are of the form [forall sched, Inv (run sched init)], obtained
    from [invariant_run]. *)
From Aranya Require Import base.Tactics.

Section Lists.
  Variable A : Type.

  Fixpoint upd (l : list A) (i : nat) (v : A) : list A :=
    match l, i with
    | [], _ => []
    | _ :: r, O => v :: r
    | x :: r, S i' => x :: upd r i' v
    end.

  Lemma upd_length l i v : length (upd l i v) = length l.
  Proof. revert i; induction l; destruct i; cbn; auto. Qed.

  Lemma nth_error_upd_same l i v x :
    nth_error l i = Some x -> nth_error (upd l i v) i = Some v.
  Proof. revert i; induction l; destruct i; cbn; intros; try discriminate; auto. Qed.

  Lemma nth_error_upd_other l i j v :
    i <> j -> nth_error (upd l i v) j = nth_error l j.
  Proof.
    revert i j; induction l; destruct i, j; cbn; intros; auto; try congruence.
  Qed.

  Lemma nth_error_upd l i j v x y :
    nth_error l i = Some x ->
    nth_error (upd l i v) j = Some y ->
    (j = i /\ y = v) \/ (j <> i /\ nth_error l j = Some y).
  Proof.
    intros Hi Hj. destruct (Nat.eq_dec j i) as [->|Hne].
    - rewrite (nth_error_upd_same _ _ _ _ Hi) in Hj. left; split; congruence.
    - rewrite nth_error_upd_other in Hj by congruence. right; auto.
  Qed.

  Lemma upd_same_value l i x : nth_error l i = Some x -> upd l i x = l.
  Proof. revert i; induction l; destruct i; cbn; intros; try congruence. f_equal; auto. Qed.
End Lists.
Arguments upd {A}.
Arguments upd_length {A}.
Arguments nth_error_upd_same {A}.
Arguments nth_error_upd_other {A}.
Arguments nth_error_upd {A}.
Arguments upd_same_value {A}.

(** Sums of a per-thread quantity over the thread table, and how one step
    (an update at one index) changes them. *)
Section Sums.
  Variable A : Type.
  Variable f : A -> nat.

  Fixpoint sumf (l : list A) : nat :=
    match l with
    | [] => O
    | x :: r => f x + sumf r
    end.

  Lemma sumf_upd l i x v :
    nth_error l i = Some x -> sumf (upd l i v) + f x = sumf l + f v.
  Proof.
    revert i; induction l as [|a r IH]; destruct i; cbn; intros H; try discriminate.
    - inv H. lia.
    - specialize (IH _ H). lia.
  Qed.

  Lemma sumf_ge l i x : nth_error l i = Some x -> f x <= sumf l.
  Proof.
    revert i; induction l as [|a r IH]; destruct i; cbn; intros H; try discriminate.
    - inv H. lia.
    - specialize (IH _ H). lia.
  Qed.

  Lemma sumf_zero l : sumf l = O -> forall i x, nth_error l i = Some x -> f x = O.
  Proof. intros H i x Hx. pose proof (sumf_ge _ _ _ Hx). lia. Qed.

  Lemma sumf_all_zero l : (forall x, In x l -> f x = O) -> sumf l = O.
  Proof.
    induction l; cbn; intros H; auto. rewrite (H a) by auto. rewrite IHl; auto.
  Qed.
End Sums.
Arguments sumf {A}.
Arguments sumf_upd {A}.
Arguments sumf_ge {A}.
Arguments sumf_zero {A}.
Arguments sumf_all_zero {A}.

Section Interleave.
  Variables (shared local event : Type).
  Variable tid_of : event -> nat.
  Variable step : event -> local -> shared -> option (local * shared).

  Record gstate := G { sh : shared; th : list local }.

  Definition at_ (g : gstate) (t : nat) (l : local) : Prop := nth_error (th g) t = Some l.

  Definition gstep (e : event) (g : gstate) : option gstate :=
    match nth_error (th g) (tid_of e) with
    | None => None
    | Some l =>
      match step e l (sh g) with
      | None => None
      | Some (l', s') => Some (G s' (upd (th g) (tid_of e) l'))
      end
    end.

  Definition enabled (e : event) (g : gstate) : bool :=
    match gstep e g with Some _ => true | None => false end.

  (** Disabled events are skipped. *)
  Definition exec (g : gstate) (e : event) : gstate :=
    match gstep e g with Some g' => g' | None => g end.

  Definition run (sched : list event) (g : gstate) : gstate := fold_left exec sched g.

  (** The states after each event (used by the schedule-replay correspondence). *)
  Fixpoint trace (sched : list event) (g : gstate) : list gstate :=
    match sched with
    | [] => []
    | e :: r => let g' := exec g e in g' :: trace r g'
    end.

  Inductive reachable (g0 : gstate) : gstate -> Prop :=
  | reach_init : reachable g0 g0
  | reach_step g e g' : reachable g0 g -> gstep e g = Some g' -> reachable g0 g'.

  Lemma gstep_inv e g g' :
    gstep e g = Some g' ->
    exists l l', at_ g (tid_of e) l /\ step e l (sh g) = Some (l', sh g')
                 /\ th g' = upd (th g) (tid_of e) l'.
  Proof.
    unfold gstep, at_. destruct (nth_error (th g) (tid_of e)) as [l|] eqn:E; try discriminate.
    destruct (step e l (sh g)) as [[l' s']|] eqn:E2; try discriminate.
    intros H; inv H. exists l, l'. cbn. auto.
  Qed.

  Lemma gstep_intro e g l l' s' :
    at_ g (tid_of e) l -> step e l (sh g) = Some (l', s') ->
    gstep e g = Some (G s' (upd (th g) (tid_of e) l')).
  Proof. unfold gstep, at_. intros -> ->. reflexivity. Qed.

  (** How the thread table looks after a step. *)
  Lemma at_after e g g' l l' :
    at_ g (tid_of e) l -> th g' = upd (th g) (tid_of e) l' ->
    forall t x, at_ g' t x <-> (t = tid_of e /\ x = l') \/ (t <> tid_of e /\ at_ g t x).
  Proof.
    unfold at_. intros Hl Hth t x. rewrite Hth. split.
    - intros H. eapply nth_error_upd; eauto.
    - intros [[-> ->]|[Hne H]].
      + eapply nth_error_upd_same; eauto.
      + rewrite nth_error_upd_other; auto.
  Qed.

  Lemma gstep_length e g g' : gstep e g = Some g' -> length (th g') = length (th g).
  Proof.
    intros H. apply gstep_inv in H. destruct H as (l & l' & _ & _ & ->). apply upd_length.
  Qed.

  Lemma reachable_trans g0 g1 g2 : reachable g0 g1 -> reachable g1 g2 -> reachable g0 g2.
  Proof. intros H1 H2. induction H2; auto. econstructor; eauto. Qed.

  Lemma exec_reachable g0 g e : reachable g0 g -> reachable g0 (exec g e).
  Proof.
    intros H. unfold exec. destruct (gstep e g) eqn:E; auto. econstructor; eauto.
  Qed.

  Lemma run_reachable_from sched : forall g0 g, reachable g0 g -> reachable g0 (run sched g).
  Proof.
    induction sched; cbn; intros; auto. apply IHsched. apply exec_reachable; auto.
  Qed.

  Lemma run_reachable sched g0 : reachable g0 (run sched g0).
  Proof. apply run_reachable_from. constructor. Qed.

  Lemma run_app s1 s2 g : run (s1 ++ s2) g = run s2 (run s1 g).
  Proof. unfold run. apply fold_left_app. Qed.

  Lemma reachable_run g0 g : reachable g0 g -> exists sched, g = run sched g0.
  Proof.
    induction 1.
    - exists []. reflexivity.
    - destruct IHreachable as [s ->]. exists (s ++ [e]).
      rewrite run_app. cbn. unfold exec. rewrite H0. reflexivity.
  Qed.

  (** Invariant by induction over the interleaved step sequence. *)
  Lemma invariant_induction (Inv : gstate -> Prop) g0 :
    Inv g0 ->
    (forall g e g', Inv g -> gstep e g = Some g' -> Inv g') ->
    forall g, reachable g0 g -> Inv g.
  Proof. intros H0 Hs g Hr. induction Hr; eauto. Qed.

  Lemma invariant_run (Inv : gstate -> Prop) g0 :
    Inv g0 ->
    (forall g e g', Inv g -> gstep e g = Some g' -> Inv g') ->
    forall sched, Inv (run sched g0).
  Proof. intros. eapply invariant_induction; eauto. apply run_reachable. Qed.

  Lemma trace_length sched : forall g, length (trace sched g) = length sched.
  Proof. induction sched; cbn; auto. Qed.

  Lemma trace_last sched : forall g d, last (trace sched g) d = match sched with [] => d | _ => run sched g end.
  Proof.
    induction sched as [|e r IH]; intros; auto.
    cbn [trace]. destruct r as [|e' r'].
    - reflexivity.
    - specialize (IH (exec g e) d). cbn [trace] in *. cbn [last] in *.
      change (run (e :: e' :: r') g) with (run (e' :: r') (exec g e)).
      destruct (trace r' (exec (exec g e) e')) eqn:E; auto.
  Qed.
End Interleave.

Arguments G {shared local}.
Arguments sh {shared local}.
Arguments th {shared local}.
Arguments at_ {shared local}.
Arguments gstep {shared local event}.
Arguments enabled {shared local event}.
Arguments exec {shared local event}.
Arguments run {shared local event}.
Arguments trace {shared local event}.
Arguments reachable {shared local event}.
