(** Lexicographic order on lists (Rust's [Ord for [T]]) and the prefix-range
    lemma that [BTreeMap::range(prefix..).take_while(starts_with(prefix))]
    silently relies on.

    The order is parametric in a three-way comparison satisfying [CmpLaws];
    [lex_cmp cmp] satisfies the same laws, so it can be iterated:
    bytes = [list N] under [lex_cmp N.compare], compound keys = [list bytes]
    under [lex_cmp (lex_cmp N.compare)]. *)
From Aranya Require Import base.Tactics.
From Coq Require Export Sorting.Sorted.

Record CmpLaws {A} (cmp : A -> A -> comparison) : Prop := {
  cmp_eq : forall a b, cmp a b = Eq <-> a = b;
  cmp_opp : forall a b, cmp b a = CompOpp (cmp a b);
  cmp_lt_trans : forall a b c, cmp a b = Lt -> cmp b c = Lt -> cmp a c = Lt;
}.

Lemma N_cmp_laws : CmpLaws N.compare.
Proof.
  constructor.
  - intros; apply N.compare_eq_iff.
  - intros; apply N.compare_antisym.
  - intros a b c; rewrite !N.compare_lt_iff; lia.
Qed.

Section Laws.
  Context {A} (cmp : A -> A -> comparison) (L : CmpLaws cmp).

  Lemma cmp_refl a : cmp a a = Eq.
  Proof. apply (cmp_eq _ L); reflexivity. Qed.

  Lemma cmp_gt_lt a b : cmp a b = Gt <-> cmp b a = Lt.
  Proof. rewrite (cmp_opp _ L a b). destruct (cmp a b); cbn; split; congruence. Qed.

  Lemma cmp_lt_irrefl a : cmp a a <> Lt.
  Proof. rewrite cmp_refl; discriminate. Qed.

  Lemma cmp_lt_neq a b : cmp a b = Lt -> a <> b.
  Proof. intros H E; subst; revert H; apply cmp_lt_irrefl. Qed.

  Lemma cmp_le_lt_trans a b c : cmp a b <> Gt -> cmp b c = Lt -> cmp a c = Lt.
  Proof.
    intros H1 H2. destruct (cmp a b) eqn:E; try congruence.
    - apply (cmp_eq _ L) in E; subst; auto.
    - eapply (cmp_lt_trans _ L); eauto.
  Qed.

  Lemma cmp_lt_le_trans a b c : cmp a b = Lt -> cmp b c <> Gt -> cmp a c = Lt.
  Proof.
    intros H1 H2. destruct (cmp b c) eqn:E; try congruence.
    - apply (cmp_eq _ L) in E; subst; auto.
    - eapply (cmp_lt_trans _ L); eauto.
  Qed.

  Definition cmp_eqb (a b : A) : bool := match cmp a b with Eq => true | _ => false end.

  Lemma cmp_eqb_spec a b : cmp_eqb a b = true <-> a = b.
  Proof.
    unfold cmp_eqb. rewrite <- (cmp_eq _ L). destruct (cmp a b); split; congruence.
  Qed.

  Lemma cmp_eqb_refl a : cmp_eqb a a = true.
  Proof. apply cmp_eqb_spec; reflexivity. Qed.

  Lemma cmp_eqb_false a b : cmp_eqb a b = false <-> a <> b.
  Proof.
    rewrite <- cmp_eqb_spec. destruct (cmp_eqb a b); split; congruence.
  Qed.
End Laws.

Section Lex.
  Context {A} (cmp : A -> A -> comparison).

  (** [Ord for [T]]: element-wise, a proper prefix is smaller. *)
  Fixpoint lex_cmp (a b : list A) : comparison :=
    match a, b with
    | [], [] => Eq
    | [], _ :: _ => Lt
    | _ :: _, [] => Gt
    | x :: a', y :: b' => match cmp x y with Eq => lex_cmp a' b' | c => c end
    end.

  (** [<[T]>::starts_with]: [p] is a whole-element prefix of [k]. *)
  Fixpoint is_prefix (p k : list A) : bool :=
    match p, k with
    | [], _ => true
    | _ :: _, [] => false
    | x :: p', y :: k' => match cmp x y with Eq => is_prefix p' k' | _ => false end
    end.

  Context (L : CmpLaws cmp).

  Lemma lex_cmp_laws : CmpLaws lex_cmp.
  Proof.
    constructor.
    - induction a as [|x a IH]; destruct b as [|y b]; cbn; try (split; congruence).
      destruct (cmp x y) eqn:E.
      + apply (cmp_eq _ L) in E; subst. rewrite IH. split; congruence.
      + split; try congruence. intros H; inv H. rewrite (cmp_refl _ L) in E; discriminate.
      + split; try congruence. intros H; inv H. rewrite (cmp_refl _ L) in E; discriminate.
    - induction a as [|x a IH]; destruct b as [|y b]; cbn; auto.
      rewrite (cmp_opp _ L x y). destruct (cmp x y); cbn; auto.
    - induction a as [|x a IH]; destruct b as [|y b]; destruct c as [|z c]; cbn; try congruence.
      destruct (cmp x y) eqn:E1; try congruence.
      + apply (cmp_eq _ L) in E1; subst.
        destruct (cmp y z) eqn:E2; try congruence. apply IH.
      + destruct (cmp y z) eqn:E2; try congruence.
        * apply (cmp_eq _ L) in E2; subst. rewrite E1; auto.
        * rewrite (cmp_lt_trans _ L _ _ _ E1 E2); auto.
  Qed.

  Lemma is_prefix_app p k : is_prefix p k = true <-> exists s, k = p ++ s.
  Proof.
    revert k; induction p as [|x p IH]; intros k; cbn.
    - split; eauto.
    - destruct k as [|y k].
      + split; [discriminate|]. intros [s H]; discriminate.
      + destruct (cmp x y) eqn:E.
        * apply (cmp_eq _ L) in E; subst. rewrite IH.
          split; intros [s H]; exists s; congruence.
        * split; [discriminate|]. intros [s H]; inv H. rewrite (cmp_refl _ L) in E; discriminate.
        * split; [discriminate|]. intros [s H]; inv H. rewrite (cmp_refl _ L) in E; discriminate.
  Qed.

  Lemma is_prefix_refl p : is_prefix p p = true.
  Proof. apply is_prefix_app. exists []. rewrite app_nil_r; auto. Qed.

  (** A key that extends [p] is not below [p]. *)
  Lemma prefix_ge p k : is_prefix p k = true -> lex_cmp p k <> Gt.
  Proof.
    revert k; induction p as [|x p IH]; intros [|y k]; cbn; try congruence.
    destruct (cmp x y); try congruence. apply IH.
  Qed.

  (** Convexity: between [p] and a key extending [p] every key extends [p]. *)
  Lemma prefix_convex p k1 k2 :
    lex_cmp p k1 <> Gt -> lex_cmp k1 k2 <> Gt -> is_prefix p k2 = true -> is_prefix p k1 = true.
  Proof.
    revert k1 k2; induction p as [|x p IH]; intros k1 k2; cbn; auto.
    destruct k1 as [|y k1]; [congruence|].
    destruct k2 as [|z k2]; [congruence|]. cbn.
    destruct (cmp x z) eqn:Exz; try congruence.
    apply (cmp_eq _ L) in Exz; subst z.
    destruct (cmp x y) eqn:Exy; try congruence.
    - apply (cmp_eq _ L) in Exy; subst y. rewrite (cmp_refl _ L). apply IH.
    - rewrite (cmp_opp _ L x y), Exy. cbn. congruence.
  Qed.
End Lex.

(** The range scan: on a list sorted by key, "skip keys below the prefix, then
    take while the key starts with the prefix" is exactly "all entries whose
    key starts with the prefix". *)
Section Range.
  Context {A V : Type} (cmp : A -> A -> comparison) (L : CmpLaws cmp).
  Notation key := (list A).
  Notation kcmp := (lex_cmp cmp).

  Fixpoint drop_while {X} (f : X -> bool) (l : list X) : list X :=
    match l with [] => [] | x :: r => if f x then drop_while f r else l end.
  Fixpoint take_while {X} (f : X -> bool) (l : list X) : list X :=
    match l with [] => [] | x :: r => if f x then x :: take_while f r else [] end.

  Definition key_lt (a b : key * V) : Prop := kcmp (fst a) (fst b) = Lt.
  Definition below (p : key) (e : key * V) : bool :=
    match kcmp (fst e) p with Lt => true | _ => false end.
  Definition has_prefix (p : key) (e : key * V) : bool := is_prefix cmp p (fst e).

  (** [map.range(p..)] then [take_while starts_with(p)]. *)
  Definition range_prefix (p : key) (m : list (key * V)) : list (key * V) :=
    take_while (has_prefix p) (drop_while (below p) m).

  Lemma filter_none_after p e r :
    StronglySorted key_lt (e :: r) -> kcmp p (fst e) <> Gt -> has_prefix p e = false ->
    filter (has_prefix p) r = [].
  Proof.
    intros S Hge Hn. apply StronglySorted_inv in S as [_ Hall].
    induction r as [|e2 r IH]; cbn; auto.
    inversion Hall as [|? ? Hlt Hall']; subst.
    destruct (has_prefix p e2) eqn:E.
    - exfalso. unfold has_prefix in *.
      assert (is_prefix cmp p (fst e) = true); [|congruence].
      apply (prefix_convex cmp L p (fst e) (fst e2)); auto.
      unfold key_lt in Hlt; congruence.
    - auto.
  Qed.

  Lemma take_while_filter p m :
    StronglySorted key_lt m -> Forall (fun e => kcmp p (fst e) <> Gt) m ->
    take_while (has_prefix p) m = filter (has_prefix p) m.
  Proof.
    induction m as [|e r IH]; intros S Hge; cbn; auto.
    inversion Hge; subst.
    destruct (has_prefix p e) eqn:E.
    - f_equal. apply IH; auto. apply StronglySorted_inv in S; tauto.
    - symmetry. eapply filter_none_after; eauto.
  Qed.

  Theorem range_prefix_filter p m :
    StronglySorted key_lt m -> range_prefix p m = filter (has_prefix p) m.
  Proof.
    unfold range_prefix. induction m as [|e r IH]; intros S; cbn; auto.
    pose proof (lex_cmp_laws cmp L) as LL.
    destruct (below p e) eqn:Eb.
    - (* key below the prefix: cannot start with it *)
      assert (has_prefix p e = false) as ->.
      { unfold below, has_prefix in *. destruct (is_prefix cmp p (fst e)) eqn:E; auto.
        apply (prefix_ge cmp) in E. rewrite (cmp_opp _ LL) in E.
        destruct (kcmp (fst e) p); cbn in *; congruence. }
      apply IH. apply StronglySorted_inv in S; tauto.
    - (* first key at or above the prefix; so are all later ones *)
      assert (Hge : kcmp p (fst e) <> Gt).
      { unfold below in Eb. rewrite (cmp_opp _ LL). destruct (kcmp (fst e) p); cbn; congruence. }
      change (take_while (has_prefix p) (e :: r) = filter (has_prefix p) (e :: r)).
      apply take_while_filter; auto. constructor; auto.
      apply StronglySorted_inv in S as [_ Hall].
      eapply Forall_impl; [|exact Hall]. intros e2 Hlt. unfold key_lt in Hlt.
      intros Hgt. apply (cmp_gt_lt _ LL) in Hgt.
      assert (kcmp (fst e2) (fst e) = Lt).
      { eapply (cmp_lt_le_trans _ LL); eauto. }
      rewrite (cmp_opp _ LL), Hlt in H. discriminate.
  Qed.
End Range.
