(** Common imports and settings for the stdlib-style theories. *)
From Coq Require Export List Arith NArith ZArith Lia Bool.
From Coq Require Export ZifyBool ZifyNat ZifyN.
Export ListNotations.
Arguments N.add : simpl never.
Arguments N.sub : simpl never.
Arguments N.mul : simpl never.
Arguments N.eqb : simpl never.
Arguments N.ltb : simpl never.
Arguments N.leb : simpl never.
Arguments N.min : simpl never.
Arguments N.max : simpl never.
Arguments N.of_nat : simpl never.
Arguments N.to_nat : simpl never.

Ltac inv H := inversion H; subst; clear H.
Ltac destr_if :=
  match goal with
  | |- context [if ?c then _ else _] => let E := fresh "E" in destruct c eqn:E
  end.
Ltac destr_if_in H :=
  match type of H with
  | context [if ?c then _ else _] => let E := fresh "E" in destruct c eqn:E
  end.
