(** Helpers used only by generated cases files (correspondence runs). *)
From Coq Require Import List NArith ZArith Bool.
Import ListNotations.

Fixpoint mismatch_from {A} (chk : A -> bool) (i : N) (l : list A) : list N :=
  match l with
  | [] => []
  | x :: r => if chk x then mismatch_from chk (N.succ i) r else i :: mismatch_from chk (N.succ i) r
  end.
(** Indices of the cases on which [chk] is false. *)
Definition mismatches {A} (chk : A -> bool) (l : list A) : list N := mismatch_from chk 0%N l.

Fixpoint list_eqb {A} (e : A -> A -> bool) (a b : list A) : bool :=
  match a, b with
  | [], [] => true
  | x :: a', y :: b' => e x y && list_eqb e a' b'
  | _, _ => false
  end.
Definition option_eqb {A} (e : A -> A -> bool) (a b : option A) : bool :=
  match a, b with
  | None, None => true
  | Some x, Some y => e x y
  | _, _ => false
  end.
Definition pair_eqb {A B} (ea : A -> A -> bool) (eb : B -> B -> bool) (a b : A * B) : bool :=
  ea (fst a) (fst b) && eb (snd a) (snd b).
Definition lN_eqb := list_eqb N.eqb.
Definition lZ_eqb := list_eqb Z.eqb.
