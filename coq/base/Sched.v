(** A minimal sequentially-consistent interleaving core.

    A concurrent system is a global state [G] and one deterministic step
    function [step t g] per thread id [t] (a step is one atomic access, or one
    mutex-protected section, of the thread's program).  A schedule is a list of
    thread ids; [run] executes it.  Every theorem of the form
    [forall sched, P (run sched init)] therefore quantifies over every
    interleaving, of every length, of that step granularity. *)
From Coq Require Import List.
Import ListNotations.

Section Sched.
  Variable G : Type.
  Variable step : nat -> G -> G.

  Fixpoint run (sched : list nat) (g : G) : G :=
    match sched with
    | [] => g
    | t :: r => run r (step t g)
    end.

  Lemma run_app s1 s2 g : run (s1 ++ s2) g = run s2 (run s1 g).
  Proof. revert g; induction s1 as [|t s1 IH]; intros g; cbn; auto. Qed.

  Lemma run_snoc s t g : run (s ++ [t]) g = step t (run s g).
  Proof. rewrite run_app. reflexivity. Qed.

  (** Invariant by induction over the schedule. *)
  Lemma run_invariant (P : G -> Prop) :
    (forall t g, P g -> P (step t g)) ->
    forall s g, P g -> P (run s g).
  Proof. intros H s; induction s as [|t s IH]; intros g Hg; cbn; auto. Qed.

  (** Side conditions inherited backwards along steps (e.g. "a monotone
      counter is still below a bound at the end of the run"). *)
  Lemma run_back (Q : G -> Prop) :
    (forall t g, Q (step t g) -> Q g) ->
    forall s g, Q (run s g) -> Q g.
  Proof.
    intros HQ s; induction s as [|t s IH]; intros g Hq; cbn in *; auto.
    apply HQ with (t := t). apply IH. exact Hq.
  Qed.

  (** Invariant that needs such a side condition [Q] on the states it passes
      through. *)
  Lemma run_invariant_back (P Q : G -> Prop) :
    (forall t g, Q (step t g) -> Q g) ->
    (forall t g, P g -> Q (step t g) -> P (step t g)) ->
    forall s g, P g -> Q (run s g) -> P (run s g).
  Proof.
    intros HQ HP s; induction s as [|t s IH]; intros g Hg Hq; cbn in *; auto.
    apply IH; auto. apply HP; auto. eapply run_back; eauto.
  Qed.

  (** A two-state relation that holds across every step holds across a run. *)
  Lemma run_rel (R : G -> G -> Prop) :
    (forall g, R g g) -> (forall a b c, R a b -> R b c -> R a c) ->
    (forall t g, R g (step t g)) ->
    forall s g, R g (run s g).
  Proof.
    intros Hr Ht Hs s; induction s as [|t s IH]; intros g; cbn; auto.
    eapply Ht; [apply Hs | apply IH].
  Qed.
End Sched.

Arguments run {G} step sched g.
