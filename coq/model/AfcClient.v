(** Model of [aranya-fast-channels]: [Client::{seal, seal_in_place, open,
    open_in_place}] (client.rs), the header codecs (header.rs), the [Buf]
    implementations (buf.rs) and [AuthData::to_bytes] (aranya-crypto
    afc/keys.rs), over byte lists with exact [usize] arithmetic.

    - Every place of those files where Rust can panic is a [Panic site] result
      of the model (raw [+]/[-] under overflow checks, [assume]/[bug!] under
      debug assertions); the inventory of such places is regenerated from the
      source ([GenAfc.sites_*]) and compared with [modelled_sites].
    - The AEAD is abstract: [aead_seal]/[aead_open] are Section variables; the
      layers between the client and the primitive that live in
      spideroak-crypto (nonce = base_nonce xor I2OSP(seq), the sequence-number
      limit, "seal then increment") are written out.
    - Buffers are modelled with what is observable after the call: the visible
      bytes and, for [FixedBuf], the bytes of the backing array past [len]. *)
From Coq Require Import String.
From Aranya Require Import base.Tactics gen.GenAfc.
Local Open Scope N_scope.

Definition bytes := list N.
Definition len {A} (l : list A) : N := N.of_nat (length l).

(** Machine constants (kept folded in proofs). *)
Definition usize_max : N := 18446744073709551615.
Definition usize_mod : N := 18446744073709551616.
Definition isize_max : N := 9223372036854775807.
Definition u64_max : N := 18446744073709551615.

(** Build profile: [overflow-checks] and [debug-assertions]. *)
Record mode := { overflow_checks : bool; debug_assertions : bool }.
Definition dev_mode := {| overflow_checks := true; debug_assertions := true |}.
Definition nodebug_mode := {| overflow_checks := true; debug_assertions := false |}.
Definition release_mode := {| overflow_checks := false; debug_assertions := false |}.

(** A panic-capable site: (item path, kind, ordinal within the item). *)
Definition site := (string * string * nat)%type.

Inductive herr := HBug | HInvalidSize | HUnknownVersion | HInvalidMsgType.
Inductive err :=
| EBug | EHeader (h : herr) | ENotFound | EInputTooLarge | EBufferTooSmall
| EKeyExpired | EAuthentication | ECrypto | EAllocation.
Inductive res (A : Type) := Ok (a : A) | Err (e : err) | Panic (s : site).
Arguments Ok {A} a.
Arguments Err {A} e.
Arguments Panic {A} s.

Definition is_panic {A} (r : res A) : bool := match r with Panic _ => true | _ => false end.

(** [buggy]: [bug!] and [.assume()] panic under debug assertions and return
    [Bug] otherwise. *)
Definition bug_at {A} (m : mode) (s : site) (e : err) : res A :=
  if debug_assertions m then Panic s else Err e.

(** Raw [usize] arithmetic: traps under overflow checks, wraps otherwise. *)
Definition raw_add (m : mode) (s : site) (a b : N) : res N :=
  if a + b <=? usize_max then Ok (a + b)
  else if overflow_checks m then Panic s else Ok (a + b - usize_mod).
Definition raw_sub (m : mode) (s : site) (a b : N) : res N :=
  if b <=? a then Ok (a - b)
  else if overflow_checks m then Panic s else Ok (a + usize_mod - b).
Definition checked_add (a b : N) : option N := if a + b <=? usize_max then Some (a + b) else None.
Definition checked_sub (a b : N) : option N := if b <=? a then Some (a - b) else None.

(** Slices. *)
Definition split_at_checked (mid : N) (l : bytes) : option (bytes * bytes) :=
  if mid <=? len l then Some (firstn (N.to_nat mid) l, skipn (N.to_nat mid) l) else None.
Definition split_first_chunk (n : N) (l : bytes) := split_at_checked n l.
Definition split_last_chunk (n : N) (l : bytes) : option (bytes * bytes) :=
  if n <=? len l then split_at_checked (len l - n) l else None.
Definition zeros (n : nat) : bytes := repeat 0 n.

(** Integers as bytes. *)
Fixpoint le_bytes (n : nat) (v : N) : bytes :=
  match n with O => [] | S n' => (v mod 256) :: le_bytes n' (v / 256) end.
Fixpoint le_val (l : bytes) : N :=
  match l with [] => 0 | b :: r => b + 256 * le_val r end.
Definition be_bytes (n : nat) (v : N) : bytes := rev (le_bytes n v).
Fixpoint xor_bytes (a b : bytes) : bytes :=
  match a, b with x :: a', y :: b' => N.lxor x y :: xor_bytes a' b' | _, _ => [] end.

(** * header.rs *)

Fixpoint assoc_n (k : string) (l : list (string * N)) : N :=
  match l with [] => 0 | (k', v) :: r => if String.eqb k k' then v else assoc_n k r end.

Inductive version := V1.
Inductive msg_type := Data | Control.
Record header := { h_version : version; h_msg_type : msg_type }.

(** Discriminants come from the generated tables. *)
Definition version_v1 : N := assoc_n "V1" afc_version_variants.
Definition msg_data : N := assoc_n "Data" afc_msgtype_variants.
Definition msg_control : N := assoc_n "Control" afc_msgtype_variants.

Definition version_to_u16 (v : version) : N := match v with V1 => version_v1 end.
Definition version_try_from_u16 (v : N) : option version := if v =? version_v1 then Some V1 else None.
Definition msg_type_to_u16 (t : msg_type) : N := match t with Data => msg_data | Control => msg_control end.
Definition msg_type_try_from_u16 (v : N) : option msg_type :=
  if v =? msg_data then Some Data else if v =? msg_control then Some Control else None.

Definition header_size : N := 4.       (* Header::PACKED_SIZE = u16 + u16 *)
Definition data_header_size : N := 8.  (* DataHeader::PACKED_SIZE = u64 *)

Definition S_hp_a0 : site := ("Header::try_parse", "assume", 0%nat)%string.
Definition S_hp_a1 : site := ("Header::try_parse", "assume", 1%nat)%string.
Definition S_hp_b0 : site := ("Header::try_parse", "bug", 0%nat)%string.
Definition S_he_a0 : site := ("Header::encode", "assume", 0%nat)%string.
Definition S_he_a1 : site := ("Header::encode", "assume", 1%nat)%string.
Definition S_he_b0 : site := ("Header::encode", "bug", 0%nat)%string.
Definition S_dp_a0 : site := ("DataHeader::try_parse", "assume", 0%nat)%string.
Definition S_dp_b0 : site := ("DataHeader::try_parse", "bug", 0%nat)%string.
Definition S_de_a0 : site := ("DataHeader::encode", "assume", 0%nat)%string.
Definition S_de_b0 : site := ("DataHeader::encode", "bug", 0%nat)%string.

(** [Header::try_parse]. *)
Definition header_try_parse (m : mode) (buf : bytes) : res header :=
  match split_first_chunk 2 buf with
  | None => bug_at m S_hp_a0 (EHeader HBug)
  | Some (ver, rest) =>
    match split_first_chunk 2 rest with
    | None => bug_at m S_hp_a1 (EHeader HBug)
    | Some (typ, rest') =>
      if negb (len rest' =? 0) then bug_at m S_hp_b0 (EHeader HBug)
      else match version_try_from_u16 (le_val ver) with
           | None => Err (EHeader HUnknownVersion)
           | Some v =>
             match msg_type_try_from_u16 (le_val typ) with
             | None => Err (EHeader HInvalidMsgType)
             | Some t => Ok {| h_version := v; h_msg_type := t |}
             end
           end
    end
  end.

(** [Header::encode]: the new contents of [out]. *)
Definition header_encode (m : mode) (h : header) (out : bytes) : res bytes :=
  match split_first_chunk 2 out with
  | None => bug_at m S_he_a0 (EHeader HBug)
  | Some (_, rest) =>
    match split_first_chunk 2 rest with
    | None => bug_at m S_he_a1 (EHeader HBug)
    | Some (_, rest') =>
      if negb (len rest' =? 0) then bug_at m S_he_b0 (EHeader HBug)
      else Ok (le_bytes 2 (version_to_u16 (h_version h)) ++ le_bytes 2 (msg_type_to_u16 (h_msg_type h)))
    end
  end.

(** [DataHeader::try_parse]: the sequence number. *)
Definition data_header_try_parse (m : mode) (buf : bytes) : res N :=
  match split_first_chunk 8 buf with
  | None => bug_at m S_dp_a0 (EHeader HBug)
  | Some (seq, rest) =>
    if negb (len rest =? 0) then bug_at m S_dp_b0 (EHeader HBug) else Ok (le_val seq)
  end.

(** [DataHeader::encode]. *)
Definition data_header_encode (m : mode) (seq : N) (out : bytes) : res bytes :=
  match split_first_chunk 8 out with
  | None => bug_at m S_de_a0 (EHeader HBug)
  | Some (_, rest) =>
    if negb (len rest =? 0) then bug_at m S_de_b0 (EHeader HBug) else Ok (le_bytes 8 seq)
  end.

(** [Message::try_parse] (client.rs): header first, payload after it. *)
Definition message_try_parse (m : mode) (buf : bytes) : res (header * bytes) :=
  match split_first_chunk header_size buf with
  | None => Err (EHeader HInvalidSize)
  | Some (h, payload) =>
    match header_try_parse m h with
    | Ok hd => Ok (hd, payload)
    | Err e => Err e
    | Panic s => Panic s
    end
  end.

(** * afc/keys.rs *)

(** [AuthData::to_bytes]: version as little-endian u32, then the label id. *)
Definition ad_bytes (label : bytes) : bytes := le_bytes 4 (version_to_u16 V1) ++ label.

(** Per-message nonce (spideroak-crypto [Seq::compute_nonce], nonce size 12:
    [Seq::max] is [u64::MAX]). *)
Definition nonce_size : nat := 12.
Definition seq_limit : N := u64_max.
Definition compute_nonce (base : bytes) (seq : N) : option bytes :=
  if seq_limit <=? seq then None else Some (xor_bytes base (be_bytes nonce_size seq)).

(** * buf.rs *)

Inductive buf_kind := BVec | BHeapless | BFixed.
(** [vis]: the bytes the buffer derefs to; [spare]: backing bytes past [len]
    (observable for [FixedBuf] only; for [heapless] it stands for the unused
    capacity, for [Vec] it is empty and the capacity is unbounded). *)
Record buf := { kind : buf_kind; vis : bytes; spare : bytes }.
Definition set_vis (b : buf) (v : bytes) : buf := {| kind := kind b; vis := v; spare := spare b |}.

Definition S_bh_ar0 : site := ("Buf for heapless::Vec::try_reserve_exact", "arith", 0%nat)%string.
Definition S_bf_ar0 : site := ("Buf for FixedBuf::try_reserve_exact", "arith", 0%nat)%string.
Definition S_bf_a0 : site := ("Buf for FixedBuf::try_resize", "assume", 0%nat)%string.

Definition buf_capacity (b : buf) : N := len (vis b) + len (spare b).

(** [try_reserve_exact]. *)
Definition buf_try_reserve_exact (m : mode) (b : buf) (additional : N) : res unit :=
  match kind b with
  | BVec => if len (vis b) + additional <=? isize_max then Ok tt else Err EAllocation
  | BHeapless =>
    match raw_sub m S_bh_ar0 (buf_capacity b) (len (vis b)) with
    | Ok avail => if avail <? additional then Err EAllocation else Ok tt
    | Err e => Err e | Panic s => Panic s
    end
  | BFixed =>
    match raw_sub m S_bf_ar0 (buf_capacity b) (len (vis b)) with
    | Ok avail => if avail <? additional then Err EAllocation else Ok tt
    | Err e => Err e | Panic s => Panic s
    end
  end.

(** [truncate]. *)
Definition buf_truncate (b : buf) (n : N) : buf :=
  if n <? len (vis b) then
    match kind b with
    | BVec => {| kind := BVec; vis := firstn (N.to_nat n) (vis b); spare := [] |}
    | k => {| kind := k; vis := firstn (N.to_nat n) (vis b); spare := skipn (N.to_nat n) (vis b) ++ spare b |}
    end
  else b.

(** [try_resize(new_len, 0)]. *)
Definition buf_try_resize (m : mode) (b : buf) (new_len : N) : res unit * buf :=
  match kind b with
  | BVec =>
    if len (vis b) <=? new_len
    then (Ok tt, set_vis b (vis b ++ zeros (N.to_nat (new_len - len (vis b)))))
    else (Ok tt, buf_truncate b new_len)
  | BHeapless =>
    if buf_capacity b <? new_len then (Err EAllocation, b)
    else if len (vis b) <=? new_len
    then (Ok tt, {| kind := BHeapless; vis := vis b ++ zeros (N.to_nat (new_len - len (vis b)));
                    spare := skipn (N.to_nat (new_len - len (vis b))) (spare b) |})
    else (Ok tt, buf_truncate b new_len)
  | BFixed =>
    match checked_sub new_len (len (vis b)) with
    | Some diff =>
      match buf_try_reserve_exact m b diff with
      | Ok _ =>
        (* data.get_mut(old_len..new_len).assume(..)?.fill(value) *)
        if new_len <=? buf_capacity b
        then (Ok tt, {| kind := BFixed; vis := vis b ++ zeros (N.to_nat diff);
                        spare := skipn (N.to_nat diff) (spare b) |})
        else (bug_at m S_bf_a0 EAllocation, b)
      | Err e => (Err e, b)
      | Panic s => (Panic s, b)
      end
    | None => (Ok tt, buf_truncate b new_len)
    end
  end.

(** [Buf::zeroize]: [self[..].zeroize()]. *)
Definition buf_zeroize (b : buf) : buf := set_vis b (zeros (length (vis b))).

(** * client.rs *)

Definition S_seal_a0 : site := ("Client::seal", "assume", 0%nat)%string.
Definition S_sip_a0 : site := ("Client::seal_in_place", "assume", 0%nat)%string.
Definition S_sip_a1 : site := ("Client::seal_in_place", "assume", 1%nat)%string.
Definition S_sip_ar0 : site := ("Client::seal_in_place", "arith", 0%nat)%string.
Definition S_sip_ar1 : site := ("Client::seal_in_place", "arith", 1%nat)%string.
(** The unchecked subtraction [open_in_place] had before the repair (F5). *)
Definition S_oip_ar0 : site := ("Client::open_in_place", "arith", 0%nat)%string.

Inductive aead_open_res := AOk (pt : bytes) | AAuth | AOther.

Section Client.
  (** The AEAD of the cipher suite and its overhead ([Self::TAG_SIZE]). *)
  Variable K : Type.
  Variable TAG : N.
  (** [aead_seal key nonce ad plaintext = Some (ciphertext, tag)]; [None] is an
      AEAD-level error (length limits). *)
  Variable aead_seal : K -> bytes -> bytes -> bytes -> option (bytes * bytes).
  Variable aead_open : K -> bytes -> bytes -> bytes -> bytes -> aead_open_res.
  (** What a failed in-place open leaves in the data part of the buffer. *)
  Variable garbage : K -> bytes -> bytes -> bytes -> bytes -> bytes.

  (** [Client::OVERHEAD = TAG_SIZE.checked_add(DataHeader::PACKED_SIZE)]
      (a compile-time panic if it overflowed). *)
  Definition OVERHEAD : N := TAG + data_header_size.

  (** One channel end as the state hands it to the client: whether the loan is
      still valid, the label id, the raw key, base nonce and (seal side) the
      next sequence number. *)
  Record chan := { c_live : bool; c_label : bytes; c_key : K; c_nonce : bytes; c_seq : N }.
  Definition chan_next (c : chan) : chan :=
    {| c_live := c_live c; c_label := c_label c; c_key := c_key c; c_nonce := c_nonce c; c_seq := c_seq c + 1 |}.

  Definition data_header : header := {| h_version := V1; h_msg_type := Data |}.

  (** [SealKey::{seal, seal_in_place}] via [SealCtx]: nonce of the current
      sequence number, AEAD, then the sequence number is incremented and the
      previous one returned. *)
  Definition key_seal (c : chan) (pt : bytes) : res (bytes * bytes * N) :=
    match compute_nonce (c_nonce c) (c_seq c) with
    | None => Err EKeyExpired
    | Some nonce =>
      match aead_seal (c_key c) nonce (ad_bytes (c_label c)) pt with
      | None => Err ECrypto
      | Some (ct, tag) => Ok (ct, tag, c_seq c)
      end
    end.

  (** [Client::do_seal]: returns ciphertext, tag and the encoded data header. *)
  Definition do_seal (m : mode) (c : chan) (hdr pt : bytes) : res (bytes * bytes * bytes) * chan :=
    if negb (c_live c) then (Err ENotFound, c) else
    match key_seal c pt with
    | Err e => (Err e, c)
    | Panic s => (Panic s, c)
    | Ok (ct, tag, seq) =>
      match data_header_encode m seq hdr with
      | Ok hdr' => (Ok (ct, tag, hdr'), chan_next c)
      | Err e => (Err e, chan_next c)
      | Panic s => (Panic s, chan_next c)
      end
    end.

  (** [Client::seal]: result, the destination afterwards, the channel afterwards. *)
  Definition seal (m : mode) (c : chan) (dst pt : bytes) : res header * bytes * chan :=
    match checked_add (len pt) OVERHEAD with
    | None => (Err EInputTooLarge, dst, c)
    | Some ciphertext_len =>
      match split_at_checked ciphertext_len dst with   (* dst.get_mut(..ciphertext_len) *)
      | None => (Err EBufferTooSmall, dst, c)
      | Some (d, tail) =>
        match split_last_chunk data_header_size d with
        | None => (bug_at m S_seal_a0 EBug, dst, c)
        | Some (out, hdr) =>
          match do_seal m c hdr pt with
          | (Ok (ct, tag, hdr'), c') => (Ok data_header, ct ++ tag ++ hdr' ++ tail, c')
          | (Err e, c') => (Err e, zeros (length d) ++ tail, c')      (* inspect_err: dst.zeroize() *)
          | (Panic s, c') => (Panic s, dst, c')
          end
        end
      end
    end.

  (** [Client::seal_in_place]. *)
  Definition seal_in_place (m : mode) (c : chan) (data : buf) : res header * buf * chan :=
    match buf_try_reserve_exact m data OVERHEAD with
    | Err e => (Err e, data, c)
    | Panic s => (Panic s, data, c)
    | Ok _ =>
      match raw_add m S_sip_ar0 (len (vis data)) OVERHEAD with
      | Err e => (Err e, data, c)
      | Panic s => (Panic s, data, c)
      | Ok new_len =>
        match buf_try_resize m data new_len with
        | (Err e, d1) => (Err e, d1, c)
        | (Panic s, d1) => (Panic s, d1, c)
        | (Ok _, d1) =>
          match split_last_chunk data_header_size (vis d1) with
          | None => (bug_at m S_sip_a0 EBug, d1, c)
          | Some (rest, hdr) =>
            match raw_sub m S_sip_ar1 (len rest) TAG with
            | Err e => (Err e, d1, c)
            | Panic s => (Panic s, d1, c)
            | Ok mid =>
              match split_at_checked mid rest with
              | None => (bug_at m S_sip_a1 EBug, d1, c)
              | Some (out, _) =>
                match do_seal m c hdr out with
                | (Ok (ct, tag, hdr'), c') => (Ok data_header, set_vis d1 (ct ++ tag ++ hdr'), c')
                | (Err e, c') => (Err e, buf_zeroize d1, c')       (* inspect_err: data.zeroize() *)
                | (Panic s, c') => (Panic s, d1, c')
                end
              end
            end
          end
        end
      end
    end.

  (** [OpenKey::{open, open_in_place}] via [OpenCtx::open_at]. *)
  Definition key_open (c : chan) (seq : N) (ct tag : bytes) : res bytes :=
    match compute_nonce (c_nonce c) seq with
    | None => Err EKeyExpired
    | Some nonce =>
      match aead_open (c_key c) nonce (ad_bytes (c_label c)) ct tag with
      | AOk pt => Ok pt
      | AAuth => Err EAuthentication
      | AOther => Err ECrypto
      end
    end.
  Definition key_open_garbage (c : chan) (seq : N) (ct tag : bytes) : bytes :=
    match compute_nonce (c_nonce c) seq with
    | None => ct
    | Some nonce => garbage (c_key c) nonce (ad_bytes (c_label c)) ct tag
    end.

  (** [Client::open]: result (label id, sequence number) and the destination afterwards. *)
  Definition open (m : mode) (c : chan) (dst input : bytes) : res (bytes * N) * bytes :=
    match split_last_chunk data_header_size input with
    | None => (Err (EHeader HInvalidSize), dst)
    | Some (ciphertext, hdr) =>
      match data_header_try_parse m hdr with
      | Err e => (Err e, dst)
      | Panic s => (Panic s, dst)
      | Ok seq =>
        match checked_sub (len ciphertext) TAG with
        | None => (Err EAuthentication, dst)
        | Some plaintext_len =>
          if len dst <? plaintext_len then (Err EBufferTooSmall, dst)
          else if negb (c_live c) then (Err ENotFound, zeros (length dst))
          else
            (* Aead::open: split the tag off, decrypt into dst[..plaintext_len] *)
            match split_at_checked plaintext_len ciphertext with
            | None => (Err EAuthentication, zeros (length dst))
            | Some (ct, tag) =>
              match key_open c seq ct tag with
              | Ok pt => (Ok (c_label c, seq), pt ++ skipn (N.to_nat plaintext_len) dst)
              | Err e => (Err e, zeros (length dst))     (* inspect_err: dst.zeroize() *)
              | Panic s => (Panic s, dst)
              end
            end
        end
      end
    end.

  (** The body shared by the repaired and the original [open_in_place] once
      the buffer is split. *)
  Definition open_in_place_tail (c : chan) (data : buf) (seq : N) (rest hdr : bytes) (mid : N)
    : res (bytes * N) * buf :=
    match split_at_checked mid rest with
    | None => (Err EAuthentication, data)
    | Some (ct, tag) =>
      if negb (c_live c) then (Err ENotFound, buf_zeroize data)
      else match key_open c seq ct tag with
           | Ok pt => (Ok (c_label c, seq), buf_truncate (set_vis data (pt ++ tag ++ hdr)) (len ct))
           | Err e => (Err e, buf_zeroize (set_vis data (key_open_garbage c seq ct tag ++ tag ++ hdr)))
           | Panic s => (Panic s, data)
           end
    end.

  (** [Client::open_in_place] (after the repair of F5: [checked_sub]). *)
  Definition open_in_place (m : mode) (c : chan) (data : buf) : res (bytes * N) * buf :=
    match split_last_chunk data_header_size (vis data) with
    | None => (Err (EHeader HInvalidSize), data)
    | Some (rest, hdr) =>
      match data_header_try_parse m hdr with
      | Err e => (Err e, data)
      | Panic s => (Panic s, data)
      | Ok seq =>
        match checked_sub (len rest) TAG with
        | None => (Err EAuthentication, data)
        | Some plaintext_len => open_in_place_tail c data seq rest hdr plaintext_len
        end
      end
    end.

  (** [Client::open_in_place] as it was before the repair: [rest.len() - TAG_SIZE]. *)
  Definition open_in_place_orig (m : mode) (c : chan) (data : buf) : res (bytes * N) * buf :=
    match split_last_chunk data_header_size (vis data) with
    | None => (Err (EHeader HInvalidSize), data)
    | Some (rest, hdr) =>
      match data_header_try_parse m hdr with
      | Err e => (Err e, data)
      | Panic s => (Panic s, data)
      | Ok seq =>
        match raw_sub m S_oip_ar0 (len rest) TAG with
        | Err e => (Err e, data)
        | Panic s => (Panic s, data)
        | Ok mid => open_in_place_tail c data seq rest hdr mid
        end
      end
    end.
End Client.

(** * The site ledger *)

Inductive discharge :=
| InModel        (* a [Panic] constructor of the model; excluded by the no-panic theorems *)
| ConstEval      (* evaluated at compile time *)
| FixedSize      (* operands have sizes fixed by the types; cannot fail *)
| FullRange      (* [x[..]]: the full range of a slice never panics *)
| BufInvariant   (* [data[..len]] with [len <= data.len()], established by [from_slice_mut] and kept by every method *)
| NotOnClientPath(* not reachable from Client::{seal,seal_in_place,open,open_in_place} *).

Definition modelled_sites : list (site * discharge) :=
  [ (("Client::const OVERHEAD", "panic", 0%nat)%string, ConstEval);
    (S_seal_a0, InModel); (S_sip_a0, InModel); (S_sip_a1, InModel);
    (S_sip_ar0, InModel); (S_sip_ar1, InModel);
    (S_hp_a0, InModel); (S_hp_a1, InModel); (S_hp_b0, InModel);
    (S_he_a0, InModel); (S_he_a1, InModel); (S_he_b0, InModel);
    (S_dp_a0, InModel); (S_dp_b0, InModel); (S_de_a0, InModel); (S_de_b0, InModel);
    (("trait Buf::zeroize", "index", 0%nat)%string, FullRange);
    (("Buf for Vec::split_at_mut", "index", 0%nat)%string, NotOnClientPath);
    (("Buf for Vec::split_at_mut", "split_at", 0%nat)%string, NotOnClientPath);
    (("Buf for heapless::Vec::split_at_mut", "index", 0%nat)%string, NotOnClientPath);
    (("Buf for heapless::Vec::split_at_mut", "split_at", 0%nat)%string, NotOnClientPath);
    (S_bh_ar0, InModel);
    (("AsRef for FixedBuf::as_ref", "index", 0%nat)%string, BufInvariant);
    (("AsMut for FixedBuf::as_mut", "index", 0%nat)%string, BufInvariant);
    (("Buf for FixedBuf::split_at_mut", "split_at", 0%nat)%string, NotOnClientPath);
    (S_bf_ar0, InModel); (S_bf_a0, InModel);
    (("AuthData::to_bytes", "index", 0%nat)%string, FixedSize);
    (("AuthData::to_bytes", "index", 1%nat)%string, FixedSize);
    (("AuthData::to_bytes", "copy_from_slice", 0%nat)%string, FixedSize) ].

Definition site_eqb (a b : site) : bool :=
  let '(p, k, o) := a in let '(p', k', o') := b in
  String.eqb p p' && String.eqb k k' && Nat.eqb o o'.
Definition site_known (s : string * string * nat * string) : bool :=
  let '(p, k, o, _) := s in existsb (fun e => site_eqb (p, k, o) (fst e)) modelled_sites.
Definition all_generated_sites := (sites_client_rs ++ sites_header_rs ++ sites_buf_rs ++ sites_afc_keys_rs)%list.
