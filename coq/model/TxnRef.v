(** Executable instantiation of the transaction model [Txn.v], used by the
    correspondence runs of C01/C04/C06/C07/C08/C09/C10 and by the non-vacuity
    examples:
    - [afacts]/[aop]/[audit_eval]: the Gallina twin of the harness's audit
      policy interpreter (harness/hx-txn, [run_prog]);
    - [braid_ref]: an executable reference for [evaluate_braid] over the set of
      reachable stored commands: reverse Kahn with the least (priority, id)
      key, stop when one strand is left (the base), merges skipped; then the
      policy is folded over the order starting from the facts stored at the
      base ([Rejected] is ignored, any other error aborts);
    - [merge_id_ref]: the harness's deterministic merge id;
    - observation encoders ([obs_of]) for comparing with the harness dump.
    Nothing here is used by the theorems except in [Example]s. *)
From Aranya Require Import base.Tactics model.Dag model.Txn.
Local Open Scope N_scope.

(** * Fact state of the audit policy: key -> value (list), sorted by key *)
Definition afacts := list (N * list N).
Fixpoint fget (f : afacts) (k : N) : option (list N) :=
  match f with
  | [] => None
  | (j, v) :: r => if j =? k then Some v else fget r k
  end.
Fixpoint fset (f : afacts) (k : N) (v : list N) : afacts :=
  match f with
  | [] => [(k, v)]
  | (j, w) :: r => if k <? j then (k, v) :: f else if k =? j then (k, v) :: r else (j, w) :: fset r k v
  end.
Fixpoint fdel (f : afacts) (k : N) : afacts :=
  match f with
  | [] => []
  | (j, w) :: r => if j =? k then r else (j, w) :: fdel r k
  end.

Inductive aop :=
| ASet (k v : N) | ADel (k : N) | AApp (k t : N) | ACopy (k j : N) | AEmit (e : N) | ADump
| AQ (k : N) | ARej | AWrej (k v : N) | AInt.

Definition dump_effs (f : afacts) : list eff := map (fun kv => fst kv :: snd kv) f.

Fixpoint run_prog (ops : list aop) (f : afacts) (effs : list eff) : outcome afacts :=
  match ops with
  | [] => Accept f effs
  | o :: r =>
    match o with
    | ASet k v => run_prog r (fset f k [v]) effs
    | ADel k => run_prog r (fdel f k) effs
    | AApp k t => run_prog r (fset f k (match fget f k with Some v => v ++ [t] | None => [t] end)) effs
    | ACopy k j => run_prog r (match fget f k with Some v => fset f j v | None => fdel f j end) effs
    | AEmit e => run_prog r f (effs ++ [[e]])
    | ADump => run_prog r f (effs ++ dump_effs f)
    | AQ k => match fget f k with Some _ => run_prog r f effs | None => Fail PERejected f effs end
    | ARej => Fail PERejected f effs
    | AWrej k v => Fail PERejected (fset f k [v]) effs
    | AInt => Fail (PEOther 1) f effs
    end
  end.

(** [cbody] = 2 * (program index) + (1 if the command carries policy bytes). *)
Definition audit_eval (progs : list (list aop)) (c : cmd) (f : afacts) : outcome afacts :=
  run_prog (nth (N.to_nat (cbody c / 2)) progs []) f [].
Definition audit_has_policy (c : cmd) : bool := N.odd (cbody c).

Definition merge_id_ref (l r : N) : N := 2 ^ 62 + (l * 1000003 + r * 7919 + 12345) mod 2 ^ 61.

(** * Reference braid *)
Section Braid.
Variable progs : list (list aop).
Notation W := (wcmd afacts).

Definition wkey (w : W) : key := (cprio (wc w), wid w).

Fixpoint find_w (cs : list W) (i : N) : option W :=
  match cs with
  | [] => None
  | w :: r => if wid w =? i then Some w else find_w r i
  end.

(** number of children of [i] inside [cs] *)
Definition nchildren (cs : list W) (i : N) : nat := length (filter (fun w => mem i (parents (wc w))) cs).

(** remove the least-key element *)
Fixpoint pop_min (l : list W) : option (W * list W) :=
  match l with
  | [] => None
  | x :: r =>
    match pop_min r with
    | None => Some (x, [])
    | Some (m, r') => if key_ltb (wkey x) (wkey m) then Some (x, r) else Some (m, x :: r')
    end
  end.

Fixpoint dec (pend : list (N * nat)) (i : N) : list (N * nat) * bool :=
  match pend with
  | [] => ([], false)
  | (j, n) :: r =>
    if j =? i then ((j, Nat.pred n) :: r, Nat.eqb n 1)
    else let '(r', z) := dec r i in ((j, n) :: r', z)
  end.

Definition is_fin (w : W) : bool := match cprio (wc w) with PFinalize => true | _ => false end.

Inductive kres := KBase (base : W) (order : list W) | KParFin | KBug.

(** push the parents of [x] that became ready; [None] = a second finalize strand *)
Fixpoint push_parents (cs : list W) (ps : list N) (ready : list W) (pend : list (N * nat))
  : option (list W * list (N * nat)) :=
  match ps with
  | [] => Some (ready, pend)
  | p :: r =>
    let '(pend', z) := dec pend p in
    if z then
      match find_w cs p with
      | Some w => if is_fin w && existsb is_fin ready then None
                  else push_parents cs r (w :: ready) pend'
      | None => push_parents cs r ready pend'
      end
    else push_parents cs r ready pend'
  end.

Fixpoint kahn (fuel : nat) (cs : list W) (ready : list W) (pend : list (N * nat)) (emitted : list W) : kres :=
  match fuel with
  | O => KBug
  | S n =>
    match ready with
    | [b] => KBase b emitted                                  (* lone *)
    | _ =>
      match pop_min ready with
      | None => match emitted with z :: r => KBase z r | [] => KBug end
      | Some (x, ready') =>
        let emitted' := if is_merge (wc x) then emitted else x :: emitted in
        match push_parents cs (parents (wc x)) ready' pend with
        | None => KParFin
        | Some (ready'', pend') => kahn n cs ready'' pend' emitted'
        end
      end
    end
  end.

(** seeding: the commands of [cs] without a child in [cs] (for an antichain
    head list these are the heads); a second finalize head is an error. *)
Fixpoint seed (l : list W) (acc : list W) : option (list W) :=
  match l with
  | [] => Some acc
  | w :: r => if is_fin w && existsb is_fin acc then None else seed r (w :: acc)
  end.

Fixpoint replay (order : list W) (f : afacts) (effs : list eff) : bres afacts :=
  match order with
  | [] => BOk f effs
  | w :: r =>
    match audit_eval progs (wc w) f with
    | Accept f' e => replay r f' (effs ++ e)
    | Fail PERejected f' e => replay r f' (effs ++ e)       (* braid continues after Rejected, no revert *)
    | Fail err _ e => BFail err (effs ++ e)
    end
  end.

Definition braid_ref (cs : list W) (hs : list N) : bres afacts :=
  let pend := map (fun w => (wid w, nchildren cs (wid w))) cs in
  let tops := filter (fun w => Nat.eqb (nchildren cs (wid w)) 0) cs in
  (* seed in head-list order, as the code pushes the heads *)
  let heads := flat_map (fun h => match find_w tops h with Some w => [w] | None => [] end) hs in
  match seed heads [] with
  | None => BParFin
  | Some ready =>
    match kahn (S (length cs)) cs ready pend [] with
    | KBase b order => replay order (wfacts b) []
    | KParFin => BParFin
    | KBug => BBug
    end
  end.
End Braid.

(** * Observation encoding (everything as lists of N) *)
Definition enc_perr (e : perr) : N := match e with PERejected => 0 | PEOther c => 1 + c end.
Definition enc_res (r : res) : list N :=
  match r with
  | ROk => [0]
  | ROkN n => [1; n]
  | ROkB b => [2; if b then 1 else 0]
  | RErr e =>
    match e with
    | ENoSuchParent i => [3; 1; i]
    | EPolicy p => [3; 2; enc_perr p]
    | EStorage SNoSuchStorage => [3; 3; 0]
    | EStorage SEmptyPerspective => [3; 3; 1]
    | EStorage SPerspectiveHeadMismatch => [3; 3; 2]
    | EInitError => [3; 4; 0]
    | EParallelFinalize => [3; 5; 0]
    | EConcurrentTransaction => [3; 6; 0]
    | EBug => [3; 7; 0]
    end
  | RInvalid => [4]
  end.
Definition enc_sev (e : sev) : list N :=
  match e with SBegin => [0] | SConsume x => 1 :: x | SCommit => [2] | SRollback => [3] end.

Fixpoint nsort_ins (i : N) (l : list N) : list N :=
  match l with [] => [i] | j :: r => if i <=? j then i :: l else j :: nsort_ins i r end.
Definition nsort (l : list N) : list N := fold_right nsort_ins [] l.

(** (result, sink log, heads, fact cache, hello head, committed ids sorted, stamp changed?) *)
Record obs := {
  o_res : list N; o_sink : list (list N); o_heads : list N; o_facts : list (list N);
  o_hello : list N; o_committed : list N
}.

Section Run.
Variable progs : list (list aop).
Variable libc : bool.
Variable gid : N.

Definition a_step := step afacts [] (audit_eval progs) audit_has_policy merge_id_ref dump_effs (braid_ref progs) libc gid.
Definition a_hello := hello_head afacts merge_id_ref.

Definition obs_state (r : replica afacts) : list N * list (list N) * list N * list N :=
  match rstore r with
  | None => ([], [], [], [])
  | Some s =>
    (sheads s, dump_effs (scache s),
     match a_hello s with Some (i, m) => [i; m] | None => [] end,
     nsort (closure (sW s) (sheads s)))
  end.

(** extended ops: the model's [op]s plus the read-only probes of the harness, an injected storage fault
    (the next [Write::commit] fails with IoError) and [ClientState::new_graph] *)
Inductive xop := XOp (o : op) | XProbe (i m : N) | XSess | XFaultCommit | XNewGraph (fail : option nat) (cs : list pubcmd).

(** the store after an operation whose [commit_heads] failed at the I/O level: everything appended stays
    (unreachable), the committed head set, fact cache and stamp are the old ones *)
Definition unfault (so sn : store afacts) : store afacts :=
  {| sW := sW sn; sheads := sheads so; scache := scache so; sstamp := sstamp so; sfree := sfree sn;
     sncommit := sncommit so; sclash := sclash sn |}.
Definition did_commit (o : op) (x : res) : bool :=
  match o, x with Commit _, ROkB true => true | Action _, ROk => true | _, _ => false end.

Definition mk_obs (r : replica afacts) (res : list N) (l : list sev) : obs :=
  let '(h, f, hh, c) := obs_state r in
  {| o_res := res; o_sink := map enc_sev l; o_heads := h; o_facts := f; o_hello := hh; o_committed := c |}.

(** [ClientState::new_graph] with the audit init action publishing [cs] *)
Definition new_graph (r : replica afacts) (fail : option nat) (cs : list pubcmd) : replica afacts * list N * list sev :=
  let p0 : persp afacts := {| pp := PNone; pcmds := []; pbase := []; pmc := 0 |} in
  match publish afacts (audit_eval progs) p0 cs 0 fail [SBegin] with
  | inr (e, log) => (r, enc_res (RErr (EPolicy e)), log ++ [SRollback])
  | inl (p', log) =>
    let l := log ++ [SCommit] in
    match rev (pcmds p'), pcmds p' with
    | w0 :: _, wl :: _ =>
      if wid w0 =? gid then
        match rstore r with
        | Some _ => (r, [3; 3; 4], l)                        (* StorageExists *)
        | None =>
          ({| rstore := Some {| sW := pcmds p'; sheads := [wid wl]; scache := wfacts wl;
                                sstamp := if libc then 2 else 0; sfree := 3; sncommit := 1; sclash := false |};
              rtxs := rtxs r |}, enc_res (ROkN (wid w0)), l)
        end
      else (r, enc_res (ROkN (wid w0)), l)                   (* another graph: not the one this replica models *)
    | _, _ => (r, enc_res (RErr (EStorage SEmptyPerspective)), l)
    end
  end.

Definition xstep (rf : replica afacts * bool) (x : xop) : (replica afacts * bool) * obs :=
  let '(r, flt) := rf in
  match x with
  | XOp o =>
    let '(r', l, res) := a_step r o in
    if flt && did_commit o res then
      let r'' := {| rstore := match rstore r, rstore r' with
                              | Some so, Some sn => Some (unfault so sn)
                              | _, x' => x'
                              end; rtxs := rtxs r' |} in
      ((r'', false), mk_obs r'' [3; 3; 3] (match o with Action _ => removelast l | _ => l end))
    else ((r', flt), mk_obs r' (enc_res res) l)
  | XFaultCommit => ((r, true), mk_obs r [0] [])
  | XNewGraph fail cs =>
    let '(r', res, l) := new_graph r fail cs in ((r', flt), mk_obs r' res l)
  | XProbe i m =>
    let '(h, f, hh, c) := obs_state r in
    ((r, flt), {| o_res := enc_res (ROkB (should_sync afacts merge_id_ref (rstore r) (i, m)));
           o_sink := []; o_heads := h; o_facts := f; o_hello := hh; o_committed := c |})
  | XSess =>
    let '(h, f, hh, c) := obs_state r in
    match rstore r with
    | None => ((r, flt), {| o_res := enc_res (RErr (EStorage SNoSuchStorage)); o_sink := []; o_heads := h; o_facts := f;
                     o_hello := hh; o_committed := c |})
    | Some s => ((r, flt), {| o_res := enc_res ROk;
                       o_sink := map enc_sev (SBegin :: consumes (dump_effs (scache s)) ++ [SCommit]);
                       o_heads := h; o_facts := f; o_hello := hh; o_committed := c |})
    end
  end.

Fixpoint xrun_from (rf : replica afacts * bool) (xs : list xop) : list obs :=
  match xs with
  | [] => []
  | x :: rest => let '(rf', o) := xstep rf x in o :: xrun_from rf' rest
  end.
Definition xrun (r : replica afacts) (xs : list xop) : list obs := xrun_from (r, false) xs.
End Run.

Definition lN_eqb' (a b : list N) : bool :=
  (fix go a b := match a, b with [], [] => true | x :: a', y :: b' => (x =? y) && go a' b' | _, _ => false end) a b.
Definition llN_eqb (a b : list (list N)) : bool :=
  (fix go a b := match a, b with [], [] => true | x :: a', y :: b' => lN_eqb' x y && go a' b' | _, _ => false end) a b.
Definition obs_eqb (a b : obs) : bool :=
  lN_eqb' (o_res a) (o_res b) && llN_eqb (o_sink a) (o_sink b) && lN_eqb' (o_heads a) (o_heads b)
  && llN_eqb (o_facts a) (o_facts b) && lN_eqb' (o_hello a) (o_hello b) && lN_eqb' (o_committed a) (o_committed b).
Fixpoint obs_mismatch (i : N) (a b : list obs) : list N :=
  match a, b with
  | [], [] => []
  | x :: a', y :: b' => if obs_eqb x y then obs_mismatch (i + 1) a' b' else i :: obs_mismatch (i + 1) a' b'
  | _, _ => [i]
  end.
