(** Syntax of the decision skeleton that tools/gen_codec_cli.py extracts from
    [aranya-policy-compiler/src/bin/policy-compiler/main.rs] and
    [aranya-policy-compiler/src/validate.rs] (C31).  Only types; the extracted
    values are in [gen/GenCli.v], their meaning in [model/Cli.v]. *)
From Aranya Require Import base.Tactics.

(** The facts a run of the tool depends on. *)
Inductive atom :=
| A_read_ok        (* [std::fs::read_to_string(&args.file)] succeeded *)
| A_parse_ok       (* [parse_policy_document] returned [Ok] *)
| A_compile_ok     (* [Compiler::compile] returned [Ok] *)
| A_no_validate    (* [--no-validate] given *)
| A_validate_ret   (* the boolean returned by [validate(&module)] *)
| A_stub_ffi       (* [--stub-ffi] given *)
| A_verbose        (* [--verbose] given *)
| A_create_ok      (* [File::create(out_path)] succeeded *)
| A_write_ok.      (* [ciborium::into_writer] succeeded *)

Inductive cond :=
| CAtom (a : atom) | CConst (b : bool) | CNot (c : cond) | CAnd (a b : cond) | COr (a b : cond).

Inductive exit_code := ExitSuccess | ExitFailure.

(** One top-level statement of [main] that can end the process or touch the
    output file, in source order. *)
Inductive step :=
| SExit (c : cond) (e : exit_code)   (* [if c { …; return ExitCode::e }] or the [Err] arm of a [match] *)
| SExpect (a : atom)                 (* [….expect(..)]: the process panics unless [a] *)
| SCreate                            (* [File::create(out_path).expect(..)] *)
| SWrite                             (* [ciborium::into_writer(&module, ..).expect(..)] *)
| SFinal (e : exit_code).            (* the tail expression of [main] *)

(** What [validate] does with its mutable flag. *)
Inductive vexpr := VConst (b : bool) | VFlag | VNotFlag.
Inductive vaction := VReturn (b : bool) | VReturnFlag | VSet (b : bool) | VIgnore.
