(** Symbolic layer of the crypto properties C34, C36, C37, C38.

    Primitives are Section variables with the idealisations stated once in
    [proofs/CryptoSymProofs.v] (hash collision-free on the framed inputs,
    signatures unforgeable and unique, AEAD / KDF / HPKE as free
    constructors).  What is modelled from aranya-crypto is the protocol logic:
    which framing ([model/CryptoFrames.v], generated argument lists) is fed to
    which primitive, and what is compared afterwards. *)
From Coq Require Import String.
From Aranya Require Import base.Tactics gen.GenCrypto model.TupleHash model.CryptoFrames.
Local Open Scope N_scope.

Fixpoint bytes_eqb (a b : bytes) : bool :=
  match a, b with
  | [], [] => true
  | x :: a', y :: b' => (x =? y) && bytes_eqb a' b'
  | _, _ => false
  end.

(** * C34 — command signatures (policy.rs [Cmd::digest], [cmd_id]; aranya.rs
      [SigningKey::sign_cmd], [VerifyingKey::verify_cmd]; crypto-ffi [Ffi::verify]) *)
Section CmdSig.
  Variable oids : list bytes.              (* the cipher suite's six OIDs *)
  Variable H : bytes -> bytes.             (* the suite's hash *)
  Variables SK PK SIG : Type.
  Variable pub : SK -> PK.
  Variable pk_bytes : PK -> bytes.
  Variable sig_bytes : SIG -> bytes.
  Variable Sign : SK -> bytes -> SIG.
  Variable Verify : PK -> bytes -> SIG -> bool.

  Record cmd := { c_data : bytes; c_name : bytes; c_parent : bytes }.

  (** [VerifyingKey::id] / [SigningKey::id]: Id("Device Signing Key V1", [pk]) *)
  Definition signing_key_id (p : PK) : bytes := H (key_id_input oids signing_key_context (pk_bytes p)).

  (** argument environment of [Cmd::digest] (names as in the source) *)
  Definition digest_env (author : bytes) (c : cmd) : env := fun a =>
    if String.eqb a "author" then author
    else if String.eqb a "name" then c_name c
    else if String.eqb a "parent_id" then c_parent c
    else if String.eqb a "data" then c_data c
    else [].
  Definition cmd_digest (author : bytes) (c : cmd) : bytes := H (cmd_digest_input oids (digest_env author c)).

  Definition cmd_id_env (digest sig : bytes) : env := fun a =>
    if String.eqb a "cmd" then digest
    else if String.eqb a "sig.raw_sig()" then sig
    else [].
  Definition cmd_id (digest : bytes) (s : SIG) : bytes := H (cmd_id_input oids (cmd_id_env digest (sig_bytes s))).

  (** [SigningKey::sign_cmd] *)
  Definition sign_cmd (k : SK) (c : cmd) : SIG * bytes :=
    let digest := cmd_digest (signing_key_id (pub k)) c in
    let s := Sign k digest in
    (s, cmd_id digest s).

  (** [VerifyingKey::verify_cmd] *)
  Definition verify_cmd (p : PK) (c : cmd) (s : SIG) : option bytes :=
    let digest := cmd_digest (signing_key_id p) c in
    if Verify p digest s then Some (cmd_id digest s) else None.

  (** [Ffi::verify]: additionally compares the claimed command id *)
  Definition ffi_verify (p : PK) (c : cmd) (claimed : bytes) (s : SIG) : bool :=
    match verify_cmd p c s with
    | Some id => bytes_eqb id claimed
    | None => false
    end.
End CmdSig.

(** * AEAD, KDF as free constructors (shared by C36, C37) *)

(** * C36 — wrapped keys (default.rs [DefaultEngine::wrap_secret] / [unwrap_secret]) *)
Inductive alg_kind := KAead | KDecap | KMac | KPrk | KSeed | KSigning.
Definition alg_kind_eqb (a b : alg_kind) : bool :=
  match a, b with
  | KAead, KAead | KDecap, KDecap | KMac, KMac | KPrk, KPrk | KSeed, KSeed | KSigning, KSigning => true
  | _, _ => false
  end.

Section Wrap.
  Variable oids : list bytes.
  Variable H : bytes -> bytes.
  Variable AKey : Type.                                      (* the engine's AEAD key *)
  Variable Seal : AKey -> bytes -> bytes -> bytes -> bytes * bytes.      (* key nonce ad pt -> (ct, tag) *)
  Variable Open : AKey -> bytes -> bytes -> bytes -> bytes -> option bytes. (* key nonce ad ct tag *)
  (** [AlgId::as_bytes] of a key type: the algorithm's OID, or "64 byte Seed" *)
  Variable alg_bytes : alg_kind -> bytes.

  Record wrapped := { w_id : bytes; w_nonce : bytes; w_kind : alg_kind; w_ct : bytes; w_tag : bytes }.

  (** [wrap_secret::<T>(id, secret)] where [kind] is T's [AlgId] variant and the
      secret has that variant too ([Engine::wrap] goes through [into_secret]). *)
  Definition wrap (k : AKey) (kind : alg_kind) (id nonce secret : bytes) : wrapped :=
    let ad := H (wrap_ad_input oids (alg_bytes kind) id) in
    let '(ct, tag) := Seal k nonce ad secret in
    {| w_id := id; w_nonce := nonce; w_kind := kind; w_ct := ct; w_tag := tag |}.

  Inductive unwrap_res := UOk (secret : bytes) | UOpenErr | UWrongKeyType.
  (** [unwrap_secret::<T>(key)]: AEAD open under AD(T::ID, key.id), then the
      [(T::ID, Ciphertext variant)] match. *)
  Definition unwrap (k : AKey) (kind : alg_kind) (w : wrapped) : unwrap_res :=
    let ad := H (unwrap_ad_input oids (alg_bytes kind) (w_id w)) in
    match Open k (w_nonce w) ad (w_ct w) (w_tag w) with
    | None => UOpenErr
    | Some data => if alg_kind_eqb kind (w_kind w) then UOk data else UWrongKeyType
    end.
End Wrap.

(** * C37 — context-bound encryption *)
Section GroupKeys.
  Variable oids : list bytes.
  Variable H : bytes -> bytes.
  Variable AKey : Type.
  Variable Seal : AKey -> bytes -> bytes -> bytes -> bytes * bytes.
  Variable Open : AKey -> bytes -> bytes -> bytes -> bytes -> option bytes.
  (** [GroupKey::derive_key]: labeled extract of the seed, labeled expand with the info *)
  Variable Kdf : bytes -> bytes -> AKey.      (* seed, info -> key *)
  Definition nonce_size : nat := 12.

  Record gk_ctx := { g_label : bytes; g_parent : bytes; g_author : bytes (* author's signing key id *) }.
  Definition gk_env (c : gk_ctx) : env := fun a =>
    if String.eqb a "label" then g_label c
    else if String.eqb a "parent" then g_parent c
    else if String.eqb a "author_sign_pk.id()" then g_author c
    else [].
  (** [Context::to_bytes] *)
  Definition gk_info (c : gk_ctx) : bytes := H (groupkey_info_input oids (gk_env c)).

  (** [GroupKey::seal]: nonce || ciphertext || tag, info is both KDF info and AEAD AD *)
  Definition gk_seal (seed : bytes) (c : gk_ctx) (nonce pt : bytes) : bytes :=
    let info := gk_info c in
    let '(ct, tag) := Seal (Kdf seed info) nonce info pt in
    nonce ++ ct ++ tag.
  (** [GroupKey::open] on an already split input (nonce, ciphertext, tag) *)
  Definition gk_open (seed : bytes) (c : gk_ctx) (nonce ct tag : bytes) : option bytes :=
    let info := gk_info c in
    Open (Kdf seed info) nonce info ct tag.
End GroupKeys.

(** APQ topic keys (apq.rs): [TopicKey::from_seed] derives the AEAD key once
    from (seed, version, topic); [seal_message] / [open_message] bind version,
    topic and BOTH ids of the sender (encryption key, signing key) in the AD. *)
Fixpoint be_bytes4 (n : nat) (v : N) : bytes :=
  match n with O => [] | S n' => be_bytes4 n' (v / 256) ++ [v mod 256] end.
Definition version_bytes (v : N) : bytes := be_bytes4 4 v.

Section TopicKeys.
  Variable oids : list bytes.
  Variable H : bytes -> bytes.
  Variable AKey : Type.
  Variable Seal : AKey -> bytes -> bytes -> bytes -> bytes * bytes.
  Variable Open : AKey -> bytes -> bytes -> bytes -> bytes -> option bytes.
  Variable Kdf : bytes -> bytes -> AKey.      (* seed, concatenated expand info -> key *)

  Record tk_ctx := { t_version : bytes; t_topic : bytes; t_enc_id : bytes; t_sign_id : bytes }.
  Definition tk_env (c : tk_ctx) : env := fun a =>
    if String.eqb a "version.to_be_bytes()[..]" then t_version c
    else if String.eqb a "version.to_be_bytes()" then t_version c
    else if String.eqb a "topic.as_bytes()[..]" then t_topic c
    else if String.eqb a "topic" then t_topic c
    else if String.eqb a "ident.enc_key.id()" then t_enc_id c
    else if String.eqb a "ident.sign_key.id()" then t_sign_id c
    else [].
  (** [TopicKey::derive_key]: the key of a topic key created for (version, topic) *)
  Definition tk_key (seed version topic : bytes) : AKey :=
    Kdf seed (concat (map (tk_env {| t_version := version; t_topic := topic; t_enc_id := []; t_sign_id := [] |})
                          topic_expand_info_args)).
  Definition tk_seal_ad (c : tk_ctx) : bytes := H (topic_msg_seal_ad_input oids (tk_env c)).
  Definition tk_open_ad (c : tk_ctx) : bytes := H (topic_msg_open_ad_input oids (tk_env c)).
  (** [TopicKey::seal_message]: nonce || ciphertext || tag *)
  Definition tk_seal_message (key : AKey) (c : tk_ctx) (nonce pt : bytes) : bytes :=
    let '(ct, tag) := Seal key nonce (tk_seal_ad c) pt in nonce ++ ct ++ tag.
  (** [TopicKey::open_message] on a split input *)
  Definition tk_open_message (key : AKey) (c : tk_ctx) (nonce ct tag : bytes) : option bytes :=
    Open key nonce (tk_open_ad c) ct tag.
End TopicKeys.

(** HPKE (RFC 9180, DHKEM) at the level of its key schedule: used by sealed
    group keys (mode base), PSK seeds and topic keys (mode auth) and AFC
    unidirectional channels (mode auth, deterministic ephemeral key). *)
Section Hpke.
  Variable oids : list bytes.
  (** aranya-crypto's [hpke::wrap_info]: the caller's info followed by the encoded suite OIDs *)
  Definition hpke_info (info : bytes) : bytes := info ++ flat_map encode_string oids.
  Variables SK PK SS : Type.
  Variable pub : SK -> PK.
  Variable dh : SK -> PK -> SS.
  Variable KEY : Type.
  (** shared_secret = ExtractAndExpand(dh values, kem_context = enc || pkR [|| pkS]) *)
  Variable KemKdf : list SS -> list PK -> SS.
  (** key schedule: mode, shared secret, info -> (AEAD key, base nonce, exporter) *)
  Variable KeySched : bool (* auth mode? *) -> SS -> bytes -> KEY.

  (** sender: ephemeral secret [e], optional own secret [s] (auth), recipient public key *)
  Definition hpke_send (e : SK) (s : option SK) (pkR : PK) (info : bytes) : PK * KEY :=
    let enc := pub e in
    match s with
    | None => (enc, KeySched false (KemKdf [dh e pkR] [enc; pkR]) (hpke_info info))
    | Some sk => (enc, KeySched true (KemKdf [dh e pkR; dh sk pkR] [enc; pkR; pub sk]) (hpke_info info))
    end.
  (** recipient: encapsulation, own secret, optional sender public key (auth) *)
  Definition hpke_recv (enc : PK) (r : SK) (pkS : option PK) (info : bytes) : KEY :=
    match pkS with
    | None => KeySched false (KemKdf [dh r enc] [enc; pub r]) (hpke_info info)
    | Some p => KeySched true (KemKdf [dh r enc; dh r p] [enc; pub r; p]) (hpke_info info)
    end.

  (** ** C38: AFC unidirectional channel keys (afc/uni.rs) *)
  Record uni_params := { u_parent : bytes; u_seal_id : bytes; u_open_id : bytes; u_label : bytes }.
  Definition uni_env (p : uni_params) : env := fun a =>
    if String.eqb a "parent_cmd_id" then u_parent p
    else if String.eqb a "seal_id" then u_seal_id p
    else if String.eqb a "open_id" then u_open_id p
    else if String.eqb a "label_id" then u_label p
    else [].
  Definition uni_info (p : uni_params) : bytes := uni_info_input (uni_env p).

  (** [UniSecrets::new]: the author's root secret and the peer's encapsulation *)
  Definition uni_secrets_new (root author_sk : SK) (peer_pk : PK) (p : uni_params) : option (SK * PK) :=
    if bytes_eqb (u_seal_id p) (u_open_id p) then None
    else Some (root, fst (hpke_send root (Some author_sk) peer_pk (uni_info p))).
  (** [Uni{Seal,Open}Key::from_author_secret] *)
  Definition uni_from_author_secret (root author_sk : SK) (peer_pk : PK) (p : uni_params) : option KEY :=
    if bytes_eqb (u_seal_id p) (u_open_id p) then None
    else Some (snd (hpke_send root (Some author_sk) peer_pk (uni_info p))).
  (** [Uni{Seal,Open}Key::from_peer_encap] *)
  Definition uni_from_peer_encap (enc : PK) (peer_sk : SK) (author_pk : PK) (p : uni_params) : option KEY :=
    if bytes_eqb (u_seal_id p) (u_open_id p) then None
    else Some (hpke_recv enc peer_sk (Some author_pk) (uni_info p)).

  (** afc-util [Handler::uni_channel_created] / [uni_channel_received]: the role
      guard and the channel parameters each entry point builds for device [d]. *)
  Definition handler_created (d parent open_id label : bytes) : option uni_params :=
    if bytes_eqb d open_id then None
    else Some {| u_parent := parent; u_seal_id := d; u_open_id := open_id; u_label := label |}.
  Definition handler_received (d parent seal_id label : bytes) : option uni_params :=
    if bytes_eqb seal_id d then None
    else Some {| u_parent := parent; u_seal_id := seal_id; u_open_id := d; u_label := label |}.

  (** ** C37: HPKE-sealed secrets.  The AEAD inside the context is the key
      schedule's key; the info struct is also the AEAD's AD. *)
  Variable Seal : KEY -> bytes -> bytes -> bytes * bytes.      (* context key, ad, pt -> (ct, tag); first message *)
  Variable Open : KEY -> bytes -> bytes -> bytes -> option bytes.

  (** [EncryptionPublicKey::seal_group_key] / [EncryptionKey::open_group_key] (mode base) *)
  Definition group_env (group : bytes) : env := fun a => if String.eqb a "group" then group else [].
  Definition seal_group_key (e : SK) (pkR : PK) (seed group : bytes) : PK * (bytes * bytes) :=
    let info := info_struct_input site_sealed_groupkey_info (group_env group) in
    let '(enc, key) := hpke_send e None pkR info in
    (enc, Seal key info seed).
  Definition open_group_key (r : SK) (enc : PK) (ct tag group : bytes) : option bytes :=
    let info := info_struct_input site_open_groupkey_info (group_env group) in
    Open (hpke_recv enc r None info) info ct tag.

  (** [EncryptionKey::seal_psk_seed] / [open_psk_seed] (mode auth) *)
  Definition seal_psk_seed (e sender : SK) (pkR : PK) (seed group : bytes) : PK * (bytes * bytes) :=
    let info := info_struct_input site_psk_seal_info (group_env group) in
    let '(enc, key) := hpke_send e (Some sender) pkR info in
    (enc, Seal key info seed).
  Definition open_psk_seed (r : SK) (pkS : PK) (enc : PK) (ct tag group : bytes) : option bytes :=
    let info := info_struct_input site_psk_open_info (group_env group) in
    Open (hpke_recv enc r (Some pkS) info) info ct tag.

  (** [ReceiverPublicKey::seal_topic_key] / [ReceiverSecretKey::open_topic_key] (mode auth):
      info struct TopicKeyRotation-v1 || version (u32 BE) || topic, also the AEAD's AD *)
  Definition rot_env (version topic : bytes) : env := fun a =>
    if String.eqb a "version" then version else if String.eqb a "topic" then topic else [].
  Definition seal_topic_key (e sender : SK) (pkR : PK) (seed version topic : bytes) : PK * (bytes * bytes) :=
    let info := info_struct_input site_topic_seal_info (rot_env version topic) in
    let '(enc, key) := hpke_send e (Some sender) pkR info in
    (enc, Seal key info seed).
  Definition open_topic_key (r : SK) (pkS : PK) (enc : PK) (ct tag version topic : bytes) : option bytes :=
    let info := info_struct_input site_topic_open_info (rot_env version topic) in
    Open (hpke_recv enc r (Some pkS) info) info ct tag.
End Hpke.
