(** How the front-matter guard of parse/markdown.rs trims a line (generated into gen/GenFrontMatter.v). *)
From Coq Require Import List NArith String.
Inductive trim_spec :=
| TrimChars (cs : list N)          (* trim_end_matches([c1, c2, ..]) : exactly these code points *)
| TrimUnicodeWhitespace            (* trim_end() : every Unicode White_Space code point *)
| TrimOther (text : string).       (* anything the generator does not recognise *)
