(** Model of how a replica treats a received command
    ([aranya-runtime/src/vm_policy.rs] [VmPolicy::call_rule] / [open_command],
    [vm_policy/protocol.rs] [VmProtocolData] / [Envelope],
    [aranya-crypto-ffi/src/ffi.rs] [Ffi::verify], [aranya-envelope-ffi] accessors,
    and the part of [client/transaction.rs] [add_commands] / [add_single] / [init]
    that decides whether the command is stored).

    Byte strings (ids, payloads, names, keys, signatures) are tokens: only their
    equality matters here.  The cryptographic primitive [verify_cmd], the policy's
    key lookup [open_key] and its policy block [policy_eval] are parameters. *)
From Aranya Require Import base.Tactics gen.GenEnvelope.
Local Open Scope N_scope.

Definition tok := N.
Definition zero_id : tok := 0.                       (* [CmdId::default()] *)

Inductive prior := PNone | PSingle (id : tok) (max_cut : N) | PMerge.
Inductive prio := PrInit | PrBasic (n : N) | PrFinalize | PrMerge.
(** [VmProtocolData { author_id, kind, serialized_fields, signature }] *)
Record wire := { w_author : tok; w_kind : tok; w_payload : tok; w_sig : tok }.
(** What arrives: the [Command] trait's view ([id], [priority], [parent], [policy], [bytes]);
    [c_data = None] when [postcard::from_bytes(command.bytes())] fails. *)
Record wcmd := { c_id : tok; c_prio : prio; c_parent : prior; c_policy : option tok; c_data : option wire }.
(** [Envelope { parent_id, author_id, command_id, signature }] *)
Record envelope := { e_parent_id : tok; e_author_id : tok; e_command_id : tok; e_signature : tok }.

Inductive perr := ERead | EInternal | ERejected | EPanic | EBugP.   (* [PolicyError] *)

Definition prio_eqb (a b : prio) : bool :=
  match a, b with
  | PrInit, PrInit | PrFinalize, PrFinalize | PrMerge, PrMerge => true
  | PrBasic x, PrBasic y => x =? y
  | _, _ => false
  end.

Section CallRule.
  Variables F E : Type.                              (* fact state, effects *)
  (** [machine.command_defs] + the priority map: [Some (priority, persistent)] *)
  Variable kinds : tok -> option (prio * bool).
  (** [machine.deserialize_struct(kind, payload).is_ok()] *)
  Variable struct_decodes : tok -> tok -> bool.
  (** the public key the policy's [open] block hands to [crypto::verify] for this author:
      a registered-key fact lookup (or a field of the command itself for the init command) *)
  Variable open_key : F -> tok -> tok -> tok -> option tok.          (* facts kind payload author *)
  (** [VerifyingKey::verify_cmd(Cmd { data, name, parent_id }, sig)] (decoding of key and signature included) *)
  Variable verify_cmd : tok -> tok * tok * tok -> tok -> option tok.  (* pk (data, name, parent) sig *)
  (** the command's [policy] block *)
  Inductive pres := POk (f : F) (effs : list E) | PErr (e : perr).
  Variable policy_eval : F -> tok -> tok -> envelope -> pres.

  (** [crypto::verify] of crypto-ffi, in an [Open] context named [ctx_name]:
      any error is a [MachineError], which [open_command] maps to [InternalError]. *)
  Definition ffi_verify (ctx_name : tok) (pk : option tok) (parent_id payload command_id sig : tok) : option perr :=
    match pk with
    | None => Some EInternal                                          (* [MissingKeyInput] *)
    | Some k =>
      match verify_cmd k (payload, ctx_name, parent_id) sig with
      | None => Some EInternal
      | Some i => if i =? command_id then None else Some EInternal     (* [InvalidCmdId] *)
      end
    end.

  (** the [open] block of a signature-verifying policy, run by [open_command] with
      [OpenContext { name: this_data.name }], the payload and the envelope *)
  Definition open_block (f : F) (w : wire) (env : envelope) : option perr :=
    ffi_verify (w_kind w) (open_key f (w_kind w) (w_payload w) (e_author_id env))
               (e_parent_id env) (w_payload w) (e_command_id env) (e_signature env).

  Definition parent_id_of (c : wcmd) : tok :=
    match c_parent c with PSingle i _ => i | _ => zero_id end.

  (** [VmPolicy::call_rule] at [CommandPlacement::OnGraphAtOrigin] (a synced command), after the
      parent id has been taken from the received command *)
  Definition call_rule_body (f : F) (c : wcmd) : pres :=
    match c_data c with
    | None => PErr ERead                                              (* postcard decoding of [command.bytes()] *)
    | Some w =>
      match kinds (w_kind w) with
      | None => PErr EInternal                                        (* unknown command *)
      | Some (expected, persistent) =>
        if negb (prio_eqb (c_prio c) expected) then PErr EInternal
        else
          let env := {| e_parent_id := parent_id_of c; e_author_id := w_author w;
                        e_command_id := c_id c; e_signature := w_sig w |} in
          if negb persistent then PErr EInternal
          else if negb (struct_decodes (w_kind w) (w_payload w)) then PErr ERead
          else match open_block f w env with
               | Some e => PErr e
               | None => policy_eval f (w_kind w) (w_payload w) env
               end
      end
    end.
  Definition call_rule (f : F) (c : wcmd) : pres :=
    match c_parent c with
    | PMerge => PErr EBugP                                            (* "merge commands are not evaluated" *)
    | _ => call_rule_body f c
    end.

  (** ** The replica *)
  Record replica := { r_graph : option tok; r_facts : F; r_cmds : list (tok * N); r_effects : list E }.
  Inductive reason := RNoParent | RInit | RHeadMismatch | RPolicy (e : perr).
  Inductive outcome := Accepted | Skipped | Rejected (why : reason).

  Definition addr_eqb (a b : tok * N) : bool := (fst a =? fst b) && (snd a =? snd b).
  Definition has_addr (l : list (tok * N)) (a : tok * N) : bool := existsb (addr_eqb a) l.
  Definition max_cut_of (c : wcmd) : N := match c_parent c with PSingle _ m => m + 1 | _ => 0 end.

  Variable empty_facts : F.

  (** [Transaction::add_commands] for one command in a transaction of its own, then [commit].
      [g] is the graph id the transaction was opened for. *)
  Definition deliver (g : tok) (r : replica) (c : wcmd) : replica * outcome :=
    match r_graph r with
    | None =>                                                           (* [Transaction::init] *)
      if negb (g =? c_id c) then (r, Rejected RInit)
      else match c_parent c, c_policy c with
           | PNone, Some _ =>
             match call_rule empty_facts c with
             | PErr e => (r, Rejected (RPolicy e))
             | POk f effs => ({| r_graph := Some g; r_facts := f; r_cmds := [(c_id c, 0)]; r_effects := r_effects r ++ effs |}, Accepted)
             end
           | _, _ => (r, Rejected RInit)
           end
    | Some gid =>
      if has_addr (r_cmds r) (c_id c, max_cut_of c) then (r, Skipped)   (* already stored *)
      else match c_parent c with
           | PNone => if c_id c =? gid then (r, Skipped) else (r, Rejected RInit)
           | PMerge => (r, Rejected (RPolicy EBugP))                    (* merges are not in this model *)
           | PSingle p m =>
             if negb (has_addr (r_cmds r) (p, m)) then (r, Rejected RNoParent)
             else match call_rule (r_facts r) c with
                  | PErr e => (r, Rejected (RPolicy e))                 (* revert + rollback: nothing kept *)
                  | POk f effs =>
                    ({| r_graph := r_graph r; r_facts := f; r_cmds := r_cmds r ++ [(c_id c, m + 1)];
                        r_effects := r_effects r ++ effs |}, Accepted)
                  end
           end
    end.

  (** The same transaction as the parent ([phead = Some parent.id]): the perspective is found by the
      parent's id alone; [Perspective::add_command] then compares the whole parent address with the
      perspective's head.  [keep_on_mismatch = true] is the code before /repo's repair (the evaluated
      command's facts and effects stayed in the transaction); [false] is the repaired behaviour. *)
  Definition deliver_in_trx (keep_on_mismatch : bool) (head : tok * N) (r : replica) (c : wcmd) : replica * outcome :=
    match c_parent c with
    | PSingle p m =>
      if negb (p =? fst head) then (r, Rejected RNoParent)
      else match call_rule (r_facts r) c with
           | PErr e => (r, Rejected (RPolicy e))
           | POk f effs =>
             if m =? snd head
             then ({| r_graph := r_graph r; r_facts := f; r_cmds := r_cmds r ++ [(c_id c, m + 1)];
                      r_effects := r_effects r ++ effs |}, Accepted)
             else if keep_on_mismatch
                  then ({| r_graph := r_graph r; r_facts := f; r_cmds := r_cmds r; r_effects := r_effects r ++ effs |},
                        Rejected RHeadMismatch)
                  else (r, Rejected RHeadMismatch)
           end
    | _ => (r, Rejected RInit)
    end.
End CallRule.

Arguments r_graph {F E} r.
Arguments r_facts {F E} r.
Arguments r_cmds {F E} r.
Arguments r_effects {F E} r.
Arguments POk {F E} f effs.
Arguments PErr {F E} e.

(** ** A symbolic signature world for evaluation and non-vacuity:
    the list of tuples honest key holders have signed. *)
Definition sigrec := (tok * (tok * tok * tok) * tok * tok)%type.       (* pk, (data, name, parent), sig, id *)
Definition cmd3_eqb (a b : tok * tok * tok) : bool :=
  (fst (fst a) =? fst (fst b)) && (snd (fst a) =? snd (fst b)) && (snd a =? snd b).
Definition list_verify (L : list sigrec) (pk : tok) (c : tok * tok * tok) (s : tok) : option tok :=
  match find (fun r => let '(pk', c', s', _) := r in (pk' =? pk) && cmd3_eqb c' c && (s' =? s)) L with
  | Some (_, _, _, i) => Some i
  | None => None
  end.
