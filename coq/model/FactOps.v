(** Model of the fact operations a policy performs, end to end:

    - [aranya-policy-vm/src/data.rs]: [Fact::{new,set_key,set_value}], [Value::fits_type],
      [HashableValue::fits_type];
    - [aranya-policy-vm/src/machine.rs]: [validate_fact_schema], [validate_fact_literal],
      [fact_match], and the instructions [Query], [FactCount n], [QueryStart]/[QueryNext],
      [Create], [Delete], [Update], plus [Const]/[Lt]/[Gt]/[Eq]/[Not] as far as the
      counting functions use them;
    - [aranya-policy-compiler/src/compile.rs]: [compile_fact_literal] (the literal a policy
      writes becomes [FactNew; FactKeySet*; FactValueSet*]), [compile_counting_function] and
      the lowering of [exists] — both read from the regenerated tables of [gen/GenKeyEnc.v];
    - [aranya-runtime/src/vm_policy/io.rs]: [VmPolicyIO::{fact_insert,fact_delete,fact_query}]
      and [VmFactCursor] over an abstract storage [St] ([st_insert]/[st_delete]/[st_prefix] =
      [QueryMut::insert]/[delete], [Query::query_prefix]).

    The second half is the specification store: typed facts in typed key order. *)
From Aranya Require Import base.Tactics base.ListLex base.SortedAssoc gen.GenKeyEnc model.KeyEnc.

Fixpoint beqb (a b : bytes) : bool :=
  match a, b with
  | [], [] => true
  | x :: a', y :: b' => (x =? y)%N && beqb a' b'
  | _, _ => false
  end.

(** ** Values and types *)
Inductive value :=
| VInt (z : Z) | VBool (b : bool) | VString (s : bytes) | VBytes (b : bytes) | VId (i : bytes)
| VEnum (n : bytes) (z : Z) | VNone | VSome (v : value) | VUnit.
Inductive ty := TInt | TBool | TString | TBytes | TId | TEnum (n : bytes) | TOpt (t : ty) | TUnit.

Fixpoint value_eqb (a b : value) : bool :=
  match a, b with
  | VInt x, VInt y => (x =? y)%Z
  | VBool x, VBool y => Bool.eqb x y
  | VString x, VString y => beqb x y
  | VBytes x, VBytes y => beqb x y
  | VId x, VId y => beqb x y
  | VEnum n x, VEnum m y => beqb n m && (x =? y)%Z
  | VNone, VNone => true
  | VSome x, VSome y => value_eqb x y
  | VUnit, VUnit => true
  | _, _ => false
  end.

(** [Value::fits_type] *)
Fixpoint value_fits (v : value) (t : ty) : bool :=
  match v, t with
  | VUnit, TUnit => true
  | VInt _, TInt => true
  | VBool _, TBool => true
  | VString _, TString => true
  | VBytes _, TBytes => true
  | VId _, TId => true
  | VEnum n _, TEnum m => beqb n m
  | VSome x, TOpt t' => value_fits x t'
  | VNone, TOpt _ => true
  | _, _ => false
  end.
(** [HashableValue::fits_type] *)
Definition hval_fits (v : hval) (t : ty) : bool :=
  match v, t with
  | HInt _, TInt => true
  | HBool _, TBool => true
  | HString _, TString => true
  | HId _, TId => true
  | HEnum n _, TEnum m => beqb n m
  | _, _ => false
  end.

Definition fval := (bytes * value)%type.                 (* [FactValue { identifier, value }] *)
Definition fkey_eqb (a b : fkey) : bool := beqb (fst a) (fst b) && hval_eqb (snd a) (snd b).
Definition fval_eqb (a b : fval) : bool := beqb (fst a) (fst b) && value_eqb (snd a) (snd b).
Fixpoint list_eqb {A} (e : A -> A -> bool) (a b : list A) : bool :=
  match a, b with
  | [], [] => true
  | x :: a', y :: b' => e x y && list_eqb e a' b'
  | _, _ => false
  end.
(** [<[T]>::starts_with] *)
Fixpoint starts_with {A} (e : A -> A -> bool) (l p : list A) : bool :=
  match p, l with
  | [], _ => true
  | _ :: _, [] => false
  | y :: p', x :: l' => e x y && starts_with e l' p'
  end.

(** ** [Fact] *)
Record fact := { f_name : bytes; f_keys : list fkey; f_vals : list fval }.
Definition fact_new (n : bytes) : fact := {| f_name := n; f_keys := []; f_vals := [] |}.
(** [match iter_mut().find(|e| e.identifier == name) { None => push, Some(e) => e.value = v }] *)
Fixpoint upd_assoc {V} (n : bytes) (v : V) (l : list (bytes * V)) : list (bytes * V) :=
  match l with
  | [] => [(n, v)]
  | (n', v') :: r => if beqb n' n then (n', v) :: r else (n', v') :: upd_assoc n v r
  end.
Definition set_key (f : fact) (n : bytes) (v : hval) : fact :=
  {| f_name := f_name f; f_keys := upd_assoc n v (f_keys f); f_vals := f_vals f |}.
Definition set_value (f : fact) (n : bytes) (v : value) : fact :=
  {| f_name := f_name f; f_keys := f_keys f; f_vals := upd_assoc n v (f_vals f) |}.

(** ** Schemas ([FactDef]) and validation *)
Record schema := { s_name : bytes; s_keys : list (bytes * ty); s_vals : list (bytes * ty) }.
Definition lookup {V} (n : bytes) (l : list (bytes * V)) : option (bytes * V) :=
  find (fun e => beqb (fst e) n) l.

Definition validate_fact_schema (f : fact) (s : schema) : bool :=
  beqb (f_name f) (s_name s)
  && forallb (fun k => match lookup (fst k) (s_keys s) with
                       | Some (_, t) => hval_fits (snd k) t
                       | None => false end) (f_keys f)
  && forallb (fun v => match lookup (fst v) (s_vals s) with
                       | Some (_, t) => value_fits (snd v) t
                       | None => false end) (f_vals f).
(** [fact_defs.get(&fact.name).is_some_and(|schema| validate_fact_schema(fact, schema))];
    [def] is the result of the lookup. *)
Definition validate_fact_literal (def : option schema) (f : fact) : bool :=
  match def with Some s => validate_fact_schema f s | None => false end.

(** [fact_match] *)
Definition fact_match (q : fact) (keys : list fkey) (vals : list fval) : bool :=
  starts_with fkey_eqb keys (f_keys q)
  && forallb (fun qv => match lookup (fst qv) vals with
                        | Some v => value_eqb (snd v) (snd qv)
                        | None => false end) (f_vals q).

Inductive err := EInvalidSchema | EInvalidFact | EIO | EBug | EType | EBadArgument.
Inductive res (A : Type) := Ok (a : A) | Err (e : err).
Arguments Ok {A} a.
Arguments Err {A} e.

Definition row := (list fkey * list fval)%type.          (* one query result *)
Definition io_row := option row.                         (* [None] = [Err(MachineIOError::Internal)] *)
Definition row_eqb (a b : row) : bool := list_eqb fkey_eqb (fst a) (fst b) && list_eqb fval_eqb (snd a) (snd b).

Definition i64_max : Z := (two63 - 1)%Z.

(** [sort_unstable_by(|a, b| a.identifier.cmp(&b.identifier))]; identifiers are distinct in every
    value list the VM builds, so stability does not matter. *)
Fixpoint insert_fval (x : fval) (l : list fval) : list fval :=
  match l with
  | [] => [x]
  | y :: r => match bcmp (fst x) (fst y) with Gt => y :: insert_fval x r | _ => x :: l end
  end.
Definition sort_vals (l : list fval) : list fval := fold_right insert_fval [] l.

(** ** The machine's view of storage: [VmPolicyIO] over an abstract store *)
Section IO.
  Variable utf8 : bytes -> bool.
  (** [St]: the storage; [VB]: the stored value bytes *)
  Variables St VB : Type.
  Variable st_insert : St -> bytes -> list bytes -> VB -> St.
  Variable st_delete : St -> bytes -> list bytes -> St.
  Variable st_prefix : St -> bytes -> list bytes -> list (list bytes * VB).
  (** [postcard::to_allocvec(&Vec<FactValue>)] / [postcard::from_bytes] *)
  Variable ser_vals : list fval -> VB.
  Variable deser_vals : VB -> option (list fval).

  Definition fact_insert (st : St) (name : bytes) (keys : list fkey) (vals : list fval) : St :=
    st_insert st name (ser_keys keys) (ser_vals vals).
  Definition fact_delete (st : St) (name : bytes) (keys : list fkey) : St :=
    st_delete st name (ser_keys keys).
  (** [fact_query] + [VmFactCursor::next]: the whole cursor as a list *)
  Definition fact_query (st : St) (name : bytes) (keys : list fkey) : list io_row :=
    map (fun kv => match deser_keys utf8 (fst kv), deser_vals (snd kv) with
                   | Some k, Some v => Some (k, v)
                   | _, _ => None end)
        (st_prefix st name (ser_keys keys)).

  (** [iter.find_map(|r| match r { Ok(f) if fact_match => Some(Ok(f)), Ok(_) => None, Err(e) => Some(Err(e)) })];
      also returns the rest of the cursor. *)
  Fixpoint next_row (q : fact) (l : list io_row) : option io_row * list io_row :=
    match l with
    | [] => (None, [])
    | None :: r => (Some None, r)
    | Some rw :: r => if fact_match q (fst rw) (snd rw) then (Some (Some rw), r) else next_row q r
    end.

  (** [Instruction::Query] *)
  Definition exec_query (def : option schema) (st : St) (qf : fact) : res (option row) :=
    if negb (validate_fact_literal def qf) then Err EInvalidSchema
    else match fst (next_row qf (fact_query st (f_name qf) (f_keys qf))) with
         | None => Ok None
         | Some None => Err EIO
         | Some (Some rw) => Ok (Some rw)
         end.

  (** [Instruction::FactCount(limit)]: [while count < limit { let Some(r) = iter.next() else break; … }] *)
  Fixpoint count_loop (q : fact) (limit count : Z) (l : list io_row) : res Z :=
    if (count <? limit)%Z then
      match l with
      | [] => Ok count
      | None :: _ => Err EIO
      | Some rw :: r =>
        if fact_match q (fst rw) (snd rw)
        then (if (count + 1 <=? i64_max)%Z then count_loop q limit (count + 1)%Z r else Err EBug)
        else count_loop q limit count r
      end
    else Ok count.
  Definition exec_fact_count (def : option schema) (st : St) (limit : Z) (f : fact) : res Z :=
    if negb (validate_fact_literal def f) then Err EInvalidSchema
    else count_loop f limit 0 (fact_query st (f_name f) (f_keys f)).

  (** [Instruction::QueryStart] / [QueryNext] (after the repair: the cursor keeps the literal and
      [QueryNext] skips rows that do not match its value fields). *)
  Definition cursor := (fact * list io_row)%type.
  Definition exec_query_start (def : option schema) (st : St) (f : fact) : res cursor :=
    if negb (validate_fact_literal def f) then Err EInvalidSchema
    else Ok (f, fact_query st (f_name f) (f_keys f)).
  Definition exec_query_next (c : cursor) : res (option row * cursor) :=
    match next_row (fst c) (snd c) with
    | (None, _) => Ok (None, (fst c, []))
    | (Some None, _) => Err EIO
    | (Some (Some rw), r) => Ok (Some rw, (fst c, r))
    end.
  (** the [map] loop: [QueryNext] until it reports the end *)
  Fixpoint drain (fuel : nat) (c : cursor) : res (list row) :=
    match fuel with
    | O => Err EBug
    | S fu =>
      match exec_query_next c with
      | Err e => Err e
      | Ok (None, _) => Ok []
      | Ok (Some rw, c') => match drain fu c' with Ok l => Ok (rw :: l) | Err e => Err e end
      end
    end.
  Definition exec_map (def : option schema) (st : St) (f : fact) : res (list row) :=
    match exec_query_start def st f with
    | Err e => Err e
    | Ok c => drain (S (length (snd c))) c
    end.

  (** [QueryNext] as it was before the repair ([iter.next()], value fields ignored). *)
  Definition exec_query_next_unfiltered (c : cursor) : res (option row * cursor) :=
    match snd c with
    | [] => Ok (None, (fst c, []))
    | None :: _ => Err EIO
    | Some rw :: r => Ok (Some rw, (fst c, r))
    end.
  Fixpoint drain_unfiltered (fuel : nat) (c : cursor) : res (list row) :=
    match fuel with
    | O => Err EBug
    | S fu =>
      match exec_query_next_unfiltered c with
      | Err e => Err e
      | Ok (None, _) => Ok []
      | Ok (Some rw, c') => match drain_unfiltered fu c' with Ok l => Ok (rw :: l) | Err e => Err e end
      end
    end.

  (** [Instruction::Create] / [Delete] *)
  Definition exec_create (st : St) (f : fact) : St := fact_insert st (f_name f) (f_keys f) (f_vals f).
  Definition exec_delete (st : St) (f : fact) : St := fact_delete st (f_name f) (f_keys f).

  (** [Instruction::Update]: [fact_to] is popped first, then [fact_from]. *)
  Definition exec_update (st : St) (fact_to fact_from : fact) : res St :=
    match fact_query st (f_name fact_from) (f_keys fact_from) with
    | [] => Err EInvalidFact
    | None :: _ => Err EIO
    | Some replaced :: _ =>
      if match f_vals fact_from with [] => false | _ => true end
         && negb (list_eqb fval_eqb (sort_vals (snd replaced)) (sort_vals (f_vals fact_from)))
      then Err EInvalidFact
      else Ok (fact_insert (fact_delete st (f_name fact_from) (fst replaced))
                           (f_name fact_to) (f_keys fact_to) (f_vals fact_to))
    end.

  (** ** Counting functions and [exists]: compiler output run on a stack *)
  Inductive instr := IFactCount (limit : Z) | IConstInt (z : Z) | IConstNone | IQuery | ILt | IGt | IEq | INot.
  Inductive sval := SFact (f : fact) | SInt (z : Z) | SBool (b : bool) | SOpt (o : option row).

  (** [Instruction::Eq] is [a == b] on [Value]; only the shapes the lowerings produce are distinguished. *)
  Definition sval_eqb (a b : sval) : bool :=
    match a, b with
    | SInt x, SInt y => (x =? y)%Z
    | SBool x, SBool y => Bool.eqb x y
    | SOpt None, SOpt None => true
    | SOpt (Some x), SOpt (Some y) => row_eqb x y
    | _, _ => false
    end.

  Definition run_instr (def : option schema) (st : St) (i : instr) (stk : list sval) : res (list sval) :=
    match i, stk with
    | IFactCount n, SFact f :: r =>
      match exec_fact_count def st n f with Ok c => Ok (SInt c :: r) | Err e => Err e end
    | IQuery, SFact f :: r =>
      match exec_query def st f with Ok o => Ok (SOpt o :: r) | Err e => Err e end
    | IConstInt z, _ => Ok (SInt z :: stk)
    | IConstNone, _ => Ok (SOpt None :: stk)
    | ILt, SInt b :: SInt a :: r => Ok (SBool (a <? b)%Z :: r)
    | IGt, SInt b :: SInt a :: r => Ok (SBool (a >? b)%Z :: r)
    | IEq, b :: a :: r => Ok (SBool (sval_eqb a b) :: r)
    | INot, SBool b :: r => Ok (SBool (negb b) :: r)
    | _, _ => Err EType
    end.
  Fixpoint run (def : option schema) (st : St) (is : list instr) (stk : list sval) : res (list sval) :=
    match is with
    | [] => Ok stk
    | i :: r => match run_instr def st i stk with Ok s => run def st r s | Err e => Err e end
    end.
End IO.

(** [compile_counting_function], driven by the regenerated table. *)
Definition gkind_eqb (a b : gkind) : bool :=
  match a, b with
  | GUpTo, GUpTo | GAtLeast, GAtLeast | GAtMost, GAtMost | GExactly, GExactly => true
  | _, _ => false
  end.
(** [count_limit_successor]: [limit.checked_add(1)] failing is a [BadArgument] compile error
    (it was [buggy::assume], a [Bug], before /repo 89546a0); which one is regenerated. *)
Definition limit_overflow_err : err := if limit_overflow_is_bad_argument then EBadArgument else EBug.
Definition compile_g (limit : Z) (g : ginstr) : res instr :=
  match g with
  | GFactCount GLimit => Ok (IFactCount limit)
  | GFactCount GLimitPlus1 =>                       (* [self.count_limit_successor(&limit)?] *)
    if (limit + 1 <=? i64_max)%Z then Ok (IFactCount (limit + 1)%Z) else Err limit_overflow_err
  | GConstLimit => Ok (IConstInt limit)
  | GConstNone => Ok IConstNone
  | GQuery => Ok IQuery
  | GLt => Ok ILt
  | GGt => Ok IGt
  | GEq => Ok IEq
  | GNot => Ok INot
  end.
Fixpoint compile_gs (limit : Z) (gs : list ginstr) : res (list instr) :=
  match gs with
  | [] => Ok []
  | g :: r => match compile_g limit g, compile_gs limit r with
              | Ok i, Ok is => Ok (i :: is)
              | Err e, _ => Err e
              | _, Err e => Err e
              end
  end.
Definition compile_counting (k : gkind) (limit : Z) : res (list instr) :=
  if (limit <=? 0)%Z then Err EBadArgument           (* "count limit must be greater than zero" *)
  else match find (fun e => gkind_eqb (fst e) k) counting_table with
       | Some (_, gs) => compile_gs limit gs
       | None => Err EBug
       end.

(** ** Fact literals as policies write them *)
(** [l_keys]: the bound leading key fields (a bind [?] ends them); [l_vals]: the bound value fields. *)
Record lit := { l_keys : list hval; l_vals : list fval }.
Definition key_names (s : schema) : list bytes := map fst (s_keys s).
(** [compile_fact_literal]: [FactNew name; (expr; FactKeySet k)*; (expr; FactValueSet v)*] *)
Definition lower_lit (s : schema) (l : lit) : fact :=
  fold_left (fun f kv => set_value f (fst kv) (snd kv)) (l_vals l)
    (fold_left (fun f kv => set_key f (fst kv) (snd kv)) (mk_keys (key_names s) (l_keys l)) (fact_new (s_name s))).
(** [Update]: [literal; Dup; (expr; FactValueSet v)*] *)
Definition lower_to (from : fact) (to : list fval) : fact :=
  fold_left (fun f kv => set_value f (fst kv) (snd kv)) to from.

Inductive op :=
| OQuery (l : lit) | OExists (l : lit) | OCount (k : gkind) (n : Z) (l : lit) | OMap (l : lit)
| OCreate (l : lit) | ODelete (l : lit) | OUpdate (l : lit) (to : list fval).
Inductive result :=
| RRow (o : option row) | RBool (b : bool) | RInt (z : Z) | RRows (l : list row) | RUnit | RErr (e : err).

Section Step.
  Variable utf8 : bytes -> bool.
  Variables St VB : Type.
  Variable st_insert : St -> bytes -> list bytes -> VB -> St.
  Variable st_delete : St -> bytes -> list bytes -> St.
  Variable st_prefix : St -> bytes -> list bytes -> list (list bytes * VB).
  Variable ser_vals : list fval -> VB.
  Variable deser_vals : VB -> option (list fval).

  Definition of_stack (r : res (list sval)) : result :=
    match r with
    | Ok [SInt z] => RInt z
    | Ok [SBool b] => RBool b
    | Ok _ => RErr EType
    | Err e => RErr e
    end.

  (** One policy-level fact operation through compiler output, VM and [VmPolicyIO]. *)
  Definition vm_step (s : schema) (st : St) (o : op) : result * St :=
    let def := Some s in
    match o with
    | OQuery l =>
      (match exec_query utf8 St VB st_prefix deser_vals def st (lower_lit s l) with Ok r => RRow r | Err e => RErr e end, st)
    | OExists l =>
      (match compile_gs 0 exists_lowering with
       | Ok is => of_stack (run utf8 St VB st_prefix deser_vals def st is [SFact (lower_lit s l)])
       | Err e => RErr e end, st)
    | OCount k n l =>
      (match compile_counting k n with
       | Ok is => of_stack (run utf8 St VB st_prefix deser_vals def st is [SFact (lower_lit s l)])
       | Err e => RErr e end, st)
    | OMap l =>
      (match exec_map utf8 St VB st_prefix deser_vals def st (lower_lit s l) with Ok r => RRows r | Err e => RErr e end, st)
    | OCreate l => (RUnit, exec_create St VB st_insert ser_vals st (lower_lit s l))
    | ODelete l => (RUnit, exec_delete St st_delete st (lower_lit s l))
    | OUpdate l to =>
      let from := lower_lit s l in
      match exec_update utf8 St VB st_insert st_delete st_prefix ser_vals deser_vals st (lower_to from to) from with
      | Ok st' => (RUnit, st')
      | Err e => (RErr e, st)
      end
    end.

  Fixpoint vm_run (s : schema) (st : St) (os : list op) : list result * St :=
    match os with
    | [] => ([], st)
    | o :: r => let '(x, st') := vm_step s st o in let '(xs, st'') := vm_run s st' r in (x :: xs, st'')
    end.
End Step.

(** * The specification store *)
(** Typed facts of one schema, in typed key order ([tcmp]); no bytes, no cursor, no VM. *)
Definition sfact := (list hval * list fval)%type.
Definition sstore := list sfact.

Definition vals_match (bound : list fval) (vs : list fval) : bool :=
  forallb (fun q => match lookup (fst q) vs with
                    | Some v => value_eqb (snd v) (snd q)
                    | None => false end) bound.
(** facts whose leading key fields equal the bound keys, in key order, filtered by the bound values *)
Definition spec_rows (sp : sstore) (l : lit) : list sfact :=
  filter (fun e => is_prefix hval_cmp (l_keys l) (fst e) && vals_match (l_vals l) (snd e)) sp.
Definition row_of (s : schema) (e : sfact) : row := (mk_keys (key_names s) (fst e), snd e).
Definition is_nil {A} (l : list A) : bool := match l with [] => true | _ => false end.

Definition spec_step (s : schema) (sp : sstore) (o : op) : result * sstore :=
  match o with
  | OQuery l => (RRow (option_map (row_of s) (hd_error (spec_rows sp l))), sp)
  | OExists l => (RBool (negb (is_nil (spec_rows sp l))), sp)
  | OCount k n l =>
    let c := Z.of_nat (length (spec_rows sp l)) in
    (if (n <=? 0)%Z then RErr EBadArgument
     else match k with
          | GUpTo => RInt (Z.min c n)
          | GAtLeast => RBool (n <=? c)%Z
          | GAtMost => if (n =? i64_max)%Z then RErr limit_overflow_err else RBool (c <=? n)%Z
          | GExactly => if (n =? i64_max)%Z then RErr limit_overflow_err else RBool (c =? n)%Z
          end, sp)
  | OMap l => (RRows (map (row_of s) (spec_rows sp l)), sp)
  | OCreate l => (RUnit, sput tcmp (l_keys l) (l_vals l) sp)
  | ODelete l => (RUnit, sdel tcmp (l_keys l) sp)
  | OUpdate l to =>
    match sget tcmp (l_keys l) sp with
    | None => (RErr EInvalidFact, sp)
    | Some old =>
      if is_nil (l_vals l) || list_eqb fval_eqb (sort_vals old) (sort_vals (l_vals l))
      then (RUnit, sput tcmp (l_keys l) (fold_left (fun a kv => upd_assoc (fst kv) (snd kv) a) to (l_vals l)) sp)
      else (RErr EInvalidFact, sp)
    end
  end.

Fixpoint spec_run (s : schema) (sp : sstore) (os : list op) : list result * sstore :=
  match os with
  | [] => ([], sp)
  | o :: r => let '(x, sp') := spec_step s sp o in let '(xs, sp'') := spec_run s sp' r in (x :: xs, sp'')
  end.

(** The concrete store used to evaluate the model: a sorted association list per fact name
    (what C12 proves linear storage to be). *)
Section LStore.
  Variable VB : Type.
  Definition lstore := list (bytes * list (list bytes * VB)).
  Definition l_flat (st : lstore) (n : bytes) : list (list bytes * VB) :=
    match sget bcmp n st with Some m => m | None => [] end.
  Definition l_insert (st : lstore) (n : bytes) (k : list bytes) (v : VB) : lstore :=
    sput bcmp n (sput kcmp k v (l_flat st n)) st.
  Definition l_delete (st : lstore) (n : bytes) (k : list bytes) : lstore :=
    sput bcmp n (sdel kcmp k (l_flat st n)) st.
  Definition l_prefix (st : lstore) (n : bytes) (p : list bytes) : list (list bytes * VB) :=
    filter (fun e => is_prefix bcmp p (fst e)) (l_flat st n).
End LStore.
