(** The policy language: syntax of the modelled fragment and its reference
    big-step semantics.

    This file is the one human reading of "what the language defines"; it is
    written from the language documentation in the repository (the grammar
    [aranya-policy-lang/src/lang/parse/policy.pest], the doc comments of
    [aranya-policy-ast], the compiler's test expectations), not from the
    compiler.  It is compared on every run with the real
    parse -> compile -> Machine -> run pipeline (leg L3 of the correspondence).

    Values are the VM's values ([GenVm.Value], generated from the source):
    [V_Int] an i64, [V_Option], [V_Result], [V_Struct] with its fields as an
    ascending association list, [V_Enum name index].

    Fragment.  Expressions: literals, [Some/Ok/Err], enum references,
    variables, struct literals, field access, [substruct], [as] (cast),
    [&& || !], [== != > < >= <=], [is Some/None], optional coalescing [or],
    [if] expressions, block expressions, [match] with literal / binding /
    default patterns, calls of user functions and of the builtins
    [add sub saturating_add saturating_sub], foreign calls, [return],
    [recall], [todo()].  Statements: [let], [check .. else ..], [if],
    [match], [return], [finish] with [create / update / delete / emit] and
    finish-function calls, [recall], [debug_assert].
    Not modelled: [query/exists/count_*], [map], [publish], action calls,
    struct composition ([...x]), struct-literal match patterns.

    Evaluation results: [OVal] (a value / the extended environment),
    [ORet v] (a [return] unwinding to the enclosing function), [OExit r]
    (evaluation stops: [ER_Panic] for [todo()] / falling off a function,
    [ER_Normal] / [ER_Check] after a finish block, [ER_Check] at the end of a
    recall block), [OErr] (the I/O oracle answered with an error), [OWrong]
    (the semantics has no rule: an ill-typed situation), [OFuel]. *)
From Aranya Require Import model.VmBase gen.GenVm model.Vm.
Local Open Scope string_scope.

(** * Syntax *)

(** Literal match patterns (also the constant expressions of global lets). *)
Inductive lit : Type :=
  | LUnit | LInt (z : Z) | LStr (s : string) | LBool (b : bool)
  | LEnum (enum variant : ident)
  | LNone | LSome (l : lit) | LOk (l : lit) | LErr (l : lit).

(** One alternative of a match arm: a literal, or [Some(x)] / [Ok(x)] / [Err(x)]. *)
Inductive pat : Type := PLit (l : lit) | PBind (w : WrapType) (x : ident).
(** [p1 | p2 | ... =>] or [_ =>]. *)
Inductive pattern : Type := PVals (ps : list pat) | PDefault.

Inductive binop : Type := BEq | BNe | BGt | BLt | BGe | BLe.

Inductive expr : Type :=
  | EUnit | EInt (z : Z) | EStr (s : string) | EBool (b : bool)
  | EEnum (enum variant : ident)
  | ENone
  | EWrap (w : WrapType) (e : expr)              (* Some(e) / Ok(e) / Err(e) *)
  | EVar (x : ident)
  | EStruct (name : ident) (fs : fields)         (* Name { f: e, ... } *)
  | EDot (e : expr) (f : ident)
  | ESubstruct (e : expr) (s : ident)
  | ECast (e : expr) (s : ident)
  | EAnd (a b : expr) | EOr (a b : expr) | ENot (a : expr)
  | EBin (op : binop) (a b : expr)
  | EIs (e : expr) (some : bool)                 (* e is Some / e is None *)
  | ECoalesce (a b : expr)                       (* a or b *)
  | EIf (c t f : expr)
  | EBlock (ss : stmts) (e : expr)               (* { stmts : e } *)
  | EMatch (e : expr) (arms : earms)
  | ECall (f : ident) (args : exprs)
  | EFfi (module fname : ident) (args : exprs)   (* module::fname(args) *)
  | EReturn (e : expr)
  | ERecall (name : ident) (args : exprs)
  | ETodo
with exprs : Type := ENil | ECons (e : expr) (es : exprs)
with fields : Type := FNil | FCons (f : ident) (e : expr) (fs : fields)
with stmt : Type :=
  | SLet (x : ident) (e : expr)
  | SCheck (e els : expr)                        (* check e else els *)
  | SIf (bs : branches) (fallback : ostmts)
  | SMatch (e : expr) (arms : sarms)
  | SReturn (e : expr)
  | SFinish (ss : stmts)
  | SCreate (fact : ident) (keys vals : fields)  (* create F[k: e]=>{v: e} *)
  | SUpdate (fact : ident) (keys : fields) (vals : ovals) (to : fields)
  | SDelete (fact : ident) (keys : fields)
  | SEmit (e : expr)
  | SCall (f : ident) (args : exprs)             (* finish-function call *)
  | SRecall (name : ident) (args : exprs)
  | SDebugAssert (e : expr)
with stmts : Type := SNil | SCons (s : stmt) (ss : stmts)
with ostmts : Type := ONone | OSome (ss : stmts)
with ovals : Type := VNone | VSome (fs : fields)
with earms : Type := EANil | EACons (p : pattern) (e : expr) (arms : earms)
with sarms : Type := SANil | SACons (p : pattern) (ss : stmts) (arms : sarms)
with branches : Type := BNil | BCons (c : expr) (ss : stmts) (bs : branches).

Fixpoint exprs_of (l : list expr) : exprs :=
  match l with [] => ENil | e :: r => ECons e (exprs_of r) end.
Fixpoint fields_of (l : list (ident * expr)) : fields :=
  match l with [] => FNil | (f, e) :: r => FCons f e (fields_of r) end.
Fixpoint stmts_of (l : list stmt) : stmts :=
  match l with [] => SNil | s :: r => SCons s (stmts_of r) end.
Fixpoint earms_of (l : list (pattern * expr)) : earms :=
  match l with [] => EANil | (p, e) :: r => EACons p e (earms_of r) end.
Fixpoint sarms_of (l : list (pattern * stmts)) : sarms :=
  match l with [] => SANil | (p, s) :: r => SACons p s (sarms_of r) end.
Fixpoint branches_of (l : list (expr * stmts)) : branches :=
  match l with [] => BNil | (c, s) :: r => BCons c s (branches_of r) end.

(** ** Top-level items *)
Record fundef : Type := mkFun {
  fn_name : ident;
  fn_params : list (ident * TypeKind);
  fn_ret : TypeKind;
  fn_body : stmts }.
Record finfundef : Type := mkFinFun {
  ff_name : ident;
  ff_params : list (ident * TypeKind);
  ff_body : stmts }.
Record recalldef : Type := mkRecall {
  rc_name : ident;
  rc_params : list (ident * TypeKind);
  rc_body : stmts }.
Record cmddef : Type := mkCmd {
  cmd_name : ident;
  cmd_fields : list (ident * TypeKind);
  cmd_seal : stmts;
  cmd_open : stmts;
  cmd_policy : stmts;
  cmd_recalls : list recalldef }.
Record actiondef : Type := mkAction {
  act_name : ident;
  act_params : list (ident * TypeKind);
  act_ret : option TypeKind;                     (* None = unit; Some (result[unit, E]) *)
  act_body : stmts }.
Record factdef : Type := mkFactDef' {
  fd_name : ident;
  fd_immutable : bool;
  fd_keys : list (ident * TypeKind);
  fd_vals : list (ident * TypeKind) }.
(** A foreign function: module index, procedure index, signature. *)
Record ffidef : Type := mkFfi {
  ffi_module : ident; ffi_name : ident; ffi_mid : N; ffi_pid : N;
  ffi_params : list TypeKind; ffi_ret : TypeKind }.

Record policy : Type := mkPolicy {
  p_enums : list (ident * list ident);
  p_structs : list (ident * list (ident * TypeKind));
  p_effects : list (ident * list (ident * TypeKind));
  p_facts : list factdef;
  p_globals : list (ident * lit);
  p_funs : list fundef;
  p_finfuns : list finfundef;
  p_cmds : list cmddef;
  p_actions : list actiondef;
  p_ffi : list ffidef }.

(** * Semantics *)

(** The value of an enum variant is its index in the definition. *)
Fixpoint index_of (x : ident) (l : list ident) (i : Z) : option Z :=
  match l with
  | [] => None
  | y :: r => if x =s? y then Some i else index_of x r (i + 1)%Z
  end.
Fixpoint assoc {A} (x : ident) (l : list (ident * A)) : option A :=
  match l with
  | [] => None
  | (y, a) :: r => if x =s? y then Some a else assoc x r
  end.
Definition enum_value (p : policy) (enum variant : ident) : option Z :=
  match assoc enum (p_enums p) with
  | Some vs => index_of variant vs 0%Z
  | None => None
  end.

Fixpoint lit_value (p : policy) (l : lit) : option Value :=
  match l with
  | LUnit => Some V_Unit
  | LInt z => Some (V_Int z)
  | LStr s => Some (V_String s)
  | LBool b => Some (V_Bool b)
  | LEnum e v => option_map (V_Enum e) (enum_value p e v)
  | LNone => Some (V_Option None)
  | LSome l => option_map (fun v => V_Option (Some v)) (lit_value p l)
  | LOk l => option_map (fun v => V_Result (ROk v)) (lit_value p l)
  | LErr l => option_map (fun v => V_Result (RErr v)) (lit_value p l)
  end.

Definition wrap (w : WrapType) (v : Value) : Value :=
  match w with
  | W_Some => V_Option (Some v)
  | W_Ok => V_Result (ROk v)
  | W_Err => V_Result (RErr v)
  end.
(** [Some(x)] / [Ok(x)] / [Err(x)] against a value. *)
Definition unwrap (w : WrapType) (v : Value) : option Value :=
  match w, v with
  | W_Some, V_Option (Some x) => Some x
  | W_Ok, V_Result (ROk x) => Some x
  | W_Err, V_Result (RErr x) => Some x
  | _, _ => None
  end.

(** ** Environments: the blocks of the current function, innermost first;
    globals are visible everywhere and cannot be shadowed, nor can a name of
    an enclosing block. *)
Definition env : Type := list (amap Value).

Fixpoint env_lookup (x : ident) (en : env) : option Value :=
  match en with
  | [] => None
  | b :: r => match amap_get x b with Some v => Some v | None => env_lookup x r end
  end.
Definition env_get (g : amap Value) (x : ident) (en : env) : option Value :=
  match env_lookup x en with Some v => Some v | None => amap_get x g end.
Definition env_set (g : amap Value) (x : ident) (v : Value) (en : env) : option env :=
  if amap_contains x g then None
  else if existsb (amap_contains x) en then None
  else match en with [] => None | b :: r => Some (amap_insert x v b :: r) end.
Definition env_push (en : env) : env := [] :: en.
Definition env_pop (en : env) : option env := match en with _ :: r => Some r | [] => None end.

(** ** The outside world: the I/O oracle.  Every answer may be an error. *)
Record world (St : Type) : Type := mkWorld { w_io : St; w_ctx : CommandContext }.
Arguments mkWorld {St}. Arguments w_io {St}. Arguments w_ctx {St}.

Record lang_io (St : Type) : Type := mkLangIO {
  (** a foreign function consumes its arguments and yields a value or an error *)
  lio_ffi : St -> N -> N -> list Value -> CommandContext -> St * res Value MachineErrorType;
  lio_insert : St -> ident -> list FactKey -> list FactValue -> St * res unit MachineIOError;
  lio_delete : St -> ident -> list FactKey -> St * res unit MachineIOError;
  (** the facts matching a key prefix, as the store's iterator yields them *)
  lio_query : St -> ident -> list FactKey -> St * res (list query_item) MachineIOError;
  lio_effect : St -> ident -> list (ident * Value) -> N -> bool -> St }.
Arguments lio_ffi {St}. Arguments lio_insert {St}. Arguments lio_delete {St}.
Arguments lio_query {St}. Arguments lio_effect {St}.

Inductive outcome (St A : Type) : Type :=
  | OVal (a : A) (w : world St)
  | ORet (v : Value) (w : world St)
  | OExit (r : ExitReason) (w : world St)
  | OErr (e : MachineErrorType) (w : world St)
  | OWrong
  | OFuel.
Arguments OVal {St A}. Arguments ORet {St A}. Arguments OExit {St A}.
Arguments OErr {St A}. Arguments OWrong {St A}. Arguments OFuel {St A}.

Definition obind {St A B} (o : outcome St A) (k : A -> world St -> outcome St B) : outcome St B :=
  match o with
  | OVal a w => k a w
  | ORet v w => ORet v w
  | OExit r w => OExit r w
  | OErr e w => OErr e w
  | OWrong => OWrong
  | OFuel => OFuel
  end.
Notation "' x , w <- o ;; k" := (obind o (fun x w => k))
  (at level 61, x pattern, w name, o at next level, right associativity).

Definition int_op (f : Z -> Z -> Value) (a b : Value) : option Value :=
  match a, b with V_Int x, V_Int y => Some (f x y) | _, _ => None end.

(** [==] is structural equality of values; the order comparisons are on ints;
    [>=] is "not <" and [<=] is "not >". *)
Definition eval_binop (op : binop) (a b : Value) : option Value :=
  match op with
  | BEq => Some (V_Bool (value_eqb a b))
  | BNe => Some (V_Bool (negb (value_eqb a b)))
  | BGt => int_op (fun x y => V_Bool (y <? x)%Z) a b
  | BLt => int_op (fun x y => V_Bool (x <? y)%Z) a b
  | BGe => int_op (fun x y => V_Bool (negb (x <? y)%Z)) a b
  | BLe => int_op (fun x y => V_Bool (negb (y <? x)%Z)) a b
  end.

(** The builtins: checked arithmetic yields an optional, saturating clamps to the i64 range. *)
Definition eval_builtin (f : ident) (args : list Value) : option (option Value) :=
  let bin g := match args with [a; b] => Some (int_op g a b) | _ => Some None end in
  if f =s? "add" then bin (fun x y => V_Option (option_map V_Int (i64_checked (x + y)%Z)))
  else if f =s? "saturating_add" then bin (fun x y => V_Int (i64_saturate (x + y)%Z))
  else if f =s? "sub" then bin (fun x y => V_Option (option_map V_Int (i64_checked (x - y)%Z)))
  else if f =s? "saturating_sub" then bin (fun x y => V_Int (i64_saturate (x - y)%Z))
  else None.

(** First alternative of an arm that matches, as the binding it makes (if any). *)
Definition pat_match (p : policy) (v : Value) (pt : pat) : option bool :=
  match pt with
  | PLit l => option_map (fun lv => value_eqb v lv) (lit_value p l)
  | PBind w _ => Some (match unwrap w v with Some _ => true | None => false end)
  end.
(** A binding pattern binds when it is the arm's first binding pattern (an arm has at
    most one alternative when it binds, see [Typing]); the arm is selected when any
    alternative matches. *)
Fixpoint first_bind (ps : list pat) : option (WrapType * ident) :=
  match ps with
  | [] => None
  | PBind w x :: _ => Some (w, x)
  | _ :: r => first_bind r
  end.
Fixpoint any_match (p : policy) (v : Value) (ps : list pat) : option bool :=
  match ps with
  | [] => Some false
  | pt :: r =>
    match pat_match p v pt with
    | None => None
    | Some true => Some true
    | Some false => any_match p v r
    end
  end.

Definition struct_fields_of (p : policy) (name : ident) : option (list (ident * TypeKind)) :=
  match assoc name (p_structs p) with
  | Some fs => Some fs
  | None =>
    match assoc name (p_effects p) with
    | Some fs => Some fs
    | None =>
      match find (fun c => cmd_name c =s? name) (p_cmds p) with
      | Some c => Some (cmd_fields c)
      | None =>
        match find (fun f => fd_name f =s? name) (p_facts p) with
        | Some f => Some (fd_keys f ++ fd_vals f)%list
        | None => None
        end
      end
    end
  end.

(** [e substruct S]: the declared fields of [S], taken from the fields of [e]. *)
Fixpoint pick_fields (def : list (ident * TypeKind)) (src : amap Value) (acc : amap Value) : option (amap Value) :=
  match def with
  | [] => Some acc
  | (f, t) :: r =>
    match amap_get f src with
    | Some v => if fits_type v t then pick_fields r src (amap_insert f v acc) else None
    | None => None
    end
  end.

Definition globals_of (p : policy) : amap Value :=
  amap_of_list (fold_right (fun gl acc =>
    match lit_value p (snd gl) with Some v => (fst gl, v) :: acc | None => acc end) [] (p_globals p)).

(** The scope of a match arm: a fresh block, with the variable of the arm's binding
    pattern bound to the payload of the scrutinee. *)
Definition arm_env (g : amap Value) (en : env) (v : Value) (pt : pattern) : option env :=
  match (match pt with PDefault => None | PVals ps => first_bind ps end) with
  | None => Some (env_push en)
  | Some (wt, x) =>
    match unwrap wt v with
    | None => None
    | Some inner => env_set g x inner (env_push en)
    end
  end.

Section Eval.
  Context {St : Type}.
  Variable lio : lang_io St.
  Variable p : policy.
  (** [cfg!(debug_assertions)] of the compiler run: [debug_assert] is checked only then *)
  Variable is_debug : bool.
  (** calling a user function / a finish function / a recall block of the current
      command, with one unit of fuel less *)
  Variable call_fun : ident -> list Value -> world St -> outcome St Value.
  Variable call_fin : ident -> list Value -> world St -> outcome St unit.
  Variable call_recall : ident -> list Value -> world St -> outcome St unit.
  (** how a finish block ends evaluation: normally in a policy block, with [ER_Check] in a recall block *)
  Variable fin_exit : ExitReason.

  Notation G := (globals_of p).

  Fixpoint eval_expr (en : env) (w : world St) (e : expr) {struct e} : outcome St Value :=
    match e with
    | EUnit => OVal V_Unit w
    | EInt z => OVal (V_Int z) w
    | EStr s => OVal (V_String s) w
    | EBool b => OVal (V_Bool b) w
    | EEnum en' v => match enum_value p en' v with Some i => OVal (V_Enum en' i) w | None => OWrong end
    | ENone => OVal (V_Option None) w
    | EWrap wt e => ' v, w <- eval_expr en w e ;; OVal (wrap wt v) w
    | EVar x => match env_get G x en with Some v => OVal v w | None => OWrong end
    | EStruct name fs =>
      match struct_fields_of p name with
      | None => OWrong
      | Some def => ' flds, w <- eval_fields en w fs def [] ;; OVal (V_Struct (mkStruct name flds)) w
      end
    | EDot e f =>
      ' v, w <- eval_expr en w e ;;
      match v with
      | V_Struct s => match amap_get f (Struct_fields s) with Some x => OVal x w | None => OWrong end
      | _ => OWrong
      end
    | ESubstruct e s =>
      (* the struct [s] made of those fields of [e] that [s] declares, each with its declared type *)
      ' v, w <- eval_expr en w e ;;
      match v, struct_fields_of p s with
      | V_Struct src, Some (fd :: fds) =>
        match pick_fields (fd :: fds) (Struct_fields src) [] with
        | Some flds => OVal (V_Struct (mkStruct s flds)) w
        | None => OWrong
        end
      | _, _ => OWrong
      end
    | ECast e s =>
      (* the same fields under the name [s], whose definition they must satisfy *)
      ' v, w <- eval_expr en w e ;;
      match v, struct_fields_of p s with
      | V_Struct src, Some def =>
        if forallb (fun fd => match amap_get (fst fd) (Struct_fields src) with
                              | Some x => fits_type x (snd fd)
                              | None => false
                              end) def
        then OVal (V_Struct (mkStruct s (Struct_fields src))) w
        else OWrong
      | _, _ => OWrong
      end
    | EAnd a b =>
      ' va, w <- eval_expr en w a ;;
      match va with
      | V_Bool true => eval_expr en w b
      | V_Bool false => OVal (V_Bool false) w
      | _ => OWrong
      end
    | EOr a b =>
      ' va, w <- eval_expr en w a ;;
      match va with
      | V_Bool true => OVal (V_Bool true) w
      | V_Bool false => eval_expr en w b
      | _ => OWrong
      end
    | ENot a =>
      ' va, w <- eval_expr en w a ;;
      match va with V_Bool b => OVal (V_Bool (negb b)) w | _ => OWrong end
    | EBin op a b =>
      ' va, w <- eval_expr en w a ;;
      ' vb, w <- eval_expr en w b ;;
      match eval_binop op va vb with Some v => OVal v w | None => OWrong end
    | EIs e some =>
      ' v, w <- eval_expr en w e ;;
      let is_some := match v with V_Option (Some _) => true | _ => false end in
      OVal (V_Bool (if some then is_some else negb is_some)) w
    | ECoalesce a b =>
      ' va, w <- eval_expr en w a ;;
      match va with
      | V_Option (Some x) => OVal x w
      | V_Option None => eval_expr en w b
      | _ => OWrong
      end
    | EIf c t f =>
      ' vc, w <- eval_expr en w c ;;
      match vc with
      | V_Bool true => eval_expr en w t
      | V_Bool false => eval_expr en w f
      | _ => OWrong
      end
    | EBlock ss e =>
      ' en', w <- eval_stmts (env_push en) w ss ;;
      eval_expr en' w e
    | EMatch e arms =>
      ' v, w <- eval_expr en w e ;;
      eval_earms en w v arms
    | ECall f args =>
      ' vs, w <- eval_exprs en w args ;;
      match eval_builtin f vs with
      | Some (Some v) => OVal v w
      | Some None => OWrong
      | None => call_fun f vs w
      end
    | EFfi md fname args =>
      ' vs, w <- eval_exprs en w args ;;
      match find (fun d => (ffi_module d =s? md) && (ffi_name d =s? fname)) (p_ffi p) with
      | None => OWrong
      | Some d =>
        let '(io', r) := lio_ffi lio (w_io w) (ffi_mid d) (ffi_pid d) vs (w_ctx w) in
        match r with
        | ROk v => OVal v (mkWorld io' (w_ctx w))
        | RErr e => OErr e (mkWorld io' (w_ctx w))
        end
      end
    | EReturn e => ' v, w <- eval_expr en w e ;; ORet v w
    | ERecall name args =>
      (* the recall block runs with [this] and [envelope], in recall context, and never comes back *)
      ' vs, w <- eval_exprs en w args ;;
      match env_get G "this" en, env_get G "envelope" en, w_ctx w with
      | Some this, Some envelope, CC_Policy c =>
        ' _, w <- call_recall name (vs ++ [this; envelope])%list (mkWorld (w_io w) (CC_Recall c)) ;; OWrong
      | _, _, _ => OWrong
      end
    | ETodo => OExit ER_Panic w
    end
  with eval_exprs (en : env) (w : world St) (es : exprs) {struct es} : outcome St (list Value) :=
    match es with
    | ENil => OVal [] w
    | ECons e r =>
      ' v, w <- eval_expr en w e ;;
      ' vs, w <- eval_exprs en w r ;;
      OVal (v :: vs) w
    end
  (** the fields of a struct literal, each of which the definition must declare *)
  with eval_fields (en : env) (w : world St) (fs : fields) (def : list (ident * TypeKind)) (acc : amap Value)
    {struct fs} : outcome St (amap Value) :=
    match fs with
    | FNil => OVal acc w
    | FCons f e r =>
      ' v, w <- eval_expr en w e ;;
      if existsb (fun fd => fst fd =s? f) def then eval_fields en w r def (amap_insert f v acc) else OWrong
    end
  (** the arm of the first pattern that matches; a value that no pattern matches has no
      rule (an exhaustive match never gets there) *)
  with eval_earms (en : env) (w : world St) (v : Value) (arms : earms) {struct arms} : outcome St Value :=
    match arms with
    | EANil => OWrong
    | EACons pt e r =>
      match (match pt with PDefault => Some true | PVals ps => any_match p v ps end) with
      | None => OWrong
      | Some false => eval_earms en w v r
      | Some true =>
        (* the arm runs in its own scope, with the variable of a binding pattern bound *)
        match arm_env G en v pt with
        | Some en' => eval_expr en' w e
        | None => OWrong
        end
      end
    end
  with eval_stmt (en : env) (w : world St) (s : stmt) {struct s} : outcome St env :=
    match s with
    | SLet x e =>
      ' v, w <- eval_expr en w e ;;
      match env_set G x v en with Some en' => OVal en' w | None => OWrong end
    | SCheck e els =>
      ' v, w <- eval_expr en w e ;;
      match v with
      | V_Bool true => OVal en w
      | V_Bool false => ' _, w <- eval_expr en w els ;; OWrong   (* the else branch never yields a value *)
      | _ => OWrong
      end
    | SIf bs fb =>
      ' taken, w <- eval_branches en w bs ;;
      match taken, fb with
      | Some en', _ => OVal en' w
      | None, ONone => OVal en w
      | None, OSome ss => ' _, w <- eval_stmts (env_push en) w ss ;; OVal en w
      end
    | SMatch e arms =>
      ' v, w <- eval_expr en w e ;;
      eval_sarms en w v arms
    | SReturn e => ' v, w <- eval_expr en w e ;; ORet v w
    | SFinish ss =>
      ' _, w <- eval_stmts (env_push en) w ss ;;
      OExit fin_exit w
    | SCreate fact keys vals =>
      ' ks, w <- eval_keys en w keys [] ;;
      ' vs, w <- eval_vals en w vals [] ;;
      let '(io', r) := lio_insert lio (w_io w) fact ks vs in
      match r with
      | ROk _ => OVal en (mkWorld io' (w_ctx w))
      | RErr e => OErr (ME_IO e) (mkWorld io' (w_ctx w))
      end
    | SDelete fact keys =>
      ' ks, w <- eval_keys en w keys [] ;;
      let '(io', r) := lio_delete lio (w_io w) fact ks in
      match r with
      | ROk _ => OVal en (mkWorld io' (w_ctx w))
      | RErr e => OErr (ME_IO e) (mkWorld io' (w_ctx w))
      end
    | SUpdate fact keys vals to =>
      (* the first stored fact with these keys (and, when values are given, exactly these
         values) is replaced by the fact with the [to] values *)
      ' ks, w <- eval_keys en w keys [] ;;
      ' vs, w <- match vals with VNone => OVal [] w | VSome fs => eval_vals en w fs [] end ;;
      ' tos, w <- eval_vals en w to vs ;;
      let '(io1, q) := lio_query lio (w_io w) fact ks in
      match q with
      | RErr e => OErr (ME_IO e) (mkWorld io1 (w_ctx w))
      | ROk [] => OErr (ME_InvalidFact fact) (mkWorld io1 (w_ctx w))
      | ROk (RErr e :: _) => OErr (ME_IO e) (mkWorld io1 (w_ctx w))
      | ROk (ROk (fk, fv) :: _) =>
        if match vs with [] => true | _ => list_eqb factvalue_eqb (sort_fv fv) (sort_fv vs) end then
          let '(io2, r) := lio_delete lio io1 fact fk in
          match r with
          | RErr e => OErr (ME_IO e) (mkWorld io2 (w_ctx w))
          | ROk _ =>
            let '(io3, r) := lio_insert lio io2 fact ks tos in
            match r with
            | ROk _ => OVal en (mkWorld io3 (w_ctx w))
            | RErr e => OErr (ME_IO e) (mkWorld io3 (w_ctx w))
            end
          end
        else OErr (ME_InvalidFact fact) (mkWorld io1 (w_ctx w))
      end
    | SEmit e =>
      ' v, w <- eval_expr en w e ;;
      match v with
      | V_Struct s =>
        match (match w_ctx w with
               | CC_Policy c => Some (PolicyContext_id c, false)
               | CC_Recall c => Some (PolicyContext_id c, true)   (* effects of a recall are marked *)
               | _ => None
               end) with
        | Some (cid, recalled) =>
          OVal en (mkWorld (lio_effect lio (w_io w) (Struct_name s) (Struct_fields s) cid recalled) (w_ctx w))
        | None => OWrong
        end
      | _ => OWrong
      end
    | SCall f args =>
      ' vs, w <- eval_exprs en w args ;;
      match eval_builtin f vs with
      | Some _ => OWrong          (* the builtins are not finish functions *)
      | None => ' _, w <- call_fin f vs w ;; OVal en w
      end
    | SRecall name args =>
      (* the recall block runs with [this] and [envelope], in recall context, and never comes back *)
      ' vs, w <- eval_exprs en w args ;;
      match env_get G "this" en, env_get G "envelope" en, w_ctx w with
      | Some this, Some envelope, CC_Policy c =>
        ' _, w <- call_recall name (vs ++ [this; envelope])%list (mkWorld (w_io w) (CC_Recall c)) ;; OWrong
      | _, _, _ => OWrong
      end
    | SDebugAssert e =>
      if is_debug then
        ' v, w <- eval_expr en w e ;;
        match v with
        | V_Bool true => OVal en w
        | V_Bool false => OExit ER_Panic w
        | _ => OWrong
        end
      else OVal en w
    end
  with eval_stmts (en : env) (w : world St) (ss : stmts) {struct ss} : outcome St env :=
    match ss with
    | SNil => OVal en w
    | SCons s r => ' en', w <- eval_stmt en w s ;; eval_stmts en' w r
    end
  (** the statements of the first branch whose condition holds, in their own scope
      (dropped at the end); [None] when no condition holds *)
  with eval_branches (en : env) (w : world St) (bs : branches) {struct bs} : outcome St (option env) :=
    match bs with
    | BNil => OVal None w
    | BCons c ss r =>
      ' vc, w <- eval_expr en w c ;;
      match vc with
      | V_Bool true => ' _, w <- eval_stmts (env_push en) w ss ;; OVal (Some en) w
      | V_Bool false => eval_branches en w r
      | _ => OWrong
      end
    end
  with eval_sarms (en : env) (w : world St) (v : Value) (arms : sarms) {struct arms} : outcome St env :=
    match arms with
    | SANil => OWrong
    | SACons pt ss r =>
      match (match pt with PDefault => Some true | PVals ps => any_match p v ps end) with
      | None => OWrong
      | Some false => eval_sarms en w v r
      | Some true =>
        match arm_env G en v pt with
        | Some en' => ' _, w <- eval_stmts en' w ss ;; OVal en w
        | None => OWrong
        end
      end
    end
  (** fact literal fields are set one after the other (a repeated name overwrites) *)
  with eval_keys (en : env) (w : world St) (fs : fields) (acc : list FactKey) {struct fs}
    : outcome St (list FactKey) :=
    match fs with
    | FNil => OVal acc w
    | FCons f e r =>
      ' v, w <- eval_expr en w e ;;
      match as_hashable v with
      | RErr _ => OWrong
      | ROk h => eval_keys en w r (set_key_list f h acc)
      end
    end
  with eval_vals (en : env) (w : world St) (fs : fields) (acc : list FactValue) {struct fs}
    : outcome St (list FactValue) :=
    match fs with
    | FNil => OVal acc w
    | FCons f e r =>
      ' v, w <- eval_expr en w e ;;
      eval_vals en w r (set_value_list f v acc)
    end.
End Eval.

(** * Calls and entry points (fuel bounds the call depth) *)

(** Parameters are bound in a fresh function scope (last parameter first). *)
Fixpoint bind_params (g : amap Value) (params : list ident) (args : list Value) (en : env) : option env :=
  match params, args with
  | [], [] => Some en
  | x :: ps, v :: vs => match env_set g x v en with Some en' => bind_params g ps vs en' | None => None end
  | _, _ => None
  end.
Definition fresh_env (g : amap Value) (params : list ident) (args : list Value) : option env :=
  if Nat.eqb (List.length params) (List.length args)
  then bind_params g (rev params) (rev args) [ [] ] else None.

Section Run.
  Context {St : Type}.
  Variable lio : lang_io St.
  Variable p : policy.
  Variable is_debug : bool.

  Definition no_recall (_ : ident) (_ : list Value) (_ : world St) : outcome St unit := OWrong.

  (** A function returns the value of its [return]; running off its end is a panic. *)
  Fixpoint call_fun (fuel : nat) (f : ident) (args : list Value) (w : world St) : outcome St Value :=
    match fuel with
    | O => OFuel
    | S n =>
      match find (fun d => fn_name d =s? f) (p_funs p) with
      | None => OWrong
      | Some d =>
        match fresh_env (globals_of p) (map fst (fn_params d)) args with
        | None => OWrong
        | Some en =>
          match eval_stmts lio p is_debug (call_fun n) (call_fin n) no_recall ER_Normal en w (fn_body d) with
          | OVal _ w => OExit ER_Panic w
          | ORet v w => OVal v w
          | OExit r w => OExit r w
          | OErr e w => OErr e w
          | OWrong => OWrong
          | OFuel => OFuel
          end
        end
      end
    end
  (** A finish function runs its statements and comes back. *)
  with call_fin (fuel : nat) (f : ident) (args : list Value) (w : world St) : outcome St unit :=
    match fuel with
    | O => OFuel
    | S n =>
      match find (fun d => ff_name d =s? f) (p_finfuns p) with
      | None => OWrong
      | Some d =>
        match fresh_env (globals_of p) (map fst (ff_params d)) args with
        | None => OWrong
        | Some en =>
          match eval_stmts lio p is_debug (call_fun n) (call_fin n) no_recall ER_Normal en w (ff_body d) with
          | OVal _ w => OVal tt w
          | ORet _ _ => OWrong
          | OExit r w => OExit r w
          | OErr e w => OErr e w
          | OWrong => OWrong
          | OFuel => OFuel
          end
        end
      end
    end.

  (** A recall block of command [c]: its finish block - or its end - stops evaluation with [ER_Check]. *)
  Definition call_recall (fuel : nat) (c : cmddef) (name : ident) (args : list Value) (w : world St)
    : outcome St unit :=
    match find (fun r => rc_name r =s? name) (cmd_recalls c) with
    | None => OWrong
    | Some r =>
      match fresh_env (globals_of p) (map fst (rc_params r) ++ ["this"; "envelope"])%list args with
      | None => OWrong
      | Some en =>
        match eval_stmts lio p is_debug (call_fun fuel) (call_fin fuel) no_recall ER_Check en w (rc_body r) with
        | OVal _ w => OExit ER_Check w
        | ORet _ _ => OWrong
        | OExit r w => OExit r w
        | OErr e w => OErr e w
        | OWrong => OWrong
        | OFuel => OFuel
        end
      end
    end.

  (** Entry point: a pure function. *)
  Definition run_function (fuel : nat) (f : ident) (args : list Value) (w : world St) : outcome St Value :=
    call_fun fuel f args w.

  (** Entry point: the policy block of command [name] on [this] / [envelope]; a policy block
      that does not reach a finish block (or a recall) panics. *)
  Definition run_policy (fuel : nat) (name : ident) (this envelope : Value) (w : world St) : outcome St unit :=
    match find (fun c => cmd_name c =s? name) (p_cmds p) with
    | None => OWrong
    | Some c =>
      match fresh_env (globals_of p) ["this"; "envelope"] [this; envelope] with
      | None => OWrong
      | Some en =>
        match eval_stmts lio p is_debug (call_fun fuel) (call_fin fuel) (call_recall fuel c) ER_Normal en w (cmd_policy c) with
        | OVal _ w => OExit ER_Panic w
        | ORet _ _ => OWrong
        | OExit r w => OExit r w
        | OErr e w => OErr e w
        | OWrong => OWrong
        | OFuel => OFuel
        end
      end
    end.
End Run.
