(** C27 model, part 2: 5–15 line transcriptions of the function fragments that
    guard a panic-capable site by a preceding check (class (b) of the ledger).
    Every fragment returns an explicit [Panic] where the Rust code would panic,
    so "the site is unreachable" is a statement about the fragment. *)
From Coq Require Import String List Bool NArith Arith.
Import ListNotations.
Open Scope string_scope.
Open Scope list_scope.

Inductive res (A : Type) : Type := Panic (site : string) | Ret (a : A).
Arguments Panic {A} site.
Arguments Ret {A} a.

(** ** parse.rs [hex_char_to_nibble]: u8 arithmetic with overflow checks *)
Definition sub8 (site : string) (a b : N) : res N := if (b <=? a)%N then Ret (a - b)%N else Panic site.
Definition add8 (site : string) (a b : N) : res N := if (a + b <=? 255)%N then Ret (a + b)%N else Panic site.
Definition bind {A B} (x : res A) (f : A -> res B) : res B :=
  match x with Panic s => Panic s | Ret a => f a end.

Definition hex_char_to_nibble (ch : N) : res (option N) :=
  if ((48 <=? ch) && (ch <=? 57))%N then bind (sub8 "ch - b'0'" ch 48) (fun v => Ret (Some v))
  else if ((97 <=? ch) && (ch <=? 102))%N
    then bind (sub8 "ch - b'a'" ch 97) (fun d => bind (add8 "+ 10" d 10) (fun v => Ret (Some v)))
  else if ((65 <=? ch) && (ch <=? 70))%N
    then bind (sub8 "ch - b'A'" ch 65) (fun d => bind (add8 "+ 10" d 10) (fun v => Ret (Some v)))
  else Ret None.

(** ** usize arithmetic on offsets into a string: every operand is at most [isize::MAX] *)
Definition isize_max : N := 9223372036854775807.
Definition usize_max : N := 18446744073709551615.
Definition addu (site : string) (a b : N) : res N := if (a + b <=? usize_max)%N then Ret (a + b)%N else Panic site.

(** ** types.rs [IdentifierTypeStack] *)
Definition scope := list (string * nat).
Definition has (k : string) (s : scope) : bool := existsb (fun p => String.eqb (fst p) k) s.
Definition last_opt {A} (l : list A) : option A := match rev l with [] => None | x :: _ => Some x end.

Inductive add_out := AddAlreadyDefined | AddDone.
(** [add]: the global check, the loop over the scopes of the innermost function, then
    [entry] on the innermost block ([Occupied] is the [unreachable!()]). *)
Definition its_add (globals : scope) (locals : list (list scope)) (k : string) : res add_out :=
  if has k globals then Ret AddAlreadyDefined else
  match last_opt locals with
  | None => Panic "no function scope"
  | Some fs =>
    if existsb (has k) fs then Ret AddAlreadyDefined else
    match last_opt fs with
    | None => Panic "no block scope"
    | Some b => if has k b then Panic "unreachable!()" else Ret AddDone
    end
  end.

(** The shape of the stack (number of open blocks per open function) under the four structural operations. *)
Definition stack := list nat.
Definition enter_function (s : stack) : res stack := Ret (s ++ [1]).
Definition exit_function (s : stack) : res stack :=
  match rev s with [] => Panic "no function scope" | _ :: r => Ret (rev r) end.
Definition enter_block (s : stack) : res stack :=
  match rev s with [] => Panic "no function scope" | n :: r => Ret (rev (S n :: r)) end.
Definition exit_block (s : stack) : res stack :=
  match rev s with
  | [] => Panic "no function scope"
  | O :: _ => Panic "no block scope"
  | S n :: r => Ret (rev (n :: r))
  end.
Definition use_scope (s : stack) : res stack :=        (* [add]: needs a function scope with a block *)
  match rev s with
  | [] => Panic "no function scope"
  | O :: _ => Panic "no block scope"
  | _ => Ret s
  end.

(** Bracketed use, as the compiler does it: [enter_function … exit_function] around a
    function-like body, [enter_block … exit_block] around blocks, arms and map bodies;
    an error return ([Stop]) abandons the whole compilation. *)
Inductive prog := PNil | PFun (body rest : prog) | PBlock (body rest : prog) | PUse (rest : prog) | PFail.
Inductive run_out := RPanic (site : string) | RStop | RDone (s : stack).

Fixpoint run (p : prog) (s : stack) : run_out :=
  match p with
  | PNil => RDone s
  | PFail => RStop
  | PUse rest => match use_scope s with Panic x => RPanic x | Ret s1 => run rest s1 end
  | PFun body rest =>
    match enter_function s with
    | Panic x => RPanic x
    | Ret s1 =>
      match run body s1 with
      | RDone s2 => match exit_function s2 with Panic x => RPanic x | Ret s3 => run rest s3 end
      | o => o
      end
    end
  | PBlock body rest =>
    match enter_block s with
    | Panic x => RPanic x
    | Ret s1 =>
      match run body s1 with
      | RDone s2 => match exit_block s2 with Panic x => RPanic x | Ret s3 => run rest s3 end
      | o => o
      end
    end
  end.

(** ** lower.rs: one lowered pattern per arm, consumed by an iterator while walking the arms *)
Fixpoint walk_arms {A B} (arms : list A) (patterns : list B) : res unit :=
  match arms with
  | [] => match patterns with [] => Ret tt | _ => Panic "too many patterns" end
  | _ :: arms' =>
    match patterns with
    | [] => Panic "expected pattern for match arm"
    | _ :: ps => walk_arms arms' ps
    end
  end.

(** match-expression type: [None] before the first arm, [Some] after each arm *)
Definition expr_type_after {A} (arms : list A) : res unit :=
  match fold_left (fun (t : option unit) _ => Some tt) arms None with
  | None => Panic "expression must have type"
  | Some _ => Ret tt
  end.

(** [x.last().expect(..)] evaluated inside [for x in l] *)
Fixpoint for_last {A} (done todo : list A) : res unit :=
  match todo with
  | [] => Ret tt
  | x :: rest =>
    match last_opt (done ++ x :: rest) with
    | None => Panic "is not empty"
    | Some _ => for_last (done ++ [x]) rest
    end
  end.

(** [if count > 1 { let [a, b, ..] = v[..] else { unreachable!() } }] *)
Definition two_defaults {A} (v : list A) : res unit :=
  if (1 <? length v)%nat then
    match v with _ :: _ :: _ => Ret tt | _ => Panic "There's at least 2 items" end
  else Ret tt.

(** compile.rs [resolve_targets] then validate.rs: temporary labels are removed before validation *)
Inductive ltype := LAction | LCommand | LFunction | LTemporary.
Definition is_temp (l : ltype) : bool := match l with LTemporary => true | _ => false end.
Definition resolve_targets (labels : list ltype) : list ltype := filter (fun l => negb (is_temp l)) labels.
Definition validate_labels (labels : list ltype) : res unit :=
  if existsb is_temp labels then Panic "Shouldn't have gotten this label type" else Ret tt.

(** compile.rs match arm prologue: [find_map] selects [inner] only when it is an identifier, then
    [let Identifier(ident) = inner else { bug!() }] *)
Inductive ekind := KIdent (n : string) | KOther.
Definition is_ident (k : ekind) : bool := match k with KIdent _ => true | _ => false end.
Definition binding_prologue (values : list ekind) : res unit :=
  match find is_ident values with
  | Some (KIdent _) => Ret tt
  | Some KOther => Panic "checked above"
  | None => Ret tt
  end.

(** lowering sets [ids := if stub_ffi then None else Some ..]; code generation reads them under the same flag *)
Definition ffi_ids (stub : bool) : option (nat * nat) := if stub then None else Some (0, 0)%nat.
Definition ffi_codegen (stub : bool) : res unit :=
  if stub then Ret tt else match ffi_ids stub with Some _ => Ret tt | None => Panic "must have IDs when ffi is not stubbed" end.

(** parse_action_definition builds the return type from [consume_optional(result_t)]; compile_action matches on it *)
Inductive rty := TUnit | TResult | TOther.
Definition parsed_action_ret (has_result_t : bool) : rty := if has_result_t then TResult else TUnit.
Definition compile_action_ret (t : rty) : res unit :=
  match t with TUnit | TResult => Ret tt | TOther => Panic "invalid action return type" end.

(** parse_type_inner: [style] is [Old]/[New] only in recursive calls, which pass [Some(outer)] *)
Inductive tstyle := StUnknown | StOld | StNew.
Fixpoint parse_type_depth (depth : nat) (style : tstyle) (outer : option unit) (is_old : bool) : res unit :=
  let mix := match style with StOld => true | StNew => is_old | StUnknown => false end in
  if mix then match outer with None => Panic "outer span was passed in" | Some _ => Ret tt end
  else match depth with
       | O => Ret tt
       | S d => parse_type_depth d (if is_old then StOld else StNew) (Some tt) is_old
       end.

(** compile_command: [define_struct] already rejected duplicate field names of the same expansion *)
Fixpoint insert_all (seen : list string) (names : list string) : res unit :=
  match names with
  | [] => Ret tt
  | n :: rest => if existsb (String.eqb n) seen then Panic "duplicates are prevented by compile_struct"
                 else insert_all (n :: seen) rest
  end.
Fixpoint nodupb (l : list string) : bool :=
  match l with [] => true | x :: r => negb (existsb (String.eqb x) r) && nodupb r end.

(** identifier validation vs. the grammar rule [ASCII_ALPHA ~ (ASCII_ALPHANUMERIC | "_")*] *)
Definition is_alpha (b : N) : bool := (((65 <=? b) && (b <=? 90)) || ((97 <=? b) && (b <=? 122)))%N.
Definition is_alnum_ (b : N) : bool := (is_alpha b || ((48 <=? b) && (b <=? 57)) || (b =? 95))%N.
Definition grammar_identifier (bs : list N) : bool :=
  match bs with [] => false | b :: r => is_alpha b && forallb is_alnum_ r end.
Definition identifier_validate (bs : list N) : bool :=
  match bs with
  | [] => false
  | b :: r => is_alpha b && forallb is_alnum_ r && negb (existsb (N.eqb 0) (b :: r))
  end.
