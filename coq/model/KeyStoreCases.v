(** Runner used by the C45 correspondence: evaluates the key-store models on
    an operation sequence and canonicalises the observations to numbers.
    Keys are numbers; the codec is a stand-in ([1; k]) — the real stores use
    CBOR, which the model abstracts as any [enc]/[dec] with [dec (enc k) = Some k]. *)
From Aranya Require Import base.Tactics base.Harness model.KeyStore.
Local Open Scope N_scope.

Definition c_enc (k : N) : bytes := [1; k].
Definition c_dec (b : bytes) : option N := match b with [1; k] => Some k | _ => None end.

(** observation -> list of numbers; keys k as k+10, error 1, none 0 *)
Definition kr (r : kres N) : N := match r with KOk _ k => k + 10 | KErr _ => 1 end.
Definition ook (r : option (option N)) : N :=
  match r with None => 1 | Some None => 0 | Some (Some k) => k + 10 end.
Definition canon (o : obs N) : list N :=
  match o with
  | ObVacant _ b => [100; if b then 1 else 0]
  | ObVacantFailed _ => [100; 2]
  | ObTryInsertErr _ => [103; 2]
  | ObOccupied _ gs r => 101 :: (match r with None => 0 | Some x => kr x end) :: map kr gs
  | ObGet _ r => [102; ook r]
  | ObTryInsert _ b => [103; if b then 1 else 0]
  | ObRemove _ r => [104; ook r]
  | ObReopen _ => [105]
  end.

(** sorted, duplicate-free list of the ids present (ids < 16) *)
Definition listing (d : list (id * bytes)) : list N :=
  filter (fun i => match lookup d i with Some _ => true | None => false end)
         (map N.of_nat (seq 0 16)).

(** Runs the ops one at a time and records (observation, directory listing) after each. *)
Fixpoint fs_trace (rw df debug : bool) (s : fs) (ops : list (op N)) : list (list N * list N) :=
  match ops with
  | [] => []
  | o :: r => let '(s1, ob) := fs_step N c_enc c_dec rw df debug s o in
              (canon ob, listing (files s1)) :: fs_trace rw df debug s1 r
  end.
Fixpoint mem_trace (s : mem) (ops : list (op N)) : list (list N * list N) :=
  match ops with
  | [] => []
  | o :: r => let '(s1, ob) := mem_step N c_enc c_dec s o in
              (canon ob, listing s1) :: mem_trace s1 r
  end.

Definition trace_eqb (a b : list (list N * list N)) : bool :=
  list_eqb (pair_eqb lN_eqb lN_eqb) a b.

(** case = (is_fs, ops, expected trace) *)
Definition chk (debug : bool) (x : bool * list (op N) * list (list N * list N)) : bool :=
  let '(is_fs, ops, expect) := x in
  trace_eqb (if is_fs then fs_trace rewinds dirty_first debug (fs_init debug) ops else mem_trace [] ops) expect.
(** the same with the pre-repair descriptor semantics, for replaying F6 *)
Definition chk_orig (debug : bool) (x : bool * list (op N) * list (list N * list N)) : bool :=
  let '(is_fs, ops, expect) := x in
  trace_eqb (if is_fs then fs_trace false dirty_first debug (fs_init debug) ops else mem_trace [] ops) expect.
