(** Glue used only by the generated correspondence files of the sync checks:
    short constructors for dumped stores, the canonical form of what the
    implementation printed, and boolean comparisons against the model. *)
From Aranya Require Import base.Tactics base.Harness model.Dag model.TravQueue model.Wire model.SyncStore model.SyncResp model.SyncReq gen.GenSync.
Local Open Scope N_scope.

Definition mk_scmd (i : N) (p : prio) (par : prior3 addr) (pl : option N) (dl : N) : scmd :=
  {| c_id := i; c_prio := p; c_par := par; c_plen := pl; c_dlen := dl |}.
Definition mk_seg (i f : N) (cs : list scmd) (pr : prior3 loc) (sk : list loc) : seg :=
  {| g_idx := i; g_first := f; g_cmds := cs; g_prior := pr; g_skip := sk |}.
Definition mk_store (ss : list seg) (hs : list (N * loc)) : store := {| st_segs := ss; st_heads := hs |}.

Definition serr_code (e : serr) : N :=
  match e with
  | ESessionMismatch => 1 | EMissingSyncResponse => 2 | ESessionState => 3 | ENotReady => 4 | ECommandOverflow => 5
  | EBufferTooSmall => 6 | EMalformedResponse => 7 | EUnsupportedRequest => 8 | EStorage _ => 9 | ESerialize => 10 | EBug => 11
  end.

(** what the runner printed for one poll attempt *)
Inductive expect :=
| XErr (code : N)
| XResp (sid idx : N) (ids : list N) (hdr data : N)
| XEnd (sid mx : N)
| XEndSession (sid : N).

Definition attempt_ok (o : rres out_msg) (x : expect) : bool :=
  match o, x with
  | RErr e, XErr c => serr_code e =? c
  | ROk m, XResp sid idx ids hdr data =>
    match o_msg m with
    | SyncResponse s i cs => (s =? sid) && (i =? idx) && lN_eqb (map m_id cs) ids && (o_hdr m =? hdr) && (o_data m =? data)
    | _ => false
    end
  | ROk m, XEnd sid mx =>
    match o_msg m with SyncEnd s i false => (s =? sid) && (i =? mx) && (o_data m =? 0) | _ => false end
  | ROk m, XEndSession sid =>
    match o_msg m with RespEndSession s => s =? sid | _ => false end
  | _, _ => false
  end.

Fixpoint all2 {A B} (f : A -> B -> bool) (a : list A) (b : list B) : bool :=
  match a, b with
  | [], [] => true
  | x :: a', y :: b' => f x y && all2 f a' b'
  | _, _ => false
  end.

(** one responder session: the request, then polls with the given target sizes *)
Definition session_outputs (dbg : bool) (st : store) (gid sid mb : N) (sample : list addr) (tlens : list N)
  : list (rres out_msg) :=
  let '(r1, d) := dispatch responder_new (SyncRequest sid gid mb sample) in
  match d with
  | ROk _ => fst (run_polls dbg [(gid, st)] r1 tlens)
  | _ => []
  end.

Definition check_session (dbg : bool) (st : store) (gid sid mb : N) (sample : list addr) (tlens : list N)
           (xs : list expect) : bool :=
  all2 attempt_ok (session_outputs dbg st gid sid mb sample tlens) xs.

(** printable form of the model's outputs (only evaluated to explain a mismatch) *)
Definition show_out (o : rres out_msg) : N * N * list N * N * N :=
  match o with
  | RErr e => (100 + serr_code e, 0, [], 0, 0)
  | RPanic k => (200, k, [], 0, 0)
  | RFuel => (300, 0, [], 0, 0)
  | ROk m =>
    match o_msg m with
    | SyncResponse s i cs => (0, i, map m_id cs, o_hdr m, o_data m)
    | SyncEnd s i _ => (1, i, [], o_hdr m, 0)
    | Offer _ _ => (2, 0, [], 0, 0)
    | RespEndSession _ => (3, 0, [], o_hdr m, 0)
    end
  end.

(** well-formedness of a dumped store, executable part (ranges of priors, skips, heads) *)
Definition store_wfb (st : store) : bool :=
  forallb (fun s => negb (match g_cmds s with [] => true | _ => false end)
                    && forallb (fun p => valid_locb st p && (lmc p <? g_first s)) (prior_list (g_prior s) ++ g_skip s))
          (st_segs st)
  && forallb (fun h => valid_locb st (snd h)) (st_heads st).

(** * C18: canonical outcomes of decoding / receiving arbitrary bytes *)
Inductive dclass :=
| DcErr | DcPoll (sid : N) | DcSub (n mb ro : N) | DcUnsub | DcPush (sid : N)
| DcHelloSub | DcHelloUnsub | DcHello (mc : N).

Definition classify_decode (bs : list N) : dclass :=
  match dec_sync_type bs with
  | DErr => DcErr
  | DOk (TPoll m) _ => DcPoll (req_sid m)
  | DOk (TSubscribe ro mb cs _) _ => DcSub (N.of_nat (length cs)) mb ro
  | DOk (TUnsubscribe _) _ => DcUnsub
  | DOk (TPush m _) _ => DcPush (resp_sid m)
  | DOk (THello (HSubscribe _ _ _ _)) _ => DcHelloSub
  | DOk (THello (HUnsubscribe _)) _ => DcHelloUnsub
  | DOk (THello (HHello _ h)) _ => DcHello (amc h)
  end.

Definition dclass_eqb (a b : dclass) : bool :=
  match a, b with
  | DcErr, DcErr | DcUnsub, DcUnsub | DcHelloSub, DcHelloSub | DcHelloUnsub, DcHelloUnsub => true
  | DcPoll x, DcPoll y | DcPush x, DcPush y | DcHello x, DcHello y => x =? y
  | DcSub a1 a2 a3, DcSub b1 b2 b3 => (a1 =? b1) && (a2 =? b2) && (a3 =? b3)
  | _, _ => false
  end.

(** 0 = Ok(Success), 1 = Ok(TooManySubscriptions), 2 = Err *)
Definition classify_subres (bs : list N) : N :=
  match dec_subscribe_result bs with DOk true _ => 0 | DOk false _ => 1 | DErr => 2 end.

(** requester.receive: (class, slices, ready) with class 0 = Ok(Some), 1 = Ok(None), 100+code = Err,
    200 = panic, 300 = fuel; a slice is (policy (offset, len) if any, data (offset, len)), offsets from the
    start of the input *)
Definition rcv_class (hdr : N) (r : rres (option (list rcmd))) : N * list (option (N * N) * (N * N)) :=
  match r with
  | ROk (Some cs) =>
    (0, map (fun c => (match rc_policy c with Some (a, b) => Some (hdr + a, b - a) | None => None end,
                       (hdr + fst (rc_data c), snd (rc_data c) - fst (rc_data c)))) cs)
  | ROk None => (1, [])
  | RErr e => (100 + serr_code e, [])
  | RPanic _ => (200, [])
  | RFuel => (300, [])
  end.

Fixpoint feed_empty (dbg : bool) (q : requester) (i : N) (k : nat) : requester :=
  match k with
  | O => q
  | S k' => feed_empty dbg (fst (receive dbg q (enc_resp (SyncResponse (q_sid q) i [])))) (i + 1) k'
  end.

Definition hdr_len (bs : list N) : N :=
  match dec_resp bs with DOk _ rest => N.of_nat (length bs) - N.of_nat (length rest) | DErr => 0 end.

Definition reqrecv_out (dbg start : bool) (sid : N) (k : nat) (bs : list N)
  : N * list (option (N * N) * (N * N)) * bool :=
  let q0 := if start then q_set (requester_new 0 sid) QStart else requester_new_session 0 sid in
  let q1 := feed_empty dbg q0 0 k in
  let '(q2, r) := receive dbg q1 bs in
  (rcv_class (hdr_len bs) r, q_ready q2).

Definition push_out (dbg : bool) (sid : N) (bs : list N) : N * list (option (N * N) * (N * N)) * bool :=
  match dec_sync_type bs with
  | DOk (TPush m _) rest =>
    let '(q2, r) := get_sync_commands dbg (requester_new_session 0 sid) m (N.of_nat (length rest)) in
    (rcv_class (N.of_nat (length bs) - N.of_nat (length rest)) r, q_ready q2)
  | DOk _ _ => (400, [], false)
  | DErr => (401, [], false)
  end.

Definition slices_eqb (a b : list (option (N * N) * (N * N))) : bool :=
  list_eqb (fun x y => option_eqb (pair_eqb N.eqb N.eqb) (fst x) (fst y) && pair_eqb N.eqb N.eqb (snd x) (snd y)) a b.

Definition reqrecv_eqb (a b : N * list (option (N * N) * (N * N)) * bool) : bool :=
  (fst (fst a) =? fst (fst b)) && slices_eqb (snd (fst a)) (snd (fst b)) && Bool.eqb (snd a) (snd b).

(** responder: per message (receive class, poll outcome, ready) *)
(** receive class: 0 ok, 100+code err, 50 not a poll, 51 decode error *)
Definition resp_steps (dbg : bool) (p : provider) (tlen : N) (msgs : list (list N))
  : list (N * rres out_msg * bool) :=
  (fix go (r : responder) (ms : list (list N)) :=
     match ms with
     | [] => []
     | bs :: rest =>
       let '(r1, rc) :=
         match dec_sync_type bs with
         | DOk (TPoll m) _ => let '(r', d) := dispatch r m in
                              (r', match d with ROk _ => 0 | RErr e => 100 + serr_code e | RPanic _ => 200 | RFuel => 300 end)
         | DOk _ _ => (r, 50)
         | DErr => (r, 51)
         end in
       let '(r2, o) := poll dbg p r1 tlen in
       (rc, o, r_ready r2) :: go r2 rest
     end) responder_new msgs.

Definition resp_step_ok (a : N * rres out_msg * bool) (x : N * expect * bool) : bool :=
  (fst (fst a) =? fst (fst x)) && attempt_ok (snd (fst a)) (snd (fst x)) && Bool.eqb (snd a) (snd x).

(** * Byte strings as hex literals (long list literals are slow to parse) *)
From Coq Require Import String Ascii.
Definition hexval (a : ascii) : N :=
  let n := N_of_ascii a in
  if n <? 58 then n - 48 else n - 87.
Fixpoint hx (s : string) : list N :=
  match s with
  | String a (String b r) => (16 * hexval a + hexval b) :: hx r
  | _ => []
  end.

(** * Stores as compact strings (numeral-heavy list literals parse slowly): comma-terminated hex
    numbers, decoded and parsed inside Coq *)
Fixpoint nums_go (s : string) (acc : N) (out : list N) : list N :=
  match s with
  | EmptyString => rev out
  | String c r => if Ascii.eqb c ","%char then nums_go r 0 (acc :: out) else nums_go r (16 * acc + hexval c) out
  end.
Definition nums (s : string) : list N := nums_go s 0 [].

Definition pstep (A : Type) := list N -> option (A * list N).
Fixpoint p_many {A} (p : pstep A) (n : nat) (l : list N) : option (list A * list N) :=
  match n with
  | O => Some ([], l)
  | S n' => match p l with
            | Some (x, r) => match p_many p n' r with Some (xs, r') => Some (x :: xs, r') | None => None end
            | None => None
            end
  end.
Definition p_counted {A} (p : pstep A) : pstep (list A) :=
  fun l => match l with n :: r => p_many p (N.to_nat n) r | [] => None end.
Definition p_loc : pstep loc := fun l => match l with m :: s :: r => Some (L m s, r) | _ => None end.
Definition p_addr : pstep addr := fun l => match l with i :: m :: r => Some (A i m, r) | _ => None end.
Definition to_prior3 {T} (l : list T) : prior3 T :=
  match l with [a] => P1 a | [a; b] => P2 a b | _ => P0 end.
Definition p_cmd : pstep scmd :=
  fun l => match l with
           | i :: pt :: pn :: r =>
             match p_counted p_addr r with
             | Some (ps, pl1 :: dl :: r') =>
               Some (mk_scmd i (match pt with 0 => PMerge | 1 => PBasic pn | 2 => PFinalize | _ => PInit end)
                             (to_prior3 ps) (if pl1 =? 0 then None else Some (pl1 - 1)) dl, r')
             | _ => None
             end
           | _ => None
           end.
Definition p_seg : pstep seg :=
  fun l => match l with
           | i :: f :: r =>
             match p_counted p_loc r with
             | Some (pr, r1) =>
               match p_counted p_loc r1 with
               | Some (sk, r2) =>
                 match p_counted p_cmd r2 with
                 | Some (cs, r3) => Some (mk_seg i f cs (to_prior3 pr) sk, r3)
                 | None => None
                 end
               | None => None
               end
             | None => None
             end
           | _ => None
           end.
Definition p_head : pstep (N * loc) := fun l => match l with i :: m :: s :: r => Some ((i, L m s), r) | _ => None end.
(** the empty store stands for a string that does not parse (the comparison then fails) *)
Definition store_of (s : string) : store :=
  match p_counted p_seg (nums s) with
  | Some (segs, r) => match p_counted p_head r with Some (hs, _) => mk_store segs hs | None => mk_store [] [] end
  | None => mk_store [] []
  end.
