(** Glue used only by the generated correspondence files of the sync checks:
    short constructors for dumped stores, the canonical form of what the
    implementation printed, and boolean comparisons against the model. *)
From Aranya Require Import base.Tactics base.Harness model.Dag model.TravQueue model.Wire model.SyncStore model.SyncResp model.SyncReq gen.GenSync.
Local Open Scope N_scope.

Definition mk_scmd (i : N) (p : prio) (par : prior3 addr) (pl : option N) (dl : N) : scmd :=
  {| c_id := i; c_prio := p; c_par := par; c_plen := pl; c_dlen := dl |}.
Definition mk_seg (i f : N) (cs : list scmd) (pr : prior3 loc) (sk : list loc) : seg :=
  {| g_idx := i; g_first := f; g_cmds := cs; g_prior := pr; g_skip := sk |}.
Definition mk_store (ss : list seg) (hs : list (N * loc)) : store := {| st_segs := ss; st_heads := hs |}.

Definition serr_code (e : serr) : N :=
  match e with
  | ESessionMismatch => 1 | EMissingSyncResponse => 2 | ESessionState => 3 | ENotReady => 4 | ECommandOverflow => 5
  | EBufferTooSmall => 6 | EMalformedResponse => 7 | EUnsupportedRequest => 8 | EStorage _ => 9 | ESerialize => 10 | EBug => 11
  end.

(** what the runner printed for one poll attempt *)
Inductive expect :=
| XErr (code : N)
| XResp (sid idx : N) (ids : list N) (hdr data : N)
| XEnd (sid mx : N)
| XEndSession (sid : N).

Definition attempt_ok (o : rres out_msg) (x : expect) : bool :=
  match o, x with
  | RErr e, XErr c => serr_code e =? c
  | ROk m, XResp sid idx ids hdr data =>
    match o_msg m with
    | SyncResponse s i cs => (s =? sid) && (i =? idx) && lN_eqb (map m_id cs) ids && (o_hdr m =? hdr) && (o_data m =? data)
    | _ => false
    end
  | ROk m, XEnd sid mx =>
    match o_msg m with SyncEnd s i false => (s =? sid) && (i =? mx) && (o_data m =? 0) | _ => false end
  | ROk m, XEndSession sid =>
    match o_msg m with RespEndSession s => s =? sid | _ => false end
  | _, _ => false
  end.

Fixpoint all2 {A B} (f : A -> B -> bool) (a : list A) (b : list B) : bool :=
  match a, b with
  | [], [] => true
  | x :: a', y :: b' => f x y && all2 f a' b'
  | _, _ => false
  end.

(** one responder session: the request, then polls with the given target sizes *)
Definition session_outputs (dbg : bool) (st : store) (gid sid mb : N) (sample : list addr) (tlens : list N)
  : list (rres out_msg) :=
  let '(r1, d) := dispatch responder_new (SyncRequest sid gid mb sample) in
  match d with
  | ROk _ => fst (run_polls dbg [(gid, st)] r1 tlens)
  | _ => []
  end.

Definition check_session (dbg : bool) (st : store) (gid sid mb : N) (sample : list addr) (tlens : list N)
           (xs : list expect) : bool :=
  all2 attempt_ok (session_outputs dbg st gid sid mb sample tlens) xs.

(** printable form of the model's outputs (only evaluated to explain a mismatch) *)
Definition show_out (o : rres out_msg) : N * N * list N * N * N :=
  match o with
  | RErr e => (100 + serr_code e, 0, [], 0, 0)
  | RPanic k => (200, k, [], 0, 0)
  | RFuel => (300, 0, [], 0, 0)
  | ROk m =>
    match o_msg m with
    | SyncResponse s i cs => (0, i, map m_id cs, o_hdr m, o_data m)
    | SyncEnd s i _ => (1, i, [], o_hdr m, 0)
    | Offer _ _ => (2, 0, [], 0, 0)
    | RespEndSession _ => (3, 0, [], o_hdr m, 0)
    end
  end.

(** well-formedness of a dumped store, executable part (ranges of priors, skips, heads) *)
Definition store_wfb (st : store) : bool :=
  forallb (fun s => negb (match g_cmds s with [] => true | _ => false end)
                    && forallb (fun p => valid_locb st p && (lmc p <? g_first s)) (prior_list (g_prior s) ++ g_skip s))
          (st_segs st)
  && forallb (fun h => valid_locb st (snd h)) (st_heads st).
