(** Boolean comparison of codec results — used only by the generated cases files of
    the C26 correspondence run. *)
From Aranya Require Import base.Tactics base.Harness model.Varint model.Ser.
Open Scope N_scope.

Fixpoint value_eqb (a b : value) : bool :=
  match a, b with
  | VUnit, VUnit | VFact, VFact | VNone, VNone => true
  | VInt x, VInt y => Z.eqb x y
  | VBool x, VBool y => Bool.eqb x y
  | VString x, VString y | VBytes x, VBytes y | VId x, VId y => lN_eqb x y
  | VStruct n fs, VStruct m gs =>
    N.eqb n m &&
    (fix go (fs gs : list (ident * value)) : bool :=
       match fs, gs with
       | [], [] => true
       | (k, x) :: fs', (l, y) :: gs' => N.eqb k l && value_eqb x y && go fs' gs'
       | _, _ => false
       end) fs gs
  | VEnum e x, VEnum f y => N.eqb e f && Z.eqb x y
  | VIdentifier x, VIdentifier y => N.eqb x y
  | VSome x, VSome y | VOk x, VOk y | VErr x, VErr y => value_eqb x y
  | _, _ => false
  end.

Definition ser_error_eqb (a b : ser_error) : bool :=
  match a, b with
  | SUnknownStruct x, SUnknownStruct y | SMissingField x, SMissingField y => N.eqb x y
  | SFieldLengthMismatch, SFieldLengthMismatch | SInternalValue, SInternalValue => true
  | _, _ => false
  end.

Definition de_error_eqb (a b : de_error) : bool :=
  match a, b with
  | DUnknownEnum x, DUnknownEnum y | DUnknownStruct x, DUnknownStruct y => N.eqb x y
  | DUnexpectedEnd, DUnexpectedEnd | DTrailingData, DTrailingData | DBadInput, DBadInput
  | DOutOfFuel, DOutOfFuel => true
  | _, _ => false
  end.

Definition ser_res_eqb (a b : res ser_error (list N)) : bool :=
  match a, b with
  | Ok x, Ok y => lN_eqb x y
  | Err x, Err y => ser_error_eqb x y
  | _, _ => false
  end.

Definition de_res_eqb (a b : res de_error value) : bool :=
  match a, b with
  | Ok x, Ok y => value_eqb x y
  | Err x, Err y => de_error_eqb x y
  | _, _ => false
  end.

(** one correspondence case *)
Inductive ccase :=
| CSer (defs : struct_defs) (name : ident) (fields : list (ident * value)) (expect : res ser_error (list N))
| CDe (defs : struct_defs) (enums : enum_defs) (name : ident) (bytes : list N) (expect : res de_error value).

Definition ccase_ok (c : ccase) : bool :=
  match c with
  | CSer defs name fields expect => ser_res_eqb (serialize_struct defs name fields) expect
  | CDe defs enums name bytes expect => de_res_eqb (deserialize_struct defs enums name bytes) expect
  end.
