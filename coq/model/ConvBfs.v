(** The lazily advanced BFS of [ConvergenceMap] ([new], [advance_to], the
    BFS part of [should_continue]) on the command graph.

    The queue holds locations with duplicates ([push_duplicate]); [peek]
    returns an entry with the highest max_cut (ties between different
    segments are broken by the segment index, a property of the layout: the
    model takes an arbitrary tie-break [tie]); [pop_duplicates] removes every
    copy of that location and returns their number. *)
From Aranya Require Import base.Tactics model.Dag model.Braid.

Section Bfs.
  Variable g : graph.
  Variable L : N.                           (* lca.max_cut *)
  Variable tie : N -> N -> bool.

  Record bfs := { bq : list N; bm : list (N * N) }.

  Definition before_loc (x y : N) : bool :=
    (max_cut g x <? max_cut g y)%N || ((max_cut g x =? max_cut g y)%N && tie x y).
  Fixpoint top_of (x : N) (l : list N) : N :=
    match l with
    | [] => x
    | y :: r => if before_loc x y then top_of y r else top_of x r
    end.
  Definition remove_all (x : N) (l : list N) : list N := filter (fun y => negb (y =? x)%N) l.

  (** [advance_to] *)
  Fixpoint advance (fuel : nat) (st : bfs) (target : N) : bfs :=
    match fuel with
    | O => st
    | S f =>
      match bq st with
      | [] => st
      | x0 :: r =>
        let top := top_of x0 r in
        if (max_cut g top <? target)%N then st else
        let cnt := countN top (bq st) in
        let q' := remove_all top (bq st) in
        if (max_cut g top <=? L)%N then advance f {| bq := q'; bm := bm st |} target
        else advance f {| bq := parents_of g top ++ q';
                          bm := if (2 <=? cnt)%N then (top, cnt) :: bm st else bm st |} target
      end
    end.

  Definition bfs_init (hs : list N) : bfs := {| bq := hs; bm := [] |}.

  (** [should_continue]: advance the BFS to the queried location, then look it up. *)
  Definition lazy_query (fuel : nat) (st : bfs) (x : N) : bfs * bool :=
    let st1 := advance fuel st (max_cut g x) in
    let '(m', go) := conv_query (bm st1) x in
    ({| bq := bq st1; bm := m' |}, go).

  Fixpoint lazy_run (fuel : nat) (st : bfs) (xs : list N) : list bool :=
    match xs with
    | [] => []
    | x :: r => let '(st', go) := lazy_query fuel st x in go :: lazy_run fuel st' r
    end.

  (** The map computed up front ([conv_init]) queried in the same order. *)
  Fixpoint eager_run (m : list (N * N)) (xs : list N) : list bool :=
    match xs with
    | [] => []
    | x :: r => let '(m', go) := conv_query m x in go :: eager_run m' r
    end.
End Bfs.
