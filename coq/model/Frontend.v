(** C27 model, part 1: which token-pair trees a pest grammar can produce, and a
    computable over-approximation of the child-rule sequences of each pair.

    [emits G am e ts]: a successful match of PEG expression [e], started with
    pest atomicity [am], can leave the forest [ts] of token pairs.  This is the
    token discipline documented for pest (and implemented by
    [ParserState::rule] / [atomic] / [lookahead]), abstracted from the input
    text: every alternative and every repetition count is considered possible.

    - a non-silent rule produces one pair whose children are the pairs of its
      body, unless tokens are suppressed (atomicity [AAtomic]);
    - a silent rule [_{}] produces no pair of its own, its body's pairs pass through;
    - [@{}] runs its body with [AAtomic] (no inner pairs), [${}] with
      [ACompound], [!{}] with [ANon]; normal and silent rules inherit;
    - [WHITESPACE] / [COMMENT] bodies always run atomically, and are tried
      implicitly between sequence elements and repetitions in [ANon] mode;
    - predicates never leave pairs; [EOI] is a normal built-in rule.

    [shape] computes a regular expression over rule names that contains the
    root sequence of every forest [emits] allows ([proofs/FrontendShape.v]). *)
From Coq Require Import String List Bool NArith.
From Aranya Require Import model.PegSyntax model.ShapeRe.
Import ListNotations.
Open Scope string_scope.

(** [Star] names both a PEG and a regex constructor; the PEG one is written [PStar] here. *)
Notation PStar := PegSyntax.Star (only parsing).

Inductive tree : Type := Node (r : string) (kids : list tree).
Definition root (t : tree) : string := match t with Node r _ => r end.
Definition kids (t : tree) : list tree := match t with Node _ k => k end.

Inductive atomicity := ANon | ACompound | AAtomic.
Definition is_atomic (a : atomicity) : bool := match a with AAtomic => true | _ => false end.
Definition is_non (a : atomicity) : bool := match a with ANon => true | _ => false end.
Definition is_silent (k : rule_kind) : bool := match k with Silent => true | _ => false end.

Definition find_rule (G : list rule) (n : string) : option rule :=
  find (fun r => String.eqb (r_name r) n) G.

Definition is_ws (n : string) : bool := String.eqb n "WHITESPACE" || String.eqb n "COMMENT".

(** Atomicity in which the body of rule [n] of kind [k] runs when called under [am]. *)
Definition body_at (n : string) (k : rule_kind) (am : atomicity) : atomicity :=
  if is_ws n then AAtomic else
  match k with
  | Atomic => AAtomic
  | CompoundAtomic => ACompound
  | NonAtomic => ANon
  | Normal | Silent => am
  end.

(** What a call of rule [n] leaves, given the forest [ts] of its body. *)
Definition wrap (n : string) (k : rule_kind) (am : atomicity) (ts : list tree) : list tree :=
  if is_silent k || is_atomic am then ts else [Node n ts].

Section Emits.
  Variable G : list rule.

  Inductive emits : atomicity -> peg -> list tree -> Prop :=
  | E_str am s : emits am (Str s) []
  | E_insens am s : emits am (Insens s) []
  | E_range am a b : emits am (Range a b) []
  | E_builtin am n : find_rule G n = None -> n <> "EOI" -> emits am (Ref n) []
  | E_eoi am : find_rule G "EOI" = None ->
      emits am (Ref "EOI") (if is_atomic am then [] else [Node "EOI" []])
  | E_rule am n r ts : find_rule G n = Some r ->
      emits (body_at n (r_kind r) am) (r_body r) ts ->
      emits am (Ref n) (wrap n (r_kind r) am ts)
  | E_seq am a b t1 sk t2 : emits am a t1 -> skips am sk -> emits am b t2 ->
      emits am (Seq a b) (t1 ++ sk ++ t2)
  | E_altl am a b ts : emits am a ts -> emits am (Alt a b) ts
  | E_altr am a b ts : emits am b ts -> emits am (Alt a b) ts
  | E_opt0 am a : emits am (Opt a) []
  | E_opt1 am a ts : emits am a ts -> emits am (Opt a) ts
  | E_star am a n ts : reps am a n ts -> emits am (PStar a) ts
  | E_plus am a n ts : reps am a (S n) ts -> emits am (Plus a) ts
  | E_rep am lo hi a n ts : reps am a n ts -> emits am (Rep lo hi a) ts
  | E_pos am a : emits am (PosPred a) []
  | E_neg am a : emits am (NegPred a) []
  (** implicit whitespace / comment skipping (only in non-atomic mode) *)
  with skips : atomicity -> list tree -> Prop :=
  | S_nil am : skips am []
  | S_cons n t sk : is_ws n = true -> emits ANon (Ref n) t -> skips ANon sk -> skips ANon (t ++ sk)
  (** [n] iterations, each followed by an implicit skip *)
  with reps : atomicity -> peg -> nat -> list tree -> Prop :=
  | R_0 am a : reps am a 0 []
  | R_S am a n t sk ts : emits am a t -> skips am sk -> reps am a n ts -> reps am a (S n) (t ++ sk ++ ts).

  (** ** The shape analysis *)

  Definition ref_shape (sh : atomicity -> peg -> re) (am : atomicity) (n : string) : re :=
    match find_rule G n with
    | None => if String.eqb n "EOI" then (if is_atomic am then Eps else Sym "EOI") else Eps
    | Some r =>
      if is_silent (r_kind r) || is_atomic am
      then sh (body_at n (r_kind r) am) (r_body r)
      else Sym n
    end.

  Definition skip_shape (sh : atomicity -> peg -> re) (am : atomicity) : re :=
    if is_non am
    then star' (or' (ref_shape sh ANon "WHITESPACE") (ref_shape sh ANon "COMMENT"))
    else Eps.

  Fixpoint walk (rf : string -> re) (sk : re) (e : peg) : re :=
    match e with
    | Str _ | Insens _ | Range _ _ => Eps
    | Ref n => rf n
    | Seq a b => cat' (walk rf sk a) (cat' sk (walk rf sk b))
    | Alt a b => or' (walk rf sk a) (walk rf sk b)
    | Opt a => or' Eps (walk rf sk a)
    | PStar a | Rep _ _ a => star' (cat' (walk rf sk a) sk)
    | Plus a => cat' (cat' (walk rf sk a) sk) (star' (cat' (walk rf sk a) sk))
    | PosPred _ | NegPred _ => Eps
    end.

  (** [fuel] bounds the depth of inlining through silent rules; exhausted fuel
      answers [Top] (every sequence), which keeps the analysis sound. *)
  Fixpoint shape (fuel : nat) (am : atomicity) (e : peg) : re :=
    match fuel with
    | O => Top
    | S f => walk (ref_shape (shape f) am) (skip_shape (shape f) am) e
    end.

  Definition fuel0 : nat := S (length G).

  (** Child-rule sequences a pair of rule [n] can have (a pair exists only when
      tokens are not suppressed, i.e. the caller runs in [ANon] or [ACompound]). *)
  Definition children_shape (n : string) : re :=
    match find_rule G n with
    | None => Eps
    | Some r =>
      or' (shape fuel0 (body_at n (r_kind r) ANon) (r_body r))
          (shape fuel0 (body_at n (r_kind r) ACompound) (r_body r))
    end.

  (** Top-level pair sequence of a parse started at rule [n] (as [Parser::parse(Rule::n, _)] does). *)
  Definition top_shape (n : string) : re := shape fuel0 ANon (Ref n).
End Emits.

(** Every node of a tree satisfies a predicate on (rule, child rules). *)
Fixpoint tree_all (P : string -> list string -> bool) (t : tree) : bool :=
  match t with
  | Node r ks => P r (map root ks) && forallb (tree_all P) ks
  end.

(** A textual fact read off a rule body: it is [Seq (Str o) (Seq _ (Str c))]-shaped
    (the matched text starts with [o] and ends with [c]). *)
Definition delimited (o c : string) (e : peg) : bool :=
  match e with
  | Seq (Str a) rest =>
    String.eqb a o &&
    (fix last (x : peg) : bool :=
       match x with
       | Seq _ y => last y
       | Str b => String.eqb b c
       | _ => false
       end) rest
  | _ => false
  end.
