(** C27 model, part 3: the front-matter guard of parse/markdown.rs
    ([has_unterminated_front_matter]) on texts as lists of Unicode code points, and what the
    markdown crate (markdown-rs 1.0.0-alpha.17, construct/frontmatter.rs [close_start] /
    [close_sequence] / [close_after]) accepts as a closing fence line: exactly the three marker
    characters of the opening fence, then any run of spaces / tabs, then end of line or input. *)
From Coq Require Import List NArith Bool.
From Aranya Require Import model.FrontMatterSyntax.
Import ListNotations.

Definition text := list N.

Fixpoint text_eqb (a b : text) : bool :=
  match a, b with
  | [], [] => true
  | x :: a', y :: b' => (x =? y)%N && text_eqb a' b'
  | _, _ => false
  end.

(** Unicode White_Space (what [str::trim_end] removes). *)
Definition unicode_ws (c : N) : bool :=
  ((9 <=? c) && (c <=? 13) || (c =? 32) || (c =? 133) || (c =? 160) || (c =? 5760)
   || ((8192 <=? c) && (c <=? 8202)) || (c =? 8232) || (c =? 8233) || (c =? 8239) || (c =? 8287) || (c =? 12288))%N.

Definition trims (t : trim_spec) (c : N) : bool :=
  match t with
  | TrimChars cs => existsb (N.eqb c) cs
  | TrimUnicodeWhitespace => unicode_ws c
  | TrimOther _ => false
  end.

(** [str::trim_end_matches(p)] *)
Fixpoint trim_end (p : N -> bool) (l : text) : text :=
  match l with
  | [] => []
  | c :: r =>
    match trim_end p r with
    | [] => if p c then [] else [c]
    | r' => c :: r'
    end
  end.

(** the inner [fn fence]: the fence literal the trimmed line equals, if any *)
Definition fence (t : trim_spec) (fences : list text) (line : text) : option text :=
  find (text_eqb (trim_end (trims t) line)) fences.

(** [str::split] on a set of separator characters *)
Fixpoint split_on (seps : list N) (cur : text) (l : text) : list text :=
  match l with
  | [] => [rev cur]
  | c :: r => if existsb (N.eqb c) seps then rev cur :: split_on seps [] r else split_on seps (c :: cur) r
  end.

Definition opt_text_eqb (a b : option text) : bool :=
  match a, b with
  | Some x, Some y => text_eqb x y
  | None, None => true
  | _, _ => false
  end.

(** [data.strip_prefix(c).unwrap_or(data)] for each listed code point, in order *)
Definition skip_prefix (skip : list N) (data : text) : text :=
  fold_left (fun d c => match d with x :: r => if (x =? c)%N then r else d | [] => d end) skip data.

Definition has_unterminated_front_matter (t : trim_spec) (fences : list text) (seps skip : list N) (data : text) : bool :=
  match split_on seps [] (skip_prefix skip data) with
  | [] => false
  | first :: rest =>
    match fence t fences first with
    | Some o => negb (existsb (fun ln => opt_text_eqb (fence t fences ln) (Some o)) rest)
    | None => false
    end
  end.

(** markdown-rs: a line closes a front matter opened with marker sequence [o] *)
Definition is_sp_tab (c : N) : bool := ((c =? 32) || (c =? 9))%N.
Fixpoint strip_prefix (o l : text) : option text :=
  match o, l with
  | [], _ => Some l
  | x :: o', y :: l' => if (x =? y)%N then strip_prefix o' l' else None
  | _ :: _, [] => None
  end.
Definition md_closing_fence (o line : text) : bool :=
  match strip_prefix o line with
  | Some ws => forallb is_sp_tab ws
  | None => false
  end.
