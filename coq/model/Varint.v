(** Model of the postcard-core 0.1.0 primitives used by
    [aranya-policy-vm/src/serialize.rs] (C26): [varint_u64] / [try_take_u64]
    (LEB128, at most 10 bytes, last byte at most 1), [zig_zag_i64] /
    [de_zig_zag_i64], [try_push_bool] / [try_take_bool], length-prefixed byte
    strings, and the deserializer flavor's [pop] / [try_take_n].

    Bytes are [N] (< 256, see [bytes_ok]); [u64] values are [N] < 2^64; [i64]
    values are [Z] in [-2^63, 2^63). *)
From Aranya Require Import base.Tactics.
Open Scope N_scope.

Definition two64 : N := 18446744073709551616.          (* 2^64 *)
Definition two63z : Z := 9223372036854775808%Z.         (* 2^63 *)
Definition two64z : Z := 18446744073709551616%Z.        (* 2^64 *)

Definition byte_ok (b : N) : Prop := b < 256.
Definition bytes_ok (bs : list N) : Prop := Forall byte_ok bs.
Definition in_u64 (n : N) : Prop := n < two64.
Definition in_i64 (z : Z) : Prop := (- two63z <= z < two63z)%Z.

(** Result of a [postcard_core::de::try_take_*] call on the slice flavor:
    [Err(UnexpectedEnd)], [Ok(None)] (malformed), or [Ok(Some a)] with the
    remaining input. *)
Inductive take (A : Type) :=
| TEnd
| TNone
| TSome (a : A) (rest : list N).
Arguments TEnd {A}. Arguments TNone {A}. Arguments TSome {A}.

(** ** varint(u64) *)

(** [varint_u64]: [out[i] = value.to_le_bytes()[0]; if value < 128 { return }
    out[i] |= 0x80; value >>= 7], at most [varint_max::<u64>() = 10] rounds. *)
Fixpoint varint_loop (fuel : nat) (v : N) : list N :=
  match fuel with
  | O => []
  | S f => if v <? 128 then [v mod 256]
           else N.lor (v mod 256) 128 :: varint_loop f (N.shiftr v 7)
  end.
Definition varint_max_u64 : nat := 10.
Definition varint_u64 (v : N) : list N := varint_loop varint_max_u64 v.

(** [try_take_u64]: [out |= ((val & 0x7F) as u64) << (7*i)] (bits shifted past
    bit 63 are lost); a byte without continuation bit ends the number, unless it
    is the 10th byte and exceeds [max_of_last_byte::<u64>() = 1]. *)
Fixpoint take_u64_loop (fuel : nat) (i : N) (out : N) (bs : list N) : take N :=
  match fuel with
  | O => TNone
  | S f =>
    match bs with
    | [] => TEnd
    | val :: r =>
      let carry := N.land val 127 in
      let out' := N.lor out (N.shiftl carry (7 * i) mod two64) in
      if N.land val 128 =? 0 then
        if (i =? 9) && (1 <? val) then TNone else TSome out' r
      else take_u64_loop f (i + 1) out' r
    end
  end.
Definition take_u64 (bs : list N) : take N := take_u64_loop varint_max_u64 0 0 bs.

(** ** zig-zag *)

(** two's complement wrap of a mathematical integer into [i64] *)
Definition wrap_i64 (z : Z) : Z := ((z + two63z) mod two64z - two63z)%Z.

(** [((n << 1) ^ (n >> 63)) as u64] *)
Definition zig_zag_i64 (n : Z) : N :=
  Z.to_N (Z.lxor (wrap_i64 (Z.shiftl n 1)) (Z.shiftr n 63) mod two64z).

(** [((n >> 1) as i64) ^ (-((n & 1) as i64))] *)
Definition de_zig_zag_i64 (n : N) : Z :=
  Z.lxor (wrap_i64 (Z.of_N (N.shiftr n 1))) (- wrap_i64 (Z.of_N (N.land n 1))).

Definition push_i64 (z : Z) : list N := varint_u64 (zig_zag_i64 z).
Definition take_i64 (bs : list N) : take Z :=
  match take_u64 bs with
  | TEnd => TEnd | TNone => TNone
  | TSome u r => TSome (de_zig_zag_i64 u) r
  end.

(** ** bool, raw bytes *)
Definition push_bool (b : bool) : list N := [if b then 1 else 0].
Definition take_bool (bs : list N) : take bool :=
  match bs with
  | [] => TEnd
  | 0 :: r => TSome false r
  | 1 :: r => TSome true r
  | _ :: _ => TNone
  end.

(** [self.bytes.split_off(..ct)]: [None] (-> UnexpectedEnd) when fewer than [ct] bytes remain *)
Definition take_n (ct : N) (bs : list N) : option (list N * list N) :=
  if ct <=? N.of_nat (length bs)
  then Some (firstn (N.to_nat ct) bs, skipn (N.to_nat ct) bs)
  else None.

(** [try_push_bytes] / [try_take_bytes_temp]: varint(usize) length, then the bytes *)
Definition push_bytes (b : list N) : list N := varint_u64 (N.of_nat (length b)) ++ b.
Definition take_bytes (bs : list N) : take (list N) :=
  match take_u64 bs with
  | TEnd => TEnd | TNone => TNone
  | TSome len r =>
    match take_n len r with
    | None => TEnd
    | Some (x, r') => TSome x r'
    end
  end.

(** ** UTF-8 well-formedness, as decided by [core::str::from_utf8]
    (Unicode Table 3-7: no overlong forms, no surrogates, nothing above U+10FFFF) *)
Definition cont (b : N) : bool := (128 <=? b) && (b <=? 191).
Definition inr (lo hi b : N) : bool := (lo <=? b) && (b <=? hi).

Fixpoint utf8_valid (bs : list N) : bool :=
  match bs with
  | [] => true
  | b :: r =>
    if b <? 128 then utf8_valid r
    else if inr 194 223 b then
      match r with b2 :: r2 => cont b2 && utf8_valid r2 | _ => false end
    else if inr 224 239 b then
      match r with
      | b2 :: b3 :: r3 =>
        (if b =? 224 then inr 160 191 b2 else if b =? 237 then inr 128 159 b2 else cont b2)
        && cont b3 && utf8_valid r3
      | _ => false
      end
    else if inr 240 244 b then
      match r with
      | b2 :: b3 :: b4 :: r4 =>
        (if b =? 240 then inr 144 191 b2 else if b =? 244 then inr 128 143 b2 else cont b2)
        && cont b3 && cont b4 && utf8_valid r4
      | _ => false
      end
    else false
  end.

Definition has_nul (bs : list N) : bool := existsb (N.eqb 0) bs.
