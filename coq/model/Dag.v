(** Shared graph-level definitions (storage independent) used by the braid,
    transaction and sync models.  Executable; no proofs here.

    A graph is a list of commands, NEWEST FIRST: every command's parents occur
    later in the list (they existed when the command was created), so
    acyclicity and well-founded recursion are structural.  Command ids are
    [N]; the harness maps a 32-byte [CmdId] to its big-endian value, so the
    order on [N] is [CmdId]'s derived byte-lexicographic [Ord]. *)
From Aranya Require Import base.Tactics.

(** [Priority] of command.rs; the derived [Ord] is the declaration order
    Merge < Basic n < Finalize < Init (pinned against the generated order in
    the properties that depend on it). *)
Inductive prio := PMerge | PBasic (n : N) | PFinalize | PInit.

Definition prio_rank (p : prio) : N * N :=
  match p with PMerge => (0, 0) | PBasic n => (1, n) | PFinalize => (2, 0) | PInit => (3, 0) end%N.

Definition pair_ltb (a b : N * N) : bool :=
  (fst a <? fst b)%N || ((fst a =? fst b)%N && (snd a <? snd b)%N).
Definition prio_ltb (p q : prio) : bool := pair_ltb (prio_rank p) (prio_rank q).
Definition prio_eqb (p q : prio) : bool :=
  (fst (prio_rank p) =? fst (prio_rank q))%N && (snd (prio_rank p) =? snd (prio_rank q))%N.

(** Strand key (priority, id), lexicographic: the heap pops the LEAST key. *)
Definition key := (prio * N)%type.
Definition key_ltb (a b : key) : bool :=
  prio_ltb (fst a) (fst b) || (prio_eqb (fst a) (fst b) && (snd a <? snd b)%N).

Inductive prior := PNone | PSingle (p : N) | PMerge2 (l r : N).

Record cmd := { cid : N; cprio : prio; cpar : prior; cbody : N }.

Definition parents (c : cmd) : list N :=
  match cpar c with PNone => [] | PSingle p => [p] | PMerge2 l r => [l; r] end.

Definition is_merge (c : cmd) : bool := match cpar c with PMerge2 _ _ => true | _ => false end.

Definition graph := list cmd.

Definition ids (g : graph) : list N := map cid g.

Fixpoint lookup (g : graph) (i : N) : option cmd :=
  match g with
  | [] => None
  | c :: r => if (cid c =? i)%N then Some c else lookup r i
  end.

Definition mem (i : N) (l : list N) : bool := existsb (N.eqb i) l.

(** Well-formed: ids unique, parents exist earlier (= later in the list). *)
Fixpoint wf_graph (g : graph) : Prop :=
  match g with
  | [] => True
  | c :: r => wf_graph r /\ ~ In (cid c) (ids r) /\ (forall p, In p (parents c) -> In p (ids r))
  end.

Fixpoint wf_graphb (g : graph) : bool :=
  match g with
  | [] => true
  | c :: r => wf_graphb r && negb (mem (cid c) (ids r)) && forallb (fun p => mem p (ids r)) (parents c)
  end.

(** [max_cut]: 0 for a parentless command, 1 + max over parents otherwise
    ([CommandExt::max_cut]).  Structural on the list. *)
Fixpoint max_cut (g : graph) (i : N) : N :=
  match g with
  | [] => 0
  | c :: r =>
    if (cid c =? i)%N then
      match cpar c with
      | PNone => 0
      | PSingle p => max_cut r p + 1
      | PMerge2 a b => N.max (max_cut r a) (max_cut r b) + 1
      end
    else max_cut r i
  end.

(** Parent relation and its closures. *)
Definition parent_of (g : graph) (p i : N) : Prop :=
  exists c, lookup g i = Some c /\ In p (parents c).

(** [anc g a b]: [a] is an ancestor of, or equal to, [b]. *)
Inductive anc (g : graph) : N -> N -> Prop :=
| anc_refl i : In i (ids g) -> anc g i i
| anc_step a p i : parent_of g p i -> anc g a p -> anc g a i.

Definition panc (g : graph) (a b : N) : Prop := exists p, parent_of g p b /\ anc g a p.

(** Executable ancestry (structural on the list, newest first). *)
Fixpoint ancb (g : graph) (a b : N) : bool :=
  match g with
  | [] => false
  | c :: r =>
    if (cid c =? b)%N then (a =? b)%N || existsb (fun p => ancb r a p) (parents c)
    else ancb r a b
  end.

(** Children of [i] inside [g]. *)
Definition children (g : graph) (i : N) : list N :=
  map cid (filter (fun c => mem i (parents c)) g).

(** Commands of [g] with no child in [g]: the frontier (head set). *)
Definition frontier (g : graph) : list N :=
  filter (fun i => match children g i with [] => true | _ => false end) (ids g).
