(** The block / LRU / spill representation of [ConvergenceMap]
    ([client/convergence_map.rs]): [Block], [ConvergenceStorage], [lru_block],
    [insert_entry], [spill_lru], [read_block_from_disk], [install_block],
    [find_in_memory], [consume_entry] and the lookup part of
    [should_continue], for an arbitrary block size [B], number of blocks
    (the length of [blocks]) and root capacity [RC].

    The spill file is modelled at entry granularity: a write at a byte offset
    is a record (offset, entries); the byte layout of an entry
    ([Entry::to_bytes]/[from_bytes]: three native-endian u64) is not modelled.
    [mc] gives the max_cut of a location. *)
From Aranya Require Import base.Tactics.

Section ConvSpill.
  Variable mc : N -> N.
  Variable B : nat.
  Variable RC : nat.

  Definition entry := (N * N)%type.        (* location, remaining count *)

  Record cblock := { ents : list entry; lastacc : N; bmin : N; bmax : N }.
  Record cnode := { nmin : N; nmax : N; noff : N; nnum : nat }.
  Record cstate := {
    blocks : list cblock; active : nat; root : list cnode;
    file : list (N * list entry); next_off : N; access : N }.
  Inductive cerr := RootOverflow | CBug.
  Inductive cres (T : Type) := COk (v : T) | CErr (e : cerr).
  Arguments COk {T}. Arguments CErr {T}.

  Definition u64max : N := 18446744073709551615.
  Definition entry_bytes : N := 24.

  Definition block_new : cblock := {| ents := []; lastacc := 0; bmin := u64max; bmax := 0 |}.
  (** [Block::insert] (the caller ensures the block is not full). *)
  Definition block_insert (b : cblock) (e : entry) : cblock :=
    {| ents := ents b ++ [e]; lastacc := lastacc b;
       bmin := N.min (bmin b) (mc (fst e)); bmax := N.max (bmax b) (mc (fst e)) |}.

  Fixpoint find_ent (l : list entry) (x : N) : option nat :=
    match l with
    | [] => None
    | e :: r => if (fst e =? x)%N then Some O else option_map S (find_ent r x)
    end.

  Fixpoint upd {T} (l : list T) (i : nat) (v : T) : list T :=
    match l, i with
    | [], _ => []
    | _ :: r, O => v :: r
    | y :: r, S i' => y :: upd r i' v
    end.

  Definition blk (st : cstate) (i : nat) : cblock := nth i (blocks st) block_new.
  Definition set_blk (st : cstate) (i : nat) (b : cblock) : cstate :=
    {| blocks := upd (blocks st) i b; active := active st; root := root st; file := file st;
       next_off := next_off st; access := access st |}.

  (** [lru_block]: the first block with the strictly lowest [last_accessed]. *)
  Fixpoint lru_go (bs : list cblock) (i best : nat) (bv : N) : nat :=
    match bs with
    | [] => best
    | b :: r => if (lastacc b <? bv)%N then lru_go r (S i) i (lastacc b) else lru_go r (S i) best bv
    end.
  Definition lru_block (st : cstate) : nat :=
    match blocks st with [] => O | b :: r => lru_go r 1 0 (lastacc b) end.

  (** [spill_lru] *)
  Definition spill_lru (st : cstate) : cres cstate :=
    let lru := lru_block st in
    let b := blk st lru in
    match ents b with
    | [] => COk {| blocks := blocks st; active := lru; root := root st; file := file st;
                   next_off := next_off st; access := access st |}
    | _ =>
      let n := length (ents b) in
      let file' := (next_off st, ents b) :: file st in
      if length (root st) =? RC then CErr RootOverflow else
      COk {| blocks := upd (blocks st) lru block_new; active := lru;
             root := root st ++ [{| nmin := bmin b; nmax := bmax b; noff := next_off st; nnum := n |}];
             file := file'; next_off := (next_off st + N.of_nat n * entry_bytes)%N; access := access st |}
    end.

  (** [insert_entry] *)
  Definition insert_entry (st : cstate) (e : entry) : cres cstate :=
    let go (s : cstate) := COk (set_blk s (active s) (block_insert (blk s (active s)) e)) in
    if length (ents (blk st (active st))) =? B then
      match spill_lru st with COk s => go s | CErr er => CErr er end
    else go st.

  (** the spill file: the most recent record written at an offset *)
  Fixpoint file_get (f : list (N * list entry)) (off : N) : option (list entry) :=
    match f with
    | [] => None
    | (o, es) :: r => if (o =? off)%N then Some es else file_get r off
    end.

  (** [read_block_from_disk] + [Block::load_from_bytes] *)
  Definition read_block (st : cstate) (ri : nat) : cres cblock :=
    match nth_error (root st) ri with
    | None => CErr CBug
    | Some nd =>
      match file_get (file st) (noff nd) with
      | None => CErr CBug
      | Some es => COk (fold_left block_insert (firstn (nnum nd) es) block_new)
      end
    end.

  Fixpoint swap_remove {T} (l : list T) (i : nat) : list T :=
    match l, i with
    | [], _ => []
    | _ :: r, O => match rev r with [] => [] | z :: _ => z :: removelast r end
    | y :: r, S i' => y :: swap_remove r i'
    end.

  (** [install_block] *)
  Definition install_block (st : cstate) (ri : nat) (loaded : cblock) : cres (cstate * nat) :=
    let st1 := {| blocks := blocks st; active := active st; root := swap_remove (root st) ri; file := file st;
                  next_off := next_off st; access := access st |} in
    match spill_lru st1 with
    | CErr e => CErr e
    | COk st2 =>
      let target := active st2 in
      COk (set_blk st2 target {| ents := ents loaded; lastacc := access st2; bmin := bmin loaded; bmax := bmax loaded |}, target)
    end.

  (** [find_in_memory] *)
  Fixpoint find_mem (bs : list cblock) (i : nat) (x : N) : option (nat * nat) :=
    match bs with
    | [] => None
    | b :: r => match find_ent (ents b) x with Some ei => Some (i, ei) | None => find_mem r (S i) x end
    end.

  Definition swap_remove_ent (l : list entry) (i : nat) : list entry := swap_remove l i.

  (** [consume_entry] *)
  Definition consume_entry (st : cstate) (bi ei : nat) : cstate * bool :=
    let b := blk st bi in
    match nth_error (ents b) ei with
    | None => (st, true)
    | Some (x, n) =>
      if (1 <? n)%N then
        (set_blk st bi {| ents := upd (ents b) ei (x, (n - 1)%N); lastacc := access st; bmin := bmin b; bmax := bmax b |}, false)
      else
        (set_blk st bi {| ents := swap_remove (ents b) ei; lastacc := access st; bmin := bmin b; bmax := bmax b |}, true)
    end.

  (** The disk part of [should_continue] (as repaired: a block is searched
      before it is installed; [ri] always advances). *)
  Fixpoint disk_search (fuel : nat) (st : cstate) (ri : nat) (x : N) : cres (cstate * bool) :=
    match fuel with
    | O => COk (st, true)
    | S f =>
      match nth_error (root st) ri with
      | None => COk (st, true)
      | Some nd =>
        if (nmin nd <=? mc x)%N && (mc x <=? nmax nd)%N then
          match read_block st ri with
          | CErr e => CErr e
          | COk blkr =>
            match find_ent (ents blkr) x with
            | Some ei =>
              match install_block st ri blkr with
              | CErr e => CErr e
              | COk (st', bi) => COk (consume_entry st' bi ei)
              end
            | None => disk_search f st (S ri) x
            end
          end
        else disk_search f st (S ri) x
      end
    end.

  (** [should_continue] after the BFS has been advanced. *)
  Definition lookup (st : cstate) (x : N) : cres (cstate * bool) :=
    let st := {| blocks := blocks st; active := active st; root := root st; file := file st;
                 next_off := next_off st; access := (access st + 1)%N |} in
    match find_mem (blocks st) 0 x with
    | Some (bi, ei) => COk (consume_entry st bi ei)
    | None => disk_search (length (root st)) st 0 x
    end.

  (** The loop as it was before the repair: an in-range block is installed
      first (evicting the LRU block, which is appended to the root index)
      and [ri] is not advanced. *)
  Fixpoint disk_search_old (fuel : nat) (st : cstate) (ri : nat) (x : N) : option (cres (cstate * bool)) :=
    match fuel with
    | O => None
    | S f =>
      match nth_error (root st) ri with
      | None => Some (COk (st, true))
      | Some nd =>
        if (nmin nd <=? mc x)%N && (mc x <=? nmax nd)%N then
          match read_block st ri with
          | CErr e => Some (CErr e)
          | COk blkr =>
            match install_block st ri blkr with
            | CErr e => Some (CErr e)
            | COk (st', bi) =>
              match find_ent (ents (blk st' bi)) x with
              | Some ei => Some (COk (consume_entry st' bi ei))
              | None => disk_search_old f st' ri x
              end
            end
          end
        else disk_search_old f st (S ri) x
      end
    end.

  Definition cs_init (nb : nat) : cstate :=
    {| blocks := repeat block_new nb; active := 0; root := []; file := []; next_off := 0; access := 0 |}.

  (** The map the state represents. *)
  Definition node_ents (st : cstate) (nd : cnode) : list entry :=
    match file_get (file st) (noff nd) with Some es => firstn (nnum nd) es | None => [] end.
  Definition absmap (st : cstate) : list entry :=
    concat (map ents (blocks st)) ++ concat (map (node_ents st) (root st)).
End ConvSpill.

Arguments COk {T}.
Arguments CErr {T}.
