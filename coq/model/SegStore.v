(** Model of linear segment storage as far as command lookup is concerned
    (crates/aranya-runtime/src/storage/mod.rs: [search_queued],
    [Storage::get_location], [get_location_from], [is_ancestor],
    [Segment::get_command]/[get_by_address]; storage/linear/mod.rs:
    [skip_target_boundaries], [has_nearby_rich_anchor], [build_skip_list],
    [walk_collecting_skips], [write] as far as the segment record goes).

    A store is the append-only log of segment records, keyed by segment index
    (item ordinal in the memory backend, byte offset in the libc backend —
    any [N]).  A segment is [SegmentRepr] reduced to what lookups read:
    [prior], the ids of its commands, the max cut of the first command, and
    the skip list.  Searches run on the literal [TraversalQueue] model.

    Error outcomes: [ENoSegment] = [get_segment] failed; [EBug] = a [buggy]
    assume/bug site; [EPanic] = an index panic or a [debug_assert!] (the
    harness is a debug build); [EFuel] = model fuel ran out. *)
From Aranya Require Import base.Tactics gen.GenQueue model.TravQueue.

Inductive serr := EBug | EPanic | EFuel | ENoSegment | EEmptyPerspective.
Inductive rs (A : Type) : Type := ROk (a : A) | RErr (e : serr).
Arguments ROk {A} a.
Arguments RErr {A} e.
Definition rbind {A B} (r : rs A) (f : A -> rs B) : rs B :=
  match r with ROk a => f a | RErr e => RErr e end.
Notation "'dor' x <- r ; k" := (rbind r (fun x => k)) (at level 200, x pattern, r at level 100, k at level 200).
(** queue results into storage results *)
Definition of_res {A} (r : res A) : rs A :=
  match r with Ok a => ROk a | Bug => RErr EBug | Panic => RErr EPanic | Fuel => RErr EFuel end.

Inductive prior (A : Type) : Type := PNone | PSingle (a : A) | PMerge (l r : A).
Arguments PNone {A}.
Arguments PSingle {A} a.
Arguments PMerge {A} l r.
(** [Prior::into_iter]. *)
Definition prior_list {A} (p : prior A) : list A :=
  match p with PNone => [] | PSingle a => [a] | PMerge l r => [l; r] end.

Record segment := Seg {
  s_prior : prior loc;
  s_ids : list N;          (* ids of the commands, first to last (Vec1: non-empty) *)
  s_mc : N;                (* max cut of the first command *)
  s_skip : list loc;
}.

Definition store := list (N * segment).

Fixpoint lookup (idx : N) (st : store) : option segment :=
  match st with
  | [] => None
  | (i, s) :: r => if (i =? idx)%N then Some s else lookup idx r
  end.

(** [Storage::get_segment]: fetches the record at [location.segment]. *)
Definition get_segment (st : store) (l : loc) : option segment := lookup (lseg l) st.

(** [SegmentRepr::cmd_index] + [commands.get]: the id of the command at [l]
    in the segment with index [idx].  (The [max_cut.checked_add(prev)] branch of
    [get_command] cannot fail for a u64 location: [prev < cmd_idx] and
    [s_mc + cmd_idx = l.max_cut].) *)
Definition get_command (idx : N) (s : segment) (l : loc) : option N :=
  if negb (idx =? lseg l)%N then None
  else if (lmc l <? s_mc s)%N then None
  else nth_error (s_ids s) (N.to_nat (lmc l - s_mc s)).

(** [Segment::get_by_address]. *)
Definition get_by_address (idx : N) (s : segment) (id mc : N) : option loc :=
  let l := {| lmc := mc; lseg := idx |} in
  match get_command idx s l with
  | Some i => if (i =? id)%N then Some l else None
  | None => None
  end.

Definition first_location (idx : N) (s : segment) : loc := {| lmc := s_mc s; lseg := idx |}.
Definition longest_max_cut (s : segment) : N := s_mc s + (N.of_nat (length (s_ids s)) - 1).

(** pushes the prior locations whose max cut is at least the target's *)
Fixpoint push_priors (q : queue) (ps : list loc) (mc : N) : res queue :=
  match ps with
  | [] => Ok q
  | p :: r => if (mc <=? lmc p)%N then do q' <- push q p; push_priors q' r mc else push_priors q r mc
  end.

(** the jump decision shared by [search_queued] and [is_ancestor] *)
Definition enqueue_next (q : queue) (s : segment) (mc : N) : res queue :=
  match find (fun sk => (mc <=? lmc sk)%N) (s_skip s) with
  | Some sk => push q sk
  | None => push_priors q (prior_list (s_prior s)) mc
  end.

(** [search_queued]. *)
Fixpoint search_queued (fuel : nat) (st : store) (id mc : N) (q : queue) : rs (option loc) :=
  match fuel with
  | O => RErr EFuel
  | S f =>
    dor (q1, r) <- of_res (pop q);
    match r with
    | None => ROk None
    | Some l =>
      if (lmc l <? mc)%N then RErr EPanic          (* debug_assert!(loc.max_cut >= address.max_cut) *)
      else
      match get_segment st l with
      | None => RErr ENoSegment
      | Some s =>
        match get_by_address (lseg l) s id mc with
        | Some found => ROk (Some found)
        | None => dor q2 <- of_res (enqueue_next q1 s mc); search_queued f st id mc q2
        end
      end
    end
  end.

(** heads are [LocatedAddress]es: (id, location) *)
Definition heads := list (N * loc).

Fixpoint push_heads (q : queue) (hs : heads) (mc : N) : res queue :=
  match hs with
  | [] => Ok q
  | (_, h) :: r => if (mc <=? lmc h)%N then do q' <- push q h; push_heads q' r mc else push_heads q r mc
  end.

(** number of commands in the store: enough fuel for any search *)
Definition store_size (st : store) : nat :=
  fold_right (fun x n => length (s_ids (snd x)) + n) 0 st.
Definition search_fuel (st : store) : nat := S (store_size st).

(** [Storage::get_location]. *)
Definition get_location (st : store) (hs : heads) (id mc : N) : rs (option loc) :=
  dor q <- of_res (push_heads qnew hs mc);
  search_queued (search_fuel st) st id mc q.

(** [Storage::get_location_from]. *)
Definition get_location_from (st : store) (start : loc) (id mc : N) : rs (option loc) :=
  if (lmc start <? mc)%N then ROk None
  else dor q <- of_res (push qnew start); search_queued (search_fuel st) st id mc q.

(** the loop of [Storage::is_ancestor] *)
Fixpoint is_ancestor_loop (fuel : nat) (st : store) (target : loc) (q : queue) : rs bool :=
  match fuel with
  | O => RErr EFuel
  | S f =>
    dor (q1, r) <- of_res (pop q);
    match r with
    | None => ROk false
    | Some l =>
      if (lmc l <? lmc target)%N then RErr EPanic
      else
      match get_segment st l with
      | None => RErr ENoSegment
      | Some s =>
        match get_command (lseg l) s target with
        | Some _ => ROk true
        | None => dor q2 <- of_res (enqueue_next q1 s (lmc target)); is_ancestor_loop f st target q2
        end
      end
    end
  end.

(** [Storage::is_ancestor(search_location, start_location)]. *)
Definition is_ancestor (st : store) (target start : loc) : rs bool :=
  if (lmc start <? lmc target)%N || loc_eqb target start then ROk false
  else dor q <- of_res (push qnew start); is_ancestor_loop (search_fuel st) st target q.

(** * Skip-list construction (storage/linear/mod.rs) *)

(** [skip_target_boundaries(n)]: n/2, 3n/4, ... until the gap to n is <= MIN_SKIP_GAP. *)
Fixpoint stb_loop (fuel : nat) (n boundary : N) (acc : list N) : rs (list N) :=
  match fuel with
  | O => RErr EFuel
  | S f =>
    if (0 <? boundary)%N then
      let acc' := acc ++ [boundary] in
      if (n <? boundary)%N then RErr EBug            (* "boundary < n by loop invariant" *)
      else
        let gap := (n - boundary)%N in
        if (gap <=? MIN_SKIP_GAP)%N then ROk acc'
        else if (u64_max <? boundary + gap / 2)%N then RErr EBug
        else stb_loop f n (boundary + gap / 2) acc'
    else ROk acc
  end.
Definition skip_target_boundaries (n : N) : rs (list N) :=
  stb_loop (S (N.size_nat n)) n (n / 2) [].

(** [has_nearby_rich_anchor]: at most MIN_SKIP_GAP segments are inspected. *)
Fixpoint rich_loop (k : nat) (st : store) (check : loc) : rs bool :=
  match k with
  | O => ROk false
  | S k' =>
    match get_segment st check with
    | None => RErr ENoSegment
    | Some s =>
      if 1 <? length (s_skip s) then ROk true
      else match s_prior s with
           | PSingle p => rich_loop k' st p
           | PMerge _ _ =>
             match s_skip s with
             | [] => RErr EBug                       (* "merge skip list must end with LCA" *)
             | x :: r => rich_loop k' st (last r x)
             end
           | PNone => ROk false
           end
    end
  end.
Definition has_nearby_rich_anchor (st : store) (start : loc) : rs bool :=
  rich_loop (N.to_nat MIN_SKIP_GAP) st start.

(** [iter().filter(..).min_by_key(|s| s.max_cut)]: the FIRST minimal element. *)
Fixpoint min_by_mc (best : loc) (l : list loc) : loc :=
  match l with
  | [] => best
  | x :: r => min_by_mc (if (lmc x <? lmc best)%N then x else best) r
  end.

(** the inner [while let Some(&t) = targets.last()] of [walk_collecting_skips];
    [targets] is kept reversed (head = last = highest). *)
Fixpoint record_targets (first : loc) (seg_min : N) (rtargets : list N) (skips : list loc) : list N * list loc :=
  match rtargets with
  | [] => ([], skips)
  | t :: r => if (seg_min <=? t)%N then record_targets first seg_min r (skips ++ [first]) else (rtargets, skips)
  end.

Fixpoint walk_loop (fuel : nat) (st : store) (current : loc) (rtargets : list N) (skips : list loc) : rs (list loc) :=
  match fuel with
  | O => RErr EFuel
  | S f =>
    match get_segment st current with
    | None => RErr ENoSegment
    | Some s =>
      let '(rt, sk) := record_targets (first_location (lseg current) s) (s_mc s) rtargets skips in
      match rt with
      | [] => ROk sk
      | next :: _ =>
        match filter (fun x => (next <=? lmc x)%N && (lmc x <? lmc current)%N) (s_skip s) with
        | x :: r => walk_loop f st (min_by_mc x r) rt sk
        | [] =>
          match s_prior s with
          | PSingle p => if (next <=? lmc p)%N then walk_loop f st p rt sk else ROk sk
          | _ => ROk sk
          end
        end
      end
    end
  end.
Definition walk_collecting_skips (st : store) (start : loc) (targets : list N) : rs (list loc) :=
  walk_loop (S (length st)) st start (rev targets) [].

(** [sort_by_key(|loc| loc.max_cut)] (stable) and [dedup] (consecutive equals). *)
Fixpoint insert_by_mc (x : loc) (l : list loc) : list loc :=
  match l with
  | [] => [x]
  | y :: r => if (lmc x <? lmc y)%N then x :: l else y :: insert_by_mc x r
  end.
Definition sort_by_mc (l : list loc) : list loc := fold_left (fun acc x => insert_by_mc x acc) l [].
Fixpoint dedup (l : list loc) : list loc :=
  match l with
  | [] => []
  | x :: r => match r with
              | y :: _ => if loc_eqb x y then dedup r else x :: dedup r
              | [] => [x]
              end
  end.

(** [build_skip_list(prior, last_common_ancestor, n)]. *)
Definition build_skip_list (st : store) (p : prior loc) (lca : option loc) (n : N) : rs (list loc) :=
  match p with
  | PNone => ROk []
  | _ =>
    dor (walk_start, lca') <-
      match p with
      | PMerge _ _ => match lca with Some l => ROk (l, Some l) | None => RErr EBug end   (* "lca must exist" *)
      | PSingle l => ROk (l, None)
      | PNone => RErr EBug
      end;
    let only_lca := match lca' with Some l => [l] | None => [] end in
    dor rich <- has_nearby_rich_anchor st walk_start;
    if rich || (n <? MIN_SKIP_GAP)%N then ROk only_lca
    else
      dor targets <- skip_target_boundaries n;
      dor skips <- walk_collecting_skips st walk_start targets;
      let skips' := match lca' with
                    | Some l => if existsb (loc_eqb l) skips then skips else skips ++ [l]
                    | None => skips
                    end in
      ROk (dedup (sort_by_mc skips'))
  end.

(** A perspective, reduced to what [write] stores in the segment. *)
Record perspective := Persp {
  p_prior : prior loc;
  p_ids : list N;
  p_mc : N;
  p_lca : option loc;
}.

(** [LinearStorage::write]: appends the segment at the (backend-chosen) index [idx]. *)
Definition write (st : store) (idx : N) (p : perspective) : rs store :=
  match p_ids p with
  | [] => RErr EEmptyPerspective
  | _ =>
    dor skip <- build_skip_list st (p_prior p) (p_lca p) (p_mc p);
    ROk (st ++ [(idx, {| s_prior := p_prior p; s_ids := p_ids p; s_mc := p_mc p; s_skip := skip |})])
  end.

(** * Decidable comparisons for the correspondence *)
Definition oloc_eq (a b : option loc) : bool :=
  match a, b with None, None => true | Some x, Some y => loc_eqb x y | _, _ => false end.
Definition rs_oloc_agrees (r : rs (option loc)) (e : option loc) : bool :=
  match r with ROk a => oloc_eq a e | RErr _ => false end.
Definition rs_bool_agrees (r : rs bool) (e : bool) : bool :=
  match r with ROk a => Bool.eqb a e | RErr _ => false end.
Definition rs_locs_agrees (r : rs (list loc)) (e : list loc) : bool :=
  match r with ROk a => loc_list_eqb a e | RErr _ => false end.
