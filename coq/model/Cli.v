(** Executable meaning of the extracted skeleton of the policy compiler CLI (C31).

    [main_steps] and the four [validate_*] values come from [gen/GenCli.v], i.e.
    from the current text of main.rs / validate.rs; this file only says how such
    a skeleton runs. *)
From Aranya Require Import base.Tactics model.CliSyntax gen.GenCli.

Fixpoint eval_cond (env : atom -> bool) (c : cond) : bool :=
  match c with
  | CAtom a => env a
  | CConst b => b
  | CNot c => negb (eval_cond env c)
  | CAnd a b => eval_cond env a && eval_cond env b
  | COr a b => eval_cond env a || eval_cond env b
  end.

(** How the process ends.  [Aborted] is a Rust panic (exit status 101);
    [FellOff] would be a skeleton without tail expression (never produced). *)
Inductive status := Exited (e : exit_code) | Aborted | FellOff.

Record outcome := { st : status; created : bool; written : bool }.

(** [cr]: the output file has been created; [wr]: the module has been written to it. *)
Fixpoint run (env : atom -> bool) (steps : list step) (cr wr : bool) : outcome :=
  match steps with
  | [] => {| st := FellOff; created := cr; written := wr |}
  | SExit c e :: r =>
      if eval_cond env c then {| st := Exited e; created := cr; written := wr |} else run env r cr wr
  | SExpect a :: r =>
      if env a then run env r cr wr else {| st := Aborted; created := cr; written := wr |}
  | SCreate :: r =>
      if env A_create_ok then run env r true wr else {| st := Aborted; created := cr; written := wr |}
  | SWrite :: r =>
      if env A_write_ok then run env r cr cr else {| st := Aborted; created := cr; written := wr |}
  | SFinal e :: _ => {| st := Exited e; created := cr; written := wr |}
  end.

(** ** [validate] *)

(** The result of tracing one label: the tracer itself failed ([Err(TraceError)]),
    or it ran and reported [nfail] failures. *)
Inductive trace := TrErr | TrOk (nfail : nat).

Definition vexpr_eval (flag : bool) (e : vexpr) : bool :=
  match e with VConst b => b | VFlag => flag | VNotFlag => negb flag end.

(** The [for l in m.labels.keys()] loop. *)
Fixpoint validate_loop (flag : bool) (ts : list trace) : bool :=
  match ts with
  | [] => vexpr_eval flag validate_result
  | TrOk n :: r =>
      (* the inner [for .. in failures] loop runs its body [n] times *)
      validate_loop (match n with O => flag | S _ => vexpr_eval flag validate_on_failure end) r
  | TrErr :: r =>
      match validate_on_trace_error with
      | VReturn b => b
      | VReturnFlag => flag
      | VSet b => validate_loop b r
      | VIgnore => validate_loop flag r
      end
  end.

Definition validate (ts : list trace) : bool :=
  validate_loop (vexpr_eval false validate_flag_init) ts.

(** ** One invocation of the tool *)
Record world := {
  w_read_ok : bool;
  w_parse_ok : bool;
  w_compile_ok : bool;
  w_traces : list trace;      (* per label of the compiled module, in label order *)
  w_no_validate : bool;
  w_stub_ffi : bool;
  w_verbose : bool;
  w_create_ok : bool;
  w_write_ok : bool;
}.

Definition env_of (w : world) (a : atom) : bool :=
  match a with
  | A_read_ok => w_read_ok w
  | A_parse_ok => w_parse_ok w
  | A_compile_ok => w_compile_ok w
  | A_no_validate => w_no_validate w
  | A_validate_ret => validate (w_traces w)
  | A_stub_ffi => w_stub_ffi w
  | A_verbose => w_verbose w
  | A_create_ok => w_create_ok w
  | A_write_ok => w_write_ok w
  end.

Definition cli (w : world) : outcome := run (env_of w) main_steps false false.

(** The specification-level notion: every label was traced to completion and no
    analyzer reported a failure. *)
Definition trace_clean (t : trace) : bool := match t with TrOk O => true | _ => false end.
Definition validation_passes (w : world) : Prop := Forall (fun t => t = TrOk 0) (w_traces w).
