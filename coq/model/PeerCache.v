(** Model of [PeerCache::add_command] (crates/aranya-runtime/src/sync/responder.rs).

    The cache is a [heapless::Vec<LocatedAddress, PEER_HEAD_MAX>]: a list of
    (id, location) of length at most [PEER_HEAD_MAX] (generated).  The location
    of the new address is derived from committed storage by [get_location]; the
    [retain] closure calls [is_ancestor] both ways; an error inside the closure
    drops the head ([unwrap_or(false)]); a full cache drops the new entry
    ([push(..).ok()]). *)
From Aranya Require Import base.Tactics gen.GenQueue model.TravQueue model.SegStore.

Definition peer_cache := list (N * loc).

(** the closure [retain_head]: (keep this head?, add_command flag afterwards) *)
Definition retain_head (st : store) (new old : N * loc) (add : bool) : bool * bool :=
  if (fst old =? fst new)%N then (true, false)
  else
    match is_ancestor st (snd new) (snd old) with
    | RErr _ => (false, add)
    | ROk true => (true, false)
    | ROk false =>
      match is_ancestor st (snd old) (snd new) with
      | RErr _ => (false, add)
      | ROk true => (false, add)
      | ROk false => (true, add)
      end
    end.

(** [Vec::retain]: in order, the kept heads stay in order. *)
Fixpoint retain (st : store) (new : N * loc) (pc : peer_cache) (add : bool) : peer_cache * bool :=
  match pc with
  | [] => ([], add)
  | old :: r =>
    let '(keep, add1) := retain_head st new old add in
    let '(k, add2) := retain st new r add1 in
    (if keep then old :: k else k, add2)
  end.

Definition add_command (st : store) (hs : heads) (pc : peer_cache) (id mc : N) : rs peer_cache :=
  dor r <- get_location st hs id mc;
  match r with
  | None => ROk pc
  | Some l =>
    let new := (id, {| lmc := mc; lseg := lseg l |}) in
    let '(kept, add) := retain st new pc true in
    ROk (if add then (if (N.of_nat (length kept) <? PEER_HEAD_MAX)%N then kept ++ [new] else kept)
         else kept)
  end.

Definition cache_eqb (a b : peer_cache) : bool :=
  (length a =? length b) &&
  forallb (fun xy => (fst (fst xy) =? fst (snd xy))%N && loc_eqb (snd (fst xy)) (snd (snd xy))) (combine a b).
Definition rs_cache_agrees (r : rs peer_cache) (e : peer_cache) : bool :=
  match r with ROk a => cache_eqb a e | RErr _ => false end.
