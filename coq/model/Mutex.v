(** Interleaving model of [aranya-fast-channels/src/mutex.rs], Linux futex path
    ([Mutex::sys_lock], [Mutex::sys_unlock], [linux::futex_wait/futex_wake]).

    Shared state: the mutex word [key] (an [AtomicU32]), the protected value
    [data], and the kernel's futex wait queue [waitset] (thread ids, in arrival
    order).  Each thread repeats [lock; read data; write data+1; unlock]
    ([iters] further times).  One model step = one atomic operation of the
    real code (one yield point of the cfg-guarded hooks):

      site 1  PLockCas     compare_exchange(UNLOCKED -> LOCKED)          (fast path)
      site 2  PSpinLoad i  key.load() in the passive spin loop, round i
      site 3  PSpinCas i   compare_exchange(UNLOCKED -> wait)
      site 4  PYield i     sched_yield()
      site 5  PSwap        swap(SLEEPING)
      site 6  PFutexWait   futex_wait(key, SLEEPING): sleeps iff key = SLEEPING *now*
      site 7  PSleeping    asleep while in [waitset]; once removed (futex_wake or a
                           spurious wake-up) the next step is the return from the call
      site 13 PCrit0       (client) read the protected value
      site 14 PCrit1       (client) write it back incremented
      site 8  PUnlock      swap(UNLOCKED) and the [match] on the old value
      site 9  PWake        futex_wake(key, 1)

    Events: [Run t c] lets thread [t] perform its next operation ([c] selects
    which sleeper a [futex_wake] removes from the queue); [Spur t] is a
    spurious wake-up of a sleeping thread. *)
From Coq Require Import String.
From Aranya Require Import base.Tactics base.Interleave gen.GenConc.
Open Scope N_scope.

Inductive pc :=
| PLockCas | PSpinLoad (i : nat) | PSpinCas (i : nat) | PYield (i : nat) | PSwap
| PFutexWait | PSleeping | PCrit0 | PCrit1 | PUnlock | PWake | PDone | PBug.

Record local := L { lpc : pc; wait : N; tmp : N; iters : nat }.
Record shared := S { key : N; data : N; waitset : list nat }.
Inductive event := Run (t : nat) (c : nat) | Spur (t : nat).

Definition tid_of (e : event) : nat := match e with Run t _ => t | Spur t => t end.

Definition set_pc (l : local) (p : pc) : local := L p (wait l) (tmp l) (iters l).
Definition set_key (s : shared) (k : N) : shared := S k (data s) (waitset s).
Definition set_ws (s : shared) (w : list nat) : shared := S (key s) (data s) w.

(** [for _ in 0..PASSIVE_SPIN]: round [i] of the loop, or the code after it. *)
Definition spin_at (i : nat) : pc := if (i <? passive_spin)%nat then PSpinLoad i else PSwap.

(** End of one [lock … unlock]: the next acquisition or the end of the thread. *)
Definition next_iter (l : local) : local :=
  match iters l with
  | O => L PDone (wait l) (tmp l) O
  | Datatypes.S k => L PLockCas (wait l) (tmp l) k
  end.

Definition memb (t : nat) (w : list nat) : bool := existsb (Nat.eqb t) w.
Definition remove_tid (t : nat) (w : list nat) : list nat := filter (fun x => negb (Nat.eqb t x)) w.

(** [futex_wake(key, 1)]: removes one queued thread (choice [c]) if there is one. *)
Definition wake_one (c : nat) (w : list nat) : list nat :=
  match w with
  | [] => []
  | _ => remove_tid (nth (c mod length w) w O) w
  end.

Definition tstep (t c : nat) (l : local) (s : shared) : option (local * shared) :=
  match lpc l with
  | PLockCas =>
    if key s =? mutex_unlocked then Some (set_pc l PCrit0, set_key s mutex_locked)
    else Some (L (spin_at 0) (key s) (tmp l) (iters l), s)
  | PSpinLoad i =>
    if key s =? mutex_unlocked then Some (set_pc l (PSpinCas i), s)
    else Some (set_pc l (spin_at (Datatypes.S i)), s)
  | PSpinCas i =>
    if key s =? mutex_unlocked then Some (set_pc l PCrit0, set_key s (wait l))
    else Some (set_pc l (PYield i), s)
  | PYield i => Some (set_pc l (PSpinLoad i), s)
  | PSwap =>
    if key s =? mutex_unlocked then Some (set_pc l PCrit0, set_key s mutex_sleeping)
    else Some (L PFutexWait mutex_sleeping (tmp l) (iters l), set_key s mutex_sleeping)
  | PFutexWait =>
    if key s =? mutex_sleeping then Some (set_pc l PSleeping, set_ws s (waitset s ++ [t]))
    else Some (set_pc l (spin_at 0), s)
  | PSleeping =>
    if memb t (waitset s) then None else Some (set_pc l (spin_at 0), s)
  | PCrit0 => Some (L PCrit1 (wait l) (data s) (iters l), s)
  | PCrit1 => Some (set_pc l PUnlock, S (key s) (tmp l + 1) (waitset s))
  | PUnlock =>
    let old := key s in
    let s' := set_key s mutex_unlocked in
    if old =? mutex_unlocked then Some (set_pc l PBug, s')          (* bug!("unlock of locked mutex") *)
    else if old =? mutex_sleeping then Some (set_pc l PWake, s')
    else if old =? mutex_locked then Some (next_iter l, s')
    else Some (set_pc l PBug, s')                                   (* bug!("invalid mutex state") *)
  | PWake => Some (next_iter l, set_ws s (wake_one c (waitset s)))
  | PDone | PBug => None
  end.

Definition spur (t : nat) (l : local) (s : shared) : option (local * shared) :=
  match lpc l with
  | PSleeping => if memb t (waitset s) then Some (l, set_ws s (remove_tid t (waitset s))) else None
  | _ => None
  end.

Definition step (e : event) (l : local) (s : shared) : option (local * shared) :=
  match e with
  | Run t c => tstep t c l s
  | Spur t => spur t l s
  end.

Definition mstate := gstate shared local.

(** Thread [t] performs [n] acquisitions. *)
Definition init_local (n : nat) : local :=
  match n with
  | O => L PDone 0 0 O
  | Datatypes.S k => L PLockCas 0 0 k
  end.
Definition init (ns : list nat) : mstate := G (S mutex_unlocked 0 []) (map init_local ns).

Definition mstep := gstep tid_of step.
Definition mrun := run tid_of step.
Definition mtrace := trace tid_of step.

(** A thread is between the return of [lock] and its unlock swap. *)
Definition holdingb (p : pc) : bool :=
  match p with PCrit0 | PCrit1 | PUnlock => true | _ => false end.
(** A thread is inside [sys_lock] (and has not acquired yet). *)
Definition lockingb (p : pc) : bool :=
  match p with
  | PLockCas | PSpinLoad _ | PSpinCas _ | PYield _ | PSwap | PFutexWait | PSleeping => true
  | _ => false
  end.
Definition finishedb (p : pc) : bool := match p with PDone | PBug => true | _ => false end.
(** Asleep in the futex queue. *)
Definition asleepb (t : nat) (l : local) (s : shared) : bool :=
  match lpc l with PSleeping => memb t (waitset s) | _ => false end.

(** ---- observation used by the schedule-replay correspondence ---- *)

Definition site (t : nat) (l : local) (s : shared) : N :=
  match lpc l with
  | PLockCas => 1 | PSpinLoad _ => 2 | PSpinCas _ => 3 | PYield _ => 4 | PSwap => 5
  | PFutexWait => 6 | PSleeping => if memb t (waitset s) then 12 else 7
  | PCrit0 => 13 | PCrit1 => 14 | PUnlock => 8 | PWake => 9 | PDone => 15 | PBug => 16
  end.

Fixpoint sites_from (t : nat) (ls : list local) (s : shared) : list N :=
  match ls with
  | [] => []
  | l :: r => site t l s :: sites_from (Datatypes.S t) r s
  end.

(** [data; key; |waitset|; waitset…; site of thread 0; site of thread 1; …] *)
Definition obs_digits (g : mstate) : list N :=
  data (sh g) :: key (sh g) :: N.of_nat (length (waitset (sh g)))
  :: map N.of_nat (waitset (sh g)) ++ sites_from 0 (th g) (sh g).

Definition pack (ds : list N) : N := fold_left (fun acc d => acc * 32 + d) ds 0.
Definition obs (g : mstate) : N := pack (obs_digits g).

Definition hash_mod : N := 2305843009213693951.  (* 2^61 - 1 *)
Definition hash_step (h : N) (o : N) : N := (h * 1000003 + o + 1) mod hash_mod.
(** Rolling digest of the observations after every event of a schedule. *)
Fixpoint digest_from (h : N) (sched : list event) (g : mstate) : N * mstate :=
  match sched with
  | [] => (h, g)
  | e :: r => let g' := exec tid_of step g e in digest_from (hash_step h (obs g')) r g'
  end.
Definition digest (sched : list event) (g : mstate) : N * N :=
  let '(h, g') := digest_from 7 sched g in (h, obs g').

(** ---- the CAS-only fallback ([cas_mutex] feature / no libc / other OS) ----
    [sys_lock] = loop { compare_exchange(UNLOCKED -> LOCKED) } (site 10),
    [sys_unlock] = swap(UNLOCKED) (site 11); same client as above. *)

Inductive cpc := CLock | CCrit0 | CCrit1 | CUnlock | CDone.
Record clocal := CL { cpc_of : cpc; ctmp : N; citers : nat }.
Record cshared := CS { ckey : N; cdata : N }.
Definition cstep (e : nat) (l : clocal) (s : cshared) : option (clocal * cshared) :=
  match cpc_of l with
  | CLock => if ckey s =? mutex_unlocked then Some (CL CCrit0 (ctmp l) (citers l), CS mutex_locked (cdata s))
             else Some (l, s)
  | CCrit0 => Some (CL CCrit1 (cdata s) (citers l), s)
  | CCrit1 => Some (CL CUnlock (ctmp l) (citers l), CS (ckey s) (ctmp l + 1))
  | CUnlock => Some (match citers l with O => CL CDone (ctmp l) O | Datatypes.S n => CL CLock (ctmp l) n end,
                     CS mutex_unlocked (cdata s))
  | CDone => None
  end.
Definition cinit_local (n : nat) : clocal := match n with O => CL CDone 0 O | Datatypes.S k => CL CLock 0 k end.
Definition cstate := gstate cshared clocal.
Definition cinit (ns : list nat) : cstate := G (CS mutex_unlocked 0) (map cinit_local ns).
Definition crun := run (fun t : nat => t) cstep.
Definition choldingb (p : cpc) : bool := match p with CCrit0 | CCrit1 | CUnlock => true | _ => false end.
Definition csite (l : clocal) : N :=
  match cpc_of l with CLock => 10 | CCrit0 => 13 | CCrit1 => 14 | CUnlock => 11 | CDone => 15 end.
Definition cobs (g : cstate) : N := pack (cdata (sh g) :: ckey (sh g) :: 0 :: map csite (th g)).
Fixpoint cdigest_from (h : N) (sched : list nat) (g : cstate) : N * cstate :=
  match sched with
  | [] => (h, g)
  | e :: r => let g' := exec (fun t : nat => t) cstep g e in cdigest_from (hash_step h (cobs g')) r g'
  end.
Definition cdigest (sched : list nat) (g : cstate) : N * N :=
  let '(h, g') := cdigest_from 7 sched g in (h, cobs g').
