(** Model of the AFC shared-memory channel table:
    [aranya-fast-channels/src/shm/{shared,write,read}.rs].

    Shared memory holds two copies ("sides" A and B) of the channel list, each
    behind its own mutex and each with a generation counter, two selectors
    [read_off] / [write_off] and the channel-id counter.  The single writer
    ([WriteState]: add / remove / remove_if / remove_all / exists) and any
    number of readers ([ReadState]: setup_seal_ctx / setup_open_ctx / seal /
    open / exists) are transcribed as step functions at the granularity of
    the code's atomic accesses and mutex-protected sections:

      writer  add:        start; next_chan_id.fetch_add; load write_off;
                          [lock W: full? -> OutOfSpace | init chan at len, gen++, len++];
                          read_off.swap(W) -> R; [lock R: init chan at idx, gen++, len++];
                          write_off.store(R)
              remove:     start; load write_off; [lock W: empty/not found -> Ok | gen++, swap_remove idx];
                          swap; [lock R: gen++, swap_remove idx]; store
              remove_if:  start; load write_off; [lock W: empty -> Ok | list.remove_if f];
                          swap; [lock R: list.remove_if f]; store
              remove_all: start; load write_off; [lock W: clear]; swap; [lock R: clear]; store
              exists:     start; load write_off; [lock W: find]
      reader  seal/open:  start (ctx empty -> KeyExpired); load read_off;
                          unlocked generation load, compare with the cached generation
                          (equal -> call f on the cached key); [lock: find with index hint,
                          re-derive the key at the cached sequence number, call f, update the
                          cache only on success | not found -> NotFound (seal also empties the ctx)]
              setup_*:    start; load read_off; [lock: generation load, find, new cache at seq 0]
              exists:     start; load read_off; [lock: find]

    A mutex-protected section is one step (the mutex is proved exclusive in
    C43).  A section contains at most one generation write and an unlocked
    reader observes nothing of a list but its generation, so placing the whole
    section at one point of the interleaving loses no reader observation.
    "start" is the thread entering the call (no shared access); it makes "the
    first step of an operation" a position in the schedule.

    [gen] counts modifications without wrapping; every *load* of it goes
    through [load_gen] (mod 2^32, the [AtomicU32] of the code), which is
    observationally the wrapping counter.  [reg] and [hist] are ghost fields
    (every channel ever written by add / every list version the writer
    produced); no step reads them. *)
From Coq Require Import String.
From Aranya Require Import gen.GenShm base.Tactics base.Sched.

Inductive dir := DSeal | DOpen.
Inductive opk := OSeal | OOpen | OAny.

Fixpoint discr_of (name : string) (l : list (string * N)) : N :=
  match l with
  | [] => 0%N
  | (n, v) :: r => if String.eqb n name then v else discr_of name r
  end.
Definition dir_u32 (d : dir) : N :=
  match d with
  | DSeal => discr_of "SealOnly"%string chandirection_discr
  | DOpen => discr_of "OpenOnly"%string chandirection_discr
  end.
Definition op_u32 (o : opk) : N :=
  match o with
  | OSeal => discr_of "Seal"%string op_discr
  | OOpen => discr_of "Open"%string op_discr
  | OAny => discr_of "Any"%string op_discr
  end.
(** [ChanDirection::matches]: [self.to_u32() & op.to_u32() != 0]. *)
Definition matches (d : dir) (o : opk) : bool := negb (N.land (dir_u32 d) (op_u32 o) =? 0)%N.
Definition op_of_dir (d : dir) : opk := match d with DSeal => OSeal | DOpen => OOpen end.
Definition dir_eqb (a b : dir) : bool :=
  match a, b with DSeal, DSeal | DOpen, DOpen => true | _, _ => false end.

Record chan := { cid : N; cdir : dir; ckey : N; clabel : N; cpeer : N }.
Definition mkchan (id : N) (d : dir) (k l p : N) : chan :=
  {| cid := id; cdir := d; ckey := k; clabel := l; cpeer := p |}.

Record side := { gen : N; cap : N; chans : list chan }.
Definition load_gen (s : side) : N := (gen s mod gen_modulus)%N.
Definition bump (s : side) (l : list chan) : side :=
  {| gen := gen s + 1; cap := cap s; chans := l |}.

(** ** [ChanListData::find] / [find_mut] *)
Definition chan_ok (id : N) (o : opk) (c : chan) : bool := (cid c =? id)%N && matches (cdir c) o.

Fixpoint find_lin (l : list chan) (id : N) (o : opk) (i : nat) : option (chan * nat) :=
  match l with
  | [] => None
  | c :: r => if chan_ok id o c then Some (c, i) else find_lin r id o (S i)
  end.

Definition find (l : list chan) (id : N) (hint : option nat) (o : opk) : option (chan * nat) :=
  match hint with
  | Some h =>
      match nth_error l h with
      | Some c => if chan_ok id o c then Some (c, h) else find_lin l id o 0
      | None => find_lin l id o 0
      end
  | None => find_lin l id o 0
  end.

(** ** [ChanListData::swap_remove] : [None] is the [Corrupted] error *)
Fixpoint unsnoc (l : list chan) : option (list chan * chan) :=
  match l with
  | [] => None
  | x :: r => match unsnoc r with
              | None => Some ([], x)
              | Some (b, y) => Some (x :: b, y)
              end
  end.
Fixpoint set_nth (l : list chan) (i : nat) (x : chan) : list chan :=
  match l, i with
  | [], _ => []
  | _ :: r, O => x :: r
  | y :: r, S i' => y :: set_nth r i' x
  end.
Definition swap_remove (l : list chan) (idx : nat) : option (list chan) :=
  match unsnoc l with
  | None => None                                   (* len == 0 *)
  | Some (body, x) =>
      if (idx <? length body)%nat then Some (set_nth body idx x)   (* swap(idx, len-1); len -= 1 *)
      else if (idx =? length body)%nat then Some body              (* idx = len-1 *)
      else None                                                    (* idx >= len *)
  end.

(** ** [ChanListData::remove_if] *)
Definition pred := N -> N -> N -> dir -> bool.     (* id, label, peer, direction *)
Definition papply (p : pred) (c : chan) : bool := p (cid c) (clabel c) (cpeer c) (cdir c).

Fixpoint remove_if_loop (fuel : nat) (p : pred) (l : list chan) (idx : nat) (upd : bool)
  : option (list chan * bool) :=
  match fuel with
  | O => Some (l, upd)
  | S f =>
      match nth_error l idx with
      | None => Some (l, upd)
      | Some c =>
          if papply p c then
            match swap_remove l idx with
            | Some l' => remove_if_loop f p l' idx true
            | None => None
            end
          else remove_if_loop f p l (S idx) upd
      end
  end.
(** each iteration either advances [idx] or shortens the list *)
Definition list_remove_if (p : pred) (l : list chan) : option (list chan * bool) :=
  remove_if_loop (S (length l)) p l 0 false.

(** ** Shared memory *)
Inductive off := OA | OB.
Definition flip (o : off) : off := match o with OA => OB | OB => OA end.
Definition off_eqb (a b : off) : bool := match a, b with OA, OA | OB, OB => true | _, _ => false end.

Record shm := { sA : side; sB : side; roff : off; woff : off; next_id : N }.
Definition side_of (m : shm) (o : off) : side := match o with OA => sA m | OB => sB m end.
Definition set_side (m : shm) (o : off) (s : side) : shm :=
  match o with
  | OA => {| sA := s; sB := sB m; roff := roff m; woff := woff m; next_id := next_id m |}
  | OB => {| sA := sA m; sB := s; roff := roff m; woff := woff m; next_id := next_id m |}
  end.
Definition set_roff (m : shm) (o : off) : shm :=
  {| sA := sA m; sB := sB m; roff := o; woff := woff m; next_id := next_id m |}.
Definition set_woff (m : shm) (o : off) : shm :=
  {| sA := sA m; sB := sB m; roff := roff m; woff := o; next_id := next_id m |}.
Definition set_next (m : shm) (n : N) : shm :=
  {| sA := sA m; sB := sB m; roff := roff m; woff := woff m; next_id := n |}.

Definition off_of_name (n : string) : off := if String.eqb n "side_a"%string then OA else OB.
Definition init_shm (max_chans : N) : shm :=
  let s := {| gen := generation_init; cap := max_chans; chans := [] |} in
  {| sA := s; sB := s; roff := off_of_name read_off_init; woff := off_of_name write_off_init;
     next_id := next_chan_id_init |}.

(** ** The writer *)
Inductive wop :=
| WAdd (d : dir) (key label peer : N)
| WRemove (id : N)
| WRemoveIf (p : pred)
| WRemoveAll
| WExists (id : N).
Inductive wres := WOkUnit | WOkId (id : N) | WOkBool (b : bool) | WOutOfSpace | WCorrupted | WPanic | WDiverged.
(** W0 between calls; W1 [next_chan_id.fetch_add] (add only); W2 load [write_off];
    W3 first locked section; W4 [read_off.swap]; W5 second locked section;
    W6 [write_off.store]. *)
Inductive wpc := W0 | W1 | W2 | W3 | W4 | W5 | W6.

Inductive s1res := S1Fin (r : wres) | S1Go (s' : side) (idx : nat).
Definition sec1 (op : wop) (id : N) (s : side) : s1res :=
  match op with
  | WAdd d k l p =>
      if (cap s <=? N.of_nat (length (chans s)))%N then S1Fin WOutOfSpace
      else S1Go (bump s (chans s ++ [mkchan id d k l p])) (length (chans s))
  | WRemove rid =>
      if (length (chans s) =? 0)%nat then S1Fin WOkUnit
      else match find_lin (chans s) rid OAny 0 with
           | None => S1Fin WOkUnit
           | Some (_, idx) =>
               match swap_remove (chans s) idx with
               | Some l' => S1Go (bump s l') idx
               | None => S1Fin WCorrupted
               end
           end
  | WRemoveIf p =>
      if (length (chans s) =? 0)%nat then S1Fin WOkUnit
      else match list_remove_if p (chans s) with
           | Some (l', upd) =>
               S1Go {| gen := if upd then gen s + 1 else gen s; cap := cap s; chans := l' |} 0
           | None => S1Fin WCorrupted
           end
  | WRemoveAll => S1Go (bump s []) 0
  | WExists eid => S1Fin (WOkBool (match find (chans s) eid None OAny with Some _ => true | None => false end))
  end.

Inductive s2res := S2Err (r : wres) | S2Ok (s' : side).
Definition sec2 (op : wop) (id : N) (idx : nat) (s : side) : s2res :=
  match op with
  | WAdd d k l p =>
      (* [raw_at(idx)] fails beyond the capacity; the list model can express the
         write only at [idx = len] (the only case that occurs: sides_mirror) *)
      if (cap s <=? N.of_nat idx)%N then S2Err WCorrupted
      else if (idx =? length (chans s))%nat then S2Ok (bump s (chans s ++ [mkchan id d k l p]))
      else S2Err WDiverged
  | WRemove _ =>
      match swap_remove (chans s) idx with
      | Some l' => S2Ok (bump s l')
      | None => S2Err WCorrupted
      end
  | WRemoveIf p =>
      if (length (chans s) =? 0)%nat then S2Err WPanic          (* debug_assert!(side.len > 0) *)
      else match list_remove_if p (chans s) with
           | Some (l', upd) => S2Ok {| gen := if upd then gen s + 1 else gen s; cap := cap s; chans := l' |}
           | None => S2Err WCorrupted
           end
  | WRemoveAll => S2Ok (bump s [])
  | WExists _ => S2Err WCorrupted                                (* exists never gets here *)
  end.

Record wthread := {
  wpc_ : wpc; w_id : N; w_w : off; w_idx : nat; w_r : off;
  wprog : list wop; wlog : list (wop * wres) }.

(** ** Readers *)
Record cache := { kid : N; klabel : N; kkey : N; kseq : N; kgen : N; kidx : nat }.
(** [xid] is a ghost copy of the channel the context was set up for (an emptied
    [SealCtx(None)] no longer holds it). *)
Record ctx := { xdir : dir; xid : N; xcache : option cache }.
(** how the caller's [f] behaves: [MClient] is [Client::seal]'s closure (the
    AEAD seal of [SealKey]); [MFailF] a closure that returns [Err] without
    touching the key. *)
Inductive smode := MClient | MFailF.
Inductive rop :=
| RSetup (d : dir) (id : N)
| RSeal (c : nat) (m : smode)
| ROpen (c : nat) (key label : N) (valid : bool)   (* ciphertext made under [key]/[label]; [valid] = untampered *)
| RExists (id : N).
(** result of [f] for a seal: [hpke::SealCtx::seal] — the nonce needs
    [seq < max]; the counter moves only after a successful AEAD seal *)
Inductive fres := FOk (seq : N) | FLimit | FErr.
Inductive rres :=
| RCtx (c : nat) | RNotFound | RKeyExpired
| RSealed (c : nat) (f : fres) (key label : N)
| ROpened (c : nat) (ok : bool) (label : N)
| RBool (b : bool) | RInvalid | RDropped.
Inductive rpc := R0 | R1 | R2 | R3.

Definition sealf (seqmax : N) (m : smode) (seq : N) : fres * N :=
  match m with
  | MFailF => (FErr, seq)
  | MClient => if (seqmax <=? seq)%N then (FLimit, seq) else (FOk seq, (seq + 1)%N)
  end.

Record rthread := {
  rpc_ : rpc; r_off : off;
  rprog : list rop; rlog : list (rop * rres); rctxs : list ctx }.

(** ** Global state and steps *)
Record G := {
  sh : shm; wt : wthread; rts : list rthread;
  seqmax : N;
  reg : list chan;            (* ghost: every channel an add wrote *)
  hist : list (list chan) }.  (* ghost: list versions, newest first *)

Definition with_sh_wt (g : G) (m : shm) (w : wthread) : G :=
  {| sh := m; wt := w; rts := rts g; seqmax := seqmax g; reg := reg g; hist := hist g |}.

Definition w_at (w : wthread) (pc : wpc) : wthread :=
  {| wpc_ := pc; w_id := w_id w; w_w := w_w w; w_idx := w_idx w; w_r := w_r w;
     wprog := wprog w; wlog := wlog w |}.
Definition w_finish (w : wthread) (op : wop) (r : wres) : wthread :=
  {| wpc_ := W0; w_id := w_id w; w_w := w_w w; w_idx := w_idx w; w_r := w_r w;
     wprog := tl (wprog w); wlog := (op, r) :: wlog w |}.

Definition new_chans (op : wop) (id : N) : list chan :=
  match op with WAdd d k l p => [mkchan id d k l p] | _ => [] end.

Definition wstep (g : G) : G :=
  let w := wt g in
  let m := sh g in
  match wprog w with
  | [] => g
  | op :: _ =>
      match wpc_ w with
      | W0 => with_sh_wt g m (w_at w (match op with WAdd _ _ _ _ => W1 | _ => W2 end))
      | W1 =>
          with_sh_wt g (set_next m (next_id m + 1))
            {| wpc_ := W2; w_id := next_id m; w_w := w_w w; w_idx := w_idx w; w_r := w_r w;
               wprog := wprog w; wlog := wlog w |}
      | W2 =>
          with_sh_wt g m
            {| wpc_ := W3; w_id := w_id w; w_w := woff m; w_idx := w_idx w; w_r := w_r w;
               wprog := wprog w; wlog := wlog w |}
      | W3 =>
          let s := side_of m (w_w w) in
          match sec1 op (w_id w) s with
          | S1Fin r => with_sh_wt g m (w_finish w op r)
          | S1Go s' idx =>
              {| sh := set_side m (w_w w) s';
                 wt := {| wpc_ := W4; w_id := w_id w; w_w := w_w w; w_idx := idx; w_r := w_r w;
                          wprog := wprog w; wlog := wlog w |};
                 rts := rts g; seqmax := seqmax g;
                 reg := reg g ++ new_chans op (w_id w);
                 hist := if (gen s' =? gen s)%N then hist g else chans s' :: hist g |}
          end
      | W4 =>
          with_sh_wt g (set_roff m (w_w w))
            {| wpc_ := W5; w_id := w_id w; w_w := w_w w; w_idx := w_idx w; w_r := roff m;
               wprog := wprog w; wlog := wlog w |}
      | W5 =>
          match sec2 op (w_id w) (w_idx w) (side_of m (w_r w)) with
          | S2Err r => with_sh_wt g m (w_finish w op r)
          | S2Ok s' => with_sh_wt g (set_side m (w_r w) s') (w_at w W6)
          end
      | W6 =>
          with_sh_wt g (set_woff m (w_r w))
            (w_finish w op (match op with WAdd _ _ _ _ => WOkId (w_id w) | _ => WOkUnit end))
      end
  end.

Definition r_at (r : rthread) (pc : rpc) : rthread :=
  {| rpc_ := pc; r_off := r_off r; rprog := rprog r; rlog := rlog r; rctxs := rctxs r |}.
Definition r_finish (r : rthread) (op : rop) (res : rres) (cs : list ctx) : rthread :=
  {| rpc_ := R0; r_off := r_off r; rprog := tl (rprog r); rlog := (op, res) :: rlog r; rctxs := cs |}.

Fixpoint set_ctx (l : list ctx) (i : nat) (x : ctx) : list ctx :=
  match l, i with
  | [], _ => []
  | _ :: r, O => x :: r
  | y :: r, S i' => y :: set_ctx r i' x
  end.

(** the live cache of ctx [c] if it has direction [d] *)
Definition cache_of (cs : list ctx) (c : nat) (d : dir) : option (option cache) :=
  match nth_error cs c with
  | Some x => if dir_eqb (xdir x) d then Some (xcache x) else None
  | None => None
  end.
Definition with_seq (k : cache) (sq : N) : cache :=
  {| kid := kid k; klabel := klabel k; kkey := kkey k; kseq := sq; kgen := kgen k; kidx := kidx k |}.
Definition open_ok (k l key label : N) (valid : bool) : bool := (k =? key)%N && (l =? label)%N && valid.

Definition rstep1 (smax : N) (m : shm) (r : rthread) : rthread :=
  match rprog r with
  | [] => r
  | op :: _ =>
      match rpc_ r with
      | R0 =>
          match op with
          | RSeal c _ =>
              match cache_of (rctxs r) c DSeal with
              | Some None => r_finish r op RKeyExpired (rctxs r)
              | Some (Some _) => r_at r R1
              | None => r_finish r op RInvalid (rctxs r)
              end
          | ROpen c _ _ _ =>
              match cache_of (rctxs r) c DOpen with
              | Some None => r_finish r op RKeyExpired (rctxs r)
              | Some (Some _) => r_at r R1
              | None => r_finish r op RInvalid (rctxs r)
              end
          | _ => r_at r R1
          end
      | R1 =>
          {| rpc_ := match op with RSeal _ _ | ROpen _ _ _ _ => R2 | _ => R3 end;
             r_off := roff m; rprog := rprog r; rlog := rlog r; rctxs := rctxs r |}
      | R2 =>
          let s := side_of m (r_off r) in
          match op with
          | RSeal c md =>
              match cache_of (rctxs r) c DSeal with
              | Some (Some k) =>
                  if (load_gen s =? kgen k)%N then
                    let '(fr, sq) := sealf smax md (kseq k) in
                    r_finish r op (RSealed c fr (kkey k) (klabel k))
                      (set_ctx (rctxs r) c {| xdir := DSeal; xid := kid k; xcache := Some (with_seq k sq) |})
                  else r_at r R3
              | _ => r_finish r op RInvalid (rctxs r)
              end
          | ROpen c key label valid =>
              match cache_of (rctxs r) c DOpen with
              | Some (Some k) =>
                  if (load_gen s =? kgen k)%N then
                    r_finish r op (ROpened c (open_ok (kkey k) (klabel k) key label valid) (klabel k)) (rctxs r)
                  else r_at r R3
              | _ => r_finish r op RInvalid (rctxs r)
              end
          | _ => r_finish r op RInvalid (rctxs r)
          end
      | R3 =>
          let s := side_of m (r_off r) in
          match op with
          | RSetup d id =>
              match find (chans s) id None (op_of_dir d) with
              | None => r_finish r op RNotFound (rctxs r)
              | Some (ch, idx) =>
                  r_finish r op (RCtx (length (rctxs r)))
                    (rctxs r ++ [{| xdir := d; xid := id;
                                    xcache := Some {| kid := id; klabel := clabel ch; kkey := ckey ch;
                                                      kseq := 0; kgen := load_gen s; kidx := idx |} |}])
              end
          | RSeal c md =>
              match cache_of (rctxs r) c DSeal with
              | Some (Some k) =>
                  match find (chans s) (kid k) (Some (kidx k)) OSeal with
                  | None =>
                      r_finish r op RNotFound (set_ctx (rctxs r) c {| xdir := DSeal; xid := kid k; xcache := None |})
                  | Some (ch, idx) =>
                      let '(fr, sq) := sealf smax md (kseq k) in
                      r_finish r op (RSealed c fr (ckey ch) (clabel ch))
                        (match fr with
                         | FOk _ =>
                             set_ctx (rctxs r) c
                               {| xdir := DSeal; xid := kid k;
                                  xcache := Some {| kid := kid k; klabel := klabel k; kkey := ckey ch;
                                                    kseq := sq; kgen := load_gen s; kidx := idx |} |}
                         | _ => rctxs r
                         end)
                  end
              | _ => r_finish r op RInvalid (rctxs r)
              end
          | ROpen c key label valid =>
              match cache_of (rctxs r) c DOpen with
              | Some (Some k) =>
                  match find (chans s) (kid k) (Some (kidx k)) OOpen with
                  | None => r_finish r op RNotFound (rctxs r)
                  | Some (ch, idx) =>
                      let ok := open_ok (ckey ch) (clabel ch) key label valid in
                      r_finish r op (ROpened c ok (clabel ch))
                        (if ok then
                           set_ctx (rctxs r) c
                             {| xdir := DOpen; xid := kid k;
                                xcache := Some {| kid := kid k; klabel := klabel k; kkey := ckey ch;
                                                  kseq := kseq k; kgen := load_gen s; kidx := idx |} |}
                         else rctxs r)
                  end
              | _ => r_finish r op RInvalid (rctxs r)
              end
          | RExists id =>
              r_finish r op (RBool (match find (chans s) id None OAny with Some _ => true | None => false end)) (rctxs r)
          end
      end
  end.

Fixpoint upd_nth {A} (l : list A) (i : nat) (f : A -> A) : list A :=
  match l, i with
  | [], _ => []
  | x :: r, O => f x :: r
  | x :: r, S i' => x :: upd_nth r i' f
  end.

Definition rstep (i : nat) (g : G) : G :=
  {| sh := sh g; wt := wt g; rts := upd_nth (rts g) i (rstep1 (seqmax g) (sh g));
     seqmax := seqmax g; reg := reg g; hist := hist g |}.

(** thread 0 is the writer, thread [S i] is reader [i] *)
Definition step (t : nat) (g : G) : G :=
  match t with
  | O => wstep g
  | S i => rstep i g
  end.

Definition init_w (p : list wop) : wthread :=
  {| wpc_ := W0; w_id := 0; w_w := OA; w_idx := 0; w_r := OA; wprog := p; wlog := [] |}.
Definition init_r (p : list rop) : rthread :=
  {| rpc_ := R0; r_off := OA; rprog := p; rlog := []; rctxs := [] |}.
Definition init (max_chans smax : N) (wp : list wop) (rps : list (list rop)) : G :=
  {| sh := init_shm max_chans; wt := init_w wp; rts := map init_r rps;
     seqmax := smax; reg := []; hist := [[]] |}.

Definition runs (sched : list nat) (g : G) : G := run step sched g.

(** ** Drivers for the correspondence runs *)
Definition done_count (t : nat) (g : G) : nat :=
  match t with
  | O => length (wlog (wt g))
  | S i => match nth_error (rts g) i with Some r => length (rlog r) | None => 0 end
  end.
Definition remaining (t : nat) (g : G) : nat :=
  match t with
  | O => length (wprog (wt g))
  | S i => match nth_error (rts g) i with Some r => length (rprog r) | None => 0 end
  end.
(** run thread [t] until its current operation has returned *)
Fixpoint run_op (fuel : nat) (t : nat) (g : G) : G :=
  match fuel with
  | O => g
  | S f => let g' := step t g in
           if (done_count t g' =? done_count t g)%nat then run_op f t g' else g'
  end.
(** sequential execution: the i-th entry says which thread runs its next operation to completion *)
Definition run_seq (order : list nat) (g : G) : G := fold_left (fun g t => run_op 8 t g) order g.

(** the site a thread's next step will execute (0 = none) — compared with the
    yield-point trace of the hooked code in the schedule replay *)
Definition wsite (w : wthread) : N :=
  match wprog w with
  | [] => 0
  | op :: _ =>
      match wpc_ w with
      | W0 => 1 | W1 => 100 | W2 => 101 | W3 => 102 | W4 => 103 | W5 => 104 | W6 => 105
      end
  end%N.
Definition rsite (r : rthread) : N :=
  match rprog r with
  | [] => 0
  | op :: _ =>
      match rpc_ r with
      | R0 => 1 | R1 => 110 | R2 => 111 | R3 => 112
      end
  end%N.
Definition site (t : nat) (g : G) : N :=
  match t with
  | O => wsite (wt g)
  | S i => match nth_error (rts g) i with Some r => rsite r | None => 0%N end
  end.
Fixpoint run_trace (sched : list nat) (g : G) : list N * G :=
  match sched with
  | [] => ([], g)
  | t :: r => let '(tr, g') := run_trace r (step t g) in (site t g :: tr, g')
  end.

(** canonical encodings of results as lists of numbers *)
Definition wres_code (r : wres) : list N :=
  match r with
  | WOkUnit => [0] | WOkId id => [1; id] | WOkBool b => [2; if b then 1 else 0]
  | WOutOfSpace => [3] | WCorrupted => [4] | WPanic => [5] | WDiverged => [6]
  end%N.
Definition fres_code (f : fres) : list N :=
  match f with FOk s => [0; s] | FLimit => [1] | FErr => [2] end%N.
Definition rres_code (r : rres) : list N :=
  match r with
  | RCtx c => [0; N.of_nat c] | RNotFound => [1] | RKeyExpired => [2]
  | RSealed c f k l => [3; N.of_nat c] ++ fres_code f ++ [k; l]
  | ROpened c ok l => [4; N.of_nat c; if ok then 1 else 0; l]
  | RBool b => [5; if b then 1 else 0] | RInvalid => [6] | RDropped => [8]
  end%N.
(** what the harness can observe of a reader result: [Client::seal] reports the
    sequence limit as [KeyExpired]; a failing [f] / a failed open do not reveal the key *)
Definition rres_canon (r : rres) : list N :=
  match r with
  | RSealed c FLimit _ _ => [2]
  | RSealed c FErr _ l => [3; N.of_nat c; 2; l]
  | ROpened c false _ => [4; N.of_nat c; 0]
  | _ => rres_code r
  end%N.
Definition wresults (g : G) : list (list N) := rev (map (fun x => wres_code (snd x)) (wlog (wt g))).
Definition rresults (g : G) : list (list (list N)) :=
  map (fun r => rev (map (fun x => rres_canon (snd x)) (rlog r))) (rts g).

(** compact transport of short lists of small numbers in generated case files:
    little-endian base-256 digits, each stored as value+1 *)
Fixpoint unpack_fuel (fuel : nat) (n : N) : list N :=
  match fuel with
  | O => []
  | S f => if (n =? 0)%N then [] else ((n mod 256) - 1)%N :: unpack_fuel f (n / 256)%N
  end.
Definition unpack (n : N) : list N := unpack_fuel (N.to_nat (N.size n)) n.

(** one correspondence case: sequential prefix, scheduled middle part, sequential suffix *)
Definition run_case (max_chans smax : N) (wp : list wop) (rps : list (list rop))
    (pre sched suf : list nat) : list (list N) * list (list (list N)) * list N :=
  let g1 := run_seq pre (init max_chans smax wp rps) in
  let '(tr, g2) := run_trace sched g1 in
  let g3 := run_seq suf g2 in
  (wresults g3, rresults g3, tr).
