(** Model of the hello-notification decision
    (crates/aranya-runtime/src/client.rs [hello_head], [should_sync_on_hello];
    client/transaction.rs [synthetic_head], [fold_merge_pairs];
    policy.rs [MergeIds::new]).

    A replica is a head set over the global command graph [g] (model/Dag.v):
    its committed commands are the ancestors-or-equal of its heads.  The id of
    a merge command is a function [merge_id] of its (id-sorted) parents — the
    hash of aranya-crypto's [merge_cmd_id] / of the policy's merge command —
    kept abstract here (Section variable). *)
From Aranya Require Import base.Tactics model.Dag model.Wire.
Local Open Scope N_scope.

Section Hello.
Variable merge_id : N -> N -> N.

(** [MergeIds::new(a, b)] orders the two addresses by id; [policy.merge] builds the
    command; its address is (merge id, max(max cuts) + 1).  Equal ids are a [Bug]. *)
Definition merge_addr (a b : addr) : addr :=
  let '(l, r) := if aid a <? aid b then (a, b) else (b, a) in
  A (merge_id (aid l) (aid r)) (N.max (amc l) (amc r) + 1).

(** [fold_merge_pairs]: pop two off the front, push the merge on the back, until one remains *)
Fixpoint fold_pairs (fuel : nat) (q : list addr) : option addr :=
  match fuel with
  | O => None
  | S f =>
    match q with
    | [] => None                                   (* bug!("head set was empty") *)
    | [x] => Some x
    | l :: r :: rest => if aid l =? aid r then None else fold_pairs f (rest ++ [merge_addr l r])
    end
  end.

(** [synthetic_head] over the head set in its stored order (sorted by id) *)
Definition synthetic_head (heads : list addr) : option addr :=
  match heads with
  | [x] => Some x
  | _ => fold_pairs (length heads) heads
  end.

Definition head_addr (g : graph) (h : N) : addr := A h (max_cut g h).
Definition hello_head (g : graph) (hs : list N) : option addr := synthetic_head (map (head_addr g) hs).

(** committed = ancestor-or-equal of a head *)
Definition committedb (g : graph) (hs : list N) (x : N) : bool := existsb (fun h => ancb g x h) hs.

(** [get_location(addr).is_some()]: the command is committed and sits at that max cut *)
Definition has_addr (g : graph) (hs : list N) (a : addr) : bool :=
  committedb g hs (aid a) && (max_cut g (aid a) =? amc a).

(** [should_sync_on_hello]; [None] as replica = the graph is not stored; result [None] = error *)
Definition should_sync (rep : option (graph * list N)) (a : addr) : option bool :=
  match rep with
  | None => Some true
  | Some (g, hs) =>
    match hello_head g hs with
    | None => None
    | Some hh => if addr_eqb hh a then Some false else Some (negb (has_addr g hs a))
    end
  end.
End Hello.
