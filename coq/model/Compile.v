(** Transcription of [aranya-policy-compiler/src/compile.rs] for the modelled
    fragment: [compile_typed_expression], [compile_typed_statement(s)],
    [compile_match_statement_or_expression], [compile_fact_literal],
    [compile_function_like] and the per-item wrappers, [anonymous_label] /
    [define_label], [resolve_targets], and the top-level [compile].

    Code is emitted into a [cstate] exactly as the Rust code appends to
    [progmem]: [wp] is the length of the code so far, temporary labels are the
    values of the counter [c] ([anonymous_label] names them "anonymous<c>"; the
    names are dropped by [resolve_targets]), named labels are [GenVm.Label]s.
    Before resolution a branch target is a [ptarget]; [resolve_targets] turns
    the code into [GenVm.Instruction]s with [T_Resolved] addresses.

    The checks of [lower.rs] ([Typing.v]) run, as in the compiler, per
    function-like item just before its body is emitted, so the first error has
    the compiler's class.  No proofs here. *)
From Aranya Require Import model.VmBase gen.GenVm model.Vm model.Lang model.Typing.
Local Open Scope string_scope.
Local Open Scope N_scope.

Inductive ptarget : Type :=
  | PT_Temp (k : N)          (* Target::Unresolved(temporary label number k) *)
  | PT_Label (l : Label)     (* Target::Unresolved(named label) *)
  | PT_Addr (a : N).         (* Target::Resolved(a) *)

Inductive pinstr : Type :=
  | PI (i : Instruction)     (* an instruction without a target *)
  | PJump (t : ptarget) | PBranch (t : ptarget) | PCall (t : ptarget) | PRecall (t : ptarget).

Record cstate : Type := mkCState {
  cs_code : list pinstr;           (* progmem *)
  cs_temps : list (N * N);         (* temporary labels: number -> address *)
  cs_labels : list (Label * N);    (* named labels *)
  cs_c : N;                        (* the anonymous-label counter *)
  cs_err : option cerr }.          (* first error raised while emitting *)

Definition cs_init : cstate := mkCState [] [] [] 0 None.
Definition wp (st : cstate) : N := len (cs_code st).

Definition emitp (i : pinstr) (st : cstate) : cstate :=
  mkCState (cs_code st ++ [i]) (cs_temps st) (cs_labels st) (cs_c st) (cs_err st).
(** [append_instruction] *)
Definition emit (i : Instruction) (st : cstate) : cstate := emitp (PI i) st.
Definition fail (e : cerr) (st : cstate) : cstate :=
  mkCState (cs_code st) (cs_temps st) (cs_labels st) (cs_c st)
           (match cs_err st with Some e' => Some e' | None => Some e end).

(** [anonymous_label]: the current counter value; the counter is bumped. *)
Definition anon (st : cstate) : N * cstate :=
  (cs_c st, mkCState (cs_code st) (cs_temps st) (cs_labels st) (cs_c st + 1) (cs_err st)).

Definition temp_get (k : N) (m : list (N * N)) : option N :=
  match find (fun e => fst e =? k) m with Some e => Some (snd e) | None => None end.

(** [define_label] at the current write pointer (an already defined label is an error). *)
Definition def_temp (k : N) (st : cstate) : cstate :=
  match temp_get k (cs_temps st) with
  | Some _ => fail E_Unknown st
  | None => mkCState (cs_code st) ((k, wp st) :: cs_temps st) (cs_labels st) (cs_c st) (cs_err st)
  end.
Definition def_label (l : Label) (st : cstate) : cstate :=
  match labels_get l (cs_labels st) with
  | Some _ => fail E_Unknown st
  | None => mkCState (cs_code st) (cs_temps st) (cs_labels st ++ [(l, wp st)]) (cs_c st) (cs_err st)
  end.

Definition cmp_instrs (op : binop) : list Instruction :=
  match op with
  | BEq => [I_Eq]
  | BNe => [I_Eq; I_Not]
  | BGt => [I_Gt]
  | BLt => [I_Lt]
  | BGe => [I_Lt; I_Not]     (* a >= b is !(a < b) *)
  | BLe => [I_Gt; I_Not]     (* a <= b is !(a > b) *)
  end.
Definition emits (is : list Instruction) (st : cstate) : cstate := fold_left (fun s i => emit i s) is st.

Definition builtin_instr (f : ident) : option Instruction :=
  if f =s? "add" then Some I_Add
  else if f =s? "saturating_add" then Some I_SaturatingAdd
  else if f =s? "sub" then Some I_Sub
  else if f =s? "saturating_sub" then Some I_SaturatingSub
  else None.

Section Emit.
  Variable p : policy.
  Variable is_debug : bool.

  (** a literal pattern compiled as the expression it is *)
  Fixpoint c_lit (l : lit) (st : cstate) : cstate :=
    match l with
    | LUnit => emit (I_Const CV_Unit) st
    | LInt z => emit (I_Const (CV_Int z)) st
    | LStr s => emit (I_Const (CV_String s)) st
    | LBool b => emit (I_Const (CV_Bool b)) st
    | LEnum e v =>
      match enum_value p e v with
      | Some i => emit (I_Const (CV_Enum e i)) st
      | None => fail E_NotDefined st
      end
    | LNone => emit (I_Const (CV_Option None)) st
    | LSome l => emit (I_Wrap W_Some) (c_lit l st)
    | LOk l => emit (I_Wrap W_Ok) (c_lit l st)
    | LErr l => emit (I_Wrap W_Err) (c_lit l st)
    end.

  (** step 1 of [compile_match_statement_or_expression]: the tests of one arm *)
  Fixpoint c_tests (vals : list pat) (arm : N) (st : cstate) : cstate :=
    match vals with
    | [] => st
    | PBind w _ :: r =>
      c_tests r arm (emitp (PBranch (PT_Temp arm)) (emit (I_Is w) (emit I_Dup st)))
    | PLit l :: r =>
      c_tests r arm (emitp (PBranch (PT_Temp arm)) (emit I_Eq (c_lit l (emit I_Dup st))))
    end.
  (** allocates the arm labels in pattern order; returns them *)
  Fixpoint c_patterns (pats : list pattern) (st : cstate) : list N * cstate :=
    match pats with
    | [] => ([], st)
    | pt :: r =>
      let '(arm, st) := anon st in
      let st := match pt with
                | PVals vals => c_tests vals arm st
                | PDefault => emitp (PJump (PT_Temp arm)) st
                end in
      let '(ls, st) := c_patterns r st in
      (arm :: ls, st)
    end.
  (** the start of an arm: its label, a block, and the scrutinee unwrapped into the bound
      variable or dropped *)
  Definition c_arm_head (pt : pattern) (arm : N) (st : cstate) : cstate :=
    let st := emit I_Block (def_temp arm st) in
    match (match pt with PVals vals => first_bind vals | PDefault => None end) with
    | Some (w, x) => emit (I_Def x) (emit (I_Unwrap w) st)
    | None => emit I_Pop st
    end.
  (** [compile_match_arm_epilogue] *)
  Definition c_arm_tail (endl : N) (st : cstate) : cstate :=
    emitp (PJump (PT_Temp endl)) (emit I_End st).

  (** the recall-block label of [recall name(..)] inside command [cmd] *)
  Definition recall_label (cmd name : ident) : Label := mkLabel (cmd +s+ "_" +s+ name) LT_CommandRecall.

  (** [cmd]: the enclosing command (for [recall]); [in_recall]: compiling a recall block
      (a finish block then exits with [Check]). *)
  Variable cmd : option ident.
  Variable in_recall : bool.

  (** [compile_recall] after the arguments: [this], [envelope], the recall instruction *)
  Definition c_recall (name : ident) (st : cstate) : cstate :=
    let st := emit (I_Get "envelope") (emit (I_Get "this") st) in
    match cmd with
    | Some c => emitp (PRecall (PT_Label (recall_label c name))) st
    | None => fail E_Bug st
    end.

  Fixpoint c_expr (e : expr) (st : cstate) {struct e} : cstate :=
    match e with
    | EUnit => emit (I_Const CV_Unit) st
    | EInt z => emit (I_Const (CV_Int z)) st
    | EStr s => emit (I_Const (CV_String s)) st
    | EBool b => emit (I_Const (CV_Bool b)) st
    | EEnum en v =>
      match enum_value p en v with
      | Some i => emit (I_Const (CV_Enum en i)) st
      | None => fail E_NotDefined st
      end
    | ENone => emit (I_Const (CV_Option None)) st
    | EWrap w e => emit (I_Wrap w) (c_expr e st)
    | EVar x => emit (I_Get x) st
    | EStruct name fs => c_fields fs (emit (I_StructNew name) st)
    | EDot e f => emit (I_StructGet f) (c_expr e st)
    | ESubstruct e s =>
      match struct_fields_of p s with
      | None => fail E_NotDefined st
      | Some fs =>
        let st := c_expr e (emit (I_StructNew s) st) in
        let st := fold_left (fun s f => emit (I_Identifier (fst f)) s) fs st in
        match fs with
        | [] => st
        | _ => emit (I_MStructSet (len fs)) (emit (I_MStructGet (len fs)) st)
        end
      end
    | ECast e s => emit (I_Cast s) (c_expr e st)
    | EAnd a b =>
      (* a && b  is  if a { b } else { false } *)
      let st := c_expr a st in
      let '(mid, st) := anon st in
      let '(endl, st) := anon st in
      let st := emitp (PJump (PT_Temp endl))
                  (emit (I_Const (CV_Bool false)) (emitp (PBranch (PT_Temp mid)) st)) in
      def_temp endl (c_expr b (def_temp mid st))
    | EOr a b =>
      (* a || b  is  if a { true } else { b } *)
      let st := c_expr a st in
      let '(mid, st) := anon st in
      let '(endl, st) := anon st in
      let st := emitp (PJump (PT_Temp endl)) (c_expr b (emitp (PBranch (PT_Temp mid)) st)) in
      def_temp endl (emit (I_Const (CV_Bool true)) (def_temp mid st))
    | ENot a => emit I_Not (c_expr a st)
    | EBin op a b => emits (cmp_instrs op) (c_expr b (c_expr a st))
    | EIs e some =>
      let st := emit (I_Is W_Some) (c_expr e st) in
      if some then st else emit I_Not st
    | ECoalesce a b =>
      let '(is_some, st) := anon st in
      let '(endl, st) := anon st in
      let st := emitp (PBranch (PT_Temp is_some)) (emit (I_Is W_Some) (emit I_Dup (c_expr a st))) in
      let st := emitp (PJump (PT_Temp endl)) (c_expr b (emit I_Pop st)) in
      def_temp endl (emit (I_Unwrap W_Some) (def_temp is_some st))
    | EIf c t f =>
      let '(else_l, st) := anon st in
      let '(endl, st) := anon st in
      let st := emitp (PBranch (PT_Temp else_l)) (c_expr c st) in
      let st := emitp (PJump (PT_Temp endl)) (c_expr f st) in
      def_temp endl (c_expr t (def_temp else_l st))
    | EBlock ss e => emit I_End (c_expr e (c_stmts ss (emit I_Block st)))
    | EMatch e arms =>
      let st := c_expr e st in
      let '(endl, st) := anon st in
      let '(ls, st) := c_patterns (earms_patterns arms) st in
      def_temp endl (c_earms arms ls endl st)
    | ECall f args =>
      let st := c_exprs args st in
      match builtin_instr f with
      | Some i => emit i st
      | None => emitp (PCall (PT_Label (mkLabel f LT_Function))) st
      end
    | EFfi md fname args =>
      let st := c_exprs args (emit (I_Meta (M_FFI md fname)) st) in
      match find (fun d => (ffi_module d =s? md) && (ffi_name d =s? fname)) (p_ffi p) with
      | Some d => emit (I_ExtCall (ffi_mid d) (ffi_pid d)) st
      | None => fail E_Bug st
      end
    | EReturn e => emit I_Return (emit I_RestoreSP (c_expr e st))
    | ERecall name args => c_recall name (c_exprs args st)
    | ETodo => if is_debug then emit (I_Exit ER_Panic) st else fail E_DebugModeRequired st
    end
  with c_exprs (es : exprs) (st : cstate) {struct es} : cstate :=
    match es with
    | ENil => st
    | ECons e r => c_exprs r (c_expr e st)
    end
  with c_fields (fs : fields) (st : cstate) {struct fs} : cstate :=
    match fs with
    | FNil => st
    | FCons f e r => c_fields r (emit (I_StructSet f) (c_expr e st))
    end
  (** step 2 of the match compilation, expression arms *)
  with c_earms (arms : earms) (ls : list N) (endl : N) (st : cstate) {struct arms} : cstate :=
    match arms with
    | EANil => st
    | EACons pt e r =>
      let arm := hd 0 ls in
      c_earms r (tl ls) endl (c_arm_tail endl (c_expr e (c_arm_head pt arm st)))
    end
  with c_stmt (s : stmt) (st : cstate) {struct s} : cstate :=
    match s with
    | SLet x e => emit (I_Def x) (c_expr e st)
    | SCheck e els =>
      let st := c_expr e st in
      let '(ok, st) := anon st in
      def_temp ok (c_expr els (emitp (PBranch (PT_Temp ok)) st))
    | SMatch e arms =>
      let st := c_expr e st in
      let '(endl, st) := anon st in
      let '(ls, st) := c_patterns (sarms_patterns arms) st in
      def_temp endl (c_sarms arms ls endl st)
    | SIf bs fb =>
      let '(endl, st) := anon st in
      let st := c_branches bs endl st in
      let st := match fb with
                | ONone => st
                | OSome ss => emit I_End (c_stmts ss (emit I_Block st))
                end in
      def_temp endl st
    | SReturn e => emit I_Return (emit I_RestoreSP (c_expr e st))
    | SFinish ss =>
      let st := emit I_End (c_stmts ss (emit I_Block (emit (I_Meta (M_Finish true)) st))) in
      (* finish in a recall block exits with Check, otherwise Normal *)
      emit (I_Exit (if in_recall then ER_Check else ER_Normal)) st
    | SCreate fact keys vals =>
      emit I_Create (c_fvals vals (c_fkeys keys (emit (I_FactNew fact) st)))
    | SUpdate fact keys vals to =>
      let st := c_fkeys keys (emit (I_FactNew fact) st) in
      let st := match vals with VNone => st | VSome fs => c_fvals fs st end in
      emit I_Update (c_fvals to (emit I_Dup st))
    | SDelete fact keys => emit I_Delete (c_fkeys keys (emit (I_FactNew fact) st))
    | SEmit e => emit I_Emit (c_expr e st)
    | SCall f args =>
      let st := c_exprs args st in
      match builtin_instr f with
      | Some i => emit i st
      | None => emitp (PCall (PT_Label (mkLabel f LT_Function))) st
      end
    | SRecall name args => c_recall name (c_exprs args st)
    | SDebugAssert e =>
      if is_debug then
        let st := c_expr e st in
        (* branch over the panic when the assertion holds *)
        emit (I_Exit ER_Panic) (emitp (PBranch (PT_Addr (wp st + 2))) st)
      else st
    end
  with c_stmts (ss : stmts) (st : cstate) {struct ss} : cstate :=
    match ss with
    | SNil => st
    | SCons s r => c_stmts r (c_stmt s st)
    end
  with c_branches (bs : branches) (endl : N) (st : cstate) {struct bs} : cstate :=
    match bs with
    | BNil => st
    | BCons c ss r =>
      let '(next, st) := anon st in
      let st := emitp (PBranch (PT_Temp next)) (emit I_Not (c_expr c st)) in
      let st := emit I_End (c_stmts ss (emit I_Block st)) in
      c_branches r endl (def_temp next (emitp (PJump (PT_Temp endl)) st))
    end
  with c_sarms (arms : sarms) (ls : list N) (endl : N) (st : cstate) {struct arms} : cstate :=
    match arms with
    | SANil => st
    | SACons pt ss r =>
      let arm := hd 0 ls in
      c_sarms r (tl ls) endl (c_arm_tail endl (c_stmts ss (c_arm_head pt arm st)))
    end
  (** [compile_fact_literal]: key fields, value fields *)
  with c_fkeys (fs : fields) (st : cstate) {struct fs} : cstate :=
    match fs with
    | FNil => st
    | FCons f e r => c_fkeys r (emit (I_FactKeySet f) (c_expr e st))
    end
  with c_fvals (fs : fields) (st : cstate) {struct fs} : cstate :=
    match fs with
    | FNil => st
    | FCons f e r => c_fvals r (emit (I_FactValueSet f) (c_expr e st))
    end.
End Emit.

(** * Function-like items and the whole policy *)

(** [resolve_targets] *)
Definition resolve_pt (temps : list (N * N)) (labels : list (Label * N)) (t : ptarget) : option N :=
  match t with
  | PT_Temp k => temp_get k temps
  | PT_Label l => labels_get l labels
  | PT_Addr a => Some a
  end.
Definition resolve_instr (temps : list (N * N)) (labels : list (Label * N)) (i : pinstr) : option Instruction :=
  match i with
  | PI i => Some i
  | PJump t => option_map (fun a => I_Jump (T_Resolved a)) (resolve_pt temps labels t)
  | PBranch t => option_map (fun a => I_Branch (T_Resolved a)) (resolve_pt temps labels t)
  | PCall t => option_map (fun a => I_Call (T_Resolved a)) (resolve_pt temps labels t)
  | PRecall t => option_map (fun a => I_Recall (T_Resolved a)) (resolve_pt temps labels t)
  end.
Fixpoint resolve_all (temps : list (N * N)) (labels : list (Label * N)) (code : list pinstr)
  : option (list Instruction) :=
  match code with
  | [] => Some []
  | i :: r =>
    match resolve_instr temps labels i, resolve_all temps labels r with
    | Some i', Some r' => Some (i' :: r')
    | _, _ => None
    end
  end.

Definition is_return (i : pinstr) : bool := match i with PI I_Return => true | _ => false end.

Section Policy.
  Variable p : policy.
  Variable is_debug : bool.

  (** [compile_function_like]: label, parameters (last first), [SaveSP] when there is a
      return type, the body (checked by [Typing], then emitted), and for functions with a
      return type the check that a [Return] was emitted plus the trailing panic. *)
  Definition c_function_like (g : tglobals) (cx : sctx) (cmd : option ident) (in_recall : bool)
      (params : list (ident * TypeKind)) (ret : option TypeKind) (body : stmts) (l : Label)
      (st : cstate) : cstate :=
    match cs_err st with
    | Some _ => st
    | None =>
      let st := def_label l st in
      match check_function_like p is_debug g cx params ret body with
      | RErr e => fail e st
      | ROk _ =>
        let st := fold_left (fun s x => emit (I_Def (fst x)) s) (rev params) st in
        let st := match ret with Some _ => emit I_SaveSP st | None => st end in
        let from := List.length (cs_code st) in
        let st := c_stmts p is_debug cmd in_recall body st in
        match ret with
        | None => st
        | Some _ =>
          if existsb is_return (skipn from (cs_code st))
          then emit (I_Exit ER_Panic) st
          else fail E_NoReturn st
        end
      end
    end.

  Definition envelope_ty : TypeKind := TK_Struct "Envelope".

  Definition c_function (g : tglobals) (d : fundef) (st : cstate) : cstate :=
    c_function_like g (CxPure (fn_ret d)) None false (fn_params d) (Some (fn_ret d)) (fn_body d)
                    (mkLabel (fn_name d) LT_Function) st.
  Definition c_finish_function (g : tglobals) (d : finfundef) (st : cstate) : cstate :=
    let st := c_function_like g CxFinish None false (ff_params d) None (ff_body d)
                              (mkLabel (ff_name d) LT_Function) st in
    match cs_err st with Some _ => st | None => emit I_Return st end.

  Definition c_command (g : tglobals) (c : cmddef) (st : cstate) : cstate :=
    let this := ("this", TK_Struct (cmd_name c)) in
    let envelope := ("envelope", envelope_ty) in
    let payload := ("payload", TK_Bytes) in
    (* policy block: must leave through a finish block *)
    let st := c_function_like g (CxPolicy c) (Some (cmd_name c)) false [this; envelope] None (cmd_policy c)
                              (mkLabel (cmd_name c) LT_CommandPolicy) st in
    let st := match cs_err st with Some _ => st | None => emit (I_Exit ER_Panic) st end in
    (* recall blocks *)
    let st := fold_left (fun st r =>
                match cs_err st with
                | Some _ => st
                | None =>
                  let st := c_function_like g (CxRecall c) (Some (cmd_name c)) true
                                            (rc_params r ++ [this; envelope])%list None (rc_body r)
                                            (recall_label (cmd_name c) (rc_name r)) st in
                  match cs_err st with Some _ => st | None => emit (I_Exit ER_Check) st end
                end) (cmd_recalls c) st in
    let st := match cs_err st with
              | Some _ => st
              | None => if has_dup (map rc_name (cmd_recalls c)) then fail E_AlreadyDefined st else st
              end in
    (* seal and open are pure functions *)
    let st := c_function_like g (CxPure envelope_ty) None false [this; payload] (Some envelope_ty) (cmd_seal c)
                              (mkLabel (cmd_name c) LT_CommandSeal) st in
    c_function_like g (CxPure TK_Unit) None false [this; payload; envelope] (Some TK_Unit) (cmd_open c)
                    (mkLabel (cmd_name c) LT_CommandOpen) st.

  Definition c_action (g : tglobals) (a : actiondef) (st : cstate) : cstate :=
    let st := c_function_like g (CxAction (act_ret a)) None false (act_params a) (act_ret a) (act_body a)
                              (mkLabel (act_name a) LT_Action) st in
    match cs_err st, act_ret a with
    | None, None => emit I_Return st
    | _, _ => st
    end.

  (** [CompileState::compile] followed by [resolve_targets]: the program memory and the
      named labels, or the class of the first error. *)
  Definition compile_state : cstate :=
    match check_defs p, tglobals_of p with
    | RErr e, _ => fail e cs_init
    | _, RErr e => fail e cs_init
    | ROk _, ROk g =>
      let st := emit (I_Exit ER_Panic) cs_init in
      let st := if has_dup (map fst (sigs_of p)) then fail E_AlreadyDefined st else st in
      let st := fold_left (fun st d => c_function g d st) (p_funs p) st in
      let st := fold_left (fun st d => c_finish_function g d st) (p_finfuns p) st in
      let st := fold_left (fun st c => c_command g c st) (p_cmds p) st in
      fold_left (fun st a => c_action g a st) (p_actions p) st
    end.

  Definition compile : res (list Instruction * list (Label * N)) cerr :=
    let st := compile_state in
    match cs_err st with
    | Some e => RErr e
    | None =>
      match resolve_all (cs_temps st) (cs_labels st) (cs_code st) with
      | Some code => ROk (code, cs_labels st)
      | None => RErr E_Bug
      end
    end.
End Policy.
