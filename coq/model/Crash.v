(** Model of the two-slot root commit protocol of the file-backed linear storage,
    [crates/aranya-runtime/src/storage/linear/libc/imp.rs]:
    [Writer::{create, open, ensure_capacity, append_at, write_root, commit}],
    [Root::{new, calc_checksum, validate}], [File::{fallocate, sync, write_all,
    dump, dump_bytes, load, read_exact}], and of the disk underneath it.

    Offsets and sizes are [Z] (the code uses [i64]); bytes and [u64] fields are [N].

    The disk: a durable image (size + byte at every offset) and the list of
    operations issued since the last barrier.  A barrier ([fdatasync] / [fsync])
    makes every earlier operation durable.  A crash ([torn]) applies to the durable
    image, in issue order, every pending write restricted to an arbitrary subset
    of its bytes (none = lost, all = kept, otherwise torn; byte granularity) and
    every pending [fallocate] extension up to an arbitrary intermediate size.

    Not modelled: I/O errors of the system calls, short writes (byte-granular
    tearing subsumes them), the directory entry of the file, the real kernel. *)
From Aranya Require Import base.Tactics gen.GenCrash.
Open Scope Z_scope.

(** * Integer ranges *)
Definition u64_max : N := 18446744073709551615.
Definition u32_max : Z := 4294967295.
Definition i64_max : Z := 9223372036854775807.
Definition two64 : Z := 18446744073709551616.

Definition zlen {A} (l : list A) : Z := Z.of_nat (length l).

(** * The root record *)
Record root := {
  generation : N;          (* u64 *)
  heads : option N;        (* Option<u64> *)
  fact_cache : option N;   (* Option<u64> *)
  free_offset : Z;         (* i64 *)
  checksum : N;            (* u64 *)
}.

(** [Root::new] *)
Definition root_new : root :=
  {| generation := 0; heads := None; fact_cache := None; free_offset := FREE_START; checksum := 0 |}.

(** ** postcard encoding of [Root] (fields in declaration order) *)

(** LEB128, at most 10 bytes for a [u64]. *)
Fixpoint varint_fuel (fuel : nat) (n : N) : list N :=
  match fuel with
  | O => []
  | S f => if (n <? 128)%N then [n] else ((n mod 128) + 128)%N :: varint_fuel f (n / 128)%N
  end.
Definition varint (n : N) : list N := varint_fuel 10 n.

(** zig-zag of an [i64] *)
Definition zigzag (z : Z) : N := if 0 <=? z then Z.to_N (2 * z) else Z.to_N (- 2 * z - 1).
Definition unzigzag (n : N) : Z :=
  if N.even n then Z.of_N (n / 2) else - Z.of_N (n / 2) - 1.

Definition ser_opt (o : option N) : list N :=
  match o with None => [0%N] | Some v => 1%N :: varint v end.

Definition ser_root (r : root) : list N :=
  varint (generation r) ++ ser_opt (heads r) ++ ser_opt (fact_cache r)
  ++ varint (zigzag (free_offset r)) ++ varint (checksum r).

(** postcard's [try_take_varint_u64]: byte [i] contributes its low 7 bits at
    position [7*i]; a byte below 128 terminates; the tenth byte may only be 0 or 1;
    more than ten bytes is an error; running out of input is an error.
    ([carry << 7*i] cannot overflow on any path that returns [Ok].) *)
Fixpoint take_varint (fuel : nat) (i : N) (acc : N) (l : list N) : option (N * list N) :=
  match fuel with
  | O => None
  | S f =>
    match l with
    | [] => None
    | b :: r =>
      let out := (acc + (b mod 128) * 2 ^ (7 * i))%N in
      if (b <? 128)%N
      then if (i =? 9)%N && (1 <? b)%N then None else Some (out, r)
      else take_varint f (i + 1)%N out r
    end
  end.
Definition parse_varint (l : list N) : option (N * list N) := take_varint 10 0%N 0%N l.

Definition parse_opt (l : list N) : option (option N * list N) :=
  match l with
  | 0%N :: r => Some (None, r)
  | 1%N :: r => match parse_varint r with Some (v, r') => Some (Some v, r') | None => None end
  | _ => None
  end.

(** [postcard::from_bytes::<Root>]: trailing bytes are ignored. *)
Definition parse_root (l : list N) : option root :=
  match parse_varint l with None => None | Some (g, l1) =>
  match parse_opt l1 with None => None | Some (h, l2) =>
  match parse_opt l2 with None => None | Some (fc, l3) =>
  match parse_varint l3 with None => None | Some (fo, l4) =>
  match parse_varint l4 with None => None | Some (ck, _) =>
    Some {| generation := g; heads := h; fact_cache := fc; free_offset := unzigzag fo; checksum := ck |}
  end end end end end.

(** ** The checksum *)

Fixpoint le_bytes (k : nat) (n : N) : list N :=
  match k with O => [] | S k' => N.land n 255 :: le_bytes k' (N.shiftr n 8) end.

Definition sip_opt (o : option N) : list N :=
  match o with Some v => 1%N :: le_bytes 8 v | None => [0%N] end.

(** The bytes [Root::calc_checksum] feeds to the hasher, in order:
    [write_u64(generation)], for heads and fact_cache [write_u8(1); write_u64(off)]
    or [write_u8(0)], [write_i64(free_offset)] (two's complement, native = little endian). *)
Definition sip_input (r : root) : list N :=
  le_bytes 8 (generation r) ++ sip_opt (heads r) ++ sip_opt (fact_cache r)
  ++ le_bytes 8 (Z.to_N (free_offset r mod two64)).

(** * Disk *)

Record image := { isize : Z; ibyte : Z -> N }.
Definition empty_image : image := {| isize := 0; ibyte := fun _ => 0%N |}.

(** One past the last kept byte of a masked write (0 when nothing is kept). *)
Fixpoint kept_extent (i : Z) (n : nat) (mask : list bool) : Z :=
  match n, mask with
  | S n', k :: m' => let rest := kept_extent (i + 1) n' m' in
                     if k then Z.max (i + 1) rest else rest
  | _, _ => 0
  end.

(** A write of [bs] at [off] of which only the bytes selected by [mask] reach the
    image (a missing mask entry = not kept). *)
Definition apply_masked (img : image) (off : Z) (bs : list N) (mask : list bool) : image :=
  let n := zlen bs in
  let ke := kept_extent 0 (length bs) mask in
  {| isize := Z.max (isize img) (if ke =? 0 then 0 else off + ke);
     ibyte := fun x =>
       let i := x - off in
       if (0 <=? i) && (i <? n)
       then (if nth (Z.to_nat i) mask false then nth (Z.to_nat i) bs 0%N else ibyte img x)
       else ibyte img x |}.

Definition all_true {A} (l : list A) : list bool := map (fun _ => true) l.
Definition write_full (img : image) (off : Z) (bs : list N) : image :=
  apply_masked img off bs (all_true bs).

(** [fallocate(fd, 0, off, len)]: the file is at least [off+len] long afterwards;
    new space reads as zero; existing bytes are untouched. *)
Definition extend (img : image) (n : Z) : image :=
  {| isize := Z.max (isize img) n; ibyte := ibyte img |}.

Inductive pend := PW (off : Z) (bs : list N) | PF (n : Z).

Definition apply_full (img : image) (p : pend) : image :=
  match p with PW off bs => write_full img off bs | PF n => extend img n end.

Record disk := { dur : image; pnd : list pend }.

Inductive sys :=
| SPwrite (off : Z) (bs : list N)
| SFdatasync
| SFsync
| SFalloc (mode off len : Z).

Definition flush (img : image) (ps : list pend) : image := fold_left apply_full ps img.

Definition disk_step (d : disk) (s : sys) : disk :=
  match s with
  | SPwrite off bs => {| dur := dur d; pnd := pnd d ++ [PW off bs] |}
  | SFalloc _ off len => {| dur := dur d; pnd := pnd d ++ [PF (off + len)] |}
  | SFdatasync | SFsync => {| dur := flush (dur d) (pnd d); pnd := [] |}
  end.

(** What the running process reads (page cache). *)
Definition view (d : disk) : image := flush (dur d) (pnd d).

(** The crash relation. *)
Inductive torn : image -> list pend -> image -> Prop :=
| torn_nil img : torn img [] img
| torn_pw img off bs mask rest img' :
    torn (apply_masked img off bs mask) rest img' -> torn img (PW off bs :: rest) img'
| torn_pf img n s rest img' :
    isize img <= s <= Z.max (isize img) n ->
    torn (extend img s) rest img' -> torn img (PF n :: rest) img'.
Definition crash (d : disk) (img' : image) : Prop := torn (dur d) (pnd d) img'.

(** ** Reading *)

(** [File::read_exact]: succeeds iff the whole range lies inside the file (an
    empty buffer always succeeds). *)
Definition read (img : image) (off len : Z) : option (list N) :=
  if len <=? 0 then Some []
  else if (0 <=? off) && (off + len <=? isize img)
       then Some (map (fun i => ibyte img (off + Z.of_nat i)) (seq 0 (Z.to_nat len)))
       else None.

Definition be32 (l : list N) : Z :=
  match l with
  | [a; b; c; d] => Z.of_N (((a * 256 + b) * 256 + c) * 256 + d)
  | _ => 0
  end.
Definition be32_bytes (n : Z) : list N :=
  let n := Z.to_N n in
  [(n / 16777216) mod 256; (n / 65536) mod 256; (n / 256) mod 256; n mod 256]%N.

(** [File::load::<Root>] *)
Definition load_root (img : image) (off : Z) : option root :=
  match read img off 4 with
  | None => None
  | Some p =>
    match read img (off + LEN_PREFIX_LEN) (be32 p) with
    | None => None
    | Some body => parse_root body
    end
  end.

(** * The writer *)

Inductive ev :=
| ESys (s : sys)
| ERootBegin (r : root)                 (* ghost: [write_root] is about to write [r] *)
| ECommitted (r : root)                 (* ghost: [commit] returned Ok with root [r] *)
| EAppended (off : Z) (bs : list N).    (* ghost: [append_at] returned Ok *)

Record writer := { w_root : root; alloc_end : Z; next_root : Z; data_dirty : bool }.

Definition other_root (slot : Z) : Z := if slot =? ROOT_A then ROOT_B else ROOT_A.

Definition set_root (w : writer) (r : root) : writer :=
  {| w_root := r; alloc_end := alloc_end w; next_root := next_root w; data_dirty := data_dirty w |}.

(** [File::fallocate]: [fallocate] then a full [fsync]. *)
Definition fallocate_evs (off len : Z) : list ev := [ESys (SFalloc 0 off len); ESys SFsync].
(** [File::sync]: [fdatasync]. *)
Definition sync_evs : list ev := [ESys SFdatasync].

(** [File::write_all]: nothing is written for an empty buffer. *)
Definition write_all (off : Z) (bs : list N) : list ev :=
  match bs with [] => [] | _ => [ESys (SPwrite off bs)] end.

(** [File::dump_bytes]: big-endian [u32] length, then the bytes. *)
Definition dump_bytes (off : Z) (bs : list N) : option Z * list ev :=
  let len := zlen bs in
  if u32_max <? len then (None, [])
  else
    let e1 := write_all off (be32_bytes len) in
    if i64_max <? off + LEN_PREFIX_LEN then (None, e1)
    else
      let e2 := write_all (off + LEN_PREFIX_LEN) bs in
      if i64_max <? off + LEN_PREFIX_LEN + len then (None, e1 ++ e2)
      else (Some (off + LEN_PREFIX_LEN + len), e1 ++ e2).

(** [Writer::create] *)
Definition create : writer * list ev :=
  let a := FREE_START + PREALLOC_CHUNK in
  ({| w_root := root_new; alloc_end := a; next_root := ROOT_A; data_dirty := false |},
   fallocate_evs 0 a).

(** The loop of [ensure_capacity]: the least [alloc + k * PREALLOC_CHUNK >= end_]. *)
Definition grow (alloc end_ : Z) : Z :=
  alloc + ((end_ - alloc + PREALLOC_CHUNK - 1) / PREALLOC_CHUNK) * PREALLOC_CHUNK.

(** [Writer::ensure_capacity] *)
Definition ensure_capacity (w : writer) (end_ : Z) : option writer * list ev :=
  if end_ <=? alloc_end w then (Some w, [])
  else
    let ne := grow (alloc_end w) end_ in
    if i64_max <? ne then (None, [])       (* checked_add overflow: Bug *)
    else (Some {| w_root := w_root w; alloc_end := ne; next_root := next_root w; data_dirty := data_dirty w |},
          fallocate_evs 0 ne).

(** [Writer::append_at] with the serialised item [bs].  Returns the result
    (new offset of the item), the writer afterwards (also on error) and the events. *)
Definition append_at (w : writer) (bs : list N) : option Z * writer * list ev :=
  let offset := free_offset (w_root w) in
  if offset <? 0 then (None, w, [])
  else
    let len := zlen bs in
    if (i64_max <? len) || (i64_max <? offset + LEN_PREFIX_LEN) || (i64_max <? offset + LEN_PREFIX_LEN + len)
    then (None, w, [])
    else
      match ensure_capacity w (offset + LEN_PREFIX_LEN + len) with
      | (None, e1) => (None, w, e1)
      | (Some w1, e1) =>
        match dump_bytes offset bs with
        | (None, e2) => (None, w1, e1 ++ e2)
        | (Some new_offset, e2) =>
          let r := w_root w1 in
          let w2 := {| w_root := {| generation := generation r; heads := heads r; fact_cache := fact_cache r;
                                   free_offset := new_offset; checksum := checksum r |};
                       alloc_end := alloc_end w1; next_root := next_root w1; data_dirty := true |} in
          (Some offset, w2, e1 ++ e2 ++ [EAppended offset bs])
        end
      end.

Section WithSip.
(** The keyed hash behind the checksum ([SipHasher::new()], i.e. SipHash-2-4 with a zero key). *)
Variable sip : list N -> N.

Definition calc_checksum (r : root) : N := sip (sip_input r).

(** [Root::validate] *)
Definition validate (r : root) : option root :=
  if (checksum r =? calc_checksum r)%N then Some r else None.

Definition load_valid (img : image) (off : Z) : option root :=
  match load_root img off with Some r => validate r | None => None end.

(** [Writer::write_root] *)
Definition write_root (w : writer) : bool * writer * list ev :=
  let r0 := w_root w in
  if (generation r0 =? u64_max)%N then (false, w, [])
  else
    let r1 := {| generation := generation r0 + 1; heads := heads r0; fact_cache := fact_cache r0;
                 free_offset := free_offset r0; checksum := checksum r0 |} in
    let r := {| generation := generation r1; heads := heads r1; fact_cache := fact_cache r1;
                free_offset := free_offset r1; checksum := calc_checksum r1 |} in
    let slot := next_root w in
    match dump_bytes slot (ser_root r) with
    | (None, e) => (false, set_root w r, ERootBegin r :: e)
    | (Some _, e) =>
      (true,
       {| w_root := r; alloc_end := alloc_end w; next_root := other_root slot; data_dirty := data_dirty w |},
       ERootBegin r :: e ++ sync_evs ++ [ECommitted r])
    end.

(** [Writer::commit] with the serialised head set [hb] and the fact-cache offset [fc]. *)
Definition commit (w : writer) (hb : list N) (fc : N) : bool * writer * list ev :=
  match append_at w hb with
  | (None, w1, e1) => (false, w1, e1)
  | (Some ho, w1, e1) =>
    let r := w_root w1 in
    let w2 := set_root w1 {| generation := generation r; heads := Some (Z.to_N ho); fact_cache := Some fc;
                             free_offset := free_offset r; checksum := checksum r |} in
    let '(w3, e2) :=
      if data_dirty w2
      then ({| w_root := w_root w2; alloc_end := alloc_end w2; next_root := next_root w2; data_dirty := false |}, sync_evs)
      else (w2, []) in
    let '(ok, w4, e3) := write_root w3 in
    (ok, w4, e1 ++ e2 ++ e3)
  end.

(** [Writer::open]: the newest valid root wins; on equal generations slot A. *)
Definition choose_root (a b : option root) : option (root * Z) :=
  match a, b with
  | Some ra, Some rb => if (generation ra <? generation rb)%N then Some (rb, ROOT_B) else Some (ra, ROOT_A)
  | Some ra, None => Some (ra, ROOT_A)
  | None, Some rb => Some (rb, ROOT_B)
  | None, None => None
  end.

Definition open (img : image) : option writer :=
  match choose_root (load_valid img ROOT_A) (load_valid img ROOT_B) with
  | None => None
  | Some (r, chosen) =>
    Some {| w_root := r; alloc_end := free_offset r; next_root := other_root chosen; data_dirty := false |}
  end.

(** * Workloads *)

Inductive op := OAppend (bs : list N) | OCommit (hb : list N) (fc : N).

Definition run_op (w : writer) (o : op) : writer * list ev :=
  match o with
  | OAppend bs => let '(_, w', e) := append_at w bs in (w', e)
  | OCommit hb fc => let '(_, w', e) := commit w hb fc in (w', e)
  end.

Fixpoint run_ops (w : writer) (ops : list op) : writer * list ev :=
  match ops with
  | [] => (w, [])
  | o :: rest =>
    let '(w1, e1) := run_op w o in
    let '(w2, e2) := run_ops w1 rest in
    (w2, e1 ++ e2)
  end.

(** An epoch starts either with a freshly created (empty) file, or with a
    writer obtained by [open] from an image. *)
Inductive start := Fresh | Recovered (img0 : image) (w0 : writer).

Definition start_image (s : start) : image :=
  match s with Fresh => empty_image | Recovered i _ => i end.

Definition epoch_events (s : start) (ops : list op) : list ev :=
  match s with
  | Fresh => snd create ++ snd (run_ops (fst create) ops)
  | Recovered _ w0 => snd (run_ops w0 ops)
  end.

Definition ev_step (d : disk) (e : ev) : disk :=
  match e with ESys s => disk_step d s | _ => d end.
Definition disk_after (img0 : image) (evs : list ev) : disk :=
  fold_left ev_step evs {| dur := img0; pnd := [] |}.

End WithSip.

(** * SipHash-2-4 with key (0,0) — the concrete [sip] used in correspondence runs. *)
Definition m64 : N := 18446744073709551616.
Definition mask64 : N := 18446744073709551615.
Definition add64 (a b : N) : N := N.land (a + b) mask64.
Definition rotl64 (x : N) (k : N) : N := N.lor (N.land (N.shiftl x k) mask64) (N.shiftr x (64 - k)).
Definition sipround (v : N * N * N * N) : N * N * N * N :=
  let '(v0, v1, v2, v3) := v in
  let v0 := add64 v0 v1 in let v1 := rotl64 v1 13 in let v1 := N.lxor v1 v0 in let v0 := rotl64 v0 32 in
  let v2 := add64 v2 v3 in let v3 := rotl64 v3 16 in let v3 := N.lxor v3 v2 in
  let v0 := add64 v0 v3 in let v3 := rotl64 v3 21 in let v3 := N.lxor v3 v0 in
  let v2 := add64 v2 v1 in let v1 := rotl64 v1 17 in let v1 := N.lxor v1 v2 in let v2 := rotl64 v2 32 in
  (v0, v1, v2, v3).
Fixpoint le_word (l : list N) : N :=
  match l with [] => 0%N | b :: r => (b + 256 * le_word r)%N end.
Definition sip_block (v : N * N * N * N) (m : N) : N * N * N * N :=
  let '(v0, v1, v2, v3) := v in
  let '(v0, v1, v2, v3) := sipround (sipround (v0, v1, v2, N.lxor v3 m)) in
  (N.lxor v0 m, v1, v2, v3).
Fixpoint sip_blocks (fuel : nat) (v : N * N * N * N) (l : list N) : (N * N * N * N) * list N :=
  match fuel with
  | O => (v, l)
  | S f =>
    match l with
    | b0 :: b1 :: b2 :: b3 :: b4 :: b5 :: b6 :: b7 :: r =>
      sip_blocks f (sip_block v (le_word [b0; b1; b2; b3; b4; b5; b6; b7])) r
    | _ => (v, l)
    end
  end.
Definition siphash24 (l : list N) : N :=
  let v := (8317987319222330741, 7237128888997146477, 7816392313619706465, 8387220255154660723)%N in
  let '(v, tail) := sip_blocks (length l) v l in
  let b := (le_word tail + (N.of_nat (length l) mod 256) * 72057594037927936)%N in
  let '(v0, v1, v2, v3) := sip_block v b in
  let '(v0, v1, v2, v3) := sipround (sipround (sipround (sipround (v0, v1, N.lxor v2 255, v3)))) in
  N.lxor (N.lxor v0 v1) (N.lxor v2 v3).
