(** Model of the sync requester (crates/aranya-runtime/src/sync/requester.rs):
    [get_commands] (the sample), [receive]/[get_sync_commands] (slicing the
    command bytes that follow the message), the state machine ([poll],
    [start], [resume], [end_session]). *)
From Aranya Require Import base.Tactics model.Dag model.TravQueue model.Wire model.SyncStore gen.GenSync.
Local Open Scope N_scope.

Inductive qstate := QNew | QStart | QWaiting | QIdle | QClosed | QResync | QPartialSync | QReset.

Record requester := { q_sid : N; q_gid : N; q_state : qstate; q_max_bytes : N; q_next : N }.

Definition requester_new (gid sid : N) : requester :=
  {| q_sid := sid; q_gid := gid; q_state := QNew; q_max_bytes := 0; q_next := 0 |}.
(** [new_session_id]: the receiver of pushes starts in [Waiting] *)
Definition requester_new_session (gid sid : N) : requester :=
  {| q_sid := sid; q_gid := gid; q_state := QWaiting; q_max_bytes := 0; q_next := 0 |}.

Definition q_set (q : requester) (s : qstate) : requester :=
  {| q_sid := q_sid q; q_gid := q_gid q; q_state := s; q_max_bytes := q_max_bytes q; q_next := q_next q |}.

Definition q_ready (q : requester) : bool :=
  match q_state q with QNew | QResync | QReset => true | _ => false end.

Definition start_or_waiting (s : qstate) : bool := match s with QStart | QWaiting => true | _ => false end.

(** * Slicing the command bytes *)
(** a received command: its meta and the byte ranges [start, end) of [remaining]
    holding its policy (if any) and its payload *)
Record rcmd := { rc_meta : meta; rc_policy : option (N * N); rc_data : N * N }.

Definition usize_max : N := 18446744073709551615.

(** [start.checked_add(len)] then [remaining.get(start..end)]: [None] (=> MalformedResponse)
    on overflow or when the range is not inside [remaining] *)
Definition slice (rlen start len : N) : option (N * N) :=
  let e := start + len in
  if usize_max <? e then None                      (* checked_add *)
  else if rlen <? e then None                      (* get(start..end): end > len *)
  else Some (start, e).                            (* start <= end always: len >= 0 *)

Fixpoint slice_cmds (rlen : N) (start : N) (ms : list meta) : option (list rcmd) :=
  match ms with
  | [] => Some []
  | m :: r =>
    let pol := if m_plen m =? 0 then Some (None, start)
               else match slice rlen start (m_plen m) with
                    | Some (a, b) => Some (Some (a, b), b)
                    | None => None
                    end in
    match pol with
    | None => None
    | Some (p, start1) =>
      match slice rlen start1 (m_len m) with
      | None => None
      | Some (a, b) =>
        match slice_cmds rlen b r with
        | Some cs => Some ({| rc_meta := m; rc_policy := p; rc_data := (a, b) |} :: cs)
        | None => None
        end
      end
    end
  end.

(** [get_sync_commands]; [rlen] = length of the bytes that follow the message *)
Definition get_sync_commands (dbg : bool) (q : requester) (m : resp_msg) (rlen : N)
  : requester * rres (option (list rcmd)) :=
  if negb (resp_sid m =? q_sid q) then (q, RErr ESessionMismatch)
  else match m with
       | SyncResponse _ idx cmds =>
         if negb (start_or_waiting (q_state q)) then (q, RErr ESessionState)
         else if negb (idx =? q_next q) then (q_set q QResync, RErr EMissingSyncResponse)
         else if usize_max <=? q_next q then (q, bug dbg 20)     (* "next_message_index + 1 mustn't overflow" *)
         else
           let q1 := {| q_sid := q_sid q; q_gid := q_gid q; q_state := QWaiting; q_max_bytes := q_max_bytes q; q_next := q_next q + 1 |} in
           match slice_cmds rlen 0 cmds with
           | None => (q1, RErr EMalformedResponse)
           | Some cs =>
             (* result.push(command).ok().assume(..): commands has at most COMMAND_RESPONSE_MAX entries *)
             if (N.to_nat COMMAND_RESPONSE_MAX <? length cs)%nat then (q1, bug dbg 21) else (q1, ROk (Some cs))
           end
       | SyncEnd _ max_index _ =>
         if negb (start_or_waiting (q_state q)) then (q, RErr ESessionState)
         else if negb (max_index =? q_next q) then (q_set q QResync, RErr EMissingSyncResponse)
         else (q_set q QPartialSync, ROk None)
       | Offer _ _ =>
         match q_state q with
         | QIdle => (q_set q QResync, ROk None)
         | _ => (q, RErr ESessionState)
         end
       | RespEndSession _ => (q_set q QClosed, ROk None)
       end.

(** [receive]: decode the message, the rest of the input is the command bytes *)
Definition receive (dbg : bool) (q : requester) (bytes : list N) : requester * rres (option (list rcmd)) :=
  match dec_resp bytes with
  | DErr => (q, RErr ESerialize)
  | DOk m rest => get_sync_commands dbg q m (N.of_nat (length rest))
  end.

(** * The sample ([get_commands]) *)
(** [Storage::is_ancestor] contract: strict ancestry between locations (C11). *)
Section Sample.
Variable is_ancestor : store -> loc -> loc -> bool.

Definition cap_sample : nat := N.to_nat COMMAND_SAMPLE_MAX.

(** located address: id, location *)
Definition laddr := (N * loc)%type.
Definition la_addr (h : laddr) : addr := A (fst h) (lmc (snd h)).

Definition push_sample (cs : list addr) (a : addr) : list addr :=
  if (length cs <? cap_sample)%nat then cs ++ [a] else cs.

Definition superseded (st : store) (session : list laddr) (h : laddr) : bool :=
  existsb (fun s => (fst h =? fst s) || is_ancestor st (snd h) (snd s)) session.

Fixpoint add_cache (st : store) (session cache : list laddr) (locs : list loc) (cs : list addr) : list loc * list addr :=
  match cache with
  | [] => (locs, cs)
  | h :: r => if superseded st session h then add_cache st session r locs cs
              else add_cache st session r (locs ++ [snd h]) (push_sample cs (la_addr h))
  end.

Definition hits_cache (st : store) (cache_locs : list loc) (l : loc) : bool :=
  existsb (fun pc => loc_eqb l pc || is_ancestor st l pc) cache_locs.

(** one level of the walk: returns (commands, next, stop) *)
Fixpoint walk_level (st : store) (cache_locs : list loc) (current : list loc) (cs : list addr) (next : list loc)
  : rres (list addr * list loc) :=
  match current with
  | [] => ROk (cs, next)
  | l :: r =>
    if hits_cache st cache_locs l then walk_level st cache_locs r cs next
    else
      rlet sg <- get_segment st l;
      match last (map Some (g_cmds sg)) None with
      | None => RErr (EStorage 0)
      | Some c =>
        if (cap_sample <=? length cs)%nat then RErr ECommandOverflow
        else
          let cs' := cs ++ [A (c_id c) (seg_longest sg)] in
          let next' := next ++ prior_list (g_prior sg) in
          if (cap_sample <=? length cs')%nat then ROk (cs', next')
          else walk_level st cache_locs r cs' next'
      end
  end.

Fixpoint walk (fuel : nat) (st : store) (cache_locs : list loc) (current : list loc) (cs : list addr) : rres (list addr) :=
  match fuel with
  | O => RFuel
  | S f =>
    if (length cs <? cap_sample)%nat && negb (match current with [] => true | _ => false end) then
      rlet (cs', next) <- walk_level st cache_locs current cs [];
      walk f st cache_locs next cs'
    else ROk cs
  end.

(** [get_commands] for an existing storage; [session] = the open transaction's heads, [cache] = the peer cache *)
Definition sample (st : store) (session cache : list laddr) : rres (list addr) :=
  let locs0 := map snd session in
  let cs0 := fold_left (fun cs h => push_sample cs (la_addr h)) session [] in
  let '(locs, cs) := add_cache st session cache locs0 cs0 in
  walk (S cap_sample) st locs (map snd (st_heads st)) cs.
End Sample.
