(** The concrete byte framings of aranya-crypto, built from the call sites
    regenerated from the source ([gen/GenCrypto.v]): each framing takes its
    domain-separation literal and its ordered list of argument names from the
    generated table and applies the encoders of [model/TupleHash.v].  An
    argument that is dropped from a call site disappears from the framing
    here, and the binding theorems of [proofs/CryptoSymProofs.v] stop holding. *)
From Coq Require Import String Ascii.
From Aranya Require Import base.Tactics gen.GenCrypto model.TupleHash.
Local Open Scope N_scope.

Definition str_bytes (s : string) : bytes := map N_of_ascii (list_ascii_of_string s).

Definition fsite := (string * string * string * string * list string)%type.
(** (domain, label, argument names) of the first site with this path and kind *)
Fixpoint find_site (path kind : string) (l : list fsite) : string * string * list string :=
  match l with
  | [] => (""%string, ""%string, [])
  | (p, k, d, lb, args) :: r =>
    if String.eqb p path && String.eqb k kind then (d, lb, args) else find_site path kind r
  end.
Definition site_domain (s : string * string * list string) : bytes := str_bytes (fst (fst s)).
Definition site_label (s : string * string * list string) : bytes := str_bytes (snd (fst s)).
Definition site_args (s : string * string * list string) : list string := snd s.

(** Values of the named arguments of one call. *)
Definition env := string -> bytes.

(** * C34: command signatures (policy.rs, aranya.rs, misc.rs) *)
Definition site_cmd_digest := find_site "Cmd::digest" "tuple_hash" framings_policy.
Definition site_cmd_id := find_site "cmd_id" "id_new" framings_policy.
Definition site_merge_id := find_site "merge_cmd_id" "id_new" framings_policy.
Definition site_sk_id := find_site "$name::id" "id_new" framings_misc.

(** [Cmd::digest]: H("SignPolicyCommand-v1", suite, author key id, name, parent id, data) *)
Definition cmd_digest_input (oids : list bytes) (e : env) : bytes :=
  cs_tuple_input oids (site_domain site_cmd_digest) (map e (site_args site_cmd_digest)).
(** [cmd_id]: Id("PolicyCommandId-v1", [digest, signature]) *)
Definition cmd_id_input (oids : list bytes) (e : env) : bytes :=
  id_input oids (site_domain site_cmd_id) (map e (site_args site_cmd_id)).
Definition merge_id_input (oids : list bytes) (e : env) : bytes :=
  id_input oids (site_domain site_merge_id) (map e (site_args site_merge_id)).
(** key ids ([sk_misc!] / [pk_misc!]): Id(context, [public key bytes]) *)
Definition key_id_input (oids : list bytes) (context pk : bytes) : bytes :=
  id_input oids context (map (fun _ => pk) (site_args site_sk_id)).

Fixpoint key_context (sk_type : string) (l : list (string * string * string * string * string)) : bytes :=
  match l with
  | [] => []
  | (_, sk, _, _, c) :: r => if String.eqb sk sk_type then str_bytes c else key_context sk_type r
  end.
Definition signing_key_context : bytes := key_context "SigningKey" key_contexts.
Definition identity_key_context : bytes := key_context "IdentityKey" key_contexts.
Definition encryption_key_context : bytes := key_context "EncryptionKey" key_contexts.

(** * C36: wrapped keys (default.rs) *)
Definition site_wrap_ad := find_site "RawSecretWrap for DefaultEngine::wrap_secret" "tuple_hash" framings_default.
Definition site_unwrap_ad := find_site "RawSecretWrap for DefaultEngine::unwrap_secret" "tuple_hash" framings_default.
(** AD = H("DefaultEngine", suite, alg id, key id); the argument positions are (alg id, key id) *)
Definition wrap_ad_input (oids : list bytes) (alg_id key_id : bytes) : bytes :=
  cs_tuple_input oids (site_domain site_wrap_ad)
    (match site_args site_wrap_ad with [_; _] => [alg_id; key_id] | [_] => [alg_id] | _ => [] end).
Definition unwrap_ad_input (oids : list bytes) (alg_id key_id : bytes) : bytes :=
  cs_tuple_input oids (site_domain site_unwrap_ad)
    (match site_args site_unwrap_ad with [_; _] => [alg_id; key_id] | [_] => [alg_id] | _ => [] end).

(** * C37: group keys (groupkey.rs) and the fixed-layout info structs *)
Definition site_groupkey_ctx := find_site "Context::to_bytes" "tuple_hash" framings_groupkey.
Definition groupkey_info_input (oids : list bytes) (e : env) : bytes :=
  cs_tuple_input oids (site_domain site_groupkey_ctx) (map e (site_args site_groupkey_ctx)).
Definition site_groupkey_extract := find_site "GroupKey::derive_key" "labeled_extract" framings_groupkey.
Definition site_groupkey_expand := find_site "GroupKey::derive_key" "labeled_expand" framings_groupkey.

(** name of an `a=b` field initialiser *)
Fixpoint before_eq (s : string) : string :=
  match s with
  | EmptyString => EmptyString
  | String c r => if Ascii.eqb c "="%char then EmptyString else String c (before_eq r)
  end.
(** [#[repr(C)]] info struct: domain bytes followed by the fields in declaration order *)
Definition info_struct_input (s : string * string * list string) (e : env) : bytes :=
  site_domain s ++ concat (map (fun a => e (before_eq a)) (site_args s)).

Definition site_sealed_groupkey_info := find_site "EncryptionPublicKey::seal_group_key" "info_struct:GroupKeyInfo" framings_aranya.
Definition site_open_groupkey_info := find_site "EncryptionKey::open_group_key" "info_struct:GroupKeyInfo" framings_aranya.
Definition site_psk_seal_info := find_site "EncryptionKey::seal_psk_seed" "info_struct:Info" framings_tls_psk.
Definition site_psk_open_info := find_site "EncryptionKey::open_psk_seed" "info_struct:Info" framings_tls_psk.
Definition site_topic_seal_info := find_site "ReceiverPublicKey::seal_topic_key" "info_struct:TopicKeyRotationInfo" framings_apq.
Definition site_topic_open_info := find_site "ReceiverSecretKey::open_topic_key" "info_struct:TopicKeyRotationInfo" framings_apq.

(** * C38: AFC unidirectional channels (afc/uni.rs) *)
Definition site_uni_info := find_site "UniChannel::info" "info_struct:Info" framings_afc_uni.
Definition uni_info_input (e : env) : bytes := info_struct_input site_uni_info e.

(** * C37: APQ topic keys (apq.rs) *)
Definition site_topic_msg_seal_ad := find_site "TopicKey::seal_message" "tuple_hash" framings_apq.
Definition site_topic_msg_open_ad := find_site "TopicKey::open_message" "tuple_hash" framings_apq.
Definition site_topic_extract := find_site "TopicKey::derive_key" "labeled_extract" framings_apq.
Definition site_topic_expand := find_site "TopicKey::derive_key" "labeled_expand" framings_apq.
(** AD of [TopicKey::seal_message] / [open_message]:
    H("apq msg", suite, version, topic, sender enc key id, sender sign key id) *)
Definition topic_msg_seal_ad_input (oids : list bytes) (e : env) : bytes :=
  cs_tuple_input oids (site_domain site_topic_msg_seal_ad) (map e (site_args site_topic_msg_seal_ad)).
Definition topic_msg_open_ad_input (oids : list bytes) (e : env) : bytes :=
  cs_tuple_input oids (site_domain site_topic_msg_open_ad) (map e (site_args site_topic_msg_open_ad)).
(** the info arguments of [TopicKey::derive_key]'s labeled expand (without the leading "prk=" entry) *)
Definition topic_expand_info_args : list string := tl (site_args site_topic_expand).
