(** Syntax of pest grammars (the fragment without stack operations), used by the
    generated [gen/GenGrammar.v]. *)
From Coq Require Import String List NArith Ascii.
Import ListNotations.

Inductive peg : Type :=
| Str (s : string)                       (* "literal" *)
| Insens (s : string)                    (* ^"literal" *)
| Range (a b : string)                   (* 'a'..'z' *)
| Ref (r : string)                       (* rule or builtin (ANY, SOI, EOI, ASCII_ALPHA, NEWLINE, ...) *)
| Seq (a b : peg)                        (* a ~ b *)
| Alt (a b : peg)                        (* a | b *)
| Opt (a : peg)                          (* a? *)
| Star (a : peg)                         (* a* *)
| Plus (a : peg)                         (* a+ *)
| Rep (lo : nat) (hi : option nat) (a : peg)  (* a{lo,hi} *)
| PosPred (a : peg)                      (* &a *)
| NegPred (a : peg).                     (* !a *)

(** [_{}], [@{}], [${}], [!{}] and plain [{}] rules. *)
Inductive rule_kind := Normal | Silent | Atomic | CompoundAtomic | NonAtomic.

Record rule := { r_name : string; r_kind : rule_kind; r_body : peg }.

Definition bytes_to_string (l : list N) : string :=
  fold_right (fun b s => String (ascii_of_N b) s) EmptyString l.
