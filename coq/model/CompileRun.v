(** Support for the correspondence runs of the compiler unit (no proofs):
    boolean equality on compiler output (leg L1) and the logging I/O oracle the
    reference semantics is evaluated with (leg L3) - the Coq twin of
    [harness/hx-compiler]'s [LogIo]. *)
From Aranya Require Import model.VmBase gen.GenVm model.Vm model.Lang model.Typing model.Compile model.CompileDirect.
Local Open Scope string_scope.

Fixpoint cv_eqb (a b : ConstValue) {struct a} : bool :=
  match a, b with
  | CV_Unit, CV_Unit => true
  | CV_Int x, CV_Int y => Z.eqb x y
  | CV_Bool x, CV_Bool y => Bool.eqb x y
  | CV_String x, CV_String y => x =s? y
  | CV_Struct (mkConstStruct n1 f1), CV_Struct (mkConstStruct n2 f2) =>
    (n1 =s? n2) &&
    (fix go (l1 l2 : list (ident * ConstValue)) : bool :=
       match l1, l2 with
       | [], [] => true
       | (k1, v1) :: r1, (k2, v2) :: r2 => (k1 =s? k2) && cv_eqb v1 v2 && go r1 r2
       | _, _ => false
       end) f1 f2
  | CV_Enum n x, CV_Enum m y => (n =s? m) && Z.eqb x y
  | CV_Option None, CV_Option None => true
  | CV_Option (Some x), CV_Option (Some y) => cv_eqb x y
  | CV_Result (ROk x), CV_Result (ROk y) => cv_eqb x y
  | CV_Result (RErr x), CV_Result (RErr y) => cv_eqb x y
  | _, _ => false
  end.

Definition target_eqb (a b : Target) : bool :=
  match a, b with
  | T_Resolved x, T_Resolved y => N.eqb x y
  | T_Unresolved x, T_Unresolved y => label_eqb x y
  | _, _ => false
  end.
Definition exit_eqb (a b : ExitReason) : bool :=
  match a, b with
  | ER_Normal, ER_Normal | ER_Yield, ER_Yield | ER_Check, ER_Check | ER_Panic, ER_Panic => true
  | _, _ => false
  end.
Definition meta_eqb (a b : Meta) : bool :=
  match a, b with
  | M_Finish x, M_Finish y => Bool.eqb x y
  | M_FFI a1 a2, M_FFI b1 b2 => (a1 =s? b1) && (a2 =s? b2)
  | _, _ => false
  end.

Definition instr_eqb (a b : Instruction) : bool :=
  match a, b with
  | I_Const x, I_Const y => cv_eqb x y
  | I_Identifier x, I_Identifier y | I_Def x, I_Def y | I_Get x, I_Get y
  | I_FactNew x, I_FactNew y | I_FactKeySet x, I_FactKeySet y | I_FactValueSet x, I_FactValueSet y
  | I_StructNew x, I_StructNew y | I_StructSet x, I_StructSet y | I_StructGet x, I_StructGet y
  | I_Cast x, I_Cast y | I_QueryNext x, I_QueryNext y => x =s? y
  | I_Dup, I_Dup | I_Pop, I_Pop | I_Block, I_Block | I_End, I_End | I_Next, I_Next | I_Last, I_Last
  | I_Return, I_Return | I_Add, I_Add | I_Sub, I_Sub | I_SaturatingAdd, I_SaturatingAdd
  | I_SaturatingSub, I_SaturatingSub | I_Not, I_Not | I_Gt, I_Gt | I_Lt, I_Lt | I_Eq, I_Eq
  | I_Publish, I_Publish | I_Create, I_Create | I_Delete, I_Delete | I_Update, I_Update
  | I_Emit, I_Emit | I_Query, I_Query | I_QueryStart, I_QueryStart | I_Serialize, I_Serialize
  | I_Deserialize, I_Deserialize | I_SaveSP, I_SaveSP | I_RestoreSP, I_RestoreSP => true
  | I_Jump x, I_Jump y | I_Branch x, I_Branch y | I_Call x, I_Call y | I_Recall x, I_Recall y => target_eqb x y
  | I_ExtCall m1 p1, I_ExtCall m2 p2 => N.eqb m1 m2 && N.eqb p1 p2
  | I_Exit x, I_Exit y => exit_eqb x y
  | I_MStructSet x, I_MStructSet y | I_MStructGet x, I_MStructGet y => N.eqb x y
  | I_Wrap x, I_Wrap y | I_Is x, I_Is y | I_Unwrap x, I_Unwrap y => wrap_eqb x y
  | I_FactCount x, I_FactCount y => Z.eqb x y
  | I_Meta x, I_Meta y => meta_eqb x y
  | _, _ => false
  end.

Definition cerr_name (e : cerr) : string :=
  match e with
  | E_InvalidStatement => "InvalidStatement" | E_InvalidExpression => "InvalidExpression"
  | E_InvalidType => "InvalidType" | E_InvalidCallColor => "InvalidCallColor"
  | E_BadArgument => "BadArgument" | E_NotDefined => "NotDefined" | E_AlreadyDefined => "AlreadyDefined"
  | E_DuplicateMatchPatterns => "DuplicateMatchPatterns" | E_InvalidFactLiteral => "InvalidFactLiteral"
  | E_NoReturn => "NoReturn" | E_MissingDefaultPattern => "MissingDefaultPattern"
  | E_UnreachableMatchArm => "UnreachableMatchArm" | E_RedundantMatchArm => "RedundantMatchArm"
  | E_InvalidReturn => "InvalidReturn" | E_DebugModeRequired => "DebugModeRequired"
  | E_InvalidCast => "InvalidCast" | E_InvalidSubstruct => "InvalidSubstruct"
  | E_Bug => "Bug" | E_Unknown => "Unknown"
  end.

(** L1: the model's compiler output against the real compiler's ([inl (code, labels)] or [inr class]). *)
Definition labels_eqb (a b : list (Label * N)) : bool :=
  list_eqb (fun x y => label_eqb (fst x) (fst y) && N.eqb (snd x) (snd y)) a b.
(** the real module lists its labels in [BTreeMap] order; compare as sets of equal size *)
Definition labels_same (a b : list (Label * N)) : bool :=
  Nat.eqb (List.length a) (List.length b)
  && forallb (fun x => existsb (fun y => label_eqb (fst x) (fst y) && N.eqb (snd x) (snd y)) b) a.
Definition l1_agree (p : policy) (dbg : bool) (impl : (list Instruction * list (Label * N)) + string) : bool :=
  match compile p dbg, impl with
  | ROk (code, labels), inl (code', labels') =>
    list_eqb instr_eqb code code' && labels_same labels labels'
    && (let '(dcode, dlabels) := compile_direct p dbg in
        list_eqb instr_eqb dcode code' && labels_same dlabels labels')
  | RErr e, inr cls => cerr_name e =s? cls
  | _, _ => false
  end.

(** * The logging oracle *)
Inductive ev : Type :=
  | EvFfi (m pr : N) (v : Value)
  | EvIns (n : ident) (k : list FactKey) (v : list FactValue)
  | EvDel (n : ident) (k : list FactKey)
  | EvQry (n : ident) (k : list FactKey)
  | EvEff (n : ident) (fields : list (ident * Value)) (recalled : bool)
  | EvFail (kind : string)
  | EvExists
  | EvNotFound.

Record lst : Type := mkLst {
  l_log : list ev;                                             (* newest first *)
  l_facts : list ((ident * list FactKey) * list FactValue);
  l_calls : N;
  l_fail : N }.

Definition tick (s : lst) : lst * bool :=
  let c := (l_calls s + 1)%N in
  (mkLst (l_log s) (l_facts s) c (l_fail s), negb (N.eqb (l_fail s) 0) && N.eqb c (l_fail s)).
Definition logev (e : ev) (s : lst) : lst := mkLst (e :: l_log s) (l_facts s) (l_calls s) (l_fail s).
Definition keys_eqb (a b : ident * list FactKey) : bool :=
  (fst a =s? fst b) && list_eqb factkey_eqb (snd a) (snd b).

Definition logio : lang_io lst :=
  {| lio_ffi := fun s m pr args _ =>
       let '(s, failed) := tick s in
       match args with
       | [v] => if failed then (logev (EvFail "ffi") s, RErr (ME_IO IOE_Internal))
                else (logev (EvFfi m pr v) s, ROk v)
       | _ => (s, RErr (ME_Unknown "ffi arity"))
       end;
     lio_insert := fun s n k v =>
       let '(s, failed) := tick s in
       if failed then (logev (EvFail "ins") s, RErr IOE_Internal)
       else if existsb (fun e => keys_eqb (fst e) (n, k)) (l_facts s) then (logev EvExists s, RErr IOE_FactExists)
       else (mkLst (EvIns n k v :: l_log s) (((n, k), v) :: l_facts s) (l_calls s) (l_fail s), ROk tt);
     lio_delete := fun s n k =>
       let '(s, failed) := tick s in
       if failed then (logev (EvFail "del") s, RErr IOE_Internal)
       else if existsb (fun e => keys_eqb (fst e) (n, k)) (l_facts s)
       then (mkLst (EvDel n k :: l_log s) (filter (fun e => negb (keys_eqb (fst e) (n, k))) (l_facts s))
                   (l_calls s) (l_fail s), ROk tt)
       else (logev EvNotFound s, RErr IOE_FactNotFound);
     lio_query := fun s n k =>
       let '(s, failed) := tick s in
       if failed then (logev (EvFail "qry") s, RErr IOE_Internal)
       else (logev (EvQry n k) s,
             ROk (map (fun e => ROk (snd (fst e), snd e))
                      (filter (fun e => (fst (fst e) =s? n) && starts_with factkey_eqb (snd (fst e)) k) (l_facts s))));
     lio_effect := fun s n fields _ recalled => logev (EvEff n fields recalled) s |}.

Definition ev_eqb (a b : ev) : bool :=
  match a, b with
  | EvFfi m1 p1 v1, EvFfi m2 p2 v2 => N.eqb m1 m2 && N.eqb p1 p2 && value_eqb v1 v2
  | EvIns n1 k1 v1, EvIns n2 k2 v2 => (n1 =s? n2) && list_eqb factkey_eqb k1 k2 && list_eqb factvalue_eqb v1 v2
  | EvDel n1 k1, EvDel n2 k2 | EvQry n1 k1, EvQry n2 k2 => (n1 =s? n2) && list_eqb factkey_eqb k1 k2
  | EvEff n1 f1 r1, EvEff n2 f2 r2 =>
    (n1 =s? n2) && Bool.eqb r1 r2
    && list_eqb (fun x y => (fst x =s? fst y) && value_eqb (snd x) (snd y)) f1 f2
  | EvFail x, EvFail y => x =s? y
  | EvExists, EvExists | EvNotFound, EvNotFound => true
  | _, _ => false
  end.

Definition exit_name (r : ExitReason) : string :=
  match r with ER_Normal => "normal" | ER_Yield => "yield" | ER_Check => "check" | ER_Panic => "panic" end.
Definition err_name (e : MachineErrorType) : string :=
  match e with
  | ME_IO _ => "err:IO" | ME_InvalidFact _ => "err:InvalidFact" | ME_Unknown _ => "err:Unknown"
  | _ => "err:Other"
  end.

(** What a run is summarised to: how it ended, the returned value, the I/O log (oldest first). *)
Definition summary : Type := (string * option Value * list ev)%type.
Definition summarize {A} (ret : A -> option Value) (o : outcome lst A) : summary :=
  match o with
  | OVal a w => ("normal", ret a, rev (l_log (w_io w)))
  | ORet v w => ("ret", Some v, rev (l_log (w_io w)))
  | OExit r w => (exit_name r, None, rev (l_log (w_io w)))
  | OErr e w => (err_name e, None, rev (l_log (w_io w)))
  | OWrong => ("wrong", None, [])
  | OFuel => ("fuel", None, [])
  end.
Definition summary_eqb (a b : summary) : bool :=
  (fst (fst a) =s? fst (fst b))
  && match snd (fst a), snd (fst b) with
     | Some x, Some y => value_eqb x y
     | None, None => true
     | _, _ => false
     end
  && list_eqb ev_eqb (snd a) (snd b).

Definition world0 (fail_at : N) (facts : list ((ident * list FactKey) * list FactValue)) (ctx : CommandContext)
  : world lst := mkWorld (mkLst [] facts 0 fail_at) ctx.
Definition action_ctx (name : ident) : CommandContext := CC_Action (mkActionContext name 0).
Definition policy_ctx (name : ident) : CommandContext := CC_Policy (mkPolicyContext name 0 0 0).

Definition l3_function (p : policy) (dbg : bool) (f : ident) (args : list Value) (fail_at : N) : summary :=
  summarize (fun v => Some v) (run_function logio p dbg 200 f args (world0 fail_at [] (action_ctx f))).
Definition l3_policy (p : policy) (dbg : bool) (c : ident) (this envelope : Value) (fail_at : N)
    (facts : list ((ident * list FactKey) * list FactValue)) : summary :=
  summarize (fun _ => None) (run_policy logio p dbg 200 c this envelope (world0 fail_at facts (policy_ctx c))).
