(** Interleaving model of the [arc] module of [aranya-policy-text/src/repr.rs]:
    [ArcStr] — heap text shared through an atomic reference count.

    Shared state: the counter [strong] (an [AtomicUsize]), how often the
    allocation was freed, a flag [uaf] set by any access after a free, the
    number [pool] of handles in transit between threads (a handle that was
    sent but not yet received — [ArcStr: Send]), and the number [leaked] of
    clones that incremented the counter and then failed [assert!(old <=
    MAX_REFCOUNT)] (the increment is not undone by the panic).

    Each thread owns [held] handles.  A client is any interleaving of
      clone  ([ArcStr::clone]: fetch_add(1, Relaxed), then the assert)
      read   ([as_ref] through an owned handle)
      drop   ([ArcStr::drop]: fetch_sub(1, Release); if it returned 1: fence(Acquire); dealloc)
      give / take (move a handle to / from the pool)
    chosen by the schedule; an operation on a handle the thread does not own is
    disabled (safe Rust cannot express it).  Cloning through a [&ArcStr] lent
    by another thread ([ArcStr: Sync]) has the same effect on the shared state
    as a clone by the owner followed by give/take, and is not modelled separately.

    One model step = one yield point of the hooks:
      site 40 Idle (dispatch)   site 30 AClone (fetch_add)   site 42 ARead
      site 31 ADrop (fetch_sub)   site 32 AFence   site 33 AFree (dealloc) *)
From Coq Require Import String.
From Aranya Require Import base.Tactics base.Interleave gen.GenConc.
Open Scope N_scope.

Inductive apc := AIdle | AClone | ARead | ADrop | AFence | AFree | APanicked.
Inductive aop := OClone | ORead | ODrop | OGive | OTake.

Record alocal := AL { apc_of : apc; held : nat }.
Record ashared := AS { strong : N; afreed : nat; auaf : bool; pool : nat; leaked : nat }.
Inductive aevent := AEv (t : nat) (o : aop).
Definition atid (e : aevent) : nat := match e with AEv t _ => t end.

Definition usize_max : N := 18446744073709551615.
Definition atouch (s : ashared) : bool := auaf s || (0 <? afreed s)%nat.

Definition astep (e : aevent) (l : alocal) (s : ashared) : option (alocal * ashared) :=
  let '(AEv _ o) := e in
  match apc_of l with
  | AIdle =>
    match o with
    | OClone => if (1 <=? held l)%nat then Some (AL AClone (held l), s) else None
    | ORead => if (1 <=? held l)%nat then Some (AL ARead (held l), s) else None
    | ODrop => if (1 <=? held l)%nat then Some (AL ADrop (held l), s) else None
    | OGive => if (1 <=? held l)%nat
               then Some (AL AIdle (pred (held l)), AS (strong s) (afreed s) (auaf s) (Datatypes.S (pool s)) (leaked s))
               else None
    | OTake => if (1 <=? pool s)%nat
               then Some (AL AIdle (Datatypes.S (held l)), AS (strong s) (afreed s) (auaf s) (pred (pool s)) (leaked s))
               else None
    end
  | AClone =>   (* let old = strong.fetch_add(1); assert!(old <= MAX_REFCOUNT) *)
    let old := strong s in
    if old <=? max_refcount
    then Some (AL AIdle (Datatypes.S (held l)), AS (old + 1) (afreed s) (atouch s) (pool s) (leaked s))
    else Some (AL APanicked (held l), AS (old + 1) (afreed s) (atouch s) (pool s) (Datatypes.S (leaked s)))
  | ARead =>    (* the client reads the text through its handle *)
    Some (AL AIdle (held l), AS (strong s) (afreed s) (atouch s) (pool s) (leaked s))
  | ADrop =>    (* if strong.fetch_sub(1) != 1 { return } *)
    let old := strong s in
    let new := if old =? 0 then usize_max else old - 1 in
    let s' := AS new (afreed s) (atouch s) (pool s) (leaked s) in
    if old =? 1 then Some (AL AFence (pred (held l)), s') else Some (AL AIdle (pred (held l)), s')
  | AFence =>   (* fence(Acquire) *)
    Some (AL AFree (held l), s)
  | AFree =>    (* drop_in_place + dealloc *)
    Some (AL AIdle (held l), AS (strong s) (Datatypes.S (afreed s)) (atouch s) (pool s) (leaked s))
  | APanicked => None
  end.

Definition astate := gstate ashared alocal.

(** [ArcStr::new] by thread 0, then [n] further threads that own nothing yet. *)
Definition ainit (n : nat) : astate :=
  G (AS 1 O false O O) (AL AIdle 1 :: repeat (AL AIdle O) n).

Definition arun := run atid astep.
Definition agstep := gstep atid astep.

Definition is_apc (p : apc) (l : alocal) : nat :=
  match apc_of l, p with
  | AIdle, AIdle | AClone, AClone | ARead, ARead | ADrop, ADrop | AFence, AFence
  | AFree, AFree | APanicked, APanicked => 1
  | _, _ => 0
  end.
Definition n_held (g : astate) : nat := sumf held (th g).
Definition n_apc (p : apc) (g : astate) : nat := sumf (is_apc p) (th g).
(** Live handles: owned by threads (until their fetch_sub) or in transit. *)
Definition ahandles (g : astate) : nat := n_held g + pool (sh g).

(** ---- observation for the schedule replay ---- *)
Definition asite (l : alocal) : N :=
  match apc_of l with
  | AIdle => 8 | ARead => 10 | AClone => 20 | ADrop => 21 | AFence => 22 | AFree => 23 | APanicked => 16
  end.
Fixpoint adigits (ls : list alocal) : list N :=
  match ls with
  | [] => []
  | l :: r =>
    match apc_of l with
    | AIdle => asite l :: N.of_nat (held l) :: adigits r
    | _ => asite l :: 0 :: adigits r
    end
  end.
(** [freed; strong (read from the allocation while it has not been freed, else 0); pool;
    per thread: site, held (as published by an idle thread)] *)
Definition aobs_digits (g : astate) : list N :=
  N.of_nat (afreed (sh g))
  :: (if (afreed (sh g) =? 0)%nat then strong (sh g) else 0)
  :: N.of_nat (pool (sh g)) :: adigits (th g).
Definition apack (ds : list N) : N := fold_left (fun acc d => acc * 32 + d) ds 0.
Definition aobs (g : astate) : N := apack (aobs_digits g).
Definition ahash_step (h : N) (o : N) : N := (h * 1000003 + o + 1) mod 2305843009213693951.
Fixpoint adigest_from (h : N) (sched : list aevent) (g : astate) : N * astate :=
  match sched with
  | [] => (h, g)
  | e :: r => let g' := exec atid astep g e in adigest_from (ahash_step h (aobs g')) r g'
  end.
Definition adigest (sched : list aevent) (g : astate) : N * N :=
  let '(h, g') := adigest_from 7 sched g in (h, aobs g').
