(** Evaluation of the C35 model on correspondence cases: the signing policy of
    harness/hx-vmpolicy/src/c35_policy.md over the symbolic signature world
    (the list of tuples the honest devices signed). *)
From Aranya Require Import base.Tactics gen.GenEnvelope model.Envelope.
Local Open Scope N_scope.

(** facts of the signing policy that matter to [open]: the registered keys (device id -> public key) *)
Definition kfacts := list (tok * tok).
Definition reg_lookup (f : kfacts) (author : tok) : option tok :=
  match find (fun e => fst e =? author) f with Some (_, k) => Some k | None => None end.

Section Case.
  (** command kinds of the policy: token -> (priority, persistent) *)
  Variable kinds_tbl : list (tok * (prio * bool)).
  Variable init_kind add_device_kind : tok.
  (** [deserialize_struct] results observed by the harness: (kind, payload) pairs that decode, with the
      key material they carry: [Some (device, pk)]: the [device_id] and [sign_pk] fields of Init / AddDevice *)
  Variable decodes_tbl : list (tok * tok * option (tok * tok)).
  Variable signed_list : list sigrec.

  Definition kinds (k : tok) : option (prio * bool) :=
    match find (fun e => fst e =? k) kinds_tbl with Some (_, v) => Some v | None => None end.
  Definition dec_entry (k p : tok) : option (option (tok * tok)) :=
    match find (fun e => (fst (fst e) =? k) && (snd (fst e) =? p)) decodes_tbl with Some (_, _, x) => Some x | None => None end.
  Definition struct_decodes (k p : tok) : bool := match dec_entry k p with Some _ => true | None => false end.
  (** Init opens with the key in its own payload; every other command with the author's registered key *)
  Definition open_key (f : kfacts) (k p author : tok) : option tok :=
    if k =? init_kind then match dec_entry k p with Some (Some (_, pk)) => Some pk | _ => None end
    else reg_lookup f author.
  (** policy blocks: Init registers (author -> its key), AddDevice registers the named device; notes do not touch keys *)
  Definition policy_eval (f : kfacts) (k p : tok) (env : envelope) : pres kfacts tok :=
    if k =? init_kind then
      match dec_entry k p with
      | Some (Some (dev, pk)) =>
        if e_author_id env =? dev then POk ((e_author_id env, pk) :: f) [k]
        else PErr ERejected                       (* [check author == this.device_id else recall ..] *)
      | _ => PErr EInternal
      end
    else if k =? add_device_kind then
      match dec_entry k p with Some (Some (d, pk)) => POk ((d, pk) :: f) [k] | _ => PErr EInternal end
    else POk f [k].

  Definition c_deliver := deliver kfacts tok kinds struct_decodes open_key (list_verify signed_list) policy_eval [].
  Definition c_deliver_in_trx keep := deliver_in_trx kfacts tok kinds struct_decodes open_key (list_verify signed_list) policy_eval keep.

  Definition fresh : replica kfacts tok := {| r_graph := None; r_facts := []; r_cmds := []; r_effects := [] |}.
  Fixpoint deliver_all (g : tok) (r : replica kfacts tok) (cs : list wcmd) : replica kfacts tok * bool :=
    match cs with
    | [] => (r, true)
    | c :: rest => match c_deliver g r c with
                   | (r', Accepted) => deliver_all g r' rest
                   | (r', _) => (r', false)
                   end
    end.
End Case.

(** outcome classes as the harness prints them *)
Definition class_of (o : outcome) : N :=
  match o with
  | Accepted => 0
  | Skipped => 1
  | Rejected RNoParent => 2
  | Rejected RInit => 3
  | Rejected RHeadMismatch => 4
  | Rejected (RPolicy ERead) => 5
  | Rejected (RPolicy EInternal) => 6
  | Rejected (RPolicy ERejected) => 7
  | Rejected (RPolicy _) => 8
  end.
