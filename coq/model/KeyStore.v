(** Model of the key stores of [aranya-crypto/src/keystore]: the entry API of
    [mod.rs] ([entry], [get], and the provided [try_insert] / [remove]), the
    file-system store ([fs_keystore/store.rs]) and the in-memory store
    ([memstore.rs]).

    File-system store: the root directory is a finite map alias -> file
    contents (the alias of an id is its base58 text, injective — C46); a
    descriptor returned by [Exclusive::openat] / [create_new] refers to the
    file's contents and carries a file offset; [entry] opens the file or
    creates it with O_CREAT|O_EXCL; [VacantEntry::insert] writes the encoded
    key; dropping a vacant entry that was not inserted unlinks the file;
    [OccupiedEntry::get] decodes from the descriptor ([rewinds] says whether it
    first seeks to offset 0 — taken from the generated call list);
    [OccupiedEntry::remove] unlinks and then reads through the still-open
    descriptor; [Store::get] opens shared and decodes, a missing file is [None]
    after the (debug-only) canary check; reopening a store on the directory
    keeps the files.  System calls are assumed to succeed (no I/O errors, no
    concurrent process). *)
From Coq Require Import String.
From Aranya Require Import base.Tactics gen.GenKeyStore.
Local Open Scope N_scope.

Definition bytes := list N.
Definition id := N.

(** Does [OccupiedEntry::get] rewind the descriptor before decoding? *)
(** Does [VacantEntry::insert] set [dirty] before the write (so that a failed
    write is not cleaned up by [Drop])?  Taken from the generated statement
    order of [insert]: the repaired/original code writes, syncs, and only then
    sets the flag. *)
Definition dirty_first : bool :=
  negb (match ks_fs_vacant_insert_steps with
        | [w; f; d] => String.eqb w "cbor::into_writer" && String.eqb f "self.fd.fsync" && String.eqb d "self.dirty=true"
        | _ => false
        end).

Definition rewinds : bool :=
  match ks_fs_occupied_get with
  | a :: b :: _ => String.eqb a "self.fd.rewind" && String.eqb b "cbor::from_reader"
                   && String.eqb ks_fs_rewind_target "Start(0)"
  | _ => false
  end.

Section KeyStore.
  (** Wrapped keys and their serialisation (CBOR in both stores). *)
  Variable key : Type.
  Variable enc : key -> bytes.
  Variable dec : bytes -> option key.

  (** * Operations and what a caller observes *)
  (** What the caller does with a vacant entry: insert a key, drop the entry,
      or insert a key whose serialisation / write fails after [partial] bytes
      reached the file ([insert] returns an error and the entry is dropped). *)
  Inductive vact := VInsert (k : key) | VDrop | VInsertFail (partial : bytes).
  (** On an occupied entry: [gets] calls of [get], then [remove] or drop. *)
  Record oact := { gets : nat; then_remove : bool }.
  Inductive op :=
  | OEntry (i : id) (v : vact) (o : oact)
  | OGet (i : id)
  | OTryInsert (i : id) (k : key)
  | OTryInsertFail (i : id) (partial : bytes)     (* [try_insert] with a key whose write fails *)
  | ORemove (i : id)
  | OReopen.

  (** Result of reading a key: the key, or an error. *)
  Inductive kres := KOk (k : key) | KErr.
  Inductive obs :=
  | ObVacant (inserted : bool)
  | ObVacantFailed                           (* vacant entry, [insert] returned an error *)
  | ObTryInsertErr                           (* [try_insert] returned an error other than AlreadyExists *)
  | ObOccupied (got : list kres) (removed : option kres)
  | ObGet (r : option (option key))          (* None = Err; Some None = Ok(None) *)
  | ObTryInsert (ok : bool)                  (* false = AlreadyExists *)
  | ObRemove (r : option (option key))
  | ObReopen.

  (** * Specification: a plain map id -> key *)
  Definition smap := id -> option key.
  Definition supd (m : smap) (i : id) (v : option key) : smap := fun j => if j =? i then v else m j.

  Definition spec_step (m : smap) (o : op) : smap * obs :=
    match o with
    | OEntry i v a =>
      match m i with
      | None => match v with
                | VInsert k => (supd m i (Some k), ObVacant true)
                | VDrop => (m, ObVacant false)
                | VInsertFail _ => (m, ObVacantFailed)      (* a failed insert is a no-op *)
                end
      | Some k => if then_remove a
                  then (supd m i None, ObOccupied (repeat (KOk k) (gets a)) (Some (KOk k)))
                  else (m, ObOccupied (repeat (KOk k) (gets a)) None)
      end
    | OGet i => (m, ObGet (Some (m i)))
    | OTryInsert i k =>
      match m i with
      | None => (supd m i (Some k), ObTryInsert true)
      | Some _ => (m, ObTryInsert false)
      end
    | OTryInsertFail i _ =>
      match m i with
      | None => (m, ObTryInsertErr)
      | Some _ => (m, ObTryInsert false)
      end
    | ORemove i => (supd m i None, ObRemove (Some (m i)))
    | OReopen => (m, ObReopen)
    end.

  Fixpoint spec_run (m : smap) (ops : list op) : smap * list obs :=
    match ops with
    | [] => (m, [])
    | o :: r => let '(m1, ob) := spec_step m o in
                let '(m2, obs) := spec_run m1 r in (m2, ob :: obs)
    end.

  (** * The file-system store *)
  Definition dir := list (id * bytes).
  Fixpoint lookup (d : dir) (i : id) : option bytes :=
    match d with [] => None | (j, c) :: r => if j =? i then Some c else lookup r i end.
  Fixpoint unlink (d : dir) (i : id) : dir :=
    match d with [] => [] | (j, c) :: r => if j =? i then unlink r i else (j, c) :: unlink r i end.
  Definition create (d : dir) (i : id) (c : bytes) : dir := (i, c) :: unlink d i.

  (** [debug]: built with debug assertions (the canary file exists and is checked). *)
  Record fs := { files : dir; canary : bool }.

  (** One read through an exclusive descriptor: contents, offset -> result, new offset. *)
  Definition fd_get (rw : bool) (content : bytes) (off : nat) : kres * nat :=
    let start := if rw then O else off in
    match dec (skipn start content) with
    | Some k => (KOk k, length content)
    | None => (KErr, start)
    end.
  Fixpoint fd_gets (rw : bool) (content : bytes) (off : nat) (n : nat) : list kres * nat :=
    match n with
    | O => ([], off)
    | S n' => let '(r, off1) := fd_get rw content off in
              let '(rs, off2) := fd_gets rw content off1 n' in (r :: rs, off2)
    end.

  (** [Store::entry] followed by the caller's use of the entry. *)
  Definition fs_entry (rw df : bool) (s : fs) (i : id) (v : vact) (a : oact) : fs * obs :=
    match lookup (files s) i with
    | Some content =>
      (* Exclusive::openat succeeded: occupied, descriptor at offset 0 *)
      let '(rs, off) := fd_gets rw content O (gets a) in
      if then_remove a
      then (* unlinkat, then get through the open descriptor *)
        let '(r, _) := fd_get rw content off in
        ({| files := unlink (files s) i; canary := canary s |}, ObOccupied rs (Some r))
      else (s, ObOccupied rs None)
    | None =>
      (* ENOENT, then create_new (O_CREAT|O_EXCL): an empty file exists now *)
      let d1 := create (files s) i [] in
      match v with
      | VInsert k => ({| files := create d1 i (enc k); canary := canary s |}, ObVacant true)
      | VDrop => ({| files := unlink d1 i; canary := canary s |}, ObVacant false)
      | VInsertFail p =>
        (* the write put [p] into the file and failed; [insert] returns Err and the entry is
           dropped: [Drop] unlinks unless [dirty] was already set *)
        if df then ({| files := create d1 i p; canary := canary s |}, ObVacantFailed)
        else ({| files := unlink d1 i; canary := canary s |}, ObVacantFailed)
      end
    end.

  (** [Store::get]. *)
  Definition fs_get (debug : bool) (s : fs) (i : id) : obs :=
    match lookup (files s) i with
    | Some content => match dec content with
                      | Some k => ObGet (Some (Some k))
                      | None => ObGet None
                      end
    | None => if debug && negb (canary s) then ObGet None (* RootDeleted *) else ObGet (Some None)
    end.

  Definition fs_step (rw df debug : bool) (s : fs) (o : op) : fs * obs :=
    match o with
    | OEntry i v a => fs_entry rw df s i v a
    | OGet i => (s, fs_get debug s i)
    | OTryInsert i k =>
      (* provided method: entry, then insert on Vacant, AlreadyExists on Occupied (entry dropped) *)
      match fs_entry rw df s i (VInsert k) {| gets := 0; then_remove := false |} with
      | (s', ObVacant _) => (s', ObTryInsert true)
      | (s', _) => (s', ObTryInsert false)
      end
    | OTryInsertFail i p =>
      match fs_entry rw df s i (VInsertFail p) {| gets := 0; then_remove := false |} with
      | (s', ObVacantFailed) => (s', ObTryInsertErr)
      | (s', _) => (s', ObTryInsert false)
      end
    | ORemove i =>
      (* provided method: entry, Ok(None) on Vacant (dropped), remove on Occupied *)
      match fs_entry rw df s i VDrop {| gets := 0; then_remove := true |} with
      | (s', ObOccupied _ (Some (KOk k))) => (s', ObRemove (Some (Some k)))
      | (s', ObOccupied _ _) => (s', ObRemove None)
      | (s', _) => (s', ObRemove (Some None))
      end
    | OReopen =>
      (* Store::open on the same directory: init_canary creates the canary in debug builds *)
      ({| files := files s; canary := canary s || debug |}, ObReopen)
    end.

  Fixpoint fs_run (rw df debug : bool) (s : fs) (ops : list op) : fs * list obs :=
    match ops with
    | [] => (s, [])
    | o :: r => let '(s1, ob) := fs_step rw df debug s o in
                let '(s2, obs) := fs_run rw df debug s1 r in (s2, ob :: obs)
    end.

  (** A freshly opened store on an empty directory. *)
  Definition fs_init (debug : bool) : fs := {| files := []; canary := debug |}.

  (** * The in-memory store: [BTreeMap<BaseId, StoredKey(Vec<u8>)>] *)
  Definition mem := list (id * bytes).

  Definition mem_read (c : bytes) : kres := match dec c with Some k => KOk k | None => KErr end.

  Definition mem_entry (s : mem) (i : id) (v : vact) (a : oact) : mem * obs :=
    match lookup s i with
    | Some content =>
      let rs := repeat (mem_read content) (gets a) in
      if then_remove a then (unlink s i, ObOccupied rs (Some (mem_read content)))
      else (s, ObOccupied rs None)
    | None =>
      match v with
      | VInsert k => (create s i (enc k), ObVacant true)
      | VDrop => (s, ObVacant false)
      | VInsertFail _ => (s, ObVacantFailed)      (* StoredKey::new fails before the map is touched *)
      end
    end.

  Definition mem_step (s : mem) (o : op) : mem * obs :=
    match o with
    | OEntry i v a => mem_entry s i v a
    | OGet i => (s, match lookup s i with
                    | Some c => match dec c with Some k => ObGet (Some (Some k)) | None => ObGet None end
                    | None => ObGet (Some None)
                    end)
    | OTryInsert i k =>
      match mem_entry s i (VInsert k) {| gets := 0; then_remove := false |} with
      | (s', ObVacant _) => (s', ObTryInsert true)
      | (s', _) => (s', ObTryInsert false)
      end
    | OTryInsertFail i p =>
      match mem_entry s i (VInsertFail p) {| gets := 0; then_remove := false |} with
      | (s', ObVacantFailed) => (s', ObTryInsertErr)
      | (s', _) => (s', ObTryInsert false)
      end
    | ORemove i =>
      match mem_entry s i VDrop {| gets := 0; then_remove := true |} with
      | (s', ObOccupied _ (Some (KOk k))) => (s', ObRemove (Some (Some k)))
      | (s', ObOccupied _ _) => (s', ObRemove None)
      | (s', _) => (s', ObRemove (Some None))
      end
    | OReopen => (s, ObReopen)     (* clone *)
    end.

  Fixpoint mem_run (s : mem) (ops : list op) : mem * list obs :=
    match ops with
    | [] => (s, [])
    | o :: r => let '(s1, ob) := mem_step s o in
                let '(s2, obs) := mem_run s1 r in (s2, ob :: obs)
    end.
End KeyStore.
