(** Model of [aranya-policy-vm/src/serialize.rs]: the schema-driven struct codec
    ([serialize_struct] / [deserialize_struct], i.e. [Machine::serialize_struct] /
    [Machine::deserialize_struct]) — C26.

    Every branch and every error of [SerializeCtx] / [DeserializeCtx] is
    transcribed.  Names ([Identifier]) are opaque keys, modelled as [N]; the
    [BTreeMap<Identifier, Value>] of a struct value is its canonical form, an
    association list with strictly increasing keys ([minsert] is
    [BTreeMap::insert]).  [StructDefs] / [EnumDefs] ([AutoMap]s) are association
    lists searched from the front. *)
From Aranya Require Import base.Tactics model.Varint gen.GenSer.
Open Scope N_scope.

Definition ident := N.

(** [aranya_policy_module::TypeKind] *)
Inductive ty :=
| TUnit | TString | TBytes | TInt | TBool | TId
| TStruct (s : ident) | TEnum (e : ident)
| TOptional (t : ty) | TNever | TResult (ok err : ty).

(** [aranya_policy_vm::Value]; [Option]/[Result] payloads are flattened into
    [VNone]/[VSome] and [VOk]/[VErr]. *)
Inductive value :=
| VUnit
| VInt (z : Z)
| VBool (b : bool)
| VString (s : list N)                       (* Text: UTF-8 bytes *)
| VBytes (b : list N)
| VStruct (name : ident) (fields : list (ident * value))
| VFact                                       (* internal, never serializable *)
| VId (b : list N)                            (* BaseId: 32 bytes *)
| VEnum (e : ident) (x : Z)
| VIdentifier (i : ident)                     (* internal, never serializable *)
| VNone | VSome (v : value)
| VOk (v : value) | VErr (v : value).

Definition field_defs := list (ident * ty).                 (* StructDef.items *)
Definition struct_defs := list (ident * field_defs).
Definition enum_defs := list (ident * list (ident * Z)).    (* EnumDef.variants *)

Fixpoint assoc {A} (k : ident) (l : list (ident * A)) : option A :=
  match l with
  | [] => None
  | (k', a) :: r => if k =? k' then Some a else assoc k r
  end.

(** [BTreeMap::insert] on the canonical (strictly increasing) representation *)
Fixpoint minsert {A} (k : ident) (a : A) (m : list (ident * A)) : list (ident * A) :=
  match m with
  | [] => [(k, a)]
  | (k', a') :: r =>
    if k <? k' then (k, a) :: m
    else if k =? k' then (k, a) :: r
    else (k', a') :: minsert k a r
  end.

Inductive ser_error :=
| SUnknownStruct (s : ident) | SMissingField (f : ident) | SFieldLengthMismatch | SInternalValue.

Inductive de_error :=
| DUnknownEnum (e : ident) | DUnknownStruct (s : ident)
| DUnexpectedEnd | DTrailingData | DBadInput
| DOutOfFuel.   (* not a Rust error: the model's recursion budget ran out (excluded for acyclic schemas) *)

Inductive res (E A : Type) := Ok (a : A) | Err (e : E).
Arguments Ok {E A}. Arguments Err {E A}.

(** [ID_SIZE = size_of::<BaseId>() as u8] *)
Definition id_size : N := GenSer.id_size.

(** ** Serialization *)

(** the [for d in &def.items] loop of [SerializeCtx::serialize_struct]; [pre] maps each
    field name of the value to the (lazily inspected) serialization of that field *)
Fixpoint ser_items (items : field_defs) (pre : list (ident * res ser_error (list N)))
  : res ser_error (list N) :=
  match items with
  | [] => Ok []
  | (fname, _) :: r =>
    match assoc fname pre with
    | None => Err (SMissingField fname)
    | Some (Err e) => Err e
    | Some (Ok b) =>
      match ser_items r pre with
      | Ok b' => Ok (b ++ b')
      | Err e => Err e
      end
    end
  end.

Definition ser_struct_with (defs : struct_defs) (name : ident) (nfields : nat)
           (pre : list (ident * res ser_error (list N))) : res ser_error (list N) :=
  match assoc name defs with
  | None => Err (SUnknownStruct name)
  | Some items =>
    if Nat.eqb (length items) nfields then ser_items items pre else Err SFieldLengthMismatch
  end.

Definition prefix_ok (p : list N) (r : res ser_error (list N)) : res ser_error (list N) :=
  match r with Ok b => Ok (p ++ b) | Err e => Err e end.

(** [SerializeCtx::serialize_value] *)
Fixpoint ser_value (defs : struct_defs) (v : value) : res ser_error (list N) :=
  match v with
  | VUnit => Ok []
  | VInt z => Ok (push_i64 z)
  | VBool b => Ok (push_bool b)
  | VString s => Ok (push_bytes s)
  | VBytes b => Ok (push_bytes b)
  | VStruct name fields =>
    ser_struct_with defs name (length fields)
      ((fix pre (fs : list (ident * value)) :=
          match fs with
          | [] => []
          | (n, x) :: r => (n, ser_value defs x) :: pre r
          end) fields)
  | VId b => Ok (id_size :: b)
  | VEnum _ x => Ok (push_i64 x)
  | VNone => Ok [0]
  | VSome x => prefix_ok [1] (ser_value defs x)
  | VOk x => prefix_ok [0] (ser_value defs x)
  | VErr x => prefix_ok [1] (ser_value defs x)
  | VIdentifier _ | VFact => Err SInternalValue
  end.

Definition ser_fields (defs : struct_defs) (fs : list (ident * value)) :=
  map (fun p => (fst p, ser_value defs (snd p))) fs.

(** [serialize_struct] (the crate-level entry point behind [Machine::serialize_struct]) *)
Definition serialize_struct (defs : struct_defs) (name : ident) (fields : list (ident * value))
  : res ser_error (list N) :=
  ser_value defs (VStruct name fields).

(** ** Deserialization *)

Definition dres := res de_error (value * list N).

(** [DeserializeCtx::deserialize_value], with the struct case delegated to [rec] *)
Fixpoint deser_value_with (enums : enum_defs) (rec : ident -> list N -> dres)
         (t : ty) (bs : list N) : dres :=
  match t with
  | TUnit => Ok (VUnit, bs)
  | TString =>
    match take_bytes bs with
    | TEnd => Err DUnexpectedEnd
    | TNone => Err DBadInput
    | TSome x r =>
      if utf8_valid x then (if has_nul x then Err DBadInput else Ok (VString x, r))
      else Err DBadInput
    end
  | TBytes =>
    match take_bytes bs with
    | TEnd => Err DUnexpectedEnd
    | TNone => Err DBadInput
    | TSome x r => Ok (VBytes x, r)
    end
  | TInt =>
    match take_i64 bs with
    | TEnd => Err DUnexpectedEnd
    | TNone => Err DBadInput
    | TSome x r => Ok (VInt x, r)
    end
  | TBool =>
    match take_bool bs with
    | TEnd => Err DUnexpectedEnd
    | TNone => Err DBadInput
    | TSome x r => Ok (VBool x, r)
    end
  | TId =>
    match bs with
    | [] => Err DUnexpectedEnd
    | len :: r =>
      if len =? id_size then
        match take_n id_size r with
        | None => Err DUnexpectedEnd
        | Some (x, r') => Ok (VId x, r')
        end
      else Err DBadInput
    end
  | TStruct s => rec s bs
  | TEnum e =>
    match assoc e enums with
    | None => Err (DUnknownEnum e)
    | Some variants =>
      match take_i64 bs with
      | TEnd => Err DUnexpectedEnd
      | TNone => Err DBadInput
      | TSome x r =>
        if existsb (fun p => Z.eqb (snd p) x) variants then Ok (VEnum e x, r) else Err DBadInput
      end
    end
  | TOptional t' =>
    match bs with
    | [] => Err DUnexpectedEnd
    | 0 :: r => Ok (VNone, r)
    | 1 :: r =>
      match deser_value_with enums rec t' r with
      | Ok (v, r') => Ok (VSome v, r')
      | Err e => Err e
      end
    | _ :: _ => Err DBadInput
    end
  | TResult tok terr =>
    match bs with
    | [] => Err DUnexpectedEnd
    | 0 :: r =>
      match deser_value_with enums rec tok r with
      | Ok (v, r') => Ok (VOk v, r')
      | Err e => Err e
      end
    | 1 :: r =>
      match deser_value_with enums rec terr r with
      | Ok (v, r') => Ok (VErr v, r')
      | Err e => Err e
      end
    | _ :: _ => Err DBadInput
    end
  | TNever => Err DBadInput
  end.

(** the [for d in &def.items] loop of [DeserializeCtx::deserialize_struct] *)
Fixpoint deser_items (dv : ty -> list N -> dres) (items : field_defs)
         (acc : list (ident * value)) (bs : list N)
  : res de_error (list (ident * value) * list N) :=
  match items with
  | [] => Ok (acc, bs)
  | (fname, t) :: r =>
    match dv t bs with
    | Err e => Err e
    | Ok (v, bs') => deser_items dv r (minsert fname v acc) bs'
    end
  end.

(** [DeserializeCtx::deserialize_struct]; [fuel] bounds the nesting of struct
    definitions (Rust recurses on the schema). *)
Fixpoint deser_struct (defs : struct_defs) (enums : enum_defs) (fuel : nat)
         (name : ident) (bs : list N) : dres :=
  match fuel with
  | O => Err DOutOfFuel
  | S f =>
    match assoc name defs with
    | None => Err (DUnknownStruct name)
    | Some items =>
      match deser_items (deser_value_with enums (deser_struct defs enums f)) items [] bs with
      | Err e => Err e
      | Ok (fields, bs') => Ok (VStruct name fields, bs')
      end
    end
  end.

Definition deser_value (defs : struct_defs) (enums : enum_defs) (fuel : nat) : ty -> list N -> dres :=
  deser_value_with enums (deser_struct defs enums fuel).

(** [deserialize_struct] (behind [Machine::deserialize_struct]): everything must be consumed *)
Definition deserialize_struct_fuel (defs : struct_defs) (enums : enum_defs) (fuel : nat)
           (name : ident) (bs : list N) : res de_error value :=
  match deser_struct defs enums fuel name bs with
  | Err e => Err e
  | Ok (v, []) => Ok v
  | Ok (_, _ :: _) => Err DTrailingData
  end.

(** one unit of fuel per struct definition is enough for every acyclic schema *)
Definition deserialize_struct (defs : struct_defs) (enums : enum_defs) (name : ident) (bs : list N) :=
  deserialize_struct_fuel defs enums (S (length defs)) name bs.
