(** The code [Compile.compile] produces, written with the branch targets already
    computed from the sizes of the pieces - what [resolve_targets] leaves in
    [progmem].  Same clauses and the same order of emission as [Compile.v]
    (hence as [compile.rs]); a temporary label is replaced by the address at
    which [define_label] is called for it.

    [d_expr pc e] is the code of [e] when its first instruction is at address
    [pc]; [sz_expr e] is its length.  The simulation proofs
    ([proofs/CompileSim.v]) are about this form; leg L1 of the correspondence
    compares the real compiler's output with both [Compile.compile] and
    [compile_direct] on every generated program.  No proofs here. *)
From Aranya Require Import model.VmBase gen.GenVm model.Vm model.Lang model.Typing model.Compile.
Local Open Scope string_scope.
Local Open Scope N_scope.

Fixpoint d_lit (p : policy) (l : lit) : list Instruction :=
  match l with
  | LUnit => [I_Const CV_Unit]
  | LInt z => [I_Const (CV_Int z)]
  | LStr s => [I_Const (CV_String s)]
  | LBool b => [I_Const (CV_Bool b)]
  | LEnum e v => [I_Const (CV_Enum e (match enum_value p e v with Some i => i | None => 0%Z end))]
  | LNone => [I_Const (CV_Option None)]
  | LSome l => d_lit p l ++ [I_Wrap W_Some]
  | LOk l => d_lit p l ++ [I_Wrap W_Ok]
  | LErr l => d_lit p l ++ [I_Wrap W_Err]
  end.

(** the tests of one arm, all branching to [arm] *)
Fixpoint d_tests (p : policy) (vals : list pat) (arm : N) : list Instruction :=
  match vals with
  | [] => []
  | PBind w _ :: r => [I_Dup; I_Is w; I_Branch (T_Resolved arm)] ++ d_tests p r arm
  | PLit l :: r => [I_Dup] ++ d_lit p l ++ [I_Eq; I_Branch (T_Resolved arm)] ++ d_tests p r arm
  end.
Definition d_pattern (p : policy) (pt : pattern) (arm : N) : list Instruction :=
  match pt with
  | PVals vals => d_tests p vals arm
  | PDefault => [I_Jump (T_Resolved arm)]
  end.
(** the test section: pattern i branches to the i-th address *)
Fixpoint d_patterns (p : policy) (pats : list pattern) (addrs : list N) : list Instruction :=
  match pats with
  | [] => []
  | pt :: r => d_pattern p pt (hd 0 addrs) ++ d_patterns p r (tl addrs)
  end.
Definition d_arm_head (pt : pattern) : list Instruction :=
  I_Block ::
  match (match pt with PVals vals => first_bind vals | PDefault => None end) with
  | Some (w, x) => [I_Unwrap w; I_Def x]
  | None => [I_Pop]
  end.

Section Direct.
  Variable p : policy.
  Variable is_debug : bool.
  (** the address of a named label *)
  Variable la : Label -> N.
  Variable cmd : ident.
  Variable in_recall : bool.

  Definition d_recall (name : ident) : list Instruction :=
    [I_Get "this"; I_Get "envelope"; I_Recall (T_Resolved (la (recall_label cmd name)))].
  Definition d_call (f : ident) : Instruction :=
    match builtin_instr f with
    | Some i => i
    | None => I_Call (T_Resolved (la (mkLabel f LT_Function)))
    end.

  Fixpoint sz_expr (e : expr) : N :=
    match e with
    | EUnit | EInt _ | EStr _ | EBool _ | EEnum _ _ | ENone | EVar _ => 1
    | EWrap _ e => sz_expr e + 1
    | EStruct _ fs => 1 + sz_fields fs
    | EDot e _ => sz_expr e + 1
    | ESubstruct e s =>
      match struct_fields_of p s with
      | None => 0
      | Some fs => 1 + sz_expr e + len fs + (match fs with [] => 0 | _ => 2 end)
      end
    | ECast e _ => sz_expr e + 1
    | EAnd a b => sz_expr a + 3 + sz_expr b
    | EOr a b => sz_expr a + 1 + sz_expr b + 2
    | ENot a => sz_expr a + 1
    | EBin op a b => sz_expr a + sz_expr b + len (cmp_instrs op)
    | EIs e some => sz_expr e + (if some then 1 else 2)
    | ECoalesce a b => sz_expr a + 4 + sz_expr b + 2
    | EIf c t f => sz_expr c + 1 + sz_expr f + 1 + sz_expr t
    | EBlock ss e => 1 + sz_stmts ss + sz_expr e + 1
    | EMatch e arms => sz_expr e + len (d_patterns p (earms_patterns arms) []) + sz_earms arms
    | ECall _ args => sz_exprs args + 1
    | EFfi _ _ args => 1 + sz_exprs args + 1
    | EReturn e => sz_expr e + 2
    | ERecall _ args => sz_exprs args + 3
    | ETodo => 1
    end
  with sz_exprs (es : exprs) : N :=
    match es with
    | ENil => 0
    | ECons e r => sz_expr e + sz_exprs r
    end
  with sz_fields (fs : fields) : N :=
    match fs with
    | FNil => 0
    | FCons _ e r => sz_expr e + 1 + sz_fields r
    end
  with sz_earms (arms : earms) : N :=
    match arms with
    | EANil => 0
    | EACons pt e r => len (d_arm_head pt) + sz_expr e + 2 + sz_earms r
    end
  with sz_stmt (s : stmt) : N :=
    match s with
    | SLet _ e => sz_expr e + 1
    | SCheck e els => sz_expr e + 1 + sz_expr els
    | SIf bs fb => sz_branches bs + (match fb with ONone => 0 | OSome ss => 1 + sz_stmts ss + 1 end)
    | SMatch e arms => sz_expr e + len (d_patterns p (sarms_patterns arms) []) + sz_sarms arms
    | SReturn e => sz_expr e + 2
    | SFinish ss => 1 + 1 + sz_stmts ss + 1 + 1
    | SCreate _ keys vals => 1 + sz_fields keys + sz_fields vals + 1
    | SUpdate _ keys vals to =>
      1 + sz_fields keys + (match vals with VNone => 0 | VSome fs => sz_fields fs end) + 1 + sz_fields to + 1
    | SDelete _ keys => 1 + sz_fields keys + 1
    | SEmit e => sz_expr e + 1
    | SCall _ args => sz_exprs args + 1
    | SRecall _ args => sz_exprs args + 3
    | SDebugAssert e => if is_debug then sz_expr e + 2 else 0
    end
  with sz_stmts (ss : stmts) : N :=
    match ss with
    | SNil => 0
    | SCons s r => sz_stmt s + sz_stmts r
    end
  with sz_branches (bs : branches) : N :=
    match bs with
    | BNil => 0
    | BCons c ss r => sz_expr c + 2 + 1 + sz_stmts ss + 1 + 1 + sz_branches r
    end
  with sz_sarms (arms : sarms) : N :=
    match arms with
    | SANil => 0
    | SACons pt ss r => len (d_arm_head pt) + sz_stmts ss + 2 + sz_sarms r
    end.

  (** the start addresses of the arms, the first one at [base] *)
  Fixpoint earm_addrs (arms : earms) (base : N) : list N :=
    match arms with
    | EANil => []
    | EACons pt e r => base :: earm_addrs r (base + len (d_arm_head pt) + sz_expr e + 2)
    end.
  Fixpoint sarm_addrs (arms : sarms) (base : N) : list N :=
    match arms with
    | SANil => []
    | SACons pt ss r => base :: sarm_addrs r (base + len (d_arm_head pt) + sz_stmts ss + 2)
    end.

  Fixpoint d_expr (pc : N) (e : expr) {struct e} : list Instruction :=
    match e with
    | EUnit => [I_Const CV_Unit]
    | EInt z => [I_Const (CV_Int z)]
    | EStr s => [I_Const (CV_String s)]
    | EBool b => [I_Const (CV_Bool b)]
    | EEnum en v => [I_Const (CV_Enum en (match enum_value p en v with Some i => i | None => 0%Z end))]
    | ENone => [I_Const (CV_Option None)]
    | EWrap w e => d_expr pc e ++ [I_Wrap w]
    | EVar x => [I_Get x]
    | EStruct name fs => I_StructNew name :: d_fields (pc + 1) fs
    | EDot e f => d_expr pc e ++ [I_StructGet f]
    | ESubstruct e s =>
      match struct_fields_of p s with
      | None => []
      | Some fs =>
        I_StructNew s :: d_expr (pc + 1) e ++ map (fun f => I_Identifier (fst f)) fs
        ++ (match fs with [] => [] | _ => [I_MStructGet (len fs); I_MStructSet (len fs)] end)
      end
    | ECast e s => d_expr pc e ++ [I_Cast s]
    | EAnd a b =>
      let mid := pc + sz_expr a + 3 in
      d_expr pc a ++ [I_Branch (T_Resolved mid); I_Const (CV_Bool false); I_Jump (T_Resolved (mid + sz_expr b))]
      ++ d_expr mid b
    | EOr a b =>
      let pb := pc + sz_expr a + 1 in
      let mid := pb + sz_expr b + 1 in
      d_expr pc a ++ [I_Branch (T_Resolved mid)] ++ d_expr pb b
      ++ [I_Jump (T_Resolved (mid + 1)); I_Const (CV_Bool true)]
    | ENot a => d_expr pc a ++ [I_Not]
    | EBin op a b => d_expr pc a ++ d_expr (pc + sz_expr a) b ++ cmp_instrs op
    | EIs e some => d_expr pc e ++ I_Is W_Some :: (if some then [] else [I_Not])
    | ECoalesce a b =>
      let pb := pc + sz_expr a + 4 in
      let is_some := pb + sz_expr b + 1 in
      d_expr pc a ++ [I_Dup; I_Is W_Some; I_Branch (T_Resolved is_some); I_Pop] ++ d_expr pb b
      ++ [I_Jump (T_Resolved (is_some + 1)); I_Unwrap W_Some]
    | EIf c t f =>
      let pf := pc + sz_expr c + 1 in
      let else_l := pf + sz_expr f + 1 in
      d_expr pc c ++ [I_Branch (T_Resolved else_l)] ++ d_expr pf f
      ++ [I_Jump (T_Resolved (else_l + sz_expr t))] ++ d_expr else_l t
    | EBlock ss e => I_Block :: d_stmts (pc + 1) ss ++ d_expr (pc + 1 + sz_stmts ss) e ++ [I_End]
    | EMatch e arms =>
      let pats := earms_patterns arms in
      let base := pc + sz_expr e + len (d_patterns p pats []) in
      d_expr pc e ++ d_patterns p pats (earm_addrs arms base) ++ d_earms base (base + sz_earms arms) arms
    | ECall f args => d_exprs pc args ++ [d_call f]
    | EFfi md fname args =>
      I_Meta (M_FFI md fname) :: d_exprs (pc + 1) args
      ++ [match find (fun d => (ffi_module d =s? md) && (ffi_name d =s? fname)) (p_ffi p) with
          | Some d => I_ExtCall (ffi_mid d) (ffi_pid d)
          | None => I_ExtCall 0 0
          end]
    | EReturn e => d_expr pc e ++ [I_RestoreSP; I_Return]
    | ERecall name args => d_exprs pc args ++ d_recall name
    | ETodo => [I_Exit ER_Panic]
    end
  with d_exprs (pc : N) (es : exprs) {struct es} : list Instruction :=
    match es with
    | ENil => []
    | ECons e r => d_expr pc e ++ d_exprs (pc + sz_expr e) r
    end
  with d_fields (pc : N) (fs : fields) {struct fs} : list Instruction :=
    match fs with
    | FNil => []
    | FCons f e r => d_expr pc e ++ [I_StructSet f] ++ d_fields (pc + sz_expr e + 1) r
    end
  with d_earms (pc endl : N) (arms : earms) {struct arms} : list Instruction :=
    match arms with
    | EANil => []
    | EACons pt e r =>
      let pe := pc + len (d_arm_head pt) in
      d_arm_head pt ++ d_expr pe e ++ [I_End; I_Jump (T_Resolved endl)] ++ d_earms (pe + sz_expr e + 2) endl r
    end
  with d_stmt (pc : N) (s : stmt) {struct s} : list Instruction :=
    match s with
    | SLet x e => d_expr pc e ++ [I_Def x]
    | SCheck e els =>
      let pe := pc + sz_expr e + 1 in
      d_expr pc e ++ [I_Branch (T_Resolved (pe + sz_expr els))] ++ d_expr pe els
    | SIf bs fb =>
      let pf := pc + sz_branches bs in
      let endl := pf + (match fb with ONone => 0 | OSome ss => 1 + sz_stmts ss + 1 end) in
      d_branches pc endl bs
      ++ (match fb with ONone => [] | OSome ss => I_Block :: d_stmts (pf + 1) ss ++ [I_End] end)
    | SMatch e arms =>
      let pats := sarms_patterns arms in
      let base := pc + sz_expr e + len (d_patterns p pats []) in
      d_expr pc e ++ d_patterns p pats (sarm_addrs arms base) ++ d_sarms base (base + sz_sarms arms) arms
    | SReturn e => d_expr pc e ++ [I_RestoreSP; I_Return]
    | SFinish ss =>
      I_Meta (M_Finish true) :: I_Block :: d_stmts (pc + 2) ss
      ++ [I_End; I_Exit (if in_recall then ER_Check else ER_Normal)]
    | SCreate fact keys vals =>
      I_FactNew fact :: d_fkeys (pc + 1) keys ++ d_fvals (pc + 1 + sz_fields keys) vals ++ [I_Create]
    | SUpdate fact keys vals to =>
      let pv := pc + 1 + sz_fields keys in
      let pt := pv + (match vals with VNone => 0 | VSome fs => sz_fields fs end) + 1 in
      I_FactNew fact :: d_fkeys (pc + 1) keys
      ++ (match vals with VNone => [] | VSome fs => d_fvals pv fs end)
      ++ [I_Dup] ++ d_fvals pt to ++ [I_Update]
    | SDelete fact keys => I_FactNew fact :: d_fkeys (pc + 1) keys ++ [I_Delete]
    | SEmit e => d_expr pc e ++ [I_Emit]
    | SCall f args => d_exprs pc args ++ [d_call f]
    | SRecall name args => d_exprs pc args ++ d_recall name
    | SDebugAssert e =>
      if is_debug
      then d_expr pc e ++ [I_Branch (T_Resolved (pc + sz_expr e + 2)); I_Exit ER_Panic]
      else []
    end
  with d_stmts (pc : N) (ss : stmts) {struct ss} : list Instruction :=
    match ss with
    | SNil => []
    | SCons s r => d_stmt pc s ++ d_stmts (pc + sz_stmt s) r
    end
  with d_branches (pc endl : N) (bs : branches) {struct bs} : list Instruction :=
    match bs with
    | BNil => []
    | BCons c ss r =>
      let pb := pc + sz_expr c + 2 in
      let next := pb + 1 + sz_stmts ss + 1 + 1 in
      d_expr pc c ++ [I_Not; I_Branch (T_Resolved next); I_Block] ++ d_stmts (pb + 1) ss
      ++ [I_End; I_Jump (T_Resolved endl)] ++ d_branches next endl r
    end
  with d_sarms (pc endl : N) (arms : sarms) {struct arms} : list Instruction :=
    match arms with
    | SANil => []
    | SACons pt ss r =>
      let pe := pc + len (d_arm_head pt) in
      d_arm_head pt ++ d_stmts pe ss ++ [I_End; I_Jump (T_Resolved endl)] ++ d_sarms (pe + sz_stmts ss + 2) endl r
    end
  with d_fkeys (pc : N) (fs : fields) {struct fs} : list Instruction :=
    match fs with
    | FNil => []
    | FCons f e r => d_expr pc e ++ [I_FactKeySet f] ++ d_fkeys (pc + sz_expr e + 1) r
    end
  with d_fvals (pc : N) (fs : fields) {struct fs} : list Instruction :=
    match fs with
    | FNil => []
    | FCons f e r => d_expr pc e ++ [I_FactValueSet f] ++ d_fvals (pc + sz_expr e + 1) r
    end.
End Direct.

(** * Function-like items and the whole program *)
Section DirectPolicy.
  Variable p : policy.
  Variable is_debug : bool.
  Variable la : Label -> N.

  (** [compile_function_like]: parameter definitions (last first), [SaveSP] and the trailing
      panic when there is a return type, the body in between. *)
  Definition d_function_like (cmd : ident) (in_recall : bool) (pc : N)
      (params : list (ident * TypeKind)) (has_ret : bool) (body : stmts) : list Instruction :=
    let defs := map (fun x => I_Def (fst x)) (rev params) in
    let pb := pc + len defs + (if has_ret then 1 else 0) in
    defs ++ (if has_ret then [I_SaveSP] else [])
    ++ d_stmts p is_debug la cmd in_recall pb body
    ++ (if has_ret then [I_Exit ER_Panic] else []).
  Definition sz_function_like (params : list (ident * TypeKind)) (has_ret : bool) (body : stmts) : N :=
    len params + (if has_ret then 2 else 0) + sz_stmts p is_debug body.

  Definition d_function (pc : N) (d : fundef) : list Instruction :=
    d_function_like "" false pc (fn_params d) true (fn_body d).
  Definition d_finish_function (pc : N) (d : finfundef) : list Instruction :=
    d_function_like "" false pc (ff_params d) false (ff_body d) ++ [I_Return].

  Definition this_param (c : cmddef) := ("this", TK_Struct (cmd_name c)).
  Definition envelope_param := ("envelope", TK_Struct "Envelope").
  Definition payload_param := ("payload", TK_Bytes).
  Definition recall_params (c : cmddef) (r : recalldef) := (rc_params r ++ [this_param c; envelope_param])%list.

  Definition d_policy_block (pc : N) (c : cmddef) : list Instruction :=
    d_function_like (cmd_name c) false pc [this_param c; envelope_param] false (cmd_policy c) ++ [I_Exit ER_Panic].
  Definition d_recall_block (pc : N) (c : cmddef) (r : recalldef) : list Instruction :=
    d_function_like (cmd_name c) true pc (recall_params c r) false (rc_body r) ++ [I_Exit ER_Check].
  Fixpoint d_recall_blocks (pc : N) (c : cmddef) (rs : list recalldef) : list Instruction :=
    match rs with
    | [] => []
    | r :: rest =>
      d_recall_block pc c r ++ d_recall_blocks (pc + sz_function_like (recall_params c r) false (rc_body r) + 1) c rest
    end.
  Definition sz_recall_blocks (c : cmddef) (rs : list recalldef) : N :=
    fold_right (fun r acc => sz_function_like (recall_params c r) false (rc_body r) + 1 + acc) 0 rs.

  Definition d_command (pc : N) (c : cmddef) : list Instruction :=
    let p_rec := pc + sz_function_like [this_param c; envelope_param] false (cmd_policy c) + 1 in
    let p_seal := p_rec + sz_recall_blocks c (cmd_recalls c) in
    let p_open := p_seal + sz_function_like [this_param c; payload_param] true (cmd_seal c) in
    d_policy_block pc c ++ d_recall_blocks p_rec c (cmd_recalls c)
    ++ d_function_like "" false p_seal [this_param c; payload_param] true (cmd_seal c)
    ++ d_function_like "" false p_open [this_param c; payload_param; envelope_param] true (cmd_open c).

  Definition d_action (pc : N) (a : actiondef) : list Instruction :=
    match act_ret a with
    | None => d_function_like "" false pc (act_params a) false (act_body a) ++ [I_Return]
    | Some _ => d_function_like "" false pc (act_params a) true (act_body a)
    end.

  (** items in the order [CompileState::compile] emits them, each at the address after the previous *)
  Definition d_items {A} (f : N -> A -> list Instruction) (items : list A) (pc : N) : list Instruction * N :=
    fold_left (fun acc x => let code := f (snd acc) x in ((fst acc ++ code)%list, snd acc + len code)) items ([], pc).

  Definition d_program : list Instruction :=
    let '(c1, pc1) := d_items d_function (p_funs p) 1 in
    let '(c2, pc2) := d_items d_finish_function (p_finfuns p) pc1 in
    let '(c3, pc3) := d_items d_command (p_cmds p) pc2 in
    let '(c4, _) := d_items d_action (p_actions p) pc3 in
    I_Exit ER_Panic :: (c1 ++ c2 ++ c3 ++ c4)%list.
End DirectPolicy.

(** The label table of the program: every item's label at the address its code starts. *)
Definition d_labels (p : policy) (is_debug : bool) : list (Label * N) :=
  let la0 := fun _ : Label => 0 in
  let step {A} (lab : A -> list (Label * N)) (code : N -> A -> list Instruction) (acc : list (Label * N) * N) (x : A) :=
      (fst acc ++ map (fun l => (fst l, snd acc + snd l)) (lab x), snd acc + len (code (snd acc) x))%list in
  let '(l1, pc1) := fold_left (step (fun d => [(mkLabel (fn_name d) LT_Function, 0)]) (d_function p is_debug la0))
                              (p_funs p) ([], 1) in
  let '(l2, pc2) := fold_left (step (fun d => [(mkLabel (ff_name d) LT_Function, 0)]) (d_finish_function p is_debug la0))
                              (p_finfuns p) (l1, pc1) in
  let cmd_labels c :=
      let s_pol := sz_function_like p is_debug [this_param c; envelope_param] false (cmd_policy c) + 1 in
      let recs := fst (fold_left (fun acc r =>
                    (fst acc ++ [(recall_label (cmd_name c) (rc_name r), snd acc)],
                     snd acc + sz_function_like p is_debug (recall_params c r) false (rc_body r) + 1)%list)
                    (cmd_recalls c) ([], s_pol)) in
      let p_seal := s_pol + sz_recall_blocks p is_debug c (cmd_recalls c) in
      ((mkLabel (cmd_name c) LT_CommandPolicy, 0) :: recs
       ++ [(mkLabel (cmd_name c) LT_CommandSeal, p_seal);
           (mkLabel (cmd_name c) LT_CommandOpen,
            p_seal + sz_function_like p is_debug [this_param c; payload_param] true (cmd_seal c))])%list in
  let '(l3, pc3) := fold_left (step cmd_labels (d_command p is_debug la0)) (p_cmds p) (l2, pc2) in
  let '(l4, _) := fold_left (step (fun a => [(mkLabel (act_name a) LT_Action, 0)]) (d_action p is_debug la0))
                            (p_actions p) (l3, pc3) in
  l4.

Definition label_addr (labels : list (Label * N)) (l : Label) : N :=
  match labels_get l labels with Some a => a | None => 0 end.

(** The compiled program: code and labels (sizes do not depend on the label addresses, so the
    table is computed first and the code refers to it). *)
Definition compile_direct (p : policy) (is_debug : bool) : list Instruction * list (Label * N) :=
  let labels := d_labels p is_debug in
  (d_program p is_debug (label_addr labels), labels).
