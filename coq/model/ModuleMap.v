(** C28 model: [Module] (vectors of definitions) <-> [Machine] (name-keyed ordered maps),
    and hash collections as unordered association lists.

    [Machine::from_module] turns each definition vector into an [AutoMap] =
    [BTreeMap<Identifier, T>] by [collect()]ing [(name, def)] pairs: a later
    definition with the same name replaces an earlier one; iteration
    ([into_values]) is in key order.  [Identifier]'s [Ord] is the byte-wise
    lexicographic order of the text, modelled by [key_ltb] on byte lists. *)
From Coq Require Import List NArith Bool.
Import ListNotations.

Definition key := list N.

Fixpoint key_ltb (a b : key) : bool :=
  match a, b with
  | [], [] => false
  | [], _ :: _ => true
  | _ :: _, [] => false
  | x :: a', y :: b' => if (x <? y)%N then true else if (y <? x)%N then false else key_ltb a' b'
  end.

Fixpoint key_eqb (a b : key) : bool :=
  match a, b with
  | [], [] => true
  | x :: a', y :: b' => (x =? y)%N && key_eqb a' b'
  | _, _ => false
  end.

Section Map.
  Variable V : Type.
  Variable name : V -> key.

  (** [BTreeMap::insert] on the key-ordered entry list (the value replaces an equal key). *)
  Fixpoint insert (v : V) (m : list V) : list V :=
    match m with
    | [] => [v]
    | x :: r =>
      if key_ltb (name v) (name x) then v :: m
      else if key_ltb (name x) (name v) then x :: insert v r
      else v :: r
    end.

  (** [vec.into_iter().map(|d| (d.name.clone(), d)).collect::<AutoMap<_>>()] *)
  Definition from_vec (l : list V) : list V := fold_left (fun m v => insert v m) l [].

  (** [AutoMap::into_iter] / [iter]: values in key order. *)
  Definition to_vec (m : list V) : list V := m.

  Definition lookup (k : key) (m : list V) : option V := find (fun v => key_eqb (name v) k) m.

  (** [NamedMap::insert] (compiler side): an entry with an existing name is rejected, order of insertion is kept. *)
  Fixpoint named_insert_all (acc : list V) (l : list V) : option (list V) :=
    match l with
    | [] => Some acc
    | v :: r =>
      if existsb (fun x => key_eqb (name x) (name v)) acc then None
      else named_insert_all (acc ++ [v]) r
    end.
End Map.

(** The five definition vectors of [ModuleV0] / maps of [Machine]; everything else
    (progmem, labels, codemap, globals) is carried over unchanged. *)
Record defs := { d_name : key; d_payload : N }.

Record module_v0 := {
  m_actions : list defs; m_commands : list defs; m_facts : list defs; m_structs : list defs; m_enums : list defs;
  m_rest : N }.

Record machine := {
  k_actions : list defs; k_commands : list defs; k_facts : list defs; k_structs : list defs; k_enums : list defs;
  k_rest : N }.

Definition from_module (m : module_v0) : machine :=
  {| k_actions := from_vec defs d_name (m_actions m); k_commands := from_vec defs d_name (m_commands m);
     k_facts := from_vec defs d_name (m_facts m); k_structs := from_vec defs d_name (m_structs m);
     k_enums := from_vec defs d_name (m_enums m); k_rest := m_rest m |}.

Definition to_module (k : machine) : module_v0 :=
  {| m_actions := to_vec defs (k_actions k); m_commands := to_vec defs (k_commands k);
     m_facts := to_vec defs (k_facts k); m_structs := to_vec defs (k_structs k);
     m_enums := to_vec defs (k_enums k); m_rest := k_rest k |}.

(** ** Hash collections

    A [HashMap]/[HashSet] is an association list in an arbitrary order (the order
    is what [RandomState] decides).  The membership operations below are all the
    compiler uses on its hash collections. *)
Inductive hop :=
| HGet (k : key)            (* get / get_key_value / contains / contains_key *)
| HInsert (k : key) (v : N) (* insert / replace / entry().or_insert: returns the previous value *)
| HRemove (k : key)         (* remove: returns the removed value *)
| HLen.                     (* len / is_empty *)

Definition hfind (k : key) (l : list (key * N)) : option N :=
  match find (fun e => key_eqb (fst e) k) l with Some e => Some (snd e) | None => None end.
Definition hdel (k : key) (l : list (key * N)) : list (key * N) := filter (fun e => negb (key_eqb (fst e) k)) l.

(** One operation: observable result and new contents. *)
Definition hstep (l : list (key * N)) (o : hop) : option N * list (key * N) :=
  match o with
  | HGet k => (hfind k l, l)
  | HInsert k v => (hfind k l, (k, v) :: hdel k l)
  | HRemove k => (hfind k l, hdel k l)
  | HLen => (Some (N.of_nat (length l)), l)
  end.

Fixpoint hrun (l : list (key * N)) (ops : list hop) : list (option N) :=
  match ops with
  | [] => []
  | o :: r => let '(res, l') := hstep l o in res :: hrun l' r
  end.
