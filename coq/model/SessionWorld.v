(** Driver for the session correspondence runs (C14, and the session half of C13):
    the storage world of [FactsWorld] plus the committed fact cache and any number of
    sessions.  A session call carries the script of perspective operations the policy
    performs and whether the policy then succeeds. *)
From Aranya Require Import base.Tactics base.Harness base.ListLex base.SortedAssoc
     model.Facts model.FactsWorld model.FactsHarness model.Session.

Record sxworld := {
  sx_w : world;
  sx_cache : option N;                (* offset of the committed fact cache *)
  sx_sessions : list session;
}.
Definition sxworld0 : sxworld := {| sx_w := world0; sx_cache := None; sx_sessions := [] |}.

Inductive sxop :=
| SXStore (o : op)                    (* build committed state through the storage API *)
| SXCommitSeg (s : nat)               (* commit_heads(head of segment s, its fact index) *)
| SXCommitIdx (s j : nat)             (* commit_heads(head of segment s, written index j) *)
| SXOpen                              (* ClientState::session *)
| SXCall (q : nat) (ops : list sop) (ok : bool).   (* Session::action / receive *)

(** What a script saw, and the full dump after the call. *)
Inductive seen := SeenQ (v : option bytes) | SeenP (l : list (keys * bytes)).
Definition sxobs := (bool * list seen * list (N * bytes) * list (N * list (keys * bytes)))%type.

Fixpoint facts_ok (l : list (res fact)) : option (list fact) :=
  match l with
  | [] => Some []
  | Ok f :: r => match facts_ok r with Some r' => Some (f :: r') | None => None end
  | Err _ :: _ => None
  end.

Fixpoint seen_of (outs : list sout) : option (list seen) :=
  match outs with
  | [] => Some []
  | OutQuery (Ok v) :: r => match seen_of r with Some r' => Some (SeenQ v :: r') | None => None end
  | OutPrefix (Ok l) :: r =>
    match facts_ok l, seen_of r with Some l', Some r' => Some (SeenP l' :: r') | _, _ => None end
  | _ :: _ => None
  end.

Definition dump_session (U : universe) (st : store) (s : session)
  : option (list (N * bytes) * list (N * list (keys * bytes))) :=
  match all_ok (flat_map (fun n => map (s_query st s n) (u_keys U)) (u_names U)),
        all_ok (flat_map (fun n => map (fun p => match s_query_prefix st s n p with
                                                 | Ok l => match facts_ok l with Some l' => Ok l' | None => Err EBug end
                                                 | Err e => Err e
                                                 end) (u_prefixes U)) (u_names U)) with
  | Some e, Some p => Some (sparse_opt 0 e, sparse_list 0 p)
  | _, _ => None
  end.

Section WithDepth.
  Variable maxd : N.

  Definition sxstep (U : universe) (x : sxworld) (o : sxop) : sxworld * option sxobs :=
    match o with
    | SXStore o' => ({| sx_w := mstep maxd (sx_w x) o'; sx_cache := sx_cache x; sx_sessions := sx_sessions x |}, None)
    | SXCommitSeg s =>
      match nth_error (w_segs (sx_w x)) s with
      | Some sg => ({| sx_w := sx_w x; sx_cache := Some (sg_facts sg); sx_sessions := sx_sessions x |}, None)
      | None => (x, None)
      end
    | SXCommitIdx s j =>
      match nth_error (w_segs (sx_w x)) s, nth_error (w_idxs (sx_w x)) j with
      | Some _, Some off => ({| sx_w := sx_w x; sx_cache := Some off; sx_sessions := sx_sessions x |}, None)
      | _, _ => (x, None)
      end
    | SXOpen =>
      match sx_cache x with
      | Some c => ({| sx_w := sx_w x; sx_cache := sx_cache x; sx_sessions := sx_sessions x ++ [s_new c] |}, None)
      | None => (x, None)
      end
    | SXCall q ops ok =>
      match nth_error (sx_sessions x) q with
      | Some s =>
        let st := w_store (sx_w x) in
        match s_call st s ops ok with
        | (Ok s', outs) =>
          let x' := {| sx_w := sx_w x; sx_cache := sx_cache x; sx_sessions := set_nth (sx_sessions x) q s' |} in
          (x', match seen_of outs, dump_session U st s' with
               | Some sn, Some (e, p) => Some (ok, sn, e, p)
               | _, _ => None
               end)
        | (Err _, _) => (x, None)
        end
      | None => (x, None)
      end
    end.

  Fixpoint sxrun (U : universe) (x : sxworld) (ops : list sxop) : list (option sxobs) :=
    match ops with
    | [] => []
    | o :: r => let '(x', ob) := sxstep U x o in ob :: sxrun U x' r
    end.
End WithDepth.

Definition seen_eqb (a b : seen) : bool :=
  match a, b with
  | SeenQ x, SeenQ y => option_eqb lN_eqb x y
  | SeenP x, SeenP y => list_eqb (pair_eqb keys_eqb lN_eqb) x y
  | _, _ => false
  end.

Definition sxobs_eqb (a b : sxobs) : bool :=
  let '(ok1, s1, e1, p1) := a in
  let '(ok2, s2, e2, p2) := b in
  Bool.eqb ok1 ok2 && list_eqb seen_eqb s1 s2
  && list_eqb (pair_eqb N.eqb lN_eqb) e1 e2
  && list_eqb (pair_eqb N.eqb (list_eqb (pair_eqb keys_eqb lN_eqb))) p1 p2.

Fixpoint sx_first_diff (i : N) (a b : list (option sxobs)) : option N :=
  match a, b with
  | [], [] => None
  | x :: a', y :: b' => if option_eqb sxobs_eqb x y then sx_first_diff (N.succ i) a' b' else Some i
  | _, _ => Some i
  end.

Definition sxcase := (universe * list sxop * list (option sxobs))%type.
Definition sxcase_first_diff (maxd : N) (c : sxcase) : option N :=
  let '(U, ops, expected) := c in sx_first_diff 0 (sxrun maxd U sxworld0 ops) expected.
