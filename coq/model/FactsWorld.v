(** A driver for the fact-storage model: a world holds one store, any number of
    live [LinearPerspective]s and [LinearFactPerspective]s (addressed by
    handles), the segments written so far and the fact indexes returned by
    [write_facts].  An [op] is one call of the public storage API; [mstep] is
    what the model does for it.  The same op lists drive the real storage in
    the correspondence harness. *)
From Aranya Require Import base.Tactics base.ListLex base.SortedAssoc model.Facts.

Fixpoint set_nth {A} (l : list A) (i : nat) (x : A) : list A :=
  match l, i with
  | [], _ => []
  | _ :: r, O => x :: r
  | y :: r, S i' => y :: set_nth r i' x
  end.

Definition get_h {A} (l : list (option A)) (h : nat) : option A :=
  match nth_error l h with Some (Some x) => Some x | _ => None end.

Record world := {
  w_store : store;
  w_persps : list (option persp);
  w_fps : list (option fpersp);
  w_segs : list segment;
  w_idxs : list N;
}.

Definition world0 : world :=
  {| w_store := []; w_persps := []; w_fps := []; w_segs := []; w_idxs := [] |}.

Inductive op :=
| ONew                                            (* [StorageProvider::new_perspective] *)
| OInsert (h : nat) (n : name) (k : keys) (v : bytes)
| ODelete (h : nat) (n : name) (k : keys)
| OAddCmd (h : nat) (id : N)                      (* [add_command] of a child of the head *)
| OFailedRule (h : nat) (body : list update)      (* checkpoint; writes of a rule; revert *)
| OCreate (h : nat)                               (* [new_storage] *)
| OWrite (h : nat)                                (* [Storage::write] *)
| OOpen (s : nat) (i : nat)                       (* [get_linear_perspective] at command i of segment s *)
| OOpenIdx (j : nat)                              (* [new_merge_perspective] over written index j *)
| OFactAt (s : nat) (i : nat)                     (* [get_fact_perspective] *)
| OFInsert (f : nat) (n : name) (k : keys) (v : bytes)
| OFDelete (f : nat) (n : name) (k : keys)
| OWriteFacts (f : nat).                          (* [Storage::write_facts] *)

Definition with_store (w : world) st := {| w_store := st; w_persps := w_persps w; w_fps := w_fps w;
                                           w_segs := w_segs w; w_idxs := w_idxs w |}.
Definition with_persps (w : world) ps := {| w_store := w_store w; w_persps := ps; w_fps := w_fps w;
                                            w_segs := w_segs w; w_idxs := w_idxs w |}.
Definition with_fps (w : world) fs := {| w_store := w_store w; w_persps := w_persps w; w_fps := fs;
                                         w_segs := w_segs w; w_idxs := w_idxs w |}.

Definition set_persp (w : world) h (P : option persp) := with_persps w (set_nth (w_persps w) h P).
Definition push_persp (w : world) (P : persp) := with_persps w (w_persps w ++ [Some P]).
Definition set_fp (w : world) f (fp : option fpersp) := with_fps w (set_nth (w_fps w) f fp).
Definition push_fp (w : world) (fp : fpersp) := with_fps w (w_fps w ++ [Some fp]).

Definition apply_writes (P : persp) (us : list update) : persp :=
  fold_left (fun acc u => let '(n, k, v) := u in
                          match v with Some b => p_insert acc n k b | None => p_delete acc n k end) us P.

Section WithDepth.
  Variable maxd : N.

  (** Consume perspective [h] through [write]/[create]. *)
  Definition finish_seg (w : world) h (r : store * res segment) : world :=
    let '(st, rs) := r in
    let w1 := set_persp (with_store w st) h None in
    match rs with
    | Ok sg => {| w_store := w_store w1; w_persps := w_persps w1; w_fps := w_fps w1;
                  w_segs := w_segs w ++ [sg]; w_idxs := w_idxs w1 |}
    | Err _ => w1
    end.

  Definition mstep (w : world) (o : op) : world :=
    match o with
    | ONew => push_persp w (p_new PNone 0 PaNone)
    | OInsert h n k v =>
      match get_h (w_persps w) h with Some P => set_persp w h (Some (p_insert P n k v)) | None => w end
    | ODelete h n k =>
      match get_h (w_persps w) h with Some P => set_persp w h (Some (p_delete P n k)) | None => w end
    | OAddCmd h id =>
      match get_h (w_persps w) h with
      | Some P => match p_add_command P id (p_head_address P) with
                  | Ok (P', _) => set_persp w h (Some P')
                  | Err _ => w
                  end
      | None => w
      end
    | OFailedRule h body =>
      match get_h (w_persps w) h with
      | Some P => match p_revert (apply_writes P body) (p_checkpoint P) with
                  | Ok P' => set_persp w h (Some P')
                  | Err _ => w
                  end
      | None => w
      end
    | OCreate h =>
      match get_h (w_persps w) h with Some P => finish_seg w h (create (w_store w) P) | None => w end
    | OWrite h =>
      match get_h (w_persps w) h with Some P => finish_seg w h (write maxd (w_store w) P) | None => w end
    | OOpen s i =>
      match nth_error (w_segs w) s with
      | Some sg => match get_linear_perspective (w_store w) (sg_offset sg) (sg_max_cut sg + N.of_nat i) with
                   | Ok P => push_persp w P
                   | Err _ => w
                   end
      | None => w
      end
    | OOpenIdx j =>
      match nth_error (w_idxs w) j with
      | Some off => push_persp w (open_index off 0 (PaMerge (0, 0) (0, 0))%N)
      | None => w
      end
    | OFactAt s i =>
      match nth_error (w_segs w) s with
      | Some sg => match get_fact_perspective (w_store w) (sg_offset sg) (sg_max_cut sg + N.of_nat i) with
                   | Ok fp => push_fp w fp
                   | Err _ => w
                   end
      | None => w
      end
    | OFInsert f n k v =>
      match get_h (w_fps w) f with Some fp => set_fp w f (Some (fp_insert fp n k v)) | None => w end
    | OFDelete f n k =>
      match get_h (w_fps w) f with Some fp => set_fp w f (Some (fp_delete fp n k)) | None => w end
    | OWriteFacts f =>
      match get_h (w_fps w) f with
      | Some fp =>
        match write_facts maxd (w_store w) fp with
        | Ok (st, fi) =>
          let w1 := set_fp (with_store w st) f None in
          {| w_store := w_store w1; w_persps := w_persps w1; w_fps := w_fps w1;
             w_segs := w_segs w1; w_idxs := w_idxs w ++ [fi_offset fi] |}
        | Err _ => w
        end
      | None => w
      end
    end.

  Definition mrun (ops : list op) : world := fold_left mstep ops world0.
End WithDepth.

(** ** Driver used by the correspondence runs: ops extended with kept checkpoints,
    and the observation made after each step (every exact and prefix query of the
    touched object over a fixed universe of names, keys and prefixes). *)

Inductive xop := XO (o : op) | XCheckpoint (h : nat) | XRevert (h j : nat).

Record xworld := { xw : world; xcps : list (list checkpoint) }.
Definition xworld0 : xworld := {| xw := world0; xcps := [] |}.

Fixpoint upd_cps (l : list (list checkpoint)) (h : nat) (f : list checkpoint -> list checkpoint)
  : list (list checkpoint) :=
  match l, h with
  | [], O => [f []]
  | [], S h' => [] :: upd_cps [] h' f
  | c :: r, O => f c :: r
  | c :: r, S h' => c :: upd_cps r h' f
  end.

Record universe := { u_names : list name; u_keys : list keys; u_prefixes : list keys }.

(** tag: 0 perspective, 1 fact perspective, 2 segment facts, 3 fact index *)
Record obs := { o_tag : N; o_extra : list N; o_exact : list (option bytes); o_prefix : list (list (keys * bytes)) }.

Fixpoint all_ok {A} (l : list (res A)) : option (list A) :=
  match l with
  | [] => Some []
  | Ok a :: r => match all_ok r with Some r' => Some (a :: r') | None => None end
  | Err _ :: _ => None
  end.

Definition dump (U : universe) (q : name -> keys -> res (option bytes))
           (qp : name -> keys -> res (list (keys * bytes))) (tag : N) (extra : list N) : option obs :=
  match all_ok (flat_map (fun n => map (q n) (u_keys U)) (u_names U)),
        all_ok (flat_map (fun n => map (qp n) (u_prefixes U)) (u_names U)) with
  | Some e, Some p => Some {| o_tag := tag; o_extra := extra; o_exact := e; o_prefix := p |}
  | _, _ => None
  end.

Definition head_code (P : persp) : list N :=
  match last (map Some (p_cmds P)) None with
  | Some c => [3; c_id c; N.of_nat (length (p_cmds P)) - 1]%N
  | None => match p_parents P with PaNone => [0] | PaSingle _ _ => [1] | PaMerge _ _ => [2] end%N
  end.

Definition obs_persp (U : universe) (w : world) (h : nat) : option obs :=
  match get_h (w_persps w) h with
  | Some P => dump U (p_query (w_store w) P) (p_query_prefix (w_store w) P) 0 (head_code P)
  | None => None
  end.
Definition obs_fp (U : universe) (w : world) (f : nat) : option obs :=
  match get_h (w_fps w) f with
  | Some fp => dump U (fp_query (w_store w) fp) (fp_query_prefix (w_store w) fp) 1 []
  | None => None
  end.
Definition obs_index (U : universe) (w : world) (tag : N) (extra : list N) (off : N) : option obs :=
  dump U (index_query (w_store w) off) (index_query_prefix (w_store w) off) tag extra.

Section XWithDepth.
  Variable maxd : N.

  Definition xstep_w (x : xworld) (o : xop) : xworld :=
    let w := xw x in
    match o with
    | XO o' => {| xw := mstep maxd w o'; xcps := xcps x |}
    | XCheckpoint h =>
      match get_h (w_persps w) h with
      | Some P => {| xw := w; xcps := upd_cps (xcps x) h (fun l => l ++ [p_checkpoint P]) |}
      | None => x
      end
    | XRevert h j =>
      match get_h (w_persps w) h, nth_error (nth h (xcps x) []) j with
      | Some P, Some c =>
        match p_revert P c with
        | Ok P' => {| xw := set_persp w h (Some P'); xcps := upd_cps (xcps x) h (firstn (S j)) |}
        | Err _ => x
        end
      | _, _ => x
      end
    end.

  (** What is observed after the step that took [x] to [x']. *)
  Definition xobs (U : universe) (x x' : xworld) (o : xop) : option obs :=
    let w := xw x in
    let w' := xw x' in
    match o with
    | XO o' =>
      match o' with
      | ONew | OOpen _ _ | OOpenIdx _ =>
        if (length (w_persps w) <? length (w_persps w'))%nat then obs_persp U w' (length (w_persps w)) else None
      | OInsert h _ _ _ | ODelete h _ _ | OAddCmd h _ | OFailedRule h _ =>
        match get_h (w_persps w) h with Some _ => obs_persp U w' h | None => None end
      | OCreate _ | OWrite _ =>
        if (length (w_segs w) <? length (w_segs w'))%nat
        then match last (map Some (w_segs w')) None with
             | Some sg => obs_index U w' 2 [sg_offset sg] (sg_facts sg)
             | None => None
             end
        else None
      | OFactAt _ _ => if (length (w_fps w) <? length (w_fps w'))%nat then obs_fp U w' (length (w_fps w)) else None
      | OFInsert f _ _ _ | OFDelete f _ _ =>
        match get_h (w_fps w) f with Some _ => obs_fp U w' f | None => None end
      | OWriteFacts _ =>
        if (length (w_idxs w) <? length (w_idxs w'))%nat
        then match last (map Some (w_idxs w')) None with
             | Some off => obs_index U w' 3 [] off
             | None => None
             end
        else None
      end
    | XCheckpoint h => obs_persp U w' h
    | XRevert h j =>
      match get_h (w_persps w) h, nth_error (nth h (xcps x) []) j with
      | Some P, Some c => match p_revert P c with Ok _ => obs_persp U w' h | Err _ => None end
      | _, _ => None
      end
    end.

  Fixpoint xrun (U : universe) (x : xworld) (ops : list xop) : list (option obs) :=
    match ops with
    | [] => []
    | o :: r => let x' := xstep_w x o in xobs U x x' o :: xrun U x' r
    end.

  Definition xfinal (ops : list xop) : world := xw (fold_left xstep_w ops xworld0).
End XWithDepth.

Definition store_depths (w : world) : list N :=
  flat_map (fun it => match it with IFacts f => [fi_depth f] | ISeg _ => [] end) (w_store w).
