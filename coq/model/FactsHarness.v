(** Comparison helpers for the C12/C13 correspondence runs (used only by generated
    cases files). *)
From Aranya Require Import base.Tactics base.Harness base.ListLex model.Facts model.FactsWorld.

Definition keys_eqb : keys -> keys -> bool := list_eqb lN_eqb.

(** [cmp_off = false] (file backend: offsets are byte positions) ignores the segment offset. *)
Definition obs_eqb (cmp_off : bool) (a b : obs) : bool :=
  N.eqb (o_tag a) (o_tag b)
  && (if negb cmp_off && N.eqb (o_tag a) 2 then true else lN_eqb (o_extra a) (o_extra b))
  && list_eqb (option_eqb lN_eqb) (o_exact a) (o_exact b)
  && list_eqb (list_eqb (pair_eqb keys_eqb lN_eqb)) (o_prefix a) (o_prefix b).

Definition case := (bool * universe * list xop * list (option obs))%type.

Definition check_case (maxd : N) (c : case) : bool :=
  let '(cmp_off, U, ops, expected) := c in
  list_eqb (option_eqb (obs_eqb cmp_off)) (xrun maxd U xworld0 ops) expected.

(** Index of the first step whose observation differs (for reporting). *)
Fixpoint first_diff (cmp_off : bool) (i : N) (a b : list (option obs)) : option N :=
  match a, b with
  | [], [] => None
  | x :: a', y :: b' => if option_eqb (obs_eqb cmp_off) x y then first_diff cmp_off (N.succ i) a' b' else Some i
  | _, _ => Some i
  end.
Definition case_first_diff (maxd : N) (c : case) : option N :=
  let '(cmp_off, U, ops, expected) := c in
  first_diff cmp_off 0 (xrun maxd U xworld0 ops) expected.

(** Depths of all fact indexes in the final store (coverage statistics). *)
Definition case_depths (maxd : N) (c : case) : list N :=
  let '(_, _, ops, _) := c in store_depths (xfinal maxd ops).

(** Sparse form of an observation (what the cases files contain): only the answers
    that are not [None] / not empty, with their position. *)
Definition sobs := (N * list N * list (N * bytes) * list (N * list (keys * bytes)))%type.

Fixpoint sparse_opt {A} (i : N) (l : list (option A)) : list (N * A) :=
  match l with
  | [] => []
  | Some a :: r => (i, a) :: sparse_opt (N.succ i) r
  | None :: r => sparse_opt (N.succ i) r
  end.
Fixpoint sparse_list {A} (i : N) (l : list (list A)) : list (N * list A) :=
  match l with
  | [] => []
  | [] :: r => sparse_list (N.succ i) r
  | a :: r => (i, a) :: sparse_list (N.succ i) r
  end.

Definition sobs_eqb (cmp_off : bool) (a : obs) (b : sobs) : bool :=
  let '(t, e, x, p) := b in
  N.eqb (o_tag a) t
  && (if negb cmp_off && N.eqb t 2 then true else lN_eqb (o_extra a) e)
  && list_eqb (pair_eqb N.eqb lN_eqb) (sparse_opt 0 (o_exact a)) x
  && list_eqb (pair_eqb N.eqb (list_eqb (pair_eqb keys_eqb lN_eqb))) (sparse_list 0 (o_prefix a)) p.

Definition osobs_eqb (cmp_off : bool) (a : option obs) (b : option sobs) : bool :=
  match a, b with
  | Some x, Some y => sobs_eqb cmp_off x y
  | None, None => true
  | _, _ => false
  end.

Definition scase := (bool * universe * list xop * list (option sobs))%type.

Fixpoint sfirst_diff (cmp_off : bool) (i : N) (a : list (option obs)) (b : list (option sobs)) : option N :=
  match a, b with
  | [], [] => None
  | x :: a', y :: b' => if osobs_eqb cmp_off x y then sfirst_diff cmp_off (N.succ i) a' b' else Some i
  | _, _ => Some i
  end.

(** [None] when the model's observations equal the implementation's at every step,
    otherwise the first differing step. *)
Definition scase_first_diff (maxd : N) (c : scase) : option N :=
  let '(cmp_off, U, ops, expected) := c in
  sfirst_diff cmp_off 0 (xrun maxd U xworld0 ops) expected.

Definition scase_depths (maxd : N) (c : scase) : list N :=
  let '(_, _, ops, _) := c in store_depths (xfinal maxd ops).
