(** Model of the fact machinery of
    [aranya-runtime/src/storage/linear/mod.rs]:

    - [FactIndexRepr] chains in an append-only store ([Write::append] /
      [Read::fetch]), [LinearFactIndex::query] / [query_prefix_inner],
      [find_prefixes];
    - [LinearFactPerspective] with its [FactPerspectivePrior]
      ([query], [query_prefix_inner], [insert], [delete], [apply_updates]);
    - [LinearStorage::write_facts_with_prior] with the depth-limited
      compaction ([compact]), [create], [write], [get_linear_perspective],
      [get_fact_perspective], [new_merge_perspective];
    - [LinearPerspective] ([insert]/[delete]/[add_command]/[checkpoint]/
      [revert]/[head_address]).

    [BTreeMap]s are sorted association lists ([base/SortedAssoc.v]); the store
    is the list of appended items and an offset is a position in it (the
    in-memory backend's offsets; the file backend's byte offsets are
    first-seen ordinals of these).  The depth limit is a parameter [maxd]
    (instantiated with the generated [MAX_FACT_INDEX_DEPTH]).  Skip lists,
    policy ids and command payloads carry no fact logic and are left out:
    a command is its id and its fact updates. *)
From Aranya Require Import base.Tactics base.ListLex base.SortedAssoc.

Definition bytes := list N.
Definition keys := list bytes.
Definition name := bytes.                       (* [String], as UTF-8 bytes *)
Definition bcmp : bytes -> bytes -> comparison := lex_cmp N.compare.
Definition kcmp : keys -> keys -> comparison := lex_cmp bcmp.
Definition val := option bytes.                 (* [None] = deletion tombstone *)
Definition fmap := list (keys * val).           (* [BTreeMap<Keys, Option<Bytes>>] *)
Definition nmap := list (name * fmap).          (* [BTreeMap<String, FactMap>] *)
Definition update := (name * keys * val)%type.  (* [(String, Keys, Option<Bytes>)] *)

Inductive err := EFetch | EFuel | EBug | EEmptyPerspective | EHeadMismatch | EOutOfBounds.
Inductive res (A : Type) := Ok (a : A) | Err (e : err).
Arguments Ok {A} a.
Arguments Err {A} e.

Definition is_empty {A} (l : list A) : bool := match l with [] => true | _ => false end.
Definition is_some {A} (o : option A) : bool := match o with Some _ => true | None => false end.

(** ** Two-level maps *)

Definition nm_get (m : nmap) (n : name) (k : keys) : option val :=
  match sget bcmp n m with Some fm => sget kcmp k fm | None => None end.

(** [map.entry(name).or_default().insert(keys, v)] *)
Definition nm_put (m : nmap) (n : name) (k : keys) (v : val) : nmap :=
  sput bcmp n (sput kcmp k v (match sget bcmp n m with Some fm => fm | None => [] end)) m.

(** [if let Some(kv) = map.get_mut(name) { kv.remove(keys); }] *)
Definition nm_remove (m : nmap) (n : name) (k : keys) : nmap :=
  match sget bcmp n m with Some fm => sput bcmp n (sdel kcmp k fm) m | None => m end.

(** [map.retain(|_, kv| !kv.is_empty())] *)
Definition nm_retain_nonempty (m : nmap) : nmap := filter (fun e => negb (is_empty (snd e))) m.

(** [find_prefixes]: [map.range(prefix..).take_while(|(k, _)| k.starts_with(prefix))] *)
Definition find_prefixes (fm : fmap) (p : keys) : list (keys * val) := range_prefix bcmp p fm.

(** [if !matches.contains_key(k) { matches.insert(k, v) }] over the found entries;
    also the [sub.entry(k).or_insert(v)] loop of [compact]. *)
Definition merge_keep (matches : fmap) (found : list (keys * val)) : fmap :=
  fold_left (fun acc e => if smem kcmp (fst e) acc then acc else sput kcmp (fst e) (snd e) acc) found matches.

(** [matches.insert(k, v)] over the found entries. *)
Definition overwrite (matches : fmap) (found : list (keys * val)) : fmap :=
  fold_left (fun acc e => sput kcmp (fst e) (snd e) acc) found matches.

(** The storage [QueryIterator]: ascending, tombstones filtered out. *)
Fixpoint live (m : fmap) : list (keys * bytes) :=
  match m with
  | [] => []
  | (k, Some v) :: r => (k, v) :: live r
  | (_, None) :: r => live r
  end.

(** ** The append-only store *)

Record findex := {
  fi_offset : N;
  fi_prior : option N;
  fi_depth : N;
  fi_facts : nmap;
}.

Record cmd := { c_id : N; c_updates : list update }.

Record segment := {
  sg_offset : N;
  sg_facts : N;
  sg_prior_facts : option N;
  sg_cmds : list cmd;
  sg_max_cut : N;
}.

Inductive item := IFacts (f : findex) | ISeg (s : segment).
Definition store := list item.

Definition fetch_facts (st : store) (off : N) : option findex :=
  match nth_error st (N.to_nat off) with Some (IFacts f) => Some f | _ => None end.
Definition fetch_seg (st : store) (off : N) : option segment :=
  match nth_error st (N.to_nat off) with Some (ISeg s) => Some s | _ => None end.

Definition next_offset (st : store) : N := N.of_nat (length st).

Definition append_facts (st : store) (prior : option N) (depth : N) (facts : nmap) : store * findex :=
  let fi := {| fi_offset := next_offset st; fi_prior := prior; fi_depth := depth; fi_facts := facts |} in
  (st ++ [IFacts fi], fi).

(** ** [LinearFactIndex] *)

Fixpoint ix_query (st : store) (fuel : nat) (off : N) (n : name) (k : keys) : res (option bytes) :=
  match fuel with
  | O => Err EFuel
  | S f =>
    match fetch_facts st off with
    | None => Err EFetch
    | Some fi =>
      match nm_get (fi_facts fi) n k with
      | Some v => Ok v
      | None => match fi_prior fi with Some p => ix_query st f p n k | None => Ok None end
      end
    end
  end.

Fixpoint ix_prefix (st : store) (fuel : nat) (off : N) (n : name) (p : keys) (matches : fmap) : res fmap :=
  match fuel with
  | O => Err EFuel
  | S f =>
    match fetch_facts st off with
    | None => Err EFetch
    | Some fi =>
      let matches' := match sget bcmp n (fi_facts fi) with
                      | Some fm => merge_keep matches (find_prefixes fm p)
                      | None => matches
                      end in
      match fi_prior fi with Some p' => ix_prefix st f p' n p matches' | None => Ok matches' end
    end
  end.

Definition index_query (st : store) (off : N) n k := ix_query st (length st) off n k.
Definition index_prefix_inner (st : store) (off : N) n p := ix_prefix st (length st) off n p [].
Definition map_res {A B} (f : A -> B) (r : res A) : res B :=
  match r with Ok a => Ok (f a) | Err e => Err e end.
Definition index_query_prefix (st : store) (off : N) n p : res (list (keys * bytes)) :=
  map_res live (index_prefix_inner st off n p).

(** ** [LinearFactPerspective] *)

Inductive fprior := PNone | PIndex (off : N) | PPersp (m : nmap) (pr : fprior).
Record fpersp := { fp_map : nmap; fp_prior : fprior }.

Definition is_none (pr : fprior) : bool := match pr with PNone => true | _ => false end.

Fixpoint pr_query (st : store) (pr : fprior) (n : name) (k : keys) : res (option bytes) :=
  match pr with
  | PNone => Ok None
  | PIndex off => index_query st off n k
  | PPersp m pr' => match nm_get m n k with Some v => Ok v | None => pr_query st pr' n k end
  end.

Fixpoint pr_prefix (st : store) (pr : fprior) (n : name) (p : keys) : res fmap :=
  match pr with
  | PNone => Ok []
  | PIndex off => index_prefix_inner st off n p
  | PPersp m pr' =>
    match pr_prefix st pr' n p with
    | Err e => Err e
    | Ok matches =>
      Ok (match sget bcmp n m with Some fm => overwrite matches (find_prefixes fm p) | None => matches end)
    end
  end.

Definition as_prior (fp : fpersp) : fprior := PPersp (fp_map fp) (fp_prior fp).
Definition fp_query (st : store) (fp : fpersp) n k := pr_query st (as_prior fp) n k.
Definition fp_query_prefix (st : store) (fp : fpersp) n p : res (list (keys * bytes)) :=
  map_res live (pr_prefix st (as_prior fp) n p).

Definition fp_insert (fp : fpersp) (n : name) (k : keys) (v : bytes) : fpersp :=
  {| fp_map := nm_put (fp_map fp) n k (Some v); fp_prior := fp_prior fp |}.

Definition fp_delete (fp : fpersp) (n : name) (k : keys) : fpersp :=
  if is_none (fp_prior fp)
  then {| fp_map := nm_remove (fp_map fp) n k; fp_prior := fp_prior fp |}   (* no tombstone without a prior *)
  else {| fp_map := nm_put (fp_map fp) n k None; fp_prior := fp_prior fp |}.

Definition apply_update (fp : fpersp) (u : update) : fpersp :=
  let '(n, k, v) := u in
  if is_none (fp_prior fp)
  then match v with
       | Some b => {| fp_map := nm_put (fp_map fp) n k (Some b); fp_prior := fp_prior fp |}
       | None => {| fp_map := nm_remove (fp_map fp) n k; fp_prior := fp_prior fp |}
       end
  else {| fp_map := nm_put (fp_map fp) n k v; fp_prior := fp_prior fp |}.

Definition apply_updates (fp : fpersp) (us : list update) : fpersp := fold_left apply_update us fp.

Definition fp_clear (fp : fpersp) : fpersp := {| fp_map := []; fp_prior := fp_prior fp |}.
Definition fp_new (pr : fprior) : fpersp := {| fp_map := []; fp_prior := pr |}.

(** ** Writing fact indexes; compaction *)

(** One round of the [compact] loop body: merge [facts] under what is already there. *)
Definition nm_or_insert (map : nmap) (facts : nmap) : nmap :=
  fold_left (fun acc e =>
               sput bcmp (fst e)
                    (merge_keep (match sget bcmp (fst e) acc with Some fm => fm | None => [] end) (snd e)) acc)
            facts map.

Fixpoint compact_go (st : store) (fuel : nat) (repr : findex) (map : nmap) : res nmap :=
  match fuel with
  | O => Err EFuel
  | S f =>
    let map' := nm_or_insert map (fi_facts repr) in
    match fi_prior repr with
    | None => Ok map'
    | Some off => match fetch_facts st off with
                  | None => Err EFetch
                  | Some r => compact_go st f r map'
                  end
    end
  end.

(** [map.retain(|_, kv| { kv.retain(|_, v| v.is_some()); !kv.is_empty() })] *)
Definition drop_tombstones (m : nmap) : nmap :=
  nm_retain_nonempty (map (fun e => (fst e, filter (fun kv => is_some (snd kv)) (snd e))) m).

Section WithDepth.
  (** [MAX_FACT_INDEX_DEPTH] *)
  Variable maxd : N.

  (** [compact]: flatten the chain, drop tombstones, write an index without prior
      (through [write_facts], whose depth check is repeated here). *)
  Definition compact (st : store) (repr : findex) : res (store * findex) :=
    match compact_go st (length st) repr [] with
    | Err e => Err e
    | Ok map =>
      if (maxd <? 1)%N then Err EBug
      else Ok (append_facts st None 1 (drop_tombstones map))
    end.

  (** The part of [write_facts_with_prior] after the prior has been resolved. *)
  Definition finish_write (st : store) (prior : option findex) (m : nmap)
    : res (store * findex * option N) :=
    match (match prior with
           | Some p =>
             if (maxd - 1 <? fi_depth p)%N
             then match compact st p with Ok (st', p') => Ok (st', Some p') | Err e => Err e end
             else Ok (st, Some p)
           | None => Ok (st, None)
           end) with
    | Err e => Err e
    | Ok (st1, prior1) =>
      let depth := ((match prior1 with Some p => fi_depth p | None => 0 end) + 1)%N in
      if (maxd <? depth)%N then Err EBug          (* bug!("fact index too deep") *)
      else
        let prior_offset := option_map fi_offset prior1 in
        let '(st2, fi) := append_facts st1 prior_offset depth m in
        Ok (st2, fi, prior_offset)
    end.

  (** [write_facts_with_prior]: returns the store, the written (or reused) index and
      the prior-fact offset to be recorded in the segment. *)
  Fixpoint write_facts_wp (st : store) (m : nmap) (pr : fprior) : res (store * findex * option N) :=
    match pr with
    | PNone => finish_write st None m
    | PPersp m' pr' =>
      match write_facts_wp st m' pr' with
      | Err e => Err e
      | Ok (st1, fi, _) =>
        if is_empty m then Ok (st1, fi, Some (fi_offset fi))
        else finish_write st1 (Some fi) m
      end
    | PIndex off =>
      match fetch_facts st off with
      | None => Err EFetch
      | Some fi =>
        if is_empty m then Ok (st, fi, Some (fi_offset fi))
        else finish_write st (Some fi) m
      end
    end.

  Definition write_facts (st : store) (fp : fpersp) : res (store * findex) :=
    match write_facts_wp st (fp_map fp) (fp_prior fp) with
    | Ok (st', fi, _) => Ok (st', fi)
    | Err e => Err e
    end.
End WithDepth.

(** ** [LinearPerspective] *)

(** [Prior<Address>] with an address = (id, max_cut). *)
Inductive paddr := PaNone | PaSingle (id mc : N) | PaMerge (l r : N * N).

Definition paddr_eqb (a b : paddr) : bool :=
  match a, b with
  | PaNone, PaNone => true
  | PaSingle i m, PaSingle i' m' => N.eqb i i' && N.eqb m m'
  | PaMerge (a1, a2) (b1, b2), PaMerge (a1', a2') (b1', b2') =>
    N.eqb a1 a1' && N.eqb a2 a2' && N.eqb b1 b1' && N.eqb b2 b2'
  | _, _ => false
  end.

Record persp := {
  p_facts : fpersp;
  p_cmds : list cmd;
  p_cur : list update;            (* [current_updates] *)
  p_max_cut : N;
  p_parents : paddr;
}.

Definition p_new (pr : fprior) (max_cut : N) (parents : paddr) : persp :=
  {| p_facts := fp_new pr; p_cmds := []; p_cur := []; p_max_cut := max_cut; p_parents := parents |}.

Definition p_query st (P : persp) n k := fp_query st (p_facts P) n k.
Definition p_query_prefix st (P : persp) n p := fp_query_prefix st (p_facts P) n p.

Definition p_insert (P : persp) n k v : persp :=
  {| p_facts := fp_insert (p_facts P) n k v; p_cmds := p_cmds P; p_cur := p_cur P ++ [(n, k, Some v)];
     p_max_cut := p_max_cut P; p_parents := p_parents P |}.

Definition p_delete (P : persp) n k : persp :=
  {| p_facts := fp_delete (p_facts P) n k; p_cmds := p_cmds P; p_cur := p_cur P ++ [(n, k, None)];
     p_max_cut := p_max_cut P; p_parents := p_parents P |}.

Definition p_head_address (P : persp) : paddr :=
  match last (map Some (p_cmds P)) None with
  | Some c => PaSingle (c_id c) (p_max_cut P + (N.of_nat (length (p_cmds P)) - 1))
  | None => p_parents P
  end.

(** [add_command]: the command must name the current head as its parent; it takes
    the pending updates. Returns the new command count. *)
Definition p_add_command (P : persp) (id : N) (parent : paddr) : res (persp * N) :=
  if negb (paddr_eqb parent (p_head_address P)) then Err EHeadMismatch
  else
    let cs := p_cmds P ++ [{| c_id := id; c_updates := p_cur P |}] in
    Ok ({| p_facts := p_facts P; p_cmds := cs; p_cur := []; p_max_cut := p_max_cut P; p_parents := p_parents P |},
        N.of_nat (length cs)).

(** [Checkpoint { index, pending }] *)
Record checkpoint := { cp_index : N; cp_pending : N }.

Definition p_checkpoint (P : persp) : checkpoint :=
  {| cp_index := N.of_nat (length (p_cmds P)); cp_pending := N.of_nat (length (p_cur P)) |}.

Definition replay (fp : fpersp) (cs : list cmd) : fpersp :=
  fold_left (fun acc c => apply_updates acc (c_updates c)) cs fp.

(** [revert] (after the repair recorded as finding F12: the checkpoint also counts
    the pending writes, which are kept). *)
Definition p_revert (P : persp) (c : checkpoint) : res persp :=
  let len := N.of_nat (length (p_cmds P)) in
  if (cp_index c =? len)%N && (cp_pending c =? N.of_nat (length (p_cur P)))%N then Ok P
  else if (len <? cp_index c)%N then Err EBug
  else
    let src := match nth_error (p_cmds P) (N.to_nat (cp_index c)) with
               | Some d => c_updates d
               | None => p_cur P
               end in
    if (N.of_nat (length src) <? cp_pending c)%N then Err EBug
    else
      let pending := firstn (N.to_nat (cp_pending c)) src in
      let cs := firstn (N.to_nat (cp_index c)) (p_cmds P) in
      Ok {| p_facts := apply_updates (replay (fp_clear (p_facts P)) cs) pending;
            p_cmds := cs; p_cur := pending; p_max_cut := p_max_cut P; p_parents := p_parents P |}.

(** [revert] as it was before the repair: the checkpoint is the command count only
    and every pending write is dropped. *)
Definition p_revert_old (P : persp) (index : N) : res persp :=
  let len := N.of_nat (length (p_cmds P)) in
  if (index =? len)%N && is_empty (p_cur P) then Ok P
  else if (len <? index)%N then Err EBug
  else
    let cs := firstn (N.to_nat index) (p_cmds P) in
    Ok {| p_facts := replay (fp_clear (p_facts P)) cs;
          p_cmds := cs; p_cur := []; p_max_cut := p_max_cut P; p_parents := p_parents P |}.

(** ** [LinearStorage] *)

Definition append_seg (st : store) (facts : N) (prior_facts : option N) (cs : list cmd) (mc : N)
  : store * segment :=
  let sg := {| sg_offset := next_offset st; sg_facts := facts; sg_prior_facts := prior_facts;
               sg_cmds := cs; sg_max_cut := mc |} in
  (st ++ [ISeg sg], sg).

(** [StorageProvider::new_storage] + [LinearStorage::create]. *)
Definition create (st : store) (P : persp) : store * res segment :=
  if is_empty (p_cmds P) then (st, Err EEmptyPerspective)
  else if negb (is_none (fp_prior (p_facts P))) then (st, Err EBug)      (* assert! *)
  else
    let '(st1, fi) := append_facts st None 1 (nm_retain_nonempty (fp_map (p_facts P))) in
    let '(st2, sg) := append_seg st1 (fi_offset fi) None (p_cmds P) 0 in
    (st2, Ok sg).

Section WithDepth2.
  Variable maxd : N.

  (** [Storage::write]: the facts are written before the command list is checked. *)
  Definition write (st : store) (P : persp) : store * res segment :=
    match write_facts_wp maxd st (fp_map (p_facts P)) (fp_prior (p_facts P)) with
    | Err e => (st, Err e)
    | Ok (st1, fi, prior_facts) =>
      if is_empty (p_cmds P) then (st1, Err EEmptyPerspective)
      else
        let '(st2, sg) := append_seg st1 (fi_offset fi) prior_facts (p_cmds P) (p_max_cut P) in
        (st2, Ok sg)
    end.
End WithDepth2.

(** [SegmentRepr::cmd_index] / [get_command] *)
Definition cmd_index (sg : segment) (mc : N) : option nat :=
  if (mc <? sg_max_cut sg)%N then None
  else let i := N.to_nat (mc - sg_max_cut sg) in
       if (i <? length (sg_cmds sg))%nat then Some i else None.

Definition head_max_cut (sg : segment) : N := (sg_max_cut sg + (N.of_nat (length (sg_cmds sg)) - 1))%N.

(** The facts as of command [i] of a segment, rebuilt from the prior fact index and the
    per-command updates. *)
Definition rebuild (sg : segment) (i : nat) : fpersp :=
  let prior := match sg_prior_facts sg with Some o => PIndex o | None => PNone end in
  replay (fp_new prior) (firstn (S i) (sg_cmds sg)).

Definition get_linear_perspective (st : store) (seg : N) (mc : N) : res persp :=
  match fetch_seg st seg with
  | None => Err EFetch
  | Some sg =>
    match cmd_index sg mc with
    | None => Err EOutOfBounds
    | Some i =>
      let id := match nth_error (sg_cmds sg) i with Some c => c_id c | None => 0%N end in
      let prior_facts :=
          if (mc =? head_max_cut sg)%N then PIndex (sg_facts sg)
          else
            let facts := rebuild sg i in
            let m := if is_none (fp_prior facts) then nm_retain_nonempty (fp_map facts) else fp_map facts in
            if is_empty m then fp_prior facts else PPersp m (fp_prior facts) in
      Ok (p_new prior_facts (mc + 1) (PaSingle id mc))
    end
  end.

Definition get_fact_perspective (st : store) (seg : N) (mc : N) : res fpersp :=
  match fetch_seg st seg with
  | None => Err EFetch
  | Some sg =>
    if (mc =? head_max_cut sg)%N || forallb (fun c => is_empty (c_updates c)) (sg_cmds sg)
    then Ok (fp_new (PIndex (sg_facts sg)))
    else
      match cmd_index sg mc with
      | None => Err EOutOfBounds
      | Some i => Ok (rebuild sg i)
      end
  end.

(** [new_merge_perspective]: a perspective directly over a (braid) fact index. *)
Definition open_index (off : N) (max_cut : N) (parents : paddr) : persp :=
  p_new (PIndex off) max_cut parents.

(** [Segment::facts] is the index at [sg_facts]; [Storage::fact_cache] likewise is an
    index offset. *)
