(** Model of the fact-key codec of [aranya-runtime/src/vm_policy/io.rs]:
    [ser_key] / [ser_keys] / [deser_key] / [deser_keys] and the [KeyType] tag
    table.  Tags, widths, byte order, the sign-flip bit and the bool bytes are
    the regenerated values of [gen/GenKeyEnc.v].

    A key is [(identifier, HashableValue)]; a compound key ([Keys]) is the
    list of the serialised elements, compared element-wise ([Ord for [Bytes]]),
    each element byte-wise.  The typed order [hval_cmp] is the derived [Ord]
    of [HashableValue] (variant index, then payload; an enum is
    [(value, name)] in the serialised order). *)
From Aranya Require Import base.Tactics base.ListLex gen.GenKeyEnc.

Definition bytes := list N.
Definition bcmp : bytes -> bytes -> comparison := lex_cmp N.compare.   (* [Ord for [u8]] *)
Definition kcmp : list bytes -> list bytes -> comparison := lex_cmp bcmp. (* [Ord for Keys] *)

Definition pow256 (w : nat) : N := 256 ^ N.of_nat w.

(** [uN::to_be_bytes]: [w] bytes, most significant first. *)
Fixpoint be_bytes (w : nat) (n : N) : bytes :=
  match w with
  | O => []
  | S w' => (n / pow256 w') mod 256 :: be_bytes w' (n mod pow256 w')
  end.
(** [uN::from_be_bytes] *)
Definition from_be (l : bytes) : N := fold_left (fun acc b => acc * 256 + b) l 0.

Definition enc_uint (big_endian : bool) (w : nat) (n : N) : bytes :=
  if big_endian then be_bytes w n else rev (be_bytes w n).

(** ** [i64] *)
Definition two63 : Z := 2 ^ 63.
Definition two64 : Z := 2 ^ 64.
Definition in_i64 (z : Z) : Prop := (- two63 <= z < two63)%Z.
Definition in_i64b (z : Z) : bool := ((- two63 <=? z) && (z <? two63))%Z.
(** the two's-complement bit pattern of an [i64] *)
Definition to_u64 (z : Z) : N := Z.to_N (z mod two64).
(** [u64 as i64] *)
Definition of_u64 (n : N) : Z := if (Z.of_N n <? two63)%Z then Z.of_N n else (Z.of_N n - two64)%Z.
Definition flip_mask : N := N.shiftl 1 sign_flip_bit.             (* [1 << 63] *)
(** [i64::to_be_bytes(int ^ (1 << 63))] *)
Definition ser_int (z : Z) : bytes := enc_uint int_big_endian int_width (N.lxor (to_u64 z) flip_mask).
(** [i64::from_be_bytes(bytes) ^ (1 << 63)] *)
Definition deser_int (b : bytes) : Z := of_u64 (N.lxor (from_be b) flip_mask).

(** ** Keys *)
Inductive hval :=
| HInt (z : Z)
| HBool (b : bool)
| HString (s : bytes)
| HId (i : bytes)
| HEnum (name : bytes) (z : Z).
Definition fkey := (bytes * hval)%type.      (* [FactKey { identifier, value }] *)

Definition ser_value (v : hval) : N * bytes :=
  match v with
  | HInt z => (tag_int, ser_int z)
  | HBool b => (tag_bool, [if b then bool_true_byte else bool_false_byte])
  | HString s => (tag_string, s)
  | HId i => (tag_id, i)
  | HEnum n z => (tag_enum, ser_int z ++ n)
  end.

Definition ser_key (k : fkey) : bytes :=
  let '(ident, v) := k in
  let '(tag, vb) := ser_value v in
  enc_uint ident_len_big_endian ident_len_width (N.of_nat (length ident)) ++ ident ++ [tag] ++ vb.
Definition ser_keys (ks : list fkey) : list bytes := map ser_key ks.
(** a compound key over the schema's key-field names *)
Definition mk_keys (names : list bytes) (vs : list hval) : list fkey := combine names vs.

(** ** Decoder *)
Inductive keytype := KInt | KBool | KString | KId | KEnum.
Definition keytype_from_u8 (t : N) : option keytype :=
  if t =? tag_int then Some KInt
  else if t =? tag_bool then Some KBool
  else if t =? tag_string then Some KString
  else if t =? tag_id then Some KId
  else if t =? tag_enum then Some KEnum
  else None.

Definition is_alpha (c : N) : bool := ((65 <=? c) && (c <=? 90)) || ((97 <=? c) && (c <=? 122)).
Definition is_alnum (c : N) : bool := is_alpha c || ((48 <=? c) && (c <=? 57)).
(** [Identifier::validate] *)
Definition ident_ok (b : bytes) : bool :=
  match b with
  | [] => false
  | c :: r => is_alpha c && forallb (fun x => is_alnum x || (x =? 95)) r
  end.
Definition no_nul (b : bytes) : bool := forallb (fun x => negb (x =? 0)) b.

(** [split_first_chunk::<N>] *)
Definition split_chunk (n : nat) (l : bytes) : option (bytes * bytes) :=
  if (n <=? length l)%nat then Some (firstn n l, skipn n l) else None.

Section Deser.
  (** [core::str::from_utf8(..).is_ok()] — the standard library's UTF-8 validator is not modelled. *)
  Variable utf8 : bytes -> bool.

  Definition parse_ident (b : bytes) : option bytes := if utf8 b && ident_ok b then Some b else None.
  Definition text_ok (b : bytes) : bool := utf8 b && no_nul b.

  Definition deser_key (b : bytes) : option fkey :=
    match split_chunk ident_len_width b with
    | None => None                                               (* missing identifier length *)
    | Some (lenb, r) =>
      let ilen := from_be (if ident_len_big_endian then lenb else rev lenb) in
      if (N.of_nat (length r) <? ilen) then None                 (* identifier too short *)
      else
        let ident := firstn (N.to_nat ilen) r in
        match parse_ident ident, skipn (N.to_nat ilen) r with
        | None, _ => None                                        (* not utf8 / invalid identifier *)
        | Some _, [] => None                                     (* missing tag *)
        | Some id, tag :: vb =>
          match keytype_from_u8 tag with
          | None => None                                         (* invalid tag *)
          | Some KInt =>
            if (length vb =? int_width)%nat then Some (id, HInt (deser_int vb)) else None
          | Some KBool =>
            match vb with
            | [0] => Some (id, HBool false)
            | [1] => Some (id, HBool true)
            | _ => None
            end
          | Some KString => if text_ok vb then Some (id, HString vb) else None
          | Some KId => if (length vb =? 32)%nat then Some (id, HId vb) else None
          | Some KEnum =>
            match split_chunk int_width vb with
            | None => None
            | Some (ib, nm) =>
              match parse_ident nm with
              | Some n => Some (id, HEnum n (deser_int ib))
              | None => None
              end
            end
          end
        end
    end.

  Fixpoint deser_keys (ks : list bytes) : option (list fkey) :=
    match ks with
    | [] => Some []
    | k :: r =>
      match deser_key k, deser_keys r with
      | Some a, Some b => Some (a :: b)
      | _, _ => None
      end
    end.

  (** Values that exist as Rust values: an [i64], a [Text], a 32-byte id, an [Identifier]. *)
  Definition wf_hvalb (v : hval) : bool :=
    match v with
    | HInt z => in_i64b z
    | HBool _ => true
    | HString s => text_ok s
    | HId i => (length i =? 32)%nat
    | HEnum n z => utf8 n && ident_ok n && in_i64b z
    end.
  Definition wf_keyb (k : fkey) : bool :=
    utf8 (fst k) && ident_ok (fst k) && (N.of_nat (length (fst k)) <? pow256 ident_len_width) && wf_hvalb (snd k).
End Deser.

(** ** The typed order: derived [Ord] of [HashableValue] *)
Definition pcmp {A B} (ca : A -> A -> comparison) (cb : B -> B -> comparison) (x y : A * B) : comparison :=
  match ca (fst x) (fst y) with Eq => cb (snd x) (snd y) | c => c end.
Definition hval_rank (v : hval) : N * (Z * bytes) :=
  match v with
  | HInt z => (0, (z, []))
  | HBool b => (1, ((if b then 1 else 0)%Z, []))
  | HString s => (2, (0%Z, s))
  | HId i => (3, (0%Z, i))
  | HEnum n z => (4, (z, n))
  end.
Definition rank_cmp := pcmp N.compare (pcmp Z.compare bcmp).
Definition hval_cmp (a b : hval) : comparison := rank_cmp (hval_rank a) (hval_rank b).
Definition tcmp : list hval -> list hval -> comparison := lex_cmp hval_cmp.   (* typed compound-key order *)

Definition hval_eqb (a b : hval) : bool := match hval_cmp a b with Eq => true | _ => false end.
