(** Model of the sync responder (crates/aranya-runtime/src/sync/responder.rs):
    [push_bounded], [skip_jump], [find_needed_segments], [get_commands],
    [get_next], [dispatch]/[receive], [poll].  Transcribed branch by branch;
    loops that are not structurally recursive carry fuel ([RFuel]); sites that
    can panic in Rust are [RPanic n] / [bug dbg n] with the numbers of the
    ledger (proofs/SyncLedger.v).

    After the repair of F12 (commit "fix: sync responder must not advance the
    session when a response does not fit the buffer") [get_commands] no longer
    writes the resume point into [to_send]; it returns it and [advance]
    applies it once the message has been written. *)
From Aranya Require Import base.Tactics model.Dag model.TravQueue model.Wire model.SyncStore gen.GenSync.
Local Open Scope N_scope.

(** * Small list helpers *)
(** [sort_by_key(|l| Reverse(l.max_cut))]: stable, descending max cut. *)
Fixpoint ins_desc (x : loc) (l : list loc) : list loc :=
  match l with
  | [] => [x]
  | y :: r => if lmc y <=? lmc x then x :: y :: r else y :: ins_desc x r
  end.
Definition sort_desc_mc (l : list loc) : list loc := fold_right ins_desc [] l.

(** [collected.sort()]: the derived order of [Location]. *)
Fixpoint ins_loc (x : loc) (l : list loc) : list loc :=
  match l with
  | [] => [x]
  | y :: r => if loc_leb x y then x :: y :: r else y :: ins_loc x r
  end.
Definition sort_locs (l : list loc) : list loc := fold_right ins_loc [] l.

(** [iter().enumerate().max_by_key(|(_, l)| l.max_cut)]: the LAST entry with the greatest max cut. *)
Fixpoint argmax_mc_from (i : nat) (best : nat * loc) (l : list loc) : nat * loc :=
  match l with
  | [] => best
  | x :: r => argmax_mc_from (S i) (if lmc (snd best) <=? lmc x then (i, x) else best) r
  end.
Definition argmax_mc (l : list loc) : option (nat * loc) :=
  match l with [] => None | x :: r => Some (argmax_mc_from 1 (0%nat, x) r) end.

(** [iter().copied().filter(..).min_by_key(|s| s.max_cut)]: the FIRST entry with the least max cut. *)
Fixpoint min_mc (best : option loc) (l : list loc) : option loc :=
  match l with
  | [] => best
  | x :: r => min_mc (match best with None => Some x | Some b => if lmc x <? lmc b then Some x else Some b end) r
  end.

(** * push_bounded *)
Definition cap_segs : nat := N.to_nat SEGMENT_BUFFER_MAX.

Definition push_bounded (v : list loc) (l : loc) : rres (list loc) :=
  if (length v <? cap_segs)%nat then ROk (v ++ [l])
  else match argmax_mc v with
       | None => RPanic 1                                   (* .expect("non-empty") *)
       | Some (i, _) =>
         match nth_error v i with
         | None => RPanic 2                                 (* v[max_idx] *)
         | Some m => if lmc l <? lmc m then ROk (set_at v i l) else ROk v
         end
       end.

Fixpoint push_bounded_all (v : list loc) (ls : list loc) : rres (list loc) :=
  match ls with
  | [] => ROk v
  | l :: r => rlet v' <- push_bounded v l; push_bounded_all v' r
  end.

(** * skip_jump *)
Fixpoint skip_loop (fuel : nat) (st : store) (current : loc) (target : N) : rres loc :=
  match fuel with
  | O => RFuel
  | S f =>
    rlet sg <- get_segment st current;
    let cands := filter (fun s => (target <=? lmc s) && (lmc s <? lmc current)) (g_skip sg) in
    match min_mc None cands with
    | Some skip => skip_loop f st skip target
    | None =>
      let prior_below :=
        match g_prior sg with
        | P1 p => lmc p <? target
        | P2 a b => (lmc a <? target) || (lmc b <? target)
        | P0 => true
        end in
      if prior_below then ROk current
      else match g_prior sg with
           | P1 p => skip_loop f st p target
           | _ => ROk current
           end
    end
  end.

Definition skip_jump (st : store) (head : loc) (target : N) : rres loc :=
  if lmc head <=? target then ROk head
  else skip_loop (S (N.to_nat (lmc head))) st head target.

(** * find_needed_segments *)
Record fstate := {
  f_heads : queue; f_pending : queue; f_collected : list loc; f_prev : option N; f_cursor : nat }.

Definition opt_N_eqb (a : option N) (b : N) : bool := match a with Some x => x =? b | None => false end.

(** [for prior in segment.prior() { heads.push_covered(prior, c)?; }] *)
Fixpoint push_all (dbg : bool) (q : queue) (ps : list loc) (c : bool) : rres queue :=
  match ps with
  | [] => ROk q
  | p :: r => rlet q' <- lift_q dbg (push_covered q p c); push_all dbg q' r c
  end.

(** the [while have_locations.get(cursor).is_some_and(|h| h.max_cut > longest)] loop *)
Fixpoint advance_cursor (haves : list loc) (cursor : nat) (longest : N) (fuel : nat) : nat :=
  match fuel with
  | O => cursor
  | S f => match nth_error haves cursor with
           | Some h => if longest <? lmc h then advance_cursor haves (S cursor) longest f else cursor
           | None => cursor
           end
  end.

(** [for scan in have_cursor..have_locations.len()]: first have in this segment, if any *)
Fixpoint scan_have (haves : list loc) (scan : nat) (n : nat) (shortest sgi : N) : rres (option loc) :=
  match n with
  | O => ROk None
  | S n' =>
    match nth_error haves scan with
    | None => RPanic 3                                      (* have_locations[scan] *)
    | Some h =>
      if lmc h <? shortest then ROk None
      else if lseg h =? sgi then ROk (Some h)
      else scan_have haves (S scan) n' shortest sgi
    end
  end.

Inductive loop_ctl := Continue (s : fstate) | Break (s : fstate).

Definition early_stop (q : queue) : bool := all_covered q && negb (is_empty q).

(** one iteration of the main [while let Some((head, covered)) = heads.pop_covered()?] loop,
    after the pop *)
Definition fns_body (dbg : bool) (st : store) (haves : list loc) (s : fstate) (head : loc) (covered : bool)
  : rres loop_ctl :=
  (* flush pending entries above the popped max cut *)
  rlet s1 <-
    (if opt_N_eqb (f_prev s) (lmc head) then ROk s
     else rlet (p', ls) <- lift_q dbg (drain_above (f_pending s) (lmc head));
          rlet c' <- push_bounded_all (f_collected s) ls;
          ROk {| f_heads := f_heads s; f_pending := p'; f_collected := c'; f_prev := Some (lmc head); f_cursor := f_cursor s |});
  rlet sg <- get_segment st head;
  let longest := seg_longest sg in
  if covered then
    rlet p' <- lift_q dbg (cover_up_to (f_pending s1) (lseg head) (lmc head) longest);
    rlet h' <- push_all dbg (f_heads s1) (prior_list (g_prior sg)) true;
    let s2 := {| f_heads := h'; f_pending := p'; f_collected := f_collected s1; f_prev := f_prev s1; f_cursor := f_cursor s1 |} in
    if early_stop h' then ROk (Break s2) else ROk (Continue s2)
  else
    let cursor := advance_cursor haves (f_cursor s1) longest (length haves) in
    let shortest := g_first sg in
    rlet best <- scan_have haves cursor (length haves - cursor) shortest (lseg head);
    rlet s2 <-
      match best with
      | Some hloc =>
        rlet h' <- push_all dbg (f_heads s1) (prior_list (g_prior sg)) true;
        rlet p' <- (if lmc hloc <? longest
                    then (if lmc hloc <? u64_max
                          then lift_q dbg (push (f_pending s1) (L (lmc hloc + 1) (lseg head)))
                          else bug dbg 4)                    (* "command + 1 mustn't overflow" *)
                    else ROk (f_pending s1));
        ROk {| f_heads := h'; f_pending := p'; f_collected := f_collected s1; f_prev := f_prev s1; f_cursor := cursor |}
      | None =>
        rlet p' <- lift_q dbg (push (f_pending s1) (seg_first_loc sg));
        rlet h' <- push_all dbg (f_heads s1) (prior_list (g_prior sg)) false;
        ROk {| f_heads := h'; f_pending := p'; f_collected := f_collected s1; f_prev := f_prev s1; f_cursor := cursor |}
      end;
    if early_stop (f_heads s2) then ROk (Break s2) else ROk (Continue s2).

Fixpoint fns_loop (fuel : nat) (dbg : bool) (st : store) (haves : list loc) (s : fstate) : rres fstate :=
  match fuel with
  | O => RFuel
  | S f =>
    rlet (h', r) <- lift_q dbg (pop_covered (f_heads s));
    match r with
    | None => ROk {| f_heads := h'; f_pending := f_pending s; f_collected := f_collected s; f_prev := f_prev s; f_cursor := f_cursor s |}
    | Some (head, covered) =>
      let s0 := {| f_heads := h'; f_pending := f_pending s; f_collected := f_collected s; f_prev := f_prev s; f_cursor := f_cursor s |} in
      rlet c <- fns_body dbg st haves s0 head covered;
      match c with
      | Continue s' => fns_loop f dbg st haves s'
      | Break s' => ROk s'
      end
    end
  end.

(** [for &addr in commands { if let Some(l) = get_location(addr)? { let _ = have_locations.push(l); } }] *)
Definition have_locations (st : store) (commands : list addr) : list loc :=
  flat_map (fun a => match get_location st a with Some l => [l] | None => [] end) commands.

Fixpoint seed_heads (dbg : bool) (st : store) (q : queue) (hs : list (N * loc)) (target : N) : rres queue :=
  match hs with
  | [] => ROk q
  | (_, h) :: r =>
    rlet start <- skip_jump st h target;
    rlet q' <- lift_q dbg (push q start);
    seed_heads dbg st q' r target
  end.

(** total number of commands of the store + 1: enough iterations (proved in SyncRespProofs) *)
Definition fns_fuel (st : store) : nat := S (length (store_ids st)).

Definition find_needed_segments (dbg : bool) (st : store) (commands : list addr) : rres (list loc) :=
  if (N.to_nat COMMAND_SAMPLE_MAX <? length commands)%nat then bug dbg 5   (* "commands length exceeds COMMAND_SAMPLE_MAX" *)
  else
    let haves := sort_desc_mc (have_locations st commands) in
    let highest_have := match haves with h :: _ => lmc h | [] => 0 end in
    if u64_max - SEGMENT_BUFFER_MAX <? highest_have then bug dbg 6       (* "skip target overflow" *)
    else
      let skip_target := highest_have + SEGMENT_BUFFER_MAX in
      rlet heads <- seed_heads dbg st qnew (st_heads st) skip_target;
      rlet s <- fns_loop (fns_fuel st) dbg st haves
                 {| f_heads := heads; f_pending := qnew; f_collected := []; f_prev := None; f_cursor := 0 |};
      let '(_, rest) := drain_all (f_pending s) in
      rlet c <- push_bounded_all (f_collected s) rest;
      ROk (sort_locs c).

(** * The responder state machine *)
Inductive rstate := RNew | RStart | RSend | RIdle | RReset | RStopped.

Record responder := {
  r_sid : option N; r_gid : option N; r_state : rstate; r_bytes_sent : N;
  r_next : nat; r_idx : N; r_has : list addr; r_to_send : list loc }.

Definition responder_new : responder :=
  {| r_sid := None; r_gid := None; r_state := RNew; r_bytes_sent := 0; r_next := 0; r_idx := 0; r_has := []; r_to_send := [] |}.

Definition set_state (r : responder) (s : rstate) : responder :=
  {| r_sid := r_sid r; r_gid := r_gid r; r_state := s; r_bytes_sent := r_bytes_sent r;
     r_next := r_next r; r_idx := r_idx r; r_has := r_has r; r_to_send := r_to_send r |}.

Definition r_ready (r : responder) : bool :=
  match r_state r with RReset | RStart | RSend => true | RNew | RIdle | RStopped => false end.

(** [dispatch] ([receive] of a decoded poll) *)
Definition dispatch (r : responder) (m : req_msg) : responder * rres unit :=
  let r1 := match r_sid r with
            | None => {| r_sid := Some (req_sid m); r_gid := r_gid r; r_state := r_state r; r_bytes_sent := r_bytes_sent r;
                         r_next := r_next r; r_idx := r_idx r; r_has := r_has r; r_to_send := r_to_send r |}
            | Some _ => r
            end in
  if negb (opt_N_eqb (r_sid r1) (req_sid m)) then (r1, RErr ESessionMismatch)
  else match m with
       | SyncRequest _ gid max_bytes cmds =>
         ({| r_sid := r_sid r1; r_gid := Some gid; r_state := RStart; r_bytes_sent := max_bytes;
             r_next := 0; r_idx := r_idx r1; r_has := cmds; r_to_send := [] |}, ROk tt)
       | RequestMissing _ _ | SyncResume _ _ _ => (set_state r1 RReset, RErr EUnsupportedRequest)
       | ReqEndSession _ => (set_state r1 RStopped, ROk tt)
       end.

(** the provider: graph id -> store *)
Definition provider := list (N * store).
Fixpoint get_storage (p : provider) (g : N) : rres store :=
  match p with
  | [] => RErr (EStorage K_NoSuchStorage)
  | (g', st) :: r => if g' =? g then ROk st else get_storage r g
  end.

Definition cap_resp : nat := N.to_nat COMMAND_RESPONSE_MAX.

Definition meta_of (c : scmd) : meta :=
  {| m_id := c_id c; m_prio := c_prio c; m_parent := c_par c;
     m_plen := match c_plen c with Some n => n mod 2 ^ 32 | None => 0 end;    (* `as u32` *)
     m_len := c_dlen c mod 2 ^ 32 |}.

Definition cmd_bytes (c : scmd) : N := match c_plen c with Some n => n | None => 0 end + c_dlen c.

(** the inner [for command in &found] loop: take commands while there is room
    in [commands]; [command_data] must stay within MAX_SYNC_MESSAGE_SIZE *)
Fixpoint take_cmds (found : list scmd) (room : nat) (dlen : N) (acc : list meta) (sent : nat)
  : option (list meta * N * nat) :=
  match found, room with
  | c :: r, S room' =>
    let d := dlen + cmd_bytes c in
    if MAX_SYNC_MESSAGE_SIZE <? d then None                              (* CommandOverflow *)
    else take_cmds r room' d (acc ++ [meta_of c]) (S sent)
  | _, _ => Some (acc, dlen, sent)
  end.

(** [get_commands]: (metas, data length, next index, resume) or the error with the new state *)
Fixpoint gc_loop (dbg : bool) (st : store) (to_send : list loc) (i : nat) (n : nat)
         (acc : list meta) (dlen : N) (index : nat)
  : rres (list meta * N * nat * option loc) + rstate * serr :=
  match n with
  | O => inl (ROk (acc, dlen, index, None))
  | S n' =>
    if (cap_resp <=? length acc)%nat then inl (ROk (acc, dlen, index, None))
    else match nth_error to_send i with
         | None => inl (bug dbg 7)                                       (* "send index OOB" (state := Reset) *)
         | Some location =>
           match get_segment st location with
           | RErr e => inr (RReset, e)
           | RPanic k => inl (RPanic k)
           | RFuel => inl RFuel
           | ROk sg =>
             let found := get_from sg location in
             match take_cmds found (cap_resp - length acc) dlen acc 0 with
             | None => inr (RReset, ECommandOverflow)
             | Some (acc', dlen', sent) =>
               if (sent <? length found)%nat then
                 inl (ROk (acc', dlen', i, Some (L (lmc location + N.of_nat sent) (lseg location))))
               else gc_loop dbg st to_send (S i) n' acc' dlen' (S i)
             end
           end
         end
  end.

Definition get_commands (dbg : bool) (p : provider) (r : responder)
  : rres (list meta * N * nat * option loc) + rstate * serr :=
  match r_gid r with
  | None => inl (bug dbg 8)                                              (* "get_next called before graph_id was set" *)
  | Some g =>
    match get_storage p g with
    | ROk st => gc_loop dbg st (r_to_send r) (r_next r) (length (r_to_send r) - r_next r) [] 0 (r_next r)
    | RErr e => inr (RReset, e)
    | RPanic k => inl (RPanic k)
    | RFuel => inl RFuel
    end
  end.

(** what a successful poll hands to the transport *)
Record out_msg := { o_msg : resp_msg; o_hdr : N; o_data : N }.
Definition o_total (o : out_msg) : N := o_hdr o + o_data o.

Definition session_id (dbg : bool) (r : responder) : rres N :=
  match r_sid r with Some s => ROk s | None => bug dbg 9 end.            (* "session id is set" *)

(** [postcard::to_slice] into a target of [tlen] bytes *)
Definition write_msg (tlen : N) (m : resp_msg) : rres N :=
  let n := enc_len_resp m in if tlen <? n then RErr ESerialize else ROk n.

Definition advance (dbg : bool) (r : responder) (next : nat) (resume : option loc) (idx : N) : rres responder :=
  match resume with
  | Some l =>
    if (next <? length (r_to_send r))%nat then
      ROk {| r_sid := r_sid r; r_gid := r_gid r; r_state := r_state r; r_bytes_sent := r_bytes_sent r;
             r_next := next; r_idx := idx; r_has := r_has r; r_to_send := set_at (r_to_send r) next l |}
    else bug dbg 10                                                       (* "send index in bounds" *)
  | None =>
    ROk {| r_sid := r_sid r; r_gid := r_gid r; r_state := r_state r; r_bytes_sent := r_bytes_sent r;
           r_next := next; r_idx := idx; r_has := r_has r; r_to_send := r_to_send r |}
  end.

(** [message_index] is incremented before [advance]; only visible if [advance] could fail *)
Definition bump_idx (r : responder) : responder :=
  {| r_sid := r_sid r; r_gid := r_gid r; r_state := r_state r; r_bytes_sent := r_bytes_sent r;
     r_next := r_next r; r_idx := r_idx r + 1; r_has := r_has r; r_to_send := r_to_send r |}.

Definition get_next (dbg : bool) (p : provider) (r : responder) (tlen : N) : responder * rres out_msg :=
  if (length (r_to_send r) <=? r_next r)%nat then
    match session_id dbg r with
    | ROk sid =>
      let m := SyncEnd sid (r_idx r) false in
      match write_msg tlen m with
      | ROk n => (set_state r RIdle, ROk {| o_msg := m; o_hdr := n; o_data := 0 |})
      | RErr e => (r, RErr e) | RPanic k => (r, RPanic k) | RFuel => (r, RFuel)
      end
    | RErr e => (r, RErr e) | RPanic k => (r, RPanic k) | RFuel => (r, RFuel)
    end
  else
    match get_commands dbg p r with
    | inr (s, e) => (set_state r s, RErr e)
    | inl (RErr e) => (set_state r RReset, RErr e)                       (* the two bug! sites set Reset first *)
    | inl (RPanic k) => (r, RPanic k)
    | inl RFuel => (r, RFuel)
    | inl (ROk (cmds, dlen, next, resume)) =>
      match session_id dbg r with
      | ROk sid =>
        let m := SyncResponse sid (r_idx r) cmds in
        match write_msg tlen m with
        | ROk n =>
          (* total_length = length + command_data.len(), both far below 2^64 *)
          let total := n + dlen in
          if tlen <? total then (r, RErr EBufferTooSmall)
          else if u64_max <=? r_idx r then (r, bug dbg 11)                (* "message_index overflow" *)
          else match advance dbg r next resume (r_idx r + 1) with
               | ROk r' => (r', ROk {| o_msg := m; o_hdr := n; o_data := dlen |})
               | RErr e => (bump_idx r, RErr e) | RPanic k => (bump_idx r, RPanic k) | RFuel => (r, RFuel)
               end
        | RErr e => (r, RErr e) | RPanic k => (r, RPanic k) | RFuel => (r, RFuel)
        end
      | RErr e => (r, RErr e) | RPanic k => (r, RPanic k) | RFuel => (r, RFuel)
      end
    end.

(** [poll] with a target buffer of [tlen] bytes.  The response cache
    ([PeerCache::add_command], C20) does not influence the message and is not
    modelled here. *)
Definition poll (dbg : bool) (p : provider) (r : responder) (tlen : N) : responder * rres out_msg :=
  match r_state r with
  | RNew | RIdle | RStopped => (r, RErr ENotReady)
  | RStart =>
    match r_gid r with
    | None => (set_state r RReset, bug dbg 12)                            (* "poll called before graph_id was set" *)
    | Some g =>
      match get_storage p g with
      | RErr e => (set_state r RReset, RErr e)
      | RPanic k => (r, RPanic k)
      | RFuel => (r, RFuel)
      | ROk st =>
        let r1 := set_state r RSend in
        match find_needed_segments dbg st (r_has r) with
        | ROk ts =>
          get_next dbg p {| r_sid := r_sid r1; r_gid := r_gid r1; r_state := RSend; r_bytes_sent := r_bytes_sent r1;
                            r_next := r_next r1; r_idx := r_idx r1; r_has := r_has r1; r_to_send := ts |} tlen
        | RErr e => (r1, RErr e) | RPanic k => (r1, RPanic k) | RFuel => (r1, RFuel)
        end
      end
    end
  | RSend => get_next dbg p r tlen
  | RReset =>
    let r1 := set_state r RStopped in
    match session_id dbg r with
    | ROk sid =>
      let m := RespEndSession sid in
      match write_msg tlen m with
      | ROk n => (r1, ROk {| o_msg := m; o_hdr := n; o_data := 0 |})
      | RErr e => (r1, RErr e) | RPanic k => (r1, RPanic k) | RFuel => (r1, RFuel)
      end
    | RErr e => (r1, RErr e) | RPanic k => (r1, RPanic k) | RFuel => (r1, RFuel)
    end
  end.

(** * Driving a whole session from the responder's side: one request, then a
    list of polls with the given target sizes.  Used by the correspondence and
    by the session theorems. *)
Fixpoint run_polls (dbg : bool) (p : provider) (r : responder) (tlens : list N) : list (rres out_msg) * responder :=
  match tlens with
  | [] => ([], r)
  | t :: ts => let '(r', o) := poll dbg p r t in
               let '(os, rf) := run_polls dbg p r' ts in (o :: os, rf)
  end.
