(** Model of crates/aranya-policy-text/src/{text,ident,repr}.rs.

    Strings and byte buffers are [list N] (one [N] per byte).  A Rust [&str]
    is valid UTF-8 by construction; the decoders that start from raw bytes
    (postcard, rkyv's [ArchivedString] check, [CStr::to_str]) validate UTF-8
    first, which is modelled by [utf8_valid] (the well-formed byte sequences
    of the Unicode standard, table 3-7 — modelled, tied by correspondence).

    Generated from the sources on every run ([gen/GenText.v]): [MAX_INLINE],
    the width of the inline length field, the comparison used by
    [Repr::from_str], the byte predicates of [Text::validate] and
    [Identifier::validate] ([text_bad], [ident_first_bad], [ident_tail_bad]),
    and the constructor ledger.

    [debug_assert!]s are kept as explicit [Panic] outcomes and proved
    unreachable. *)
From Aranya Require Import base.Tactics gen.GenText.
Open Scope N_scope.

Definition blen (l : list N) : N := N.of_nat (length l).

Fixpoint bytes_eqb (a b : list N) : bool :=
  match a, b with
  | [], [] => true
  | x :: a', y :: b' => (x =? y) && bytes_eqb a' b'
  | _, _ => false
  end.

(** [<str as Ord>::cmp]: lexicographic on bytes. *)
Fixpoint bytes_cmp (a b : list N) : comparison :=
  match a, b with
  | [], [] => Eq
  | [], _ :: _ => Lt
  | _ :: _, [] => Gt
  | x :: a', y :: b' => match x ?= y with Eq => bytes_cmp a' b' | c => c end
  end.

(** ** UTF-8 well-formedness ([core::str::from_utf8] succeeds) *)
Definition cont (b : N) : bool := in_range 128 191 b.
Fixpoint utf8_valid (s : list N) : bool :=
  match s with
  | [] => true
  | b0 :: r =>
    if b0 <=? 127 then utf8_valid r
    else if in_range 194 223 b0 then
      match r with b1 :: r1 => cont b1 && utf8_valid r1 | _ => false end
    else if in_range 224 239 b0 then
      match r with
      | b1 :: b2 :: r2 =>
        (if b0 =? 224 then in_range 160 191 b1 else if b0 =? 237 then in_range 128 159 b1 else cont b1)
        && cont b2 && utf8_valid r2
      | _ => false
      end
    else if in_range 240 244 b0 then
      match r with
      | b1 :: b2 :: b3 :: r3 =>
        (if b0 =? 240 then in_range 144 191 b1 else if b0 =? 244 then in_range 128 143 b1 else cont b1)
        && cont b2 && cont b3 && utf8_valid r3
      | _ => false
      end
    else false
  end.

(** ** [Text::validate] *)
(** [s.bytes().position(p)] *)
Fixpoint position (p : N -> bool) (i : N) (s : list N) : option N :=
  match s with
  | [] => None
  | b :: r => if p b then Some i else position p (i + 1) r
  end.

Inductive terr := ContainsNul (index : N).
Definition text_validate (s : list N) : option terr :=
  match position text_bad 0 s with
  | Some i => Some (ContainsNul i)
  | None => None
  end.

(** ** [Identifier::validate] *)
Inductive ierr := NotEmpty | InitialNotAlphabetic | TrailingNotValid (index : N).
Inductive vres := VOk | VErr (e : ierr) | VPanic.

(** [for (i, b) in s.bytes().enumerate()]: [NonZeroUsize::new(i)] is [Some] exactly when [i <> 0]. *)
Fixpoint ident_loop (i : N) (s : list N) : option ierr :=
  match s with
  | [] => None
  | b :: r =>
    if i =? 0 then
      if ident_first_bad b then Some InitialNotAlphabetic else ident_loop (i + 1) r
    else
      if ident_tail_bad b then Some (TrailingNotValid i) else ident_loop (i + 1) r
  end.

Definition ident_validate (s : list N) : vres :=
  match (if IDENT_REJECTS_EMPTY then match s with [] => true | _ => false end else false) with
  | true => VErr NotEmpty
  | false =>
    match ident_loop 0 s with
    | Some e => VErr e
    | None =>
      (* debug_assert!(Text::validate(s).is_ok(), "identifiers are valid text") *)
      match text_validate s with None => VOk | Some _ => VPanic end
    end
  end.

(** ** [Repr] *)
Inductive repr :=
| Static (s : list N)
| Inline (bytes : list N) (len : N)
| Heap (s : list N).

(** [len as u8] *)
Definition as_u8 (n : N) : N := n mod 2 ^ INLINE_LEN_BITS.

Definition repr_empty : repr := Static [].
Definition repr_from_static (s : list N) : repr := Static s.

(** [Repr::from_str]: the inline buffer is [MAX_INLINE] zero bytes with the string copied to the front. *)
Definition repr_from_str (s : list N) : repr :=
  let n := blen s in
  if (if FROM_STR_INLINE_LE then n <=? MAX_INLINE else n <? MAX_INLINE)
  then Inline (s ++ repeat 0 (N.to_nat (MAX_INLINE - n))) (as_u8 n)
  else Heap s.

(** [Repr::as_str] and its [debug_assert!(( *len as usize) <= MAX_INLINE)] *)
Definition repr_as_str (r : repr) : list N :=
  match r with
  | Static s => s
  | Inline bytes n => firstn (N.to_nat n) bytes
  | Heap s => s
  end.
Definition repr_assert (r : repr) : bool :=
  match r with
  | Inline _ n => n <=? MAX_INLINE
  | _ => true
  end.

(** [PartialEq], [Ord] ([PartialOrd] = [Some(cmp)]) and [Hash] of [Repr]; [str::hash] writes the
    bytes and then [0xff]. [Text] and [Identifier] derive all three from this field. *)
Definition repr_eq (a b : repr) : bool := bytes_eqb (repr_as_str a) (repr_as_str b).
Definition repr_cmp (a b : repr) : comparison := bytes_cmp (repr_as_str a) (repr_as_str b).
Definition repr_hash (a : repr) : list N := repr_as_str a ++ [255].

(** ** [Text] *)
Inductive tres := TOk (r : repr) | TErr (e : terr) | TUtf8 | TInvalidValue | TCheck | TPanic.

Definition text_new : repr := repr_empty.
Definition text_default : repr := Static [].
(** [validate_text!] (aranya-policy-text-macro/src/imp.rs): compile error when the literal contains NUL. *)
Definition macro_validate_text (lit : list N) : bool := negb (existsb (fun b => b =? 0) lit).
Definition text_from_literal (lit : list N) : repr := repr_from_static lit.

Definition text_from_str (s : list N) : tres :=
  match text_validate s with
  | Some e => TErr e
  | None => TOk (repr_from_str s)
  end.
Definition text_try_from_string (s : list N) : tres := text_from_str s.
(** [TryFrom<&CStr>]: [to_str()?] then [Repr::from_str], no [validate] — a [CStr] has no interior NUL. *)
Definition text_try_from_cstr (c : list N) : tres :=
  if utf8_valid c then TOk (repr_from_str c) else TUtf8.
(** [Add for &Text] with its [debug_assert!] *)
Definition text_add (a b : repr) : tres :=
  let s := repr_as_str a ++ repr_as_str b in
  match text_validate s with
  | Some _ => TPanic
  | None => TOk (repr_from_str s)
  end.
(** [Deserialize]: [Repr::deserialize] ([Cow<str>] then [from_str]), then [validate(r.as_str())]. *)
Definition text_deserialize (s : list N) : tres :=
  let r := repr_from_str s in
  match text_validate (repr_as_str r) with
  | Some _ => TInvalidValue
  | None => TOk r
  end.
(** A format that carries raw bytes (postcard) checks UTF-8 before handing out a [&str]. *)
Definition text_deserialize_bytes (b : list N) : tres :=
  if utf8_valid b then text_deserialize b else TUtf8.
(** rkyv: [access] = [CheckBytes] of the [ArchivedString] (UTF-8) and then [Verify::verify] = [validate];
    [Deserialize] (derived) = [Repr::from_str(archived.as_str())]. *)
Definition archived_text_access (b : list N) : bool :=
  utf8_valid b && match text_validate b with None => true | Some _ => false end.
Definition archived_text_deserialize (b : list N) : repr := repr_from_str b.
Definition text_rkyv_from_bytes (b : list N) : tres :=
  if archived_text_access b then TOk (archived_text_deserialize b) else TCheck.

(** ** [Identifier] (a [Text] newtype) *)
Inductive ires := IOk (r : repr) | IErr (e : ierr) | IUtf8 | IInvalidValue | ICheck | IPanic.

Definition of_vres (v : vres) (r : repr) : ires :=
  match v with VOk => IOk r | VErr e => IErr e | VPanic => IPanic end.

(** [validate_identifier!] *)
Definition macro_validate_identifier (lit : list N) : bool :=
  match lit with
  | [] => false
  | b :: r => is_ascii_alphabetic b && forallb (fun b => is_ascii_alphanumeric b || (b =? 95)) r
  end.
Definition ident_from_literal (lit : list N) : repr := text_from_literal lit.

Definition ident_from_str (s : list N) : ires := of_vres (ident_validate s) (repr_from_str s).
Definition ident_try_from_string (s : list N) : ires := ident_from_str s.
(** [TryFrom<Text>]: validates [value.as_str()] and keeps the text's own storage. *)
Definition ident_try_from_text (t : repr) : ires := of_vres (ident_validate (repr_as_str t)) t.
Definition ident_deserialize (s : list N) : ires :=
  let r := repr_from_str s in
  match ident_validate (repr_as_str r) with
  | VOk => IOk r
  | VErr _ => IInvalidValue
  | VPanic => IPanic
  end.
Definition ident_deserialize_bytes (b : list N) : ires :=
  if utf8_valid b then ident_deserialize b else IUtf8.
Definition archived_ident_access (b : list N) : bool :=
  utf8_valid b
  && match text_validate b with None => true | Some _ => false end      (* the inner ArchivedText verifies first *)
  && match ident_validate b with VOk => true | _ => false end.
(** [ArchivedIdentifier::deserialize] and the derived [rkyv::Deserialize] *)
Definition archived_ident_deserialize (b : list N) : repr := repr_from_str b.
Definition ident_rkyv_from_bytes (b : list N) : ires :=
  if archived_ident_access b then IOk (archived_ident_deserialize b) else ICheck.
(** [From<Identifier> for Text] *)
Definition text_from_ident (i : repr) : repr := i.
