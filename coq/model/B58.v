(** Model of the text and serde forms of [aranya_id::Id]
    (crates/aranya-id/src/id.rs) together with the part of
    [spideroak-base58] it calls ([String32::{encode,decode}], [Uint<4,32>]).

    Byte strings, ids and base58 text are [list N] (one [N] per byte).  A
    [Uint<4,32>] is its list of four 64-bit words, least significant first,
    exactly as the [words] array.  Everything the Rust code can do other than
    return a value is an explicit outcome: [Err BadInput], [Err Bug]
    ([checked_mul(..).assume(..)]), [EPanic] ([expect("i must be non-zero")],
    [assert!(x1 < y)]) and [EFuel] (the model's own loop fuel; proved
    unreachable).

    The tables and constants ([ALPHABET], [B58], [RADII], [RADIX], [REC], chunk
    widths, the fill byte, the id width) are *generated* from the sources on
    every run ([gen/GenB58.v]).

    [arith::div_ww] (Möller–Granlund reciprocal division of a two-word value by
    [RADIX]) is transcribed instruction by instruction over integers modulo
    2^64 and proved to return quotient and remainder. *)
From Aranya Require Import base.Tactics gen.GenB58.
Open Scope N_scope.

Definition W64 : N := 18446744073709551616.          (* 2^64 *)
Definition W128 : N := 340282366920938463463374607431768211456.  (* 2^128 *)
Definition W256 : N := 115792089237316195423570985008687907853269984665640564039457584007913129639936. (* 2^256 *)

Definition len {A} (l : list A) : N := N.of_nat (length l).

(** ** Results *)
Inductive derr := BadInput | Bug.
Inductive res (A : Type) := Ok (a : A) | Err (e : derr).
Arguments Ok {A} a.
Arguments Err {A} e.

Inductive eres (A : Type) := EOk (a : A) | EPanic | EFuel.
Arguments EOk {A} a.
Arguments EPanic {A}.
Arguments EFuel {A}.

(** ** [u64] helpers *)
Definition checked_mul64 (a b : N) : option N := if a * b <? W64 then Some (a * b) else None.
Definition checked_add64 (a b : N) : option N := if a + b <? W64 then Some (a + b) else None.

(** [arith::mul_add_ww]: [(x as u128).wrapping_mul(y as u128).wrapping_add(c as u128)] split in (hi, lo). *)
Definition mul_add_ww (x y c : N) : N * N :=
  let z := ((x * y) mod W128 + c) mod W128 in (z / W64, z mod W64).

(** [arith::div_ww] (Möller–Granlund division of the two-word value [x1:x0] by [y] with the
    precomputed reciprocal [m]), instruction by instruction.  [u64] values are integers in
    [0, 2^64); [wrapping_*] and [<<] are arithmetic modulo 2^64 ([wrap]); [overflowing_add/sub]
    report the carry / borrow.  [None] is the [assert!(x1 < y)]. *)
Definition ZW : Z := 18446744073709551616%Z.          (* 2^64 *)
Definition ZW128 : Z := 340282366920938463463374607431768211456%Z.
Definition wrap (z : Z) : Z := (z mod ZW)%Z.
Definition mul64 (x y : Z) : Z * Z := let z := ((x * y) mod ZW128)%Z in ((z / ZW)%Z, (z mod ZW)%Z).
Definition leading_zeros (y : Z) : Z := if (y =? 0)%Z then 64%Z else (63 - Z.log2 y)%Z.

Definition div_ww_z (x1 x0 y m : Z) : option (Z * Z) :=
  if negb (x1 <? y)%Z then None
  else
    let s := leading_zeros y in
    let '(x1, x0, y) :=
      if (s =? 0)%Z then (x1, x0, y)
      else (Z.lor (wrap (x1 * 2 ^ s)) (x0 / 2 ^ (64 - s)), wrap (x0 * 2 ^ s), wrap (y * 2 ^ s))%Z in
    let d := y in
    let '(t1, t0) := mul64 m x1 in
    let c := if (t0 + x0 <? ZW)%Z then 0%Z else 1%Z in
    let t1 := wrap (wrap (t1 + x1) + c) in
    let qq := t1 in
    let '(dq1, dq0) := mul64 d qq in
    let r0 := wrap (x0 - dq0) in
    let b := if (x0 <? dq0)%Z then 1%Z else 0%Z in
    let r1 := wrap (wrap (x1 - dq1) - b) in
    let '(qq, r0) := if negb (r1 =? 0)%Z then (wrap (qq + 1), wrap (r0 - d)) else (qq, r0) in
    let '(qq, r0) := if (d <=? r0)%Z then (wrap (qq + 1), wrap (r0 - d)) else (qq, r0) in
    Some (qq, (r0 / 2 ^ s)%Z).

Definition div_ww (x1 x0 y m : N) : option (N * N) :=
  match div_ww_z (Z.of_N x1) (Z.of_N x0) (Z.of_N y) (Z.of_N m) with
  | Some (q, r) => Some (Z.to_N q, Z.to_N r)
  | None => None
  end.

(** ** [Uint<W, B>] *)
(** [fma]: [for x in &mut self.words { (c, *x) = mul_add_ww( *x, y, c) }; c == 0]. *)
Fixpoint fma_loop (ws : list N) (y c : N) : list N * N :=
  match ws with
  | [] => ([], c)
  | x :: r =>
    let '(c', x') := mul_add_ww x y c in
    let '(r', c'') := fma_loop r y c' in
    (x' :: r', c'')
  end.
Definition fma (ws : list N) (y r : N) : list N * bool :=
  let '(ws', c) := fma_loop ws y r in (ws', c =? 0).

Definition is_zero (ws : list N) : bool := forallb (fun x => x =? 0) ws.

(** [quo_radix]: [for x in self.words.iter_mut().rev() { ( *x, r) = div_ww(r, *x, RADIX, REC) }].
    [quo_loop] walks the words most significant first. *)
Fixpoint quo_loop (ws_rev : list N) (r : N) : option (list N * N) :=
  match ws_rev with
  | [] => Some ([], r)
  | x :: t =>
    match div_ww r x RADIX REC with
    | None => None
    | Some (q, r') =>
      match quo_loop t r' with
      | None => None
      | Some (t', r'') => Some (q :: t', r'')
      end
    end
  end.
Definition quo_radix (ws : list N) : option (list N * N) :=
  match quo_loop (rev ws) 0 with
  | None => None
  | Some (qs, r) => Some (rev qs, r)
  end.

(** Big-endian value of a byte string, [u64::from_be_bytes] and [to_be_bytes]. *)
Definition beval (B : N) (l : list N) : N := fold_left (fun a d => a * B + d) l 0.
Fixpoint be_bytes (n : nat) (v : N) : list N :=
  match n with
  | O => []
  | S k => be_bytes k (v / 256) ++ [v mod 256]
  end.

(** [slice.chunks(n)]: pieces of [n] elements, the last one possibly shorter.
    [fuel] only has to be at least the number of pieces. *)
Fixpoint chunks (fuel : nat) (n : nat) (l : list N) : list (list N) :=
  match fuel with
  | O => []
  | S f => match l with
           | [] => []
           | _ => firstn n l :: chunks f n (skipn n l)
           end
  end.

(** [from_be_bytes]: [b.chunks_exact(8).rev().zip(&mut z)] (the id has 32 bytes, so
    [chunks_exact] drops nothing). *)
Definition from_be_bytes (b : list N) : list N :=
  rev (map (beval 256) (chunks (length b) 8 b)).
(** [to_be_bytes]: [b.chunks_exact_mut(8).rev().zip(self.words)]. *)
Definition to_be_bytes (ws : list N) : list N :=
  concat (map (be_bytes 8) (rev ws)).

(** ** [String32::decode] *)
Definition b58_lookup (c : N) : N := nth (N.to_nat c) B58 255.

(** the [try_fold] over one chunk *)
Fixpoint chunk_total (acc : N) (chunk : list N) : res N :=
  match chunk with
  | [] => Ok acc
  | c :: r =>
    let v := b58_lookup c in
    if v =? 255 then Err BadInput
    else match checked_mul64 acc 58 with
         | None => Err Bug
         | Some m => match checked_add64 m v with
                     | None => Err Bug
                     | Some a => chunk_total a r
                     end
         end
  end.

Fixpoint decode_loop (x : list N) (cs : list (list N)) : res (list N) :=
  match cs with
  | [] => Ok x
  | ch :: r =>
    match chunk_total 0 ch with
    | Err e => Err e
    | Ok total =>
      let '(x', ok) := fma x (nth (length ch) RADII 0) total in
      if ok then decode_loop x' r else Err BadInput
    end
  end.

Definition uint_new : list N := repeat 0 (N.to_nat (ID_STRING_BYTES / 8)).

Definition decode32 (s : list N) : res (list N) :=
  match decode_loop uint_new (chunks (length s) (N.to_nat DECODE_CHUNK) s) with
  | Ok x => Ok (to_be_bytes x)
  | Err e => Err e
  end.

(** ** [String32::encode] *)
Definition B58_SIZE : N := (ID_STRING_BYTES * B58_SIZE_NUM) / B58_SIZE_DEN.

(** The output buffer [dst.data[..B58_SIZE]] is always [FILL^ei ++ eout]:
    it starts as all [FILL] with [i = B58_SIZE] and is only written at [--i]. *)
Record estate := { ei : N; eout : list N }.

(** [i = i.checked_sub(1).expect("i must be non-zero"); dst.data[i] = ALPHABET[(r % 58) as usize]] *)
Definition emit (r : N) (st : estate) : option estate :=
  if ei st =? 0 then None
  else Some {| ei := ei st - 1; eout := nth (N.to_nat (r mod 58)) ALPHABET 0 :: eout st |}.

(** [for _ in 0..10 { emit; r /= 58 }] *)
Fixpoint emit_n (n : nat) (r : N) (st : estate) : eres estate :=
  match n with
  | O => EOk st
  | S k => match emit r st with
           | None => EPanic
           | Some st' => emit_n k (r / 58) st'
           end
  end.
(** [while r > 0 { emit; r /= 58 }] *)
Fixpoint emit_while (fuel : nat) (r : N) (st : estate) : eres estate :=
  if r =? 0 then EOk st
  else match fuel with
       | O => EFuel
       | S f => match emit r st with
                | None => EPanic
                | Some st' => emit_while f (r / 58) st'
                end
       end.

(** [while !x.is_zero() { let mut r = x.quo_radix(); if x.is_zero() {…} else {…} }] *)
Fixpoint enc_loop (fuel : nat) (x : list N) (st : estate) : eres estate :=
  if is_zero x then EOk st
  else match fuel with
       | O => EFuel
       | S f =>
         match quo_radix x with
         | None => EPanic
         | Some (x', r) =>
           match (if is_zero x' then emit_while 64 r st else emit_n (N.to_nat ENCODE_CHUNK) r st) with
           | EOk st' => enc_loop f x' st'
           | EPanic => EPanic
           | EFuel => EFuel
           end
         end
       end.

Definition encode32 (b : list N) : eres (list N) :=
  match enc_loop 64 (from_be_bytes b) {| ei := B58_SIZE; eout := [] |} with
  | EOk st => EOk (repeat FILL (N.to_nat (ei st)) ++ eout st)
  | EPanic => EPanic
  | EFuel => EFuel
  end.

(** ** crates/aranya-id/src/id.rs *)

(** [Id::decode] / [FromStr] ([ParseIdError] wraps the [DecodeError]); [Display] / [to_base58]. *)
Definition id_decode (s : list N) : res (list N) := decode32 s.
Definition id_from_str (s : list N) : res (list N) := id_decode s.
Definition id_to_base58 (id : list N) : eres (list N) := encode32 id.

(** What a serde format hands to / receives from the [Serialize]/[Deserialize] impls. *)
Inductive payload :=
| PStr (s : list N)        (* visit_str / serialize_str *)
| PBytes (b : list N)      (* visit_bytes / serialize_bytes *)
| PSeq (l : list N)        (* visit_seq over u8 elements *)
| POther.                  (* any other visit_* : the Visitor default, invalid_type *)

Inductive deerr := InvalidValue | Custom | InvalidLength (n : N) | InvalidType.
Inductive dres := DOk (id : list N) | DErr (e : deerr).

(** [impl Serialize for Id] *)
Definition id_serialize (hr : bool) (id : list N) : eres payload :=
  if hr then match id_to_base58 id with
             | EOk s => EOk (PStr s)
             | EPanic => EPanic
             | EFuel => EFuel
             end
  else EOk (PBytes id).

(** [IdVisitor::visit_seq]: fill [id.bytes] front to back, [invalid_length(i)] when the
    sequence ends early; elements past the 32nd are not looked at. *)
Fixpoint visit_seq (n : nat) (i : N) (l : list N) : dres :=
  match n with
  | O => DOk []
  | S k => match l with
           | [] => DErr (InvalidLength i)
           | e :: r => match visit_seq k (i + 1) r with
                       | DOk t => DOk (e :: t)
                       | DErr x => DErr x
                       end
           end
  end.

(** [impl Deserialize for Id] *)
Definition id_deserialize (hr : bool) (p : payload) : dres :=
  if hr then
    match p with
    | PStr s => match id_from_str s with
                | Ok id => DOk id
                | Err BadInput => DErr InvalidValue
                | Err Bug => DErr Custom
                end
    | _ => DErr InvalidType
    end
  else
    match p with
    | PBytes v => if len v =? ID_BYTES then DOk v else DErr (InvalidLength (len v))
    | PSeq l => visit_seq (N.to_nat ID_BYTES) 0 l
    | _ => DErr InvalidType
    end.

(** ** postcard's framing of [serialize_bytes] / [deserialize_bytes] (64-bit target) *)
Inductive pcerr := PcEnd | PcBadVarint | PcCustom.
Inductive pcres := PcOk (id : list N) | PcErr (e : pcerr).

(** [varint_usize] *)
Fixpoint varint_enc (fuel : nat) (v : N) : list N :=
  match fuel with
  | O => []
  | S f => if v <? 128 then [v mod 256] else ((v mod 256) mod 128 + 128) :: varint_enc f (v / 128)
  end.
Definition pc_serialize_bytes (b : list N) : list N := varint_enc 10 (len b) ++ b.

(** [try_take_varint_u64]: [i] counts up to [varint_max::<u64>() = 10]; the last byte may
    not exceed [max_of_last_byte::<u64>() = 1]; [carry << (7*i)] is a [u64] shift. *)
Fixpoint take_varint (n : nat) (i : N) (out : N) (buf : list N) : option (N * list N) + pcerr :=
  match n with
  | O => inr PcBadVarint
  | S k =>
    match buf with
    | [] => inr PcEnd
    | val :: rest =>
      let out' := N.lor out (((val mod 128) * 2 ^ (7 * i)) mod W64) in
      if val <? 128 then
        if (i =? 9) && (1 <? val) then inr PcBadVarint else inl (Some (out', rest))
      else take_varint k (i + 1) out' rest
    end
  end.

(** [postcard::from_bytes::<Id>]: [deserialize_bytes] = varint length, [try_take_n], [visit_borrowed_bytes]
    (which [Visitor] forwards to [visit_bytes]); the unread remainder is ignored by [from_bytes]. *)
Definition pc_deserialize (buf : list N) : pcres :=
  match take_varint 10 0 0 buf with
  | inr e => PcErr e
  | inl None => PcErr PcBadVarint
  | inl (Some (sz, rest)) =>
    if len rest <? sz then PcErr PcEnd
    else match id_deserialize false (PBytes (firstn (N.to_nat sz) rest)) with
         | DOk id => PcOk id
         | DErr _ => PcErr PcCustom
         end
  end.

Definition pc_serialize (id : list N) : eres (list N) :=
  match id_serialize false id with
  | EOk (PBytes b) => EOk (pc_serialize_bytes b)
  | EOk _ => EPanic
  | EPanic => EPanic
  | EFuel => EFuel
  end.
