(** Evaluation helpers used only by generated cases files of the C29 check:
    the model instantiated with the concrete flat store, and comparison
    functions on results and stores. *)
From Aranya Require Import base.Tactics base.ListLex base.SortedAssoc gen.GenKeyEnc model.KeyEnc model.FactOps.

(** the generator only emits valid UTF-8; [core::str::from_utf8] is not modelled *)
Definition cu_utf8 (b : bytes) : bool := true.
Definition cstore := lstore (list fval).
Definition c_run (s : schema) (os : list op) : list result * cstore :=
  vm_run cu_utf8 cstore (list fval) (l_insert _) (l_delete _) (l_prefix _) (fun v => v) Some s [] os.
Definition c_spec (s : schema) (os : list op) : list result * sstore := spec_run s [] os.

Definition option_eqb {A} (e : A -> A -> bool) (a b : option A) : bool :=
  match a, b with None, None => true | Some x, Some y => e x y | _, _ => false end.
(** every run-time failure surfaces as one class at the runtime boundary *)
Definition result_eqb (a b : result) : bool :=
  match a, b with
  | RRow x, RRow y => option_eqb row_eqb x y
  | RBool x, RBool y => Bool.eqb x y
  | RInt x, RInt y => (x =? y)%Z
  | RRows x, RRows y => list_eqb row_eqb x y
  | RUnit, RUnit => true
  | RErr _, RErr _ => true
  | _, _ => false
  end.
Definition bytes_list_eqb := list_eqb beqb.
Definition flat_eqb (a b : list (list bytes * list fval)) : bool :=
  list_eqb (fun x y => bytes_list_eqb (fst x) (fst y) && list_eqb fval_eqb (snd x) (snd y)) a b.

(** one case: schema, ops, the implementation's results and its final dump of the fact's entries.
    Checks VM model = implementation, spec store = implementation, and model store = dump. *)
Definition c_check (c : schema * list op * list result * list (list bytes * list fval)) : bool :=
  let '(s, os, impl, dump) := c in
  let '(rm, st) := c_run s os in
  let '(rs, sp) := c_spec s os in
  list_eqb result_eqb rm impl
  && list_eqb result_eqb rs impl
  && flat_eqb (l_flat _ st (s_name s)) dump
  && flat_eqb (map (fun e => (ser_keys (mk_keys (key_names s) (fst e)), snd e)) sp) dump.

(** direct codec cases: serialised key bytes and their decoding *)
Definition k_check (c : fkey * bytes) : bool :=
  let '(k, b) := c in
  beqb (ser_key k) b
  && match deser_key cu_utf8 b with Some k' => fkey_eqb k k' | None => false end.

(** a session case: [os1] ran on the graph, [os2] in an ephemeral session on top of it; the dump is the
    graph's store, which the session must not change. *)
Definition c_check_sess (c : schema * list op * list op * list result * list (list bytes * list fval)) : bool :=
  let '(s, os1, os2, impl, dump) := c in
  let '(rm, _) := c_run s (os1 ++ os2) in
  let '(rs, _) := c_spec s (os1 ++ os2) in
  let '(_, st1) := c_run s os1 in
  let '(_, sp1) := c_spec s os1 in
  list_eqb result_eqb rm impl
  && list_eqb result_eqb rs impl
  && flat_eqb (l_flat _ st1 (s_name s)) dump
  && flat_eqb (map (fun e => (ser_keys (mk_keys (key_names s) (fst e)), snd e)) sp1) dump.
