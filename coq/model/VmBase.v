(** Base vocabulary of the policy-VM model: how the Rust scalar and container
    types that occur in the VM's data types are represented.  The data types
    themselves (Instruction, Value, MachineErrorType, ...) are GENERATED from
    the Rust source into [gen/GenVm.v], which imports this file.

      Identifier, Text, String, &'static str   string  (byte order = Rust's Ord on str)
      i64                                     Z       (bounds written where the code has them)
      usize, NonZeroUsize, u8, ids            N
      Vec<T>, Box<[T]>                        list T
      BTreeMap<Identifier, T>                 association list, ascending by key, no duplicates
      Option<T>                               option T
      Result<T, E>                            res T E

    No proofs here. *)
From Coq Require Export List NArith ZArith Bool String Ascii.
Export ListNotations.

Definition ident : Type := string.
Definition Text : Type := string.
(** [buggy::Bug]: the message. *)
Definition Bug : Type := string.
(** Opaque error classes of [serialize.rs] (C26 models that file). *)
Definition SerializeError : Type := N.
Definition DeserializeError : Type := N.
Bind Scope string_scope with ident Text Bug.

Inductive res (A B : Type) : Type := ROk (a : A) | RErr (b : B).
Arguments ROk {A B} a.
Arguments RErr {A B} b.

(** A computation that may hit a Rust panic site. *)
Inductive P (site A : Type) : Type := Val (a : A) | PanicAt (s : site).
Arguments Val {site A} a.
Arguments PanicAt {site A} s.

(** Machine integer ranges. *)
Definition usize_max : N := 18446744073709551615.
Definition i64_min : Z := (-9223372036854775808)%Z.
Definition i64_max : Z := 9223372036854775807%Z.
Definition in_i64 (z : Z) : bool := (i64_min <=? z)%Z && (z <=? i64_max)%Z.

(** [usize::checked_add]. *)
Definition usize_checked_add (a b : N) : option N :=
  if (a + b <=? usize_max)%N then Some (a + b)%N else None.
(** [i64::checked_add/sub], [saturating_add/sub]. *)
Definition i64_checked (z : Z) : option Z := if in_i64 z then Some z else None.
Definition i64_saturate (z : Z) : Z :=
  if (z <? i64_min)%Z then i64_min else if (i64_max <? z)%Z then i64_max else z.

(** ** Association maps keyed by identifiers ([BTreeMap<Identifier, V>]). *)
Section AMap.
  Context {V : Type}.
  Definition amap := list (ident * V).

  Fixpoint amap_get (k : ident) (m : amap) : option V :=
    match m with
    | [] => None
    | (k', v) :: r => if String.eqb k k' then Some v else amap_get k r
    end.

  Definition amap_contains (k : ident) (m : amap) : bool :=
    match amap_get k m with Some _ => true | None => false end.

  (** [BTreeMap::insert]: sorted insert, replacing an equal key. *)
  Fixpoint amap_insert (k : ident) (v : V) (m : amap) : amap :=
    match m with
    | [] => [(k, v)]
    | (k', v') :: r =>
      match String.compare k k' with
      | Lt => (k, v) :: m
      | Eq => (k, v) :: r
      | Gt => (k', v') :: amap_insert k v r
      end
    end.

  (** [BTreeMap::remove]: the removed value and the remaining map. *)
  Fixpoint amap_remove (k : ident) (m : amap) : option (V * amap) :=
    match m with
    | [] => None
    | (k', v) :: r =>
      if String.eqb k k' then Some (v, r)
      else match amap_remove k r with
           | Some (x, r') => Some (x, (k', v) :: r')
           | None => None
           end
    end.

  (** [iter.collect::<BTreeMap<_,_>>()]: later duplicates win. *)
  Definition amap_of_list (l : list (ident * V)) : amap :=
    fold_left (fun m kv => amap_insert (fst kv) (snd kv) m) l [].
End AMap.
Arguments amap V : clear implicits.

(** Decimal rendering of a [usize] (for [format!("{}", n)]). *)
From Coq Require Import DecimalString.
Definition N_to_string (n : N) : string := NilZero.string_of_uint (N.to_uint n).
