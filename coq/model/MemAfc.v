(** Model of the in-process AFC state: [aranya-fast-channels/src/memory.rs]
    over [memory/lender.rs].

    [State] is a mutex around [{ next_chan_id; chans : BTreeMap id (Lender ..) }].
    A [Lender] owns one [BiArc] allocation with a flag [state] (SHARED /
    UNSHARED); [lend] is [state.swap(SHARED)] (a loan is created iff the old
    value was UNSHARED), a [Loan]'s access is [state.load()] (revoked iff
    UNSHARED), dropping a [Loan] or the [Lender] is [state.swap(UNSHARED)].
    The seal key, with its sequence counter, lives in the allocation's
    exclusive part and survives loans.

    Every operation touches shared memory in one place: a section under the
    state mutex (add / remove* / exists / setup_*_ctx, which contains the lend
    swap), one load (seal / open — the key they then use is reachable only
    through the one live loan) or one swap (dropping a context).  So one
    operation is one step of the interleaving.  An allocation is kept in
    [cells] for ever ([lender = false] once the channel is removed): ids are
    never reused, so allocations and ids correspond one to one. *)
From Aranya Require Import base.Tactics base.Sched model.Shm.

Record cell := {
  mid : N; mdir : dir; mkey : N; mlabel : N; mpeer : N;
  mseq0 : N;         (* ghost: the sequence number the seal key was added with *)
  mseq : N;          (* sequence number of the seal key *)
  lender : bool;     (* the map still holds the Lender *)
  shared : bool }.   (* BiArc state *)

Inductive mop :=
| MAdd (d : dir) (key label peer seq0 : N)
| MRemove (id : N)
| MRemoveIf (p : pred)
| MRemoveAll
| MExists (id : N).
Inductive cop :=
| CSetup (d : dir) (id : N)
| CSeal (c : nat) (m : smode)
| COpen (c : nat) (key label : N) (valid : bool)
| CExists (id : N)
| CDrop (c : nat).

Record loan := { lid : N; ldir : dir; ldropped : bool }.

Definition cell_with (c : cell) (sq : N) (l s : bool) : cell :=
  {| mid := mid c; mdir := mdir c; mkey := mkey c; mlabel := mlabel c; mpeer := mpeer c;
     mseq0 := mseq0 c; mseq := sq; lender := l; shared := s |}.

(** dropping the Lender of every live cell selected by [sel]: [state.swap(UNSHARED)] *)
Definition drop_lenders (sel : cell -> bool) (cs : list cell) : list cell :=
  map (fun c => if lender c && sel c then cell_with c (mseq c) false false else c) cs.
Definition live (id : N) (c : cell) : bool := (mid c =? id)%N && lender c.
Fixpoint find_cell (cs : list cell) (f : cell -> bool) : option cell :=
  match cs with
  | [] => None
  | c :: r => if f c then Some c else find_cell r f
  end.
Definition upd_cell (cs : list cell) (id : N) (f : cell -> cell) : list cell :=
  map (fun c => if (mid c =? id)%N then f c else c) cs.
Definition mpapply (p : pred) (c : cell) : bool := p (mid c) (mlabel c) (mpeer c) (mdir c).

Record mthread := { mprog : list mop; mlog : list (mop * wres) }.
Record cthread := { cprog : list cop; clog : list (cop * rres); cloans : list loan }.
Record MG := {
  cells : list cell; mnext : N;
  mw : mthread; mcs : list cthread; msmax : N;
  mtrace : list (N * N) }.      (* ghost: (channel id, sequence number) of every successful seal, newest first *)

Definition mwstep (g : MG) : MG :=
  match mprog (mw g) with
  | [] => g
  | op :: rest =>
      let fin cs nx r :=
        {| cells := cs; mnext := nx; mw := {| mprog := rest; mlog := (op, r) :: mlog (mw g) |};
           mcs := mcs g; msmax := msmax g; mtrace := mtrace g |} in
      match op with
      | MAdd d k l p sq =>
          fin (cells g ++ [{| mid := mnext g; mdir := d; mkey := k; mlabel := l; mpeer := p;
                              mseq0 := sq; mseq := sq; lender := true; shared := false |}])
              (mnext g + 1)%N (WOkId (mnext g))
      | MRemove id => fin (drop_lenders (fun c => (mid c =? id)%N) (cells g)) (mnext g) WOkUnit
      | MRemoveIf p => fin (drop_lenders (mpapply p) (cells g)) (mnext g) WOkUnit
      | MRemoveAll => fin (drop_lenders (fun _ => true) (cells g)) (mnext g) WOkUnit
      | MExists id =>
          fin (cells g) (mnext g)
              (WOkBool (match find_cell (cells g) (live id) with Some _ => true | None => false end))
      end
  end.

Fixpoint set_loan (l : list loan) (i : nat) (x : loan) : list loan :=
  match l, i with
  | [], _ => []
  | _ :: r, O => x :: r
  | y :: r, S i' => y :: set_loan r i' x
  end.
(** the usable loan [c] of direction [d] *)
Definition loan_of (ls : list loan) (c : nat) (d : dir) : option loan :=
  match nth_error ls c with
  | Some x => if dir_eqb (ldir x) d && negb (ldropped x) then Some x else None
  | None => None
  end.

Definition cstep1 (smax : N) (cs : list cell) (tr : list (N * N)) (t : cthread)
  : list cell * list (N * N) * cthread :=
  match cprog t with
  | [] => (cs, tr, t)
  | op :: rest =>
      let fin cs' tr' r ls := (cs', tr', {| cprog := rest; clog := (op, r) :: clog t; cloans := ls |}) in
      match op with
      | CSetup d id =>
          match find_cell cs (live id) with
          | None => fin cs tr RNotFound (cloans t)
          | Some c =>
              if negb (dir_eqb (mdir c) d) then fin cs tr RNotFound (cloans t)
              else if shared c then fin cs tr RNotFound (cloans t)        (* lend(): swap(SHARED) saw SHARED *)
              else fin (upd_cell cs id (fun c => cell_with c (mseq c) (lender c) true)) tr
                       (RCtx (length (cloans t)))
                       (cloans t ++ [{| lid := id; ldir := d; ldropped := false |}])
          end
      | CSeal c m =>
          match loan_of (cloans t) c DSeal with
          | None => fin cs tr RInvalid (cloans t)
          | Some x =>
              match find_cell cs (fun y => (mid y =? lid x)%N) with
              | Some y =>
                  if shared y then
                    let '(fr, sq) := sealf smax m (mseq y) in
                    fin (upd_cell cs (lid x) (fun y => cell_with y sq (lender y) (shared y)))
                        (match fr with FOk s => (lid x, s) :: tr | _ => tr end)
                        (RSealed c fr (mkey y) (mlabel y)) (cloans t)
                  else fin cs tr RNotFound (cloans t)
              | None => fin cs tr RNotFound (cloans t)
              end
          end
      | COpen c key label valid =>
          match loan_of (cloans t) c DOpen with
          | None => fin cs tr RInvalid (cloans t)
          | Some x =>
              match find_cell cs (fun y => (mid y =? lid x)%N) with
              | Some y =>
                  if shared y then fin cs tr (ROpened c (open_ok (mkey y) (mlabel y) key label valid) (mlabel y)) (cloans t)
                  else fin cs tr RNotFound (cloans t)
              | None => fin cs tr RNotFound (cloans t)
              end
          end
      | CExists id =>
          fin cs tr (RBool (match find_cell cs (live id) with Some _ => true | None => false end)) (cloans t)
      | CDrop c =>
          match nth_error (cloans t) c with
          | Some x =>
              if ldropped x then fin cs tr RDropped (cloans t)
              else fin (upd_cell cs (lid x) (fun y => cell_with y (mseq y) (lender y) false)) tr RDropped
                       (set_loan (cloans t) c {| lid := lid x; ldir := ldir x; ldropped := true |})
          | None => fin cs tr RDropped (cloans t)
          end
      end
  end.

Definition mcstep (i : nat) (g : MG) : MG :=
  match nth_error (mcs g) i with
  | None => g
  | Some t =>
      let '(cs, tr, t') := cstep1 (msmax g) (cells g) (mtrace g) t in
      {| cells := cs; mnext := mnext g; mw := mw g; mcs := upd_nth (mcs g) i (fun _ => t');
         msmax := msmax g; mtrace := tr |}
  end.

Definition mstep (t : nat) (g : MG) : MG :=
  match t with
  | O => mwstep g
  | S i => mcstep i g
  end.

Definition minit (smax : N) (wp : list mop) (cps : list (list cop)) : MG :=
  {| cells := []; mnext := 0; mw := {| mprog := wp; mlog := [] |};
     mcs := map (fun p => {| cprog := p; clog := []; cloans := [] |}) cps;
     msmax := smax; mtrace := [] |}.

Definition mruns (sched : list nat) (g : MG) : MG := run mstep sched g.

(** correspondence driver (same shape as [Shm.run_case]; every step is a whole call, site 1) *)
Definition msite (t : nat) (g : MG) : N :=
  match t with
  | O => match mprog (mw g) with [] => 0 | _ => 1 end
  | S i => match nth_error (mcs g) i with
           | Some c => match cprog c with [] => 0 | _ => 1 end
           | None => 0
           end
  end%N.
Fixpoint mrun_trace (sched : list nat) (g : MG) : list N * MG :=
  match sched with
  | [] => ([], g)
  | t :: r => let '(tr, g') := mrun_trace r (mstep t g) in (msite t g :: tr, g')
  end.
Definition mem_run_case (max_chans smax : N) (wp : list mop) (cps : list (list cop))
    (pre sched suf : list nat) : list (list N) * list (list (list N)) * list N :=
  let g1 := mruns pre (minit smax wp cps) in
  let '(tr, g2) := mrun_trace sched g1 in
  let g3 := mruns suf g2 in
  (rev (map (fun x => wres_code (snd x)) (mlog (mw g3))),
   map (fun c => rev (map (fun x => rres_canon (snd x)) (clog c))) (mcs g3),
   tr).
