(** Model of [TraversalQueue] (crates/aranya-runtime/src/storage/mod.rs).

    The Rust structure is transcribed literally: a vector [entries] of
    locations, a [partition] index separating the uncovered prefix from the
    covered suffix, and the swap-based moves of every method.  Vector
    primitives that can panic in Rust ([v[i]], [swap], [swap_remove]) return
    [None] here and the methods turn that into [Panic]; the [buggy]
    [checked_sub(..).assume(..)] sites return [Bug]; loops that are not
    structurally recursive carry fuel and return [Fuel] when it runs out.
    The theorems show that none of the three is reachable.

    [usize] arithmetic on [partition]/indexes is [nat] arithmetic: a [Vec]
    never holds more than [isize::MAX] elements, so the [checked_add(1)]
    overflow sites on [partition <= len] cannot fire and are not modelled;
    the [u64] site [coverage_mc.checked_add(1)] is modelled ([u64_max]).

    The order of [Location] is the derived lexicographic [Ord] over the
    fields in declaration order; the key function [loc_key] is generated from
    the struct definition (coq/gen/GenQueue.v). *)
From Aranya Require Import base.Tactics gen.GenQueue.

Inductive res (A : Type) : Type := Ok (a : A) | Bug | Panic | Fuel.
Arguments Ok {A} a.
Arguments Bug {A}.
Arguments Panic {A}.
Arguments Fuel {A}.

Definition bind {A B} (r : res A) (f : A -> res B) : res B :=
  match r with Ok a => f a | Bug => Bug | Panic => Panic | Fuel => Fuel end.
Notation "'do' x <- r ; k" := (bind r (fun x => k)) (at level 200, x pattern, r at level 100, k at level 200).

(** [Location { max_cut, segment }]. *)
Record loc := L { lmc : N; lseg : N }.

Definition loc_eqb (a b : loc) : bool := (lmc a =? lmc b)%N && (lseg a =? lseg b)%N.
Definition key_leb (a b : N * N) : bool :=
  (fst a <? fst b)%N || ((fst a =? fst b)%N && (snd a <=? snd b)%N).
(** [a <= b] in the derived order. *)
Definition loc_leb (a b : loc) : bool :=
  key_leb (loc_key (lmc a) (lseg a)) (loc_key (lmc b) (lseg b)).
Definition same_segment (a b : loc) : bool := (lseg a =? lseg b)%N.
Definition with_mc (e : loc) (m : N) : loc := {| lmc := m; lseg := lseg e |}.

Definition u64_max : N := 18446744073709551615.

(** * Vector primitives *)

Fixpoint set_at {A} (l : list A) (i : nat) (y : A) : list A :=
  match l, i with
  | [], _ => []
  | _ :: r, O => y :: r
  | x :: r, S i' => x :: set_at r i' y
  end.

(** [Vec::swap(i, j)]; panics when an index is out of bounds. *)
Definition swap {A} (l : list A) (i j : nat) : option (list A) :=
  match nth_error l i, nth_error l j with
  | Some x, Some y => Some (set_at (set_at l i y) j x)
  | _, _ => None
  end.

(** [Vec::swap_remove(i)]: the last element takes the place of element [i]. *)
Definition swap_remove {A} (l : list A) (i : nat) : option (A * list A) :=
  match nth_error l i with
  | Some x => Some (x, removelast (set_at l i (last l x)))
  | None => None
  end.

(** [iter().position(p)]: the first index satisfying [p]. *)
Fixpoint position {A} (p : A -> bool) (l : list A) : option nat :=
  match l with
  | [] => None
  | x :: r => if p x then Some 0 else option_map S (position p r)
  end.

(** [iter().enumerate().max_by_key(|(_, loc)| *loc)]: the LAST maximal element. *)
Fixpoint argmax_from (i : nat) (best : nat * loc) (l : list loc) : nat * loc :=
  match l with
  | [] => best
  | x :: r => argmax_from (S i) (if loc_leb (snd best) x then (i, x) else best) r
  end.
Definition argmax (l : list loc) : option (nat * loc) :=
  match l with
  | [] => None
  | x :: r => Some (argmax_from 1 (0, x) r)
  end.

(** * The queue *)

Record queue := Q { entries : list loc; part : nat }.

Definition qnew : queue := {| entries := []; part := 0 |}.
Definition clear (q : queue) : queue := qnew.
Definition is_empty (q : queue) : bool := match entries q with [] => true | _ => false end.

(** The tail of [push_covered] after the max_cut decision: move entry [i]
    across the partition when its covered status changes. *)
Definition repartition (es : list loc) (p i : nat) (was new : bool) : res queue :=
  if negb was && new then
    match p with
    | O => Bug                                    (* "partition must be >= 1 when uncovered entry exists" *)
    | S p' => match swap es i p' with
              | Some es' => Ok {| entries := es'; part := p' |}
              | None => Panic
              end
    end
  else if was && negb new then
    match swap es i p with
    | Some es' => Ok {| entries := es'; part := S p |}
    | None => Panic
    end
  else Ok {| entries := es; part := p |}.

(** push the new entry at the end, then swap it to the partition boundary. *)
Definition append_uncovered (es : list loc) (p : nat) (l : loc) : res queue :=
  let es1 := es ++ [l] in
  match length es1 with
  | O => Bug                                      (* "just pushed, len must be >= 1" *)
  | S last => match swap es1 p last with
              | Some es' => Ok {| entries := es'; part := S p |}
              | None => Panic
              end
  end.

Definition push_covered (q : queue) (l : loc) (covered : bool) : res queue :=
  match position (fun x => same_segment x l) (entries q) with
  | Some i =>
    match nth_error (entries q) i with
    | None => Panic
    | Some e =>
      let was := part q <=? i in
      if (lmc e <? lmc l)%N then
        repartition (set_at (entries q) i (with_mc e (lmc l))) (part q) i was covered
      else if (lmc l =? lmc e)%N then
        repartition (entries q) (part q) i was (was || covered)
      else Ok q
    end
  | None =>
    if covered then Ok {| entries := entries q ++ [l]; part := part q |}
    else append_uncovered (entries q) (part q) l
  end.

Definition push (q : queue) (l : loc) : res queue := push_covered q l false.

Definition push_duplicate (q : queue) (l : loc) : res queue :=
  append_uncovered (entries q) (part q) l.

Definition remove_uncovered (q : queue) (i : nat) : res (queue * loc) :=
  match part q with
  | O => Bug                                      (* "partition must be >= 1 when uncovered entry exists" *)
  | S p' =>
    match swap (entries q) i p' with
    | None => Panic
    | Some es =>
      match swap_remove es p' with
      | None => Panic
      | Some (x, es') => Ok ({| entries := es'; part := p' |}, x)
      end
    end
  end.

Definition pop_covered (q : queue) : res (queue * option (loc * bool)) :=
  match argmax (entries q) with
  | None => Ok (q, None)
  | Some (i, _) =>
    if i <? part q then
      do (q', x) <- remove_uncovered q i; Ok (q', Some (x, false))
    else
      match swap_remove (entries q) i with
      | None => Panic
      | Some (x, es') => Ok ({| entries := es'; part := part q |}, Some (x, true))
      end
  end.

Definition pop (q : queue) : res (queue * option loc) :=
  do (q', r) <- pop_covered q; Ok (q', option_map fst r).

Definition peek (q : queue) : option loc := option_map snd (argmax (entries q)).

(** the backward loop of [pop_duplicates]; [j] counts down structurally. *)
Fixpoint pd_loop (location : loc) (j : nat) (q : queue) (count : nat) : res (queue * nat) :=
  match j with
  | O => Ok (q, count)
  | S j' =>
    match nth_error (entries q) j' with
    | None => Panic
    | Some e =>
      if loc_eqb e location then
        if j' <? part q then
          match part q with
          | O => Bug
          | S p' =>
            match swap (entries q) j' p' with
            | None => Panic
            | Some es =>
              match swap_remove es p' with
              | None => Panic
              | Some (_, es') => pd_loop location j' {| entries := es'; part := p' |} (S count)
              end
            end
          end
        else
          match swap_remove (entries q) j' with
          | None => Panic
          | Some (_, es') => pd_loop location j' {| entries := es'; part := part q |} (S count)
          end
      else pd_loop location j' q count
    end
  end.

Definition pop_duplicates (q : queue) : res (queue * option (loc * nat)) :=
  match argmax (entries q) with
  | None => Ok (q, None)
  | Some (_, location) =>
    do (q', n) <- pd_loop location (length (entries q)) q 0; Ok (q', Some (location, n))
  end.

Definition all_covered (q : queue) : bool := match part q with O => true | _ => false end.

(** first loop of [drain_above]: the uncovered region. *)
Fixpoint da_unc (fuel : nat) (thr : N) (i : nat) (q : queue) (acc : list loc) : res (queue * list loc) :=
  match fuel with
  | O => Fuel
  | S f =>
    if i <? part q then
      match nth_error (entries q) i with
      | None => Panic
      | Some e =>
        if (thr <? lmc e)%N then
          do (q', x) <- remove_uncovered q i; da_unc f thr i q' (acc ++ [x])
        else da_unc f thr (S i) q acc
      end
    else Ok (q, acc)
  end.

(** second loop: covered entries above the threshold are discarded. *)
Fixpoint da_cov (fuel : nat) (thr : N) (i : nat) (q : queue) : res queue :=
  match fuel with
  | O => Fuel
  | S f =>
    if i <? length (entries q) then
      match nth_error (entries q) i with
      | None => Panic
      | Some e =>
        if (thr <? lmc e)%N then
          match swap_remove (entries q) i with
          | None => Panic
          | Some (_, es') => da_cov f thr i {| entries := es'; part := part q |}
          end
        else da_cov f thr (S i) q
      end
    else Ok q
  end.

(** returns the queue and the arguments of the calls to [f], in call order. *)
Definition drain_above (q : queue) (thr : N) : res (queue * list loc) :=
  do (q1, acc) <- da_unc (S (length (entries q))) thr 0 q [];
  do q2 <- da_cov (S (length (entries q1))) thr (part q1) q1;
  Ok (q2, acc).

Definition cover_up_to (q : queue) (segment coverage_mc longest_mc : N) : res queue :=
  match position (fun x => (lseg x =? segment)%N) (entries q) with
  | None => Ok q
  | Some i =>
    if part q <=? i then Ok q
    else if (longest_mc <=? coverage_mc)%N then
      match part q with
      | O => Bug
      | S p' => match swap (entries q) i p' with
                | Some es' => Ok {| entries := es'; part := p' |}
                | None => Panic
                end
      end
    else
      match nth_error (entries q) i with
      | None => Panic
      | Some e =>
        if (lmc e <=? coverage_mc)%N then
          if (coverage_mc <? u64_max)%N
          then Ok {| entries := set_at (entries q) i (with_mc e (coverage_mc + 1)); part := part q |}
          else Bug                                (* "coverage_mc + 1 must not overflow" *)
        else Ok q
      end
  end.

Definition drain_all (q : queue) : queue * list loc := (qnew, firstn (part q) (entries q)).

(** * Operations as data (for op-sequence theorems and the correspondence) *)

Inductive op :=
| OClear | OIsEmpty
| OPush (l : loc) | OPushCovered (l : loc) (c : bool) | OPushDup (l : loc)
| OPop | OPopCovered | OPeek | OPopDups | OAllCovered
| ODrainAbove (t : N) | OCoverUpTo (s c lg : N) | ODrainAll.

Inductive out :=
| VUnit | VBool (b : bool) | VLoc (o : option loc) | VLocCov (o : option (loc * bool))
| VLocCnt (o : option (loc * nat)) | VLocs (ls : list loc).

Definition step (q : queue) (o : op) : res (queue * out) :=
  match o with
  | OClear => Ok (clear q, VUnit)
  | OIsEmpty => Ok (q, VBool (is_empty q))
  | OPush l => do q' <- push q l; Ok (q', VUnit)
  | OPushCovered l c => do q' <- push_covered q l c; Ok (q', VUnit)
  | OPushDup l => do q' <- push_duplicate q l; Ok (q', VUnit)
  | OPop => do (q', r) <- pop q; Ok (q', VLoc r)
  | OPopCovered => do (q', r) <- pop_covered q; Ok (q', VLocCov r)
  | OPeek => Ok (q, VLoc (peek q))
  | OPopDups => do (q', r) <- pop_duplicates q; Ok (q', VLocCnt r)
  | OAllCovered => Ok (q, VBool (all_covered q))
  | ODrainAbove t => do (q', ls) <- drain_above q t; Ok (q', VLocs ls)
  | OCoverUpTo s c lg => do q' <- cover_up_to q s c lg; Ok (q', VUnit)
  | ODrainAll => let '(q', ls) := drain_all q in Ok (q', VLocs ls)
  end.

(** Runs a sequence; returns every intermediate (output, state). *)
Fixpoint run (q : queue) (ops : list op) : res (list (out * queue)) :=
  match ops with
  | [] => Ok []
  | o :: r => do (q', v) <- step q o; do t <- run q' r; Ok ((v, q') :: t)
  end.

(** * Decidable equalities used by the correspondence *)
Definition loc_list_eqb (a b : list loc) : bool :=
  (length a =? length b) && forallb (fun xy => loc_eqb (fst xy) (snd xy)) (combine a b).
Definition queue_eqb (a b : queue) : bool := loc_list_eqb (entries a) (entries b) && (part a =? part b).
Definition oloc_eqb (a b : option loc) : bool :=
  match a, b with None, None => true | Some x, Some y => loc_eqb x y | _, _ => false end.
Definition out_eqb (a b : out) : bool :=
  match a, b with
  | VUnit, VUnit => true
  | VBool x, VBool y => Bool.eqb x y
  | VLoc x, VLoc y => oloc_eqb x y
  | VLocCov None, VLocCov None => true
  | VLocCov (Some (x, c)), VLocCov (Some (y, d)) => loc_eqb x y && Bool.eqb c d
  | VLocCnt None, VLocCnt None => true
  | VLocCnt (Some (x, n)), VLocCnt (Some (y, m)) => loc_eqb x y && (n =? m)
  | VLocs x, VLocs y => loc_list_eqb x y
  | _, _ => false
  end.
Fixpoint trace_eqb (a b : list (out * queue)) : bool :=
  match a, b with
  | [], [] => true
  | (v, q) :: a', (w, r) :: b' => out_eqb v w && queue_eqb q r && trace_eqb a' b'
  | _, _ => false
  end.
(** [run] from [q0] agrees with an expected trace. *)
Definition run_agrees (q0 : queue) (ops : list op) (expect : list (out * queue)) : bool :=
  match run q0 ops with Ok t => trace_eqb t expect | _ => false end.
