(** Model of [aranya-capi-core/src/cstr.rs]: [CStrWriter::{new,write,finish}]
    and [write_c_str].

    Memory is a list of bytes [mem]; the caller's buffer [dst] is the window
    [off, off+n) inside it, so "never writes outside the buffer" is a
    statement about positions of [mem] outside that window.  [usize]
    arithmetic is written in: [saturating_add] saturates at 2^64-1. *)
From Aranya Require Import base.Tactics.

Definition usize_max : N := 18446744073709551615.
Definition sat_add (a b : N) : N := N.min (a + b) usize_max.

Definition len {A} (l : list A) : N := N.of_nat (length l).

Fixpoint upd (m : list N) (i : nat) (b : N) : list N :=
  match m, i with
  | [], _ => []
  | _ :: r, O => b :: r
  | x :: r, S i' => x :: upd r i' b
  end.

(** [dst.copy_from_slice(src)] at absolute position [pos]. *)
Fixpoint blit (m : list N) (pos : nat) (src : list N) : list N :=
  match src with
  | [] => m
  | b :: r => blit (upd m pos b) (S pos) r
  end.

Record wstate := { mem : list N; nw : N }.

(** [CStrWriter::write]: the destination is [dst[..n-1][nw..end]] when that
    range exists ([split_last_mut] needs n >= 1; [get_mut(nw..end)] needs
    nw <= end <= n-1). *)
Definition write (off : nat) (n : N) (s : wstate) (src : list N) : wstate :=
  match src with
  | [] => s
  | _ =>
    let e := sat_add (nw s) (len src) in
    if (1 <=? n)%N && (nw s <=? e)%N && (e <=? n - 1)%N
    then {| mem := blit (mem s) (off + N.to_nat (nw s)) src; nw := e |}
    else {| mem := mem s; nw := e |}
  end.

(** [CStrWriter::finish]. *)
Definition finish (off : nat) (n : N) (s : wstate) : wstate * bool :=
  let idx := N.min (nw s) n in
  let m := if (idx <? n)%N then upd (mem s) (off + N.to_nat idx) 0%N else mem s in
  let nw' := sat_add (nw s) 1 in
  ({| mem := m; nw := nw' |}, (nw' <=? n)%N).

(** [write_c_str] for a [Display] value that emits the fragments [frags]
    through [write_str], in order.  Returns (memory, nw, ok). *)
Definition write_c_str (off : nat) (n : N) (m : list N) (frags : list (list N)) : list N * N * bool :=
  let '(s, ok) := finish off n (fold_left (write off n) frags {| mem := m; nw := 0 |}) in
  (mem s, nw s, ok).
