(** Model of [aranya-runtime/src/client/session.rs]: the ephemeral session
    ([base_facts] + [fact_log] + [current_facts]), [SessionPerspective]'s
    [query] / [query_prefix] / [insert] / [delete] / [checkpoint] / [revert],
    the two-iterator merge [QueryIterator] over [Peekable]s, [PrefixIter]
    (whose [next] is [range.next().filter(starts_with)] -- it is not fused; the
    merge relies on [Peekable] caching the first [None]), and
    [Session::action] / [Session::receive] as "checkpoint; policy call; revert on
    error".

    A policy call is the sequence of perspective operations it performs followed
    by success or failure: the policy only holds [&mut impl Perspective] (or
    [FactPerspective]), so this sequence is all it can do to the session. *)
From Aranya Require Import base.Tactics base.ListLex base.SortedAssoc model.Facts.

Record session := {
  s_base : N;                 (* offset of [base_facts], the committed fact cache *)
  s_log : list update;        (* [fact_log] *)
  s_cur : nmap;               (* [current_facts] *)
}.

Definition s_new (base : N) : session := {| s_base := base; s_log := []; s_cur := [] |}.

Definition s_insert (s : session) (n : name) (k : keys) (v : bytes) : session :=
  {| s_base := s_base s; s_log := s_log s ++ [(n, k, Some v)]; s_cur := nm_put (s_cur s) n k (Some v) |}.

(** A session always has a base, so a delete always leaves a tombstone. *)
Definition s_delete (s : session) (n : name) (k : keys) : session :=
  {| s_base := s_base s; s_log := s_log s ++ [(n, k, None)]; s_cur := nm_put (s_cur s) n k None |}.

Definition s_query (st : store) (s : session) (n : name) (k : keys) : res (option bytes) :=
  match nm_get (s_cur s) n k with
  | Some slot => Ok slot
  | None => index_query st (s_base s) n k
  end.

(** ** Iterators *)

Definition fact := (keys * bytes)%type.

(** [PrefixIter]: a [BTreeMap] range starting at the prefix, and the prefix. *)
Record prefix_iter := { pi_range : list (keys * val); pi_prefix : keys }.

Definition pi_new (fm : fmap) (p : keys) : prefix_iter :=
  {| pi_range := drop_while (below bcmp p) fm; pi_prefix := p |}.
Definition pi_default : prefix_iter := {| pi_range := []; pi_prefix := [] |}.

(** [self.range.next().filter(|(k, _)| k.starts_with(&self.prefix))] *)
Definition pi_next (it : prefix_iter) : option (keys * val) * prefix_iter :=
  match pi_range it with
  | [] => (None, it)
  | e :: r => (if is_prefix bcmp (pi_prefix it) (fst e) then Some e else None,
               {| pi_range := r; pi_prefix := pi_prefix it |})
  end.

(** The storage iterator handed to the merge: its remaining items. *)
Definition list_next {A} (l : list A) : option A * list A :=
  match l with [] => (None, []) | x :: r => (Some x, r) end.

(** [core::iter::Peekable] *)
Record peekable (I A : Type) := { pk_peeked : option (option A); pk_iter : I }.
Arguments pk_peeked {I A} p.
Arguments pk_iter {I A} p.

Definition pk_new {I A} (it : I) : peekable I A := {| pk_peeked := None; pk_iter := it |}.

Definition pk_peek {I A} (next : I -> option A * I) (p : peekable I A) : option A * peekable I A :=
  match pk_peeked p with
  | Some v => (v, p)
  | None => let '(v, it) := next (pk_iter p) in (v, {| pk_peeked := Some v; pk_iter := it |})
  end.

Definition pk_next {I A} (next : I -> option A * I) (p : peekable I A) : option A * peekable I A :=
  match pk_peeked p with
  | Some v => (v, {| pk_peeked := None; pk_iter := pk_iter p |})
  | None => let '(v, it) := next (pk_iter p) in (v, {| pk_peeked := None; pk_iter := it |})
  end.

(** The session's [QueryIterator]. *)
Record qiter := {
  qi_prior : peekable (list (res fact)) (res fact);
  qi_current : peekable prefix_iter (keys * val);
}.

Definition qi_new (prior : list (res fact)) (cur : prefix_iter) : qiter :=
  {| qi_prior := pk_new prior; qi_current := pk_new cur |}.

(** [QueryIterator::next]; the fuel bounds the [loop] (one round per skipped tombstone). *)
Fixpoint qi_next (fuel : nat) (q : qiter) : option (res fact) * qiter :=
  match fuel with
  | O => (Some (Err EFuel), q)
  | S f =>
    let '(new, cur1) := pk_peek pi_next (qi_current q) in
    match new with
    | None =>
      (* current has run out: use prior *)
      let '(r, pr1) := pk_next list_next (qi_prior q) in
      (r, {| qi_prior := pr1; qi_current := cur1 |})
    | Some nw =>
      let '(old, pr1) := pk_peek list_next (qi_prior q) in
      let take_current (pr : peekable (list (res fact)) (res fact)) :=
          let '(slot, cur2) := pk_next pi_next cur1 in
          match slot with
          | None => (Some (Err EBug), {| qi_prior := pr; qi_current := cur2 |})  (* bug!("expected Some after peek") *)
          | Some (k, Some v) => (Some (Ok (k, v)), {| qi_prior := pr; qi_current := cur2 |})
          | Some (_, None) => qi_next f {| qi_prior := pr; qi_current := cur2 |}
          end in
      match old with
      | Some (Err _) =>
        (* bubble the error up instead of returning [new] *)
        let '(r, pr2) := pk_next list_next pr1 in (r, {| qi_prior := pr2; qi_current := cur1 |})
      | Some (Ok o) =>
        match kcmp (fst nw) (fst o) with
        | Eq => let '(_, pr2) := pk_next list_next pr1 in take_current pr2    (* new overwrites old *)
        | Gt => let '(r, pr2) := pk_next list_next pr1 in (r, {| qi_prior := pr2; qi_current := cur1 |})
        | Lt => take_current pr1
        end
      | None => take_current pr1
      end
    end
  end.

(** Draining the iterator (what a [for] loop / [collect] does: stop at the first [None]). *)
Fixpoint qi_collect (fuel inner : nat) (q : qiter) : list (res fact) :=
  match fuel with
  | O => []
  | S f => match qi_next inner q with
           | (None, _) => []
           | (Some r, q') => r :: qi_collect f inner q'
           end
  end.

Definition s_query_prefix (st : store) (s : session) (n : name) (p : keys) : res (list (res fact)) :=
  match index_query_prefix st (s_base s) n p with
  | Err e => Err e
  | Ok prior =>
    let cur := match sget bcmp n (s_cur s) with Some fm => pi_new fm p | None => pi_default end in
    let bound := S (S (length prior + length (pi_range cur))) in
    Ok (qi_collect bound bound (qi_new (map Ok prior) cur))
  end.

(** ** Checkpoint / revert *)

(** [Checkpoint { index: fact_log.len(), pending: 0 }] *)
Definition s_checkpoint (s : session) : checkpoint :=
  {| cp_index := N.of_nat (length (s_log s)); cp_pending := 0 |}.

Definition s_revert (s : session) (c : checkpoint) : res session :=
  let len := N.of_nat (length (s_log s)) in
  if (cp_index c =? len)%N then Ok s
  else if (len <? cp_index c)%N then Err EBug
  else
    let log := firstn (N.to_nat (cp_index c)) (s_log s) in
    Ok {| s_base := s_base s; s_log := log;
          s_cur := fold_left (fun m u => let '(n, k, v) := u in nm_put m n k v) log [] |}.

(** ** Policy calls *)

Inductive sop :=
| SInsert (n : name) (k : keys) (v : bytes)
| SDelete (n : name) (k : keys)
| SQuery (n : name) (k : keys)
| SPrefix (n : name) (p : keys)
| SPublish (id : N).            (* [add_command]: serialises to the message sink; no fact effect *)

Inductive sout :=
| OutQuery (r : res (option bytes))
| OutPrefix (r : res (list (res fact))).

Definition s_op (st : store) (s : session) (o : sop) : session * list sout :=
  match o with
  | SInsert n k v => (s_insert s n k v, [])
  | SDelete n k => (s_delete s n k, [])
  | SQuery n k => (s, [OutQuery (s_query st s n k)])
  | SPrefix n p => (s, [OutPrefix (s_query_prefix st s n p)])
  | SPublish _ => (s, [])
  end.

Fixpoint s_script (st : store) (s : session) (ops : list sop) : session * list sout :=
  match ops with
  | [] => (s, [])
  | o :: r => let '(s1, o1) := s_op st s o in let '(s2, o2) := s_script st s1 r in (s2, o1 ++ o2)
  end.

(** [Session::action] and [Session::receive]: checkpoint, run the policy, revert on error.
    Returns the session, what the policy saw, and whether the call succeeded. *)
Definition s_call (st : store) (s : session) (ops : list sop) (succeed : bool) : res session * list sout :=
  let c := s_checkpoint s in
  let '(s1, outs) := s_script st s ops in
  if succeed then (Ok s1, outs) else (s_revert s1 c, outs).

(** The client state a session is associated with; session calls get it read-only. *)
Record client := { c_store : store; c_heads : list (N * N); c_fact_cache : N }.

Definition session_new (c : client) : session := s_new (c_fact_cache c).

Definition session_call (c : client) (s : session) (ops : list sop) (succeed : bool)
  : client * res session * list sout :=
  let '(r, outs) := s_call (c_store c) s ops succeed in (c, r, outs).
