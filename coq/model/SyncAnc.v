(** Executable ancestry between locations of a store: the exact contract of
    [Storage::is_ancestor] (C11, unit queue-lookup) that the requester's
    sampling uses, instantiated for the correspondence and the C16 witness. *)
From Aranya Require Import base.Tactics model.Dag model.TravQueue model.Wire model.SyncStore.
Local Open Scope N_scope.

(** [a] is [b] or one of its ancestors (both locations of the store) *)
Fixpoint anc_eqb (fuel : nat) (st : store) (a b : loc) : bool :=
  match fuel with
  | O => false
  | S f =>
    if lseg a =? lseg b then lmc a <=? lmc b
    else match find_seg (st_segs st) (lseg b) with
         | Some s => existsb (fun p => (lmc a <=? lmc p) && anc_eqb f st a p) (prior_list (g_prior s))
         | None => false
         end
  end.

(** [Storage::is_ancestor(search, start)]: strict *)
Definition is_ancestor (st : store) (search start : loc) : bool :=
  negb (loc_eqb search start) && (lmc search <=? lmc start) && anc_eqb (S (length (st_segs st))) st search start.
