(** Evaluation helpers for the C15 correspondence runs (no proofs, not part of any
    theorem): scripts with clean reopen, canonical form of system-call traces, and
    [open] on an image given by the bytes of its two root slots. *)
From Coq Require Import String Ascii.
From Aranya Require Import base.Tactics base.Harness gen.GenCrash model.Crash.
Open Scope Z_scope.

(** Byte strings are written as hexadecimal string literals in the generated cases files
    (list literals of thousands of numerals are slow to parse). *)
Definition hexval (c : ascii) : N :=
  let n := N_of_ascii c in
  if (n <? 58)%N then (n - 48)%N else if (n <? 71)%N then (n - 55)%N else (n - 87)%N.
Fixpoint hexs (s : string) : list N :=
  match s with
  | String a (String b r) => (16 * hexval a + hexval b)%N :: hexs r
  | _ => []
  end.

(** A script: appends, commits and "drop the writer and open the file again"
    (a clean reopen reads the page-cache view of the file). *)
Inductive sop := SA (bs : list N) | SC (hb : list N) (fc : N) | SR.

(** Runs a script from a fresh file.  Result: the events, and [false] if a reopen failed. *)
Fixpoint run_script (sip : list N -> N) (w : writer) (acc : list ev) (ops : list sop) : list ev * bool :=
  match ops with
  | [] => (acc, true)
  | SA bs :: rest => let '(_, w', e) := append_at w bs in run_script sip w' (acc ++ e) rest
  | SC hb fc :: rest => let '(_, w', e) := commit sip w hb fc in run_script sip w' (acc ++ e) rest
  | SR :: rest =>
    match open sip (view (disk_after empty_image acc)) with
    | Some w' => run_script sip w' acc rest
    | None => (acc, false)
    end
  end.
Definition run_fresh (sip : list N -> N) (ops : list sop) : list ev * bool :=
  run_script sip (fst create) (snd create) ops.

(** The rolling hash the harness prints for every write. *)
Definition poly (bs : list N) : N := fold_left (fun h b => ((h * 131 + b) mod 4294967296)%N) bs 0%N.
(** Writes longer than 4096 bytes are hashed on their first and last 64 bytes only. *)
Definition phash (bs : list N) : N :=
  if (4096 <? length bs)%nat then poly (firstn 64 bs ++ skipn (length bs - 64) bs) else poly bs.

(** Canonical system call: kind (0 pwrite, 1 fdatasync, 2 fsync, 3 fallocate), offset,
    length, hash, and the bytes when the harness printed them. *)
Definition cev : Type := N * Z * Z * N * option (list N).

Definition canon (e : ev) : list (N * Z * Z * N * list N) :=
  match e with
  | ESys (SPwrite off bs) => [(0%N, off, zlen bs, phash bs, bs)]
  | ESys SFdatasync => [(1%N, 0, 0, 0%N, [])]
  | ESys SFsync => [(2%N, 0, 0, 0%N, [])]
  | ESys (SFalloc m off len) => [(3%N, off, len, Z.to_N m, [])]
  | _ => []
  end.

Definition cev_eqb (m : N * Z * Z * N * list N) (x : cev) : bool :=
  let '(k, off, len, h, bs) := m in
  let '(k', off', len', h', obs) := x in
  N.eqb k k' && Z.eqb off off' && Z.eqb len len' && N.eqb h h'
  && match obs with Some bs' => lN_eqb bs bs' | None => true end.

Fixpoint diff_from {A B} (eqb : A -> B -> bool) (i : N) (a : list A) (b : list B) : list N :=
  match a, b with
  | [], [] => []
  | x :: a', y :: b' => if eqb x y then diff_from eqb (N.succ i) a' b' else [i]
  | _, _ => [i]
  end.

(** Ghost results: offsets returned by appends, and (generation, heads offset,
    fact cache, free offset) of every committed root. *)
Definition results (e : ev) : list (N * Z * N * N * Z) :=
  match e with
  | EAppended off _ => [(0%N, off, 0%N, 0%N, 0)]
  | ECommitted r => [(1%N, match heads r with Some h => Z.of_N h | None => -1 end, generation r,
                      match fact_cache r with Some h => h | None => 0%N end, free_offset r)]
  | _ => []
  end.
Definition res_eqb (a b : N * Z * N * N * Z) : bool :=
  let '(k, o, g, f, fr) := a in let '(k', o', g', f', fr') := b in
  N.eqb k k' && Z.eqb o o' && N.eqb g g' && N.eqb f f' && Z.eqb fr fr'.

(** First index at which the model's system-call trace differs from the recorded
    one (empty = equal), same for the results, and whether every reopen succeeded. *)
Definition check_trace (ops : list sop) (expected : list cev) (expres : list (N * Z * N * N * Z))
  : list N * list N * bool :=
  let '(evs, ok) := run_fresh siphash24 ops in
  (diff_from cev_eqb 0%N (flat_map canon evs) expected,
   diff_from res_eqb 0%N (flat_map results evs) expres, ok).

(** ** [open] on an image described by its size and the bytes at the two slots *)
Definition slots_image (size : Z) (a b : list N) : image :=
  let ea := ROOT_A + zlen a in
  let eb := ROOT_B + zlen b in
  {| isize := size;
     ibyte := fun x =>
       if x <? ROOT_A then 0%N
       else if x <? ea then nth (Z.to_nat (x - ROOT_A)) a 0%N
       else if x <? ROOT_B then 0%N
       else if x <? eb then nth (Z.to_nat (x - ROOT_B)) b 0%N
       else 0%N |}.

(** (generation, heads, fact cache, free offset, next_root) of the writer [open] returns; [None] = error. *)
Definition open_summary (size : Z) (a b : list N) : option (N * Z * Z * Z * Z) :=
  match open siphash24 (slots_image size a b) with
  | None => None
  | Some w =>
    let r := w_root w in
    Some (generation r,
          match heads r with Some h => Z.of_N h | None => -1 end,
          match fact_cache r with Some h => Z.of_N h | None => -1 end,
          free_offset r, next_root w)
  end.
Definition osum_eqb (a b : option (N * Z * Z * Z * Z)) : bool :=
  match a, b with
  | None, None => true
  | Some (g, h, f, fr, nr), Some (g', h', f', fr', nr') =>
    N.eqb g g' && Z.eqb h h' && Z.eqb f f' && Z.eqb fr fr' && Z.eqb nr nr'
  | _, _ => false
  end.
