(** Runners used by the C34 / C36 / C37 / C38 correspondences: the symbolic
    functions of [model/CryptoSym.v] are evaluated with the hash (and KDF)
    instantiated by the table of (input, output) pairs the recording
    primitives logged for that case.  A framing that differs from what the
    code hashed in a single byte misses the table and the comparison fails. *)
From Coq Require Import String.
From Aranya Require Import base.Tactics base.Harness model.TupleHash model.CryptoFrames model.CryptoSym model.AfcCases.
Local Open Scope N_scope.

Definition table := list (bytes * bytes).
Fixpoint tab (t : table) (x : bytes) : bytes :=
  match t with
  | [] => [666]
  | (i, o) :: r => if bytes_eqb i x then o else tab r x
  end.

(** C34: (oids, pk, name, parent, data, sig, id, hash table of sign_cmd, hash table of verify_cmd) *)
Definition c34_case := (list bytes * bytes * bytes * bytes * bytes * bytes * bytes * table * table)%type.
Definition c34_chk (x : c34_case) : bool :=
  let '(oids, pk, name, parent, data, sig, id, ts, tv) := x in
  let c := {| c_data := data; c_name := name; c_parent := parent |} in
  let s := sign_cmd oids (tab ts) unit bytes bytes (fun _ => pk) (fun p => p) (fun s => s) (fun _ _ => sig) tt c in
  bytes_eqb (snd s) id
  && match verify_cmd oids (tab tv) bytes bytes (fun p => p) (fun s => s) (fun _ _ _ => true) pk c sig with
     | Some id' => bytes_eqb id' id
     | None => false
     end
  && ffi_verify oids (tab tv) bytes bytes (fun p => p) (fun s => s) (fun _ _ _ => true) pk c id sig.

(** * C36 *)
Definition kind_of_code (k : N) : alg_kind :=
  if k =? 0 then KAead else if k =? 1 then KDecap else if k =? 2 then KMac else if k =? 3 then KPrk
  else if k =? 4 then KSeed else KSigning.
Definition kind_code (k : alg_kind) : N :=
  match k with KAead => 0 | KDecap => 1 | KMac => 2 | KPrk => 3 | KSeed => 4 | KSigning => 5 end.

(** logged AEAD call: (nonce, ad, input, output, tag) *)
Definition aead_log := (bytes * bytes * bytes * bytes * bytes)%type.
Definition seal_of (l : aead_log) : unit -> bytes -> bytes -> bytes -> bytes * bytes :=
  fun _ n ad pt => let '(n', ad', pt', ct, tag) := l in
    if bytes_eqb n n' && bytes_eqb ad ad' && bytes_eqb pt pt' then (ct, tag) else ([777], [777]).
Definition open_of (l : aead_log) : unit -> bytes -> bytes -> bytes -> bytes -> option bytes :=
  fun _ n ad ct tag => let '(n', ad', ct', pt, tag') := l in
    if bytes_eqb n n' && bytes_eqb ad ad' && bytes_eqb ct ct' && bytes_eqb tag tag' then Some pt else None.

(** (oids, alg id bytes, kind code, key id, hash table, seal log, open log, wrapped = (id, nonce, variant, ct, tag)) *)
Definition c36_case := (list bytes * bytes * N * bytes * table * aead_log * aead_log * (bytes * bytes * N * bytes * bytes))%type.
Definition c36_chk (x : c36_case) : bool :=
  let '(oids, alg, kc, id, th, sl, ol, (wid, wnonce, wvar, wct, wtag)) := x in
  let '(n, _, secret, _, _) := sl in
  let w := wrap oids (tab th) unit (seal_of sl) (fun _ => alg) tt (kind_of_code kc) id n secret in
  bytes_eqb (w_id w) wid && bytes_eqb (w_nonce w) wnonce && (kind_code (w_kind w) =? wvar)
  && bytes_eqb (w_ct w) wct && bytes_eqb (w_tag w) wtag
  && match unwrap oids (tab th) unit (open_of ol) (fun _ => alg) tt (kind_of_code kc) w with
     | UOk s => bytes_eqb s secret
     | _ => false
     end.

(** * C37 *)
Fixpoint is_suffix (s l : bytes) : bool :=
  bytes_eqb s l || match l with [] => false | _ :: r => is_suffix s r end.
Definition any_suffix (s : bytes) (ls : list bytes) : bool := existsb (is_suffix s) ls.

(** keyed AEAD log: (key, nonce, ad, pt, ct, tag) *)
Definition kaead_log := (bytes * bytes * bytes * bytes * bytes * bytes)%type.
(** group key: (oids, label, parent, author id, seed, plaintext, sealed bytes,
    hash table, extract table (ikm -> prk), expand table ((prk ++ info) -> key), keyed seal log) *)
Definition c37_gk_case := (list bytes * bytes * bytes * bytes * bytes * bytes * bytes * table * table * table * kaead_log)%type.
Definition c37_gk_chk (x : c37_gk_case) : bool :=
  let '(oids, label, parent, author, seed, pt, sealed, th, tx, te, (k, n, ad, pt', ct, tag)) := x in
  let c := {| g_label := label; g_parent := parent; g_author := author |} in
  let kdf := fun (sd info : bytes) =>
    let prk := tab tx (labeled_extract_input oids (site_domain site_groupkey_extract) (site_label site_groupkey_extract) [sd]) in
    tab te (prk ++ labeled_expand_input oids (blen k) (site_domain site_groupkey_expand) (site_label site_groupkey_expand) [info]) in
  let seal := fun (key n0 ad0 p0 : bytes) =>
    if bytes_eqb key k && bytes_eqb n0 n && bytes_eqb ad0 ad && bytes_eqb p0 pt' then (ct, tag) else ([777], [777]) in
  bytes_eqb (gk_seal oids (tab th) bytes seal kdf seed c n pt) sealed.

(** HPKE-sealed secrets: (oids, group, logged extract IKMs, AD seen by the AEAD, which = 0 group key / 1 psk seed) *)
Definition c37_hpke_case := (list bytes * bytes * list bytes * bytes * N)%type.
Definition c37_hpke_chk (x : c37_hpke_case) : bool :=
  let '(oids, group, ikms, ad, which) := x in
  let s := if which =? 0 then site_sealed_groupkey_info else site_psk_seal_info in
  let s' := if which =? 0 then site_open_groupkey_info else site_psk_open_info in
  let info := info_struct_input s (group_env group) in
  bytes_eqb info ad && bytes_eqb (info_struct_input s' (group_env group)) ad
  && any_suffix (hpke_info oids info) ikms.

(** * C38: (oids, parent, seal id, open id, label, extract IKMs of new / from_author_secret / from_peer_encap) *)
Definition c38_case := (list bytes * bytes * bytes * bytes * bytes * list bytes * list bytes * list bytes)%type.
Definition c38_chk (x : c38_case) : bool :=
  let '(oids, parent, seal_id, open_id, label, i1, i2, i3) := x in
  let p := {| u_parent := parent; u_seal_id := seal_id; u_open_id := open_id; u_label := label |} in
  let want := hpke_info oids (uni_info p) in
  any_suffix want i1 && any_suffix want i2 && any_suffix want i3.

(** * C37, topic keys *)
(** message: (oids, version, topic, sender enc key id, sender sign key id, seed, plaintext, sealed bytes,
    hash table, extract table, expand table, keyed seal log, keyed open log) *)
Definition c37_tmsg_case := (list bytes * N * bytes * bytes * bytes * bytes * bytes * bytes * table * table * table * kaead_log * kaead_log)%type.
Definition c37_tmsg_chk (x : c37_tmsg_case) : bool :=
  let '(oids, ver, topic, enc_id, sign_id, seed, pt, sealed, th, tx, te, (k, n, ad, pt', ct, tag), (ko, no, ado, cto, pto, tago)) := x in
  let v := version_bytes ver in
  let c := {| t_version := v; t_topic := topic; t_enc_id := enc_id; t_sign_id := sign_id |} in
  let kdf := fun (sd info : bytes) =>
    let prk := tab tx (labeled_extract_input oids (site_domain site_topic_extract) (site_label site_topic_extract) [sd]) in
    tab te (prk ++ labeled_expand_input oids (blen k) (site_domain site_topic_expand) (site_label site_topic_expand) [info]) in
  let seal := fun (key n0 ad0 p0 : bytes) =>
    if bytes_eqb key k && bytes_eqb n0 n && bytes_eqb ad0 ad && bytes_eqb p0 pt' then (ct, tag) else ([777], [777]) in
  let open_ := fun (key n0 ad0 c0 t0 : bytes) =>
    if bytes_eqb key ko && bytes_eqb n0 no && bytes_eqb ad0 ado && bytes_eqb c0 cto && bytes_eqb t0 tago then Some pto else None in
  let key := tk_key bytes kdf seed v topic in
  bytes_eqb (tk_seal_message oids (tab th) bytes seal key c n pt) sealed
  && match tk_open_message oids (tab th) bytes open_ key c n ct tag with
     | Some p => bytes_eqb p pt
     | None => false
     end.

(** sealed topic key: (oids, version, topic, logged extract IKMs, AD seen by the AEAD, is_open) *)
Definition c37_trot_case := (list bytes * N * bytes * list bytes * bytes * bool)%type.
Definition c37_trot_chk (x : c37_trot_case) : bool :=
  let '(oids, ver, topic, ikms, ad, is_open) := x in
  let s := if is_open then site_topic_open_info else site_topic_seal_info in
  let info := info_struct_input s (rot_env (version_bytes ver) topic) in
  bytes_eqb info ad && any_suffix (hpke_info oids info) ikms.
