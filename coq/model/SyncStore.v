(** Storage as the sync code sees it (crates/aranya-runtime/src/storage/mod.rs:
    traits [Storage] and [Segment], the parts used by sync/*.rs).

    A store is the list of the segments reachable from the committed head set
    plus that head set.  A segment is a non-empty run of commands with
    consecutive max cuts starting at [g_first]; [g_prior] are the locations of
    the parent(s) of its first command; [g_skip] its skip list.  The harness
    dumps exactly this through the public [Storage]/[Segment] API.

    Contracts of components owned by other units (named in level_note):
    - [get_location] is exact: the location of the command with that id AND
      max cut if it is stored (C11, unit queue-lookup);
    - [is_ancestor] is exact strict ancestry between locations (C11);
    - the traversal queue is the literal model of unit queue-lookup
      (model/TravQueue.v, refinement lemmas proofs/TravQueueProofs.v). *)
From Aranya Require Import base.Tactics model.Dag model.TravQueue model.Wire gen.GenSync.
Local Open Scope N_scope.

(** * Results: Ok / SyncError / panic site / out of fuel *)
Inductive serr :=
| ESessionMismatch | EMissingSyncResponse | ESessionState | ENotReady | ECommandOverflow
| EBufferTooSmall | EMalformedResponse | EUnsupportedRequest | EStorage (kind : N) | ESerialize | EBug.

(** storage error kinds that the sync code can observe *)
Definition K_NoSuchStorage : N := 1.
Definition K_SegmentOutOfBounds : N := 3.

Inductive rres (A : Type) := ROk (a : A) | RErr (e : serr) | RPanic (site : N) | RFuel.
Arguments ROk {A} a.
Arguments RErr {A} e.
Arguments RPanic {A} site.
Arguments RFuel {A}.

Definition rbind {A B} (r : rres A) (f : A -> rres B) : rres B :=
  match r with ROk a => f a | RErr e => RErr e | RPanic s => RPanic s | RFuel => RFuel end.
Notation "'rlet' x <- e ; k" := (rbind e (fun x => k)) (at level 200, x pattern, e at level 100, k at level 200).

(** [buggy::bug!] / [.assume()]: a panic when debug assertions are on ([dbg]),
    [Err(Bug)] otherwise.  [site] numbers are listed in the ledger (SyncLedger.v). *)
Definition bug {A} (dbg : bool) (site : N) : rres A := if dbg then RPanic site else RErr EBug.

(** the traversal queue's own result type *)
Definition lift_q {A} (dbg : bool) (r : TravQueue.res A) : rres A :=
  match r with
  | TravQueue.Ok a => ROk a
  | TravQueue.Bug => bug dbg 900
  | TravQueue.Panic => RPanic 901
  | TravQueue.Fuel => RFuel
  end.

(** * Segments and stores *)
Record scmd := { c_id : N; c_prio : prio; c_par : prior3 addr; c_plen : option N; c_dlen : N }.
Record seg := { g_idx : N; g_first : N; g_cmds : list scmd; g_prior : prior3 loc; g_skip : list loc }.
Record store := { st_segs : list seg; st_heads : list (N * loc) }.

Definition seg_len (s : seg) : N := N.of_nat (length (g_cmds s)).
(** [longest_max_cut] = first + len - 1 *)
Definition seg_longest (s : seg) : N := g_first s + seg_len s - 1.
Definition seg_first_loc (s : seg) : loc := L (g_first s) (g_idx s).

Fixpoint find_seg (segs : list seg) (i : N) : option seg :=
  match segs with
  | [] => None
  | s :: r => if g_idx s =? i then Some s else find_seg r i
  end.

(** [Storage::get_segment]: only the segment index of the location is used. *)
Definition get_segment (st : store) (l : loc) : rres seg :=
  match find_seg (st_segs st) (lseg l) with
  | Some s => ROk s
  | None => RErr (EStorage K_SegmentOutOfBounds)
  end.

(** [Segment::get_command]  (the numeric range test comes first so that a huge
    max cut from an untrusted address is never turned into a unary number) *)
Definition get_command (s : seg) (l : loc) : option scmd :=
  if (g_idx s =? lseg l) && (g_first s <=? lmc l) && (lmc l - g_first s <? seg_len s)
  then nth_error (g_cmds s) (N.to_nat (lmc l - g_first s)) else None.

(** [Segment::get_from]: the commands from the location's max cut to the end of the segment. *)
Definition get_from (s : seg) (l : loc) : list scmd :=
  if (g_idx s =? lseg l) && (g_first s <=? lmc l) && (lmc l - g_first s <? seg_len s)
  then skipn (N.to_nat (lmc l - g_first s)) (g_cmds s) else [].

(** [Storage::get_location] (exact lookup contract). *)
Definition seg_find_addr (s : seg) (a : addr) : option loc :=
  if (g_first s <=? amc a) && (amc a - g_first s <? seg_len s) then
    match nth_error (g_cmds s) (N.to_nat (amc a - g_first s)) with
    | Some c => if c_id c =? aid a then Some (L (amc a) (g_idx s)) else None
    | None => None
    end
  else None.
Fixpoint get_location_in (segs : list seg) (a : addr) : option loc :=
  match segs with
  | [] => None
  | s :: r => match seg_find_addr s a with Some l => Some l | None => get_location_in r a end
  end.
Definition get_location (st : store) (a : addr) : option loc := get_location_in (st_segs st) a.

(** address of the command at a location *)
Definition addr_at (st : store) (l : loc) : option addr :=
  match find_seg (st_segs st) (lseg l) with
  | Some s => match get_command s l with Some c => Some (A (c_id c) (lmc l)) | None => None end
  | None => None
  end.

(** * Ancestry between locations, on the store alone *)
(** [l] is a location of the store: existing segment, max cut inside its range. *)
Definition valid_loc (st : store) (l : loc) : Prop :=
  exists s, find_seg (st_segs st) (lseg l) = Some s /\ g_first s <= lmc l <= seg_longest s.

(** one step towards init: the previous command of the segment, or a prior of its first command *)
Inductive loc_step (st : store) : loc -> loc -> Prop :=
| step_in a b : lseg a = lseg b -> lmc a + 1 = lmc b -> valid_loc st a -> valid_loc st b -> loc_step st a b
| step_prior p b s : find_seg (st_segs st) (lseg b) = Some s -> lmc b = g_first s ->
                     In p (prior_list (g_prior s)) -> loc_step st p b.

(** [loc_anc st a b]: the command at [a] is the command at [b] or one of its ancestors. *)
Inductive loc_anc (st : store) : loc -> loc -> Prop :=
| la_refl a : loc_anc st a a
| la_step a b c : loc_anc st a b -> loc_step st b c -> loc_anc st a c.

(** * Well-formed stores *)
Definition in_range (s : seg) (m : N) : Prop := g_first s <= m <= seg_longest s.

Record wf_store (st : store) : Prop := {
  wf_nonempty : forall s, In s (st_segs st) -> g_cmds s <> [];
  wf_idx_unique : forall s, In s (st_segs st) -> find_seg (st_segs st) (g_idx s) = Some s;
  wf_prior : forall s p, In s (st_segs st) -> In p (prior_list (g_prior s)) ->
             valid_loc st p /\ lmc p < g_first s;
  wf_skip : forall s p, In s (st_segs st) -> In p (g_skip s) -> valid_loc st p /\ lmc p < g_first s;
  wf_heads : forall i l, In (i, l) (st_heads st) -> valid_loc st l;
  wf_bound : forall s, In s (st_segs st) -> seg_longest s < u64_max - SEGMENT_BUFFER_MAX;
  (** a store holds far fewer than 2^64 / SEGMENT_BUFFER_MAX commands *)
  wf_size : N.of_nat (length (flat_map (fun s => map c_id (g_cmds s)) (st_segs st))) * SEGMENT_BUFFER_MAX < u64_max;
  (** every command of a listed segment is an ancestor-or-equal of a committed head
      (established by the transaction layer: segments become reachable only
      through a commit whose head set covers their tips) *)
  wf_tips : forall s, In s (st_segs st) ->
            exists i h, In (i, h) (st_heads st) /\ loc_anc st (L (seg_longest s) (g_idx s)) h
}.

(** Boolean versions (for the non-vacuity examples and the correspondence). *)
Definition valid_locb (st : store) (l : loc) : bool :=
  match find_seg (st_segs st) (lseg l) with
  | Some s => (g_first s <=? lmc l) && (lmc l <=? seg_longest s)
  | None => false
  end.

(** committed command ids of a store *)
Definition store_ids (st : store) : list N := flat_map (fun s => map c_id (g_cmds s)) (st_segs st).
