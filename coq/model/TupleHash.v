(** Bytes-level framings of the crypto layer.

    [tuple_input] is the byte string that [spideroak_crypto::hash::tuple_hash]
    feeds to the hash (NIST SP 800-185 TupleHash framing as implemented with
    [sha3_utils::encode_string] / [right_encode_bytes]):

      encode_string(x1) || ... || encode_string(xn) || right_encode(8 * DIGEST_SIZE)

    with  encode_string(x) = left_encode(8 * len x) || x,
          left_encode(v)   = n || big-endian digits of v   (n = number of digits, at least 1),
          right_encode(v)  = big-endian digits of v || n.

    [cs_tuple_input] is [CipherSuiteExt::tuple_hash]: tag, the six suite OIDs,
    then the context.  [id_input] is [IdExt::new]: domain "ID-v1", the data,
    then the id's tag last.  [labeled_extract_input] / [labeled_expand_input]
    are the IKM / info sequences of [CipherSuiteExt::labeled_extract] /
    [labeled_expand] as concatenated by HKDF. *)
From Aranya Require Import base.Tactics.
Local Open Scope N_scope.

Definition bytes := list N.
Definition blen (l : bytes) : N := N.of_nat (length l).

(** Little-endian base-256 digits of [v], at least one digit, no leading (most
    significant) zero digit unless [v = 0]. *)
Fixpoint le_digits (fuel : nat) (v : N) : bytes :=
  match fuel with
  | O => [v mod 256]
  | S f => if v <? 256 then [v] else (v mod 256) :: le_digits f (v / 256)
  end.
Definition be_digits (v : N) : bytes := rev (le_digits (N.to_nat (N.log2 v)) v).

Definition left_encode (v : N) : bytes := let d := be_digits v in blen d :: d.
Definition right_encode (v : N) : bytes := let d := be_digits v in d ++ [blen d].
Definition encode_string (s : bytes) : bytes := left_encode (8 * blen s) ++ s.

Definition digest_size : N := 32.
Definition tuple_input (xs : list bytes) : bytes :=
  flat_map encode_string xs ++ right_encode (8 * digest_size).

(** [CS::tuple_hash(tag, context)]. *)
Definition cs_tuple_input (oids : list bytes) (tag : bytes) (ctx : list bytes) : bytes :=
  tuple_input (tag :: oids ++ ctx).

(** "ID-v1" *)
Definition id_v1 : bytes := [73; 68; 45; 118; 49].
(** [Id::new::<CS>(tag, data)]. *)
Definition id_input (oids : list bytes) (tag : bytes) (data : list bytes) : bytes :=
  cs_tuple_input oids id_v1 (data ++ [tag]).

(** [CS::labeled_extract(domain, salt, label, ikm)]: the IKM handed to HKDF-Extract
    (domain, the encode_string'd OIDs, label, ikm parts — plain concatenation). *)
Definition labeled_extract_input (oids : list bytes) (domain label : bytes) (ikm : list bytes) : bytes :=
  domain ++ flat_map encode_string oids ++ label ++ concat ikm.
(** [CS::labeled_expand(domain, prk, label, info)]: the info handed to HKDF-Expand
    (2-byte big-endian output size first). *)
Definition labeled_expand_input (oids : list bytes) (size : N) (domain label : bytes) (info : list bytes) : bytes :=
  [size / 256; size mod 256] ++ domain ++ flat_map encode_string oids ++ label ++ concat info.
