(** Runner used by the C39 correspondence: evaluates [model/AfcClient.v] on a
    case the real client was run on.  The AEAD is instantiated with the call
    the recording AEAD logged for that case: the model must present exactly the
    logged (nonce, AD, input) to get the logged answer, otherwise it receives a
    sentinel and the comparison fails. *)
From Coq Require Import String Ascii.
From Aranya Require Import base.Tactics base.Harness model.AfcClient.
Local Open Scope N_scope.

(** Byte strings are written as hex string literals in generated case files
    (a string literal parses much faster than a list of numerals). *)
Definition hexval (c : ascii) : N :=
  let n := N_of_ascii c in
  if n <? 58 then n - 48 else n - 87.
Fixpoint hx (s : string) : bytes :=
  match s with
  | String a (String b r) => (16 * hexval a + hexval b) :: hx r
  | _ => []
  end.

Definition ecode (e : err) : N :=
  match e with
  | EBug => 1 | EHeader HBug => 2 | EHeader HInvalidSize => 3 | EHeader HUnknownVersion => 4
  | EHeader HInvalidMsgType => 5 | ENotFound => 6 | EInputTooLarge => 7 | EBufferTooSmall => 8
  | EKeyExpired => 9 | EAuthentication => 10 | ECrypto => 11 | EAllocation => 12
  end.
Definition rcode {A} (r : res A) : N :=
  match r with Ok _ => 0 | Err e => ecode e | Panic _ => 99 end.

(** logged seal call: (nonce, ad, plaintext, ok, ciphertext, tag) *)
Definition seal_log := option (bytes * bytes * bytes * bool * bytes * bytes).
(** logged open call: (nonce, ad, ciphertext, tag, ok, plaintext) *)
Definition open_log := option (bytes * bytes * bytes * bytes * bool * bytes).

Definition mk_seal (l : seal_log) : unit -> bytes -> bytes -> bytes -> option (bytes * bytes) :=
  fun _ n ad pt =>
    match l with
    | Some (n', ad', pt', ok, ct, tag) =>
      if lN_eqb n n' && lN_eqb ad ad' && lN_eqb pt pt'
      then (if ok then Some (ct, tag) else None)
      else Some ([777], [777])
    | None => Some ([778], [778])
    end.
Definition mk_open (l : open_log) : unit -> bytes -> bytes -> bytes -> bytes -> aead_open_res :=
  fun _ n ad ct tag =>
    match l with
    | Some (n', ad', ct', tag', ok, pt) =>
      if lN_eqb n n' && lN_eqb ad ad' && lN_eqb ct ct' && lN_eqb tag tag'
      then (if ok then AOk pt else AAuth)
      else AOk [777]
    | None => AOk [778]
    end.
Definition mk_garbage (l : open_log) : unit -> bytes -> bytes -> bytes -> bytes -> bytes :=
  fun _ _ _ ct _ => match l with Some (_, _, _, _, _, after) => after | None => ct end.

(** case = (op, buffer kind, live, (base nonce, label, seq0), (dst, data, spare), seal log, open log)
    op: 0 seal, 1 seal_in_place, 2 open, 3 open_in_place; kind: 0 Vec, 1 heapless, 2 FixedBuf *)
Definition case := (N * N * bool * (bytes * bytes * N) * (bytes * bytes * bytes) * seal_log * open_log)%type.
(** outcome = (result code, (label, seq / message type), buffer, spare) *)
Definition outcome := (N * (bytes * N) * bytes * bytes)%type.

Definition kind_of (k : N) : buf_kind := if k =? 0 then BVec else if k =? 1 then BHeapless else BFixed.

Definition run_case (TAG : N) (m : mode) (c : case) : outcome :=
  let '(op, k, live, (bn, label, seq0), (dst, data, sp), sl, ol) := c in
  let ch := {| c_live := live; c_label := label; c_key := tt; c_nonce := bn; c_seq := seq0 |} in
  let b := {| kind := kind_of k; vis := data; spare := sp |} in
  if op =? 0 then
    let '(r, dst', _) := seal unit TAG (mk_seal sl) m ch dst data in
    (rcode r, ([], match r with Ok h => msg_type_to_u16 (h_msg_type h) | _ => 0 end), dst', [])
  else if op =? 1 then
    let '(r, b', _) := seal_in_place unit TAG (mk_seal sl) m ch b in
    (rcode r, ([], match r with Ok h => msg_type_to_u16 (h_msg_type h) | _ => 0 end), vis b', spare b')
  else if op =? 2 then
    let '(r, dst') := open unit TAG (mk_open ol) m ch dst data in
    (rcode r, match r with Ok x => x | _ => ([], 0) end, dst', [])
  else
    let '(r, b') := open_in_place unit TAG (mk_open ol) (mk_garbage ol) m ch b in
    (rcode r, match r with Ok x => x | _ => ([], 0) end, vis b', spare b').

(** The original (pre-repair) [open_in_place], for replaying F5. *)
Definition run_case_orig (TAG : N) (m : mode) (c : case) : outcome :=
  let '(op, k, live, (bn, label, seq0), (dst, data, sp), sl, ol) := c in
  let ch := {| c_live := live; c_label := label; c_key := tt; c_nonce := bn; c_seq := seq0 |} in
  let b := {| kind := kind_of k; vis := data; spare := sp |} in
  let '(r, b') := open_in_place_orig unit TAG (mk_open ol) (mk_garbage ol) m ch b in
  (rcode r, match r with Ok x => x | _ => ([], 0) end, vis b', spare b').

(** [cmp_spare] is false for heapless buffers (unused capacity is not observable). *)
Definition outcome_eqb (cmp_spare : bool) (a b : outcome) : bool :=
  let '(c1, (l1, s1), b1, sp1) := a in
  let '(c2, (l2, s2), b2, sp2) := b in
  N.eqb c1 c2 && lN_eqb l1 l2 && N.eqb s1 s2 && lN_eqb b1 b2 && (negb cmp_spare || lN_eqb sp1 sp2).

Definition chk (TAG : N) (m : mode) (x : case * bool * outcome) : bool :=
  let '(c, cmp_spare, expect) := x in outcome_eqb cmp_spare (run_case TAG m c) expect.
