(** Graph-level model of the braid of [aranya-runtime]:
    [client/braiding.rs] ([lca_pair], [last_common_ancestor], [braid],
    [strand_heap], [BraidResult]/[BraidIter]), the pure content of
    [client/convergence_map.rs] (remaining-arrival counts) and the part of
    [client/transaction.rs] that consumes the braid ([evaluate_braid]).

    Everything is stated on the abstract command graph of [Dag.v] (a list of
    commands, newest first); no segment, location, skip list or spill
    threshold occurs in [braid_L1].  What the storage layer adds (a location
    per command, merge segments recording their LCA in the skip list, the
    block/LRU/spill representation of the two buffers) is tied to this model
    by the correspondence run, which executes the real code under several
    segment layouts of the same graph and above the spill thresholds.

    Exported interface (stable): [bres], [braid_L1], [braid_spec],
    [braid_state], [state_at]. *)
From Aranya Require Import base.Tactics model.Dag.

(** * Lookups by id *)

Definition key_of (g : graph) (i : N) : key :=
  match lookup g i with Some c => (cprio c, cid c) | None => (PMerge, i) end.
Definition is_fin (g : graph) (i : N) : bool :=
  match lookup g i with
  | Some c => match cprio c with PFinalize => true | _ => false end
  | None => false
  end.
Definition is_merge_id (g : graph) (i : N) : bool :=
  match lookup g i with Some c => is_merge c | None => false end.
Definition parents_of (g : graph) (i : N) : list N :=
  match lookup g i with Some c => parents c | None => [] end.

(** * Strand heap: a multiset of command ids; [pop] returns the LEAST
    (priority, id) key ([BinaryHeap] over the reversed [Ord] of [Strand]). *)

Fixpoint min_by (g : graph) (x : N) (l : list N) : N :=
  match l with
  | [] => x
  | y :: r => if key_ltb (key_of g y) (key_of g x) then min_by g y r else min_by g x r
  end.
Fixpoint remove1 (x : N) (l : list N) : list N :=
  match l with
  | [] => []
  | y :: r => if (y =? x)%N then r else y :: remove1 x r
  end.
(** A strand carries its key, computed once when the strand is created
    ([Strand::new]); the command id is the second component of the key. *)
Definition kfin (k : key) : bool := match fst k with PFinalize => true | _ => false end.
Fixpoint min_key (x : key) (l : list key) : key :=
  match l with
  | [] => x
  | y :: r => if key_ltb y x then min_key y r else min_key x r
  end.
Fixpoint remove_key (x : key) (l : list key) : list key :=
  match l with
  | [] => []
  | y :: r => if (snd y =? snd x)%N then r else y :: remove_key x r
  end.
Definition pop_min (l : list key) : option (key * list key) :=
  match l with
  | [] => None
  | x :: r => let m := min_key x r in Some (m, remove_key m l)
  end.

(** * Last common ancestor ([lca_pair], [last_common_ancestor])

    The walk moves the side with the larger max_cut one step: to the previous
    command of the segment / the single prior (= the parent), and at a merge
    command to the LCA recorded in the merge segment's skip list, which
    [add_merge]/[collapse_heads] stored as the [last_common_ancestor] of the
    two parents at the time the merge was created.  [jump g i] is that step;
    it is structural on the graph because the recorded LCA of a merge only
    depends on commands older than the merge. *)

Fixpoint lca_loop (step : N -> option N) (mc : N -> N) (fuel : nat) (l r : N) : option N :=
  if (l =? r)%N then Some l else
  match fuel with
  | O => None
  | S f =>
    if (mc r <? mc l)%N
    then match step l with Some l' => lca_loop step mc f l' r | None => None end
    else match step r with Some r' => lca_loop step mc f l r' | None => None end
  end.

Fixpoint jump (g : graph) (i : N) : option N :=
  match g with
  | [] => None
  | c :: r =>
    if (cid c =? i)%N then
      match cpar c with
      | PNone => None                       (* bug!("found `Prior::None` before LCA") *)
      | PSingle p => Some p
      | PMerge2 a b => lca_loop (jump r) (max_cut r) (S (length r + length r)) a b
      end
    else jump r i
  end.

Definition lca_pair (g : graph) (l r : N) : option N :=
  lca_loop (jump g) (max_cut g) (S (length g + length g)) l r.

Definition last_common_ancestor (g : graph) (hs : list N) : option N :=
  match hs with
  | [] => None                               (* assume("braid heads non-empty") *)
  | h :: t => fold_left (fun acc x => match acc with Some l => lca_pair g l x | None => None end) t (Some h)
  end.

(** * Convergence map: remaining arrivals per command

    The BFS pre-pass of [ConvergenceMap] pops locations in descending max_cut
    order, counts the duplicates of each ([pop_duplicates]), does not expand a
    location at or below the cut, and records the ones reached at least twice.
    On the graph (newest first = descending max_cut along every edge) this is
    one pass accumulating the multiset of arrivals. *)

Fixpoint arrivals (g : graph) (mc : N -> N) (L : N) (reached : list N) : list N :=
  match g with
  | [] => reached
  | c :: r =>
    if mem (cid c) reached && (L <? mc (cid c))%N
    then arrivals r mc L (parents c ++ reached)
    else arrivals r mc L reached
  end.

Fixpoint countN (x : N) (l : list N) : N :=
  match l with
  | [] => 0%N
  | y :: r => if (y =? x)%N then (countN x r + 1)%N else countN x r
  end.

Definition conv_init (g : graph) (L : N) (hs : list N) : list (N * N) :=
  let a := arrivals g (max_cut g) L hs in
  filter (fun e => (2 <=? snd e)%N)
    (map (fun x => (x, countN x a)) (filter (fun x => (L <? max_cut g x)%N) (ids g))).

(** [should_continue] once the BFS has covered the queried location:
    found with count > 1: decrement, drop; found with count 1: remove,
    continue; not found: continue. *)
Fixpoint conv_query (m : list (N * N)) (x : N) : list (N * N) * bool :=
  match m with
  | [] => ([], true)
  | (y, n) :: r =>
    if (y =? x)%N then (if (1 <? n)%N then ((y, (n - 1)%N) :: r, false) else (r, true))
    else let '(r', b) := conv_query r x in ((y, n) :: r', b)
  end.

(** * The braid *)

Record bst := { heap : list key; hasfin : bool; conv : list (N * N); out : list N }.

Inductive bres := BOk (base : N) (order : list N) | BParFin | BBug.

(** [StrandHeap::push]: a second finalize strand is refused. *)
Definition push_strand (g : graph) (s : bst) (x : N) : option bst :=
  let k := key_of g x in
  if kfin k then
    if hasfin s then None
    else Some {| heap := k :: heap s; hasfin := true; conv := conv s; out := out s |}
  else Some {| heap := k :: heap s; hasfin := hasfin s; conv := conv s; out := out s |}.

(** One prior (or one head while seeding): cut-off, convergence query,
    same-segment check, push.  [ss x o] stands for "x is in the segment of
    strand o at or below it" — a property of the storage layout; the model is
    parametric in it and the proofs show it never fires. *)
Definition visit (ss : N -> N -> bool) (chk : bool) (g : graph) (L : N) (s : bst) (x : N) : option bst :=
  if (max_cut g x <=? L)%N then Some s else
  let '(m', go) := conv_query (conv s) x in
  let s' := {| heap := heap s; hasfin := hasfin s; conv := m'; out := out s |} in
  if negb go then Some s' else
  if chk && existsb (fun o => ss x (snd o)) (heap s') then Some s' else
  push_strand g s' x.

Fixpoint visit_all (ss : N -> N -> bool) (chk : bool) (g : graph) (L : N) (s : bst) (xs : list N) : option bst :=
  match xs with
  | [] => Some s
  | x :: r => match visit ss chk g L s x with None => None | Some s' => visit_all ss chk g L s' r end
  end.

(** The iteration order of [BraidIter] is the reverse push order, i.e. the
    list [out] (newest first) read from its head: first the base, then the
    commands to evaluate. *)
Definition finish (o : list N) : bres :=
  match o with [] => BBug (* assume("braid is non-empty") *) | b :: r => BOk b r end.

Fixpoint braid_loop (ss : N -> N -> bool) (g : graph) (L : N) (fuel : nat) (s : bst) : bres :=
  match fuel with
  | O => BBug
  | S f =>
    match pop_min (heap s) with
    | None => finish (out s)
    | Some (k, h') =>
      let x := snd k in
      let hf := if kfin k then false else hasfin s in
      let o := if is_merge_id g x then out s else x :: out s in
      match visit_all ss true g L {| heap := h'; hasfin := hf; conv := conv s; out := o |} (parents_of g x) with
      | None => BParFin
      | Some s' =>
        match heap s' with
        | [b] => finish (snd b :: out s')    (* [lone] *)
        | _ => braid_loop ss g L f s'
        end
      end
    end
  end.

Definition braid_gen (ss : N -> N -> bool) (g : graph) (hs : list N) : bres :=
  match last_common_ancestor g hs with
  | None => BBug
  | Some lca =>
    let L := max_cut g lca in
    let s0 := {| heap := []; hasfin := false; conv := conv_init g L hs; out := [] |} in
    match visit_all ss false g L s0 hs with
    | None => BParFin
    | Some s1 =>
      match heap s1 with
      | [] => BOk lca []                      (* every head is the LCA *)
      | [b] => BOk (snd b) []                 (* one head covers all the others *)
      | _ => braid_loop ss g L (S (length g)) s1
      end
    end
  end.

(** The algorithm model: no layout information at all. *)
Definition braid_L1 (g : graph) (hs : list N) : bres := braid_gen (fun _ _ => false) g hs.

(** * [BraidResult] / [BraidIter] with block size [B] (BRAID_BLOCK_ENTRIES) *)

Record bresult := { bmem : list N; bdisk : list N }.

Definition write_at (d : list N) (off : nat) (data : list N) : list N :=
  firstn off d ++ data ++ skipn (off + length data) d.
Definition read_at (d : list N) (off cnt : nat) : list N := firstn cnt (skipn off d).

Definition br_flush (r : bresult) : bresult :=
  {| bmem := []; bdisk := write_at (bdisk r) (length (bdisk r)) (bmem r) |}.
Definition br_push (B : nat) (r : bresult) (x : N) : bresult :=
  let r' := if length (bmem r) =? B then br_flush r else r in
  {| bmem := bmem r' ++ [x]; bdisk := bdisk r' |}.

(** [BraidIter]: the memory buffer backwards, then the spilled blocks from
    the end of the file, each block backwards. *)
Fixpoint bi_disk (B : nat) (d : list N) (fuel : nat) (remaining : nat) : list N :=
  match fuel with
  | O => []
  | S f =>
    if remaining =? 0 then [] else
    let cnt := Nat.min remaining B in
    let start := remaining - cnt in
    rev (read_at d start cnt) ++ bi_disk B d f start
  end.
Definition br_iter (B : nat) (r : bresult) : list N :=
  rev (bmem r) ++ bi_disk B (bdisk r) (S (length (bdisk r))) (length (bdisk r)).

(** * Reference: reverse Kahn with minimum (priority, id) key (DESIGN 6.1)

    [closure g hs]: the commands reachable from the heads.  A command is
    READY when it is unprocessed and all its children inside the closure have
    been processed.  Repeatedly process the ready command with the least key;
    stop when exactly one command is ready: it is the base.  Merge commands
    are processed but not emitted.  Two ready finalize commands are an error. *)

Definition closure (g : graph) (hs : list N) : list N :=
  filter (fun x => existsb (fun h => ancb g x h) hs) (ids g).
Definition kids (g : graph) (A : list N) (x : N) : list N :=
  filter (fun c => mem c A) (children g x).
Definition ready (g : graph) (A done : list N) : list N :=
  filter (fun x => negb (mem x done) && forallb (fun c => mem c done) (kids g A x)) A.
Definition count_fin (g : graph) (l : list N) : nat := length (filter (is_fin g) l).

Fixpoint spec_loop (g : graph) (A : list N) (fuel : nat) (done : list N) : bres :=
  match fuel with
  | O => BBug
  | S f =>
    let rd := ready g A done in
    if 2 <=? count_fin g rd then BParFin else
    match rd with
    | [] => BBug
    | [b] => BOk b (filter (fun x => negb (is_merge_id g x)) done)
    | x :: r => spec_loop g A f (min_by g x r :: done)
    end
  end.

Definition braid_spec (g : graph) (hs : list N) : bres :=
  spec_loop g (closure g hs) (S (length g)) [].

(** * Fact states ([evaluate_braid], segment facts) for an arbitrary
    deterministic policy *)

Section Eval.
  Variable facts : Type.
  Inductive outcome := OAccept (f : facts) | OReject | OFail.
  Variable eval : cmd -> facts -> outcome.
  Variable empty : facts.

  (** The loop of [evaluate_braid]: [Rejected] is ignored, any other error aborts. *)
  Fixpoint apply_order (g : graph) (order : list N) (f : facts) : option facts :=
    match order with
    | [] => Some f
    | x :: r =>
      match lookup g x with
      | None => None
      | Some c =>
        match eval c f with
        | OAccept f' => apply_order g r f'
        | OReject => apply_order g r f
        | OFail => None
        end
      end
    end.

  Section WithBraid.
    Variable braid : graph -> list N -> bres.

    (** The fact state stored at a command: a command is in the graph only if
        it was accepted at its origin; a merge command stores the braid of its
        parents and is itself not evaluated. *)
    Fixpoint state_at_with (g : graph) (i : N) : option facts :=
      match g with
      | [] => None
      | c :: r =>
        if (cid c =? i)%N then
          match cpar c with
          | PNone => match eval c empty with OAccept f => Some f | _ => None end
          | PSingle p =>
            match state_at_with r p with
            | Some f => match eval c f with OAccept f' => Some f' | _ => None end
            | None => None
            end
          | PMerge2 a b =>
            match braid r [a; b] with
            | BOk base order =>
              match state_at_with r base with Some f => apply_order r order f | None => None end
            | _ => None
            end
          end
        else state_at_with r i
      end.

    Definition braid_state_with (g : graph) (hs : list N) : option facts :=
      match braid g hs with
      | BOk base order =>
        match state_at_with g base with Some f => apply_order g order f | None => None end
      | _ => None
      end.
  End WithBraid.

  Definition state_at := state_at_with braid_L1.
  Definition braid_state := braid_state_with braid_L1.
  (** The same, computed with the reference braid only. *)
  Definition spec_state_at := state_at_with braid_spec.
  Definition spec_braid_state := braid_state_with braid_spec.
End Eval.

Arguments OAccept {facts}.
Arguments OReject {facts}.
Arguments OFail {facts}.

(** * The same algorithm with tabulated max_cut / jump (used by the
    correspondence run only: [max_cut] and [jump] recompute along every path
    of nested merges; [braid_fast] is proved equal to [braid_L1] in
    proofs/BraidFast.v). *)

Fixpoint tlookN (t : list (N * N)) (i : N) : N :=
  match t with [] => 0%N | (k, v) :: r => if (k =? i)%N then v else tlookN r i end.
Fixpoint tlookO (t : list (N * option N)) (i : N) : option N :=
  match t with [] => None | (k, v) :: r => if (k =? i)%N then v else tlookO r i end.

(** max_cut table and jump table of a graph, newest first like the graph. *)
Fixpoint tabs (g : graph) : list (N * N) * list (N * option N) :=
  match g with
  | [] => ([], [])
  | c :: r =>
    let '(mt, jt) := tabs r in
    let m := match cpar c with
             | PNone => 0%N
             | PSingle p => (tlookN mt p + 1)%N
             | PMerge2 a b => (N.max (tlookN mt a) (tlookN mt b) + 1)%N
             end in
    let j := match cpar c with
             | PNone => None
             | PSingle p => Some p
             | PMerge2 a b => lca_loop (tlookO jt) (tlookN mt) (S (length r + length r)) a b
             end in
    ((cid c, m) :: mt, (cid c, j) :: jt)
  end.

Definition visit_mc (mc : N -> N) (g : graph) (L : N) (s : bst) (x : N) : option bst :=
  if (mc x <=? L)%N then Some s else
  let '(m', go) := conv_query (conv s) x in
  let s' := {| heap := heap s; hasfin := hasfin s; conv := m'; out := out s |} in
  if negb go then Some s' else push_strand g s' x.

Fixpoint visit_all_mc (mc : N -> N) (g : graph) (L : N) (s : bst) (xs : list N) : option bst :=
  match xs with
  | [] => Some s
  | x :: r => match visit_mc mc g L s x with None => None | Some s' => visit_all_mc mc g L s' r end
  end.

Fixpoint braid_loop_mc (mc : N -> N) (g : graph) (L : N) (fuel : nat) (s : bst) : bres :=
  match fuel with
  | O => BBug
  | S f =>
    match pop_min (heap s) with
    | None => finish (out s)
    | Some (k, h') =>
      let x := snd k in
      let hf := if kfin k then false else hasfin s in
      let o := if is_merge_id g x then out s else x :: out s in
      match visit_all_mc mc g L {| heap := h'; hasfin := hf; conv := conv s; out := o |} (parents_of g x) with
      | None => BParFin
      | Some s' =>
        match heap s' with
        | [b] => finish (snd b :: out s')
        | _ => braid_loop_mc mc g L f s'
        end
      end
    end
  end.

Definition conv_init_mc (mc : N -> N) (g : graph) (L : N) (hs : list N) : list (N * N) :=
  let a := arrivals g mc L hs in
  filter (fun e => (2 <=? snd e)%N)
    (map (fun x => (x, countN x a)) (filter (fun x => (L <? mc x)%N) (ids g))).

Definition braid_fast (g : graph) (hs : list N) : bres :=
  let '(mt, jt) := tabs g in
  let mc := tlookN mt in
  let lca := match hs with
             | [] => None
             | h :: t => fold_left (fun acc x => match acc with
                                                 | Some l => lca_loop (tlookO jt) mc (S (length g + length g)) l x
                                                 | None => None end) t (Some h)
             end in
  match lca with
  | None => BBug
  | Some lca =>
    let L := mc lca in
    let s0 := {| heap := []; hasfin := false; conv := conv_init_mc mc g L hs; out := [] |} in
    match visit_all_mc mc g L s0 hs with
    | None => BParFin
    | Some s1 =>
      match heap s1 with
      | [] => BOk lca []
      | [b] => BOk (snd b) []
      | _ => braid_loop_mc mc g L (S (length g)) s1
      end
    end
  end.
