(** Model of [aranya-runtime/src/client/transaction.rs] ([Transaction::{locate,
    flush, write_perspective, commit, add_commands, add_single, add_merge,
    get_perspective, init}], [evaluate_braid] (as the abstract [braid]),
    [fold_merge_pairs], [collapse_heads], [synthetic_head]),
    [client.rs] ([ClientState::{transaction, add_commands, commit, action,
    hello_head, should_sync_on_hello}]), [storage/head_set.rs] ([HeadSet::push])
    and the head-set stamp of [storage/linear] ([commit_heads], [heads_offset];
    memory backend = commit counter, libc backend = offset of the appended
    head-set record).

    State-passing, with the state ON ERROR modelled too.  The storage is
    ABSTRACT:
    - the stored graph is the list [sW] of DISTINCT commands ever written
      (newest first), each with the max cut and the fact state stored with it;
      a second copy of a command that is already stored is identified with the
      first one (segment indexes / file offsets do not exist in the model);
    - [locate] is exact reachability from the committed heads and the
      transaction's tips (this is what C11 proves of [get_location] /
      [get_location_from]);
    - [braid] (= [evaluate_braid]: LCA + braid + policy evaluation over the
      braid, starting from the facts stored at the braid's base) is a Section
      variable: a FUNCTION of the set of stored commands reachable from the
      given heads (passed as the id-sorted, duplicate-free list [reachset] of
      (command, max cut, stored facts)) and of the head list.  Nothing else is
      assumed of it (C02/C03 show that the real braid is such a function);
    - policy evaluation [eval] and the deterministic merge id [merge_id] are
      Section variables too.

    Addresses carry the true max cut of the command they name (the model does
    not represent a peer that lies about a parent's max cut). *)
From Aranya Require Import base.Tactics model.Dag.

Definition eff := list N.                       (* one effect *)
Inductive sev := SBegin | SConsume (e : eff) | SCommit | SRollback.   (* Sink calls *)

Inductive perr := PERejected | PEOther (code : N).      (* PolicyError: Rejected | anything else *)
Inductive serr := SNoSuchStorage | SEmptyPerspective | SPerspectiveHeadMismatch.
Inductive cerr :=
| ENoSuchParent (i : N) | EPolicy (e : perr) | EStorage (e : serr) | EInitError
| EParallelFinalize | EConcurrentTransaction | EBug.
Inductive res := ROk | ROkN (n : N) | ROkB (b : bool) | RErr (e : cerr) | RInvalid.

Section Txn.
Variable facts : Type.
Variable fempty : facts.

(** [Policy::call_rule]: accepted with the new fact state and the effects
    emitted, or failed with the fact state as the failing rule left it and the
    effects emitted before failing (at origin the writes of a failed rule are
    discarded by [revert], see [add_single]; in a braid they are not). *)
Inductive outcome := Accept (f : facts) (effs : list eff) | Fail (e : perr) (dirty : facts) (effs : list eff).
Variable eval : cmd -> facts -> outcome.
Variable has_policy : cmd -> bool.              (* [Command::policy().is_some()] *)
Variable merge_id : N -> N -> N.                (* id of [Policy::merge] for ordered parents *)
Variable facts_effs : facts -> list eff.        (* the audit action's "dump every visible fact" *)

(** [evaluate_braid]. *)
Inductive bres := BOk (f : facts) (effs : list eff) | BParFin | BFail (e : perr) (effs : list eff) | BBug.
(** A stored command: the command, its max cut, the fact state stored with it. *)
Record wcmd := { wc : cmd; wmc : N; wfacts : facts }.
Variable braid : list wcmd -> list N -> bres.

Variable libc : bool.                           (* which backend's stamp *)
Variable gid : N.                               (* the graph id of the transactions/actions *)

(** * Stored graph *)
Definition sg (W : list wcmd) : graph := map wc W.
Definition wid (w : wcmd) : N := cid (wc w).

Fixpoint wlookup (W : list wcmd) (i : N) : option wcmd :=
  match W with
  | [] => None
  | w :: r => if (wid w =? i)%N then Some w else wlookup r i
  end.

(** Ids of [W] reachable from the ids [S] (one pass, newest first). *)
Fixpoint closure (W : list wcmd) (S : list N) : list N :=
  match W with
  | [] => []
  | w :: r => if mem (wid w) S then wid w :: closure r (parents (wc w) ++ S) else closure r S
  end.

(** Sorted (by id) duplicate-free insertion of a stored command. *)
Fixpoint ins_cmd (c : wcmd) (l : list wcmd) : list wcmd :=
  match l with
  | [] => [c]
  | d :: r => if (wid c <? wid d)%N then c :: l else if (wid c =? wid d)%N then l else d :: ins_cmd c r
  end.

(** The set of stored commands reachable from [hs], as an id-sorted list. *)
Definition reachset (W : list wcmd) (hs : list N) : list wcmd :=
  let cl := closure W hs in
  fold_right (fun w acc => if mem (wid w) cl then ins_cmd w acc else acc) [] W.

(** * Tips map ([BTreeMap<CmdId, Location>]: sorted by id) and [HeadSet::push] *)
Fixpoint tins (i : N) (l : list N) : list N :=
  match l with
  | [] => [i]
  | j :: r => if (i <? j)%N then i :: l else if (i =? j)%N then l else j :: tins i r
  end.
Fixpoint trem (i : N) (l : list N) : list N :=
  match l with
  | [] => []
  | j :: r => if (i =? j)%N then r else j :: trem i r
  end.
Definition hs_push (i : N) (l : list N) : list N := tins i l.      (* binary-search insert, no duplicate *)

(** * Storage *)
Record store := {
  sW : list wcmd; sheads : list N; scache : facts;
  sstamp : N; sfree : N;
  sncommit : N;         (* ghost: number of [commit_heads] executed *)
  sclash : bool         (* ghost: two DIFFERENT commands with the same id were written (cannot
                           happen for real ids, which are hashes of the command) *)
}.

(** [commit_heads]: memory backend bumps a counter; libc appends the head-set
    record at the write frontier and uses that offset. *)
Definition commit_heads (s : store) (hs : list N) (fc : facts) : store :=
  {| sW := sW s; sheads := hs; scache := fc;
     sstamp := if libc then sfree s else sstamp s + 1;
     sfree := sfree s + 1; sncommit := sncommit s + 1; sclash := sclash s |}.

(** A perspective: parents, pending commands (newest first) with the fact
    state after each, the fact state at the parent(s). *)
Record persp := { pp : prior; pcmds : list wcmd; pbase : facts; pmc : N }.
Definition pfacts (p : persp) : facts := match pcmds p with w :: _ => wfacts w | [] => pbase p end.
Definition phead_addr (p : persp) : prior := match pcmds p with w :: _ => PSingle (wid w) | [] => pp p end.
Definition prior_eqb (a b : prior) : bool :=
  match a, b with
  | PNone, PNone => true
  | PSingle x, PSingle y => (x =? y)%N
  | PMerge2 x y, PMerge2 x' y' => (x =? x')%N && (y =? y')%N
  | _, _ => false
  end.
(** [Perspective::add_command] (parent check against the perspective head). *)
Definition add_command (p : persp) (c : cmd) (f : facts) : option persp :=
  if prior_eqb (cpar c) (phead_addr p)
  then Some {| pp := pp p; pcmds := {| wc := c; wmc := pmc p + N.of_nat (length (pcmds p)); wfacts := f |} :: pcmds p;
               pbase := pbase p; pmc := pmc p |}
  else None.
Definition includes (p : persp) (i : N) : bool := existsb (fun w => (wid w =? i)%N) (pcmds p).

Definition get_linear_perspective (W : list wcmd) (i : N) : option persp :=
  match wlookup W i with
  | Some w => Some {| pp := PSingle i; pcmds := []; pbase := wfacts w; pmc := wmc w + 1 |}
  | None => None
  end.

Definition cmd_eqb (a b : cmd) : bool :=
  (cid a =? cid b)%N && prio_eqb (cprio a) (cprio b) && prior_eqb (cpar a) (cpar b) && (cbody a =? cbody b)%N.

(** Append the commands of a segment (oldest first) that are not stored yet;
    the flag records an id collision (same id, different command). *)
Fixpoint add_all (cs : list wcmd) (W : list wcmd) (clash : bool) : list wcmd * bool :=
  match cs with
  | [] => (W, clash)
  | w :: r =>
    match wlookup W (wid w) with
    | Some w0 => add_all r W (clash || negb (cmd_eqb (wc w0) (wc w)))
    | None => add_all r (w :: W) clash
    end
  end.
(** [Storage::write]: [None] = [EmptyPerspective]; else the new store and the segment's head id. *)
Definition write (s : store) (p : persp) : option (store * N) :=
  match pcmds p with
  | [] => None
  | w :: _ =>
    let '(W', cl) := add_all (rev (pcmds p)) (sW s) (sclash s) in
    Some ({| sW := W'; sheads := sheads s; scache := scache s;
             sstamp := sstamp s; sfree := sfree s + 1; sncommit := sncommit s; sclash := cl |}, wid w)
  end.

(** * Transaction *)
Record txn := {
  tstamp : option N;            (* original_heads_offset *)
  tpersp : option persp;
  tphead : option N;
  tpparents : prior;
  ttips : list N;               (* heads: id -> location, the location is the id here *)
  tseen : N;                    (* ghost: [sncommit] when the stamp was captured *)
  tadded : list N               (* ghost: ids added by add_single / add_merge *)
}.
Definition tnew : txn :=
  {| tstamp := None; tpersp := None; tphead := None; tpparents := PNone; ttips := []; tseen := 0; tadded := [] |}.

(** [Transaction::locate]: committed heads, then the tips. *)
Definition locate (s : store) (t : txn) (i : N) : bool := mem i (closure (sW s) (sheads s ++ ttips t)).

Definition prior_ids (p : prior) : list N :=
  match p with PNone => [] | PSingle a => [a] | PMerge2 a b => [a; b] end.

(** [write_perspective] (also [flush]). *)
Definition write_perspective (s : store) (t : txn) : store * txn * option cerr :=
  match tpersp t with
  | None => (s, t, None)
  | Some p =>
    let t1 := {| tstamp := tstamp t; tpersp := None; tphead := None; tpparents := PNone; ttips := ttips t;
                 tseen := tseen t; tadded := tadded t |} in
    let empty := match tpparents t, tphead t with
                 | PSingle parent, Some ph => (ph =? parent)%N
                 | _, _ => false
                 end in
    if empty then (s, t1, None)
    else match write s p with
         | None => (s, t1, Some (EStorage SEmptyPerspective))
         | Some (s', hid) =>
           (s', {| tstamp := tstamp t; tpersp := None; tphead := None; tpparents := PNone;
                   ttips := tins hid (fold_left (fun l i => trem i l) (prior_ids (tpparents t)) (ttips t));
                   tseen := tseen t; tadded := tadded t |}, None)
         end
  end.

Definition set_persp (t : txn) (p : persp) (ph : N) (par : prior) (added : list N) : txn :=
  {| tstamp := tstamp t; tpersp := Some p; tphead := Some ph; tpparents := par; ttips := ttips t;
     tseen := tseen t; tadded := added |}.

(** [get_perspective]: the perspective to which a child of [parent] can be added. *)
Definition get_perspective (s : store) (t : txn) (parent : N) : store * txn * (persp + cerr) :=
  if match tphead t with Some ph => (ph =? parent)%N | None => false end
  then match tpersp t with
       | Some p => (s, t, inl p)
       | None => (s, t, inr EBug)               (* assume("trx has perspective when has phead") *)
       end
  else
    let '(s1, t1, e) := write_perspective s t in
    match e with
    | Some err => (s1, t1, inr err)
    | None =>
      if locate s1 t1 parent then
        match get_linear_perspective (sW s1) parent with
        | Some p => (s1, set_persp t1 p parent (PSingle parent) (tadded t1), inl p)
        | None => (s1, t1, inr EBug)
        end
      else (s1, t1, inr (ENoSuchParent parent))
    end.

Definition consumes (effs : list eff) : list sev := map SConsume effs.

(** [add_single]. *)
Definition add_single (s : store) (t : txn) (c : cmd) (parent : N) : store * txn * list sev * option cerr :=
  let '(s1, t1, r) := get_perspective s t parent in
  match r with
  | inr err => (s1, t1, [], Some err)
  | inl p =>
    match eval c (pfacts p) with
    | Fail e _ effs =>                    (* revert(checkpoint) is exact; sink.rollback *)
      (s1, t1, SBegin :: consumes effs ++ [SRollback], Some (EPolicy e))
    | Accept f effs =>
      match add_command p c f with
      | Some p' => (s1, set_persp t1 p' (cid c) (tpparents t1) (cid c :: tadded t1),
                    SBegin :: consumes effs ++ [SCommit], None)
      | None =>                           (* add_command refused: revert(checkpoint); sink.rollback *)
        (s1, t1, SBegin :: consumes effs ++ [SRollback], Some (EStorage SPerspectiveHeadMismatch))
      end
    end
  end.

Definition braid_sink (b : bres) : list sev :=
  match b with
  | BOk _ effs => SBegin :: consumes effs ++ [SCommit]
  | BFail _ effs => SBegin :: consumes effs ++ [SRollback]
  | _ => []
  end.
Definition braid_err (b : bres) : cerr :=
  match b with BParFin => EParallelFinalize | BFail e _ => EPolicy e | _ => EBug end.

Definition wmc_of (W : list wcmd) (i : N) : N := match wlookup W i with Some w => wmc w | None => 0 end.

(** [new_merge_perspective] + [add_command] of the merge command [c]. *)
Definition merge_persp (W : list wcmd) (c : cmd) (l r : N) (f : facts) : option persp :=
  add_command {| pp := PMerge2 l r; pcmds := []; pbase := f; pmc := N.max (wmc_of W l) (wmc_of W r) + 1 |} c f.

(** [add_merge]. *)
Definition add_merge (s : store) (t : txn) (c : cmd) (l r : N) : store * txn * list sev * option cerr :=
  let '(s1, t1, e) := write_perspective s t in
  match e with
  | Some err => (s1, t1, [], Some err)
  | None =>
    if negb (locate s1 t1 l) then (s1, t1, [], Some (ENoSuchParent l))
    else if negb (locate s1 t1 r) then (s1, t1, [], Some (ENoSuchParent r))
    else
      let b := braid (reachset (sW s1) [l; r]) [l; r] in
      match b with
      | BOk f _ =>
        match merge_persp (sW s1) c l r f with
        | Some p => (s1, set_persp t1 p (cid c) (PMerge2 l r) (cid c :: tadded t1), braid_sink b, None)
        | None => (s1, t1, braid_sink b, Some (EStorage SPerspectiveHeadMismatch))
        end
      | _ => (s1, t1, braid_sink b, Some (braid_err b))
      end
  end.

(** The loop of [add_commands] over the remaining commands. *)
Fixpoint add_loop (s : store) (t : txn) (cs : list cmd) (count : N) (log : list sev)
  : store * txn * list sev * res :=
  match cs with
  | [] => (s, t, log, ROkN count)
  | c :: rest =>
    if match tpersp t with Some p => includes p (cid c) | None => false end then add_loop s t rest count log
    else if locate s t (cid c) then add_loop s t rest count log
    else match cpar c with
         | PNone => if (cid c =? gid)%N then add_loop s t rest count log else (s, t, log, RErr EInitError)
         | PSingle parent =>
           let '(s1, t1, l1, e) := add_single s t c parent in
           match e with
           | Some err => (s1, t1, log ++ l1, RErr err)
           | None => add_loop s1 t1 rest (count + 1) (log ++ l1)
           end
         | PMerge2 l r =>
           let '(s1, t1, l1, e) := add_merge s t c l r in
           match e with
           | Some err => (s1, t1, log ++ l1, RErr err)
           | None => add_loop s1 t1 rest (count + 1) (log ++ l1)
           end
         end
  end.

(** [Transaction::init] + [new_storage] / [LinearStorage::create]. *)
Definition init (c : cmd) : option store * list sev * option cerr :=
  if negb (cid c =? gid)%N then (None, [], Some EInitError)
  else if negb (prior_eqb (cpar c) PNone) then (None, [], Some EInitError)
  else if negb (has_policy c) then (None, [], Some EInitError)
  else match eval c fempty with
       | Fail e _ effs => (None, SBegin :: consumes effs ++ [SRollback], Some (EPolicy e))
       | Accept f effs =>
         (Some {| sW := [{| wc := c; wmc := 0; wfacts := f |}]; sheads := [cid c]; scache := f;
                  sstamp := if libc then 2 else 0; sfree := 3; sncommit := 1; sclash := false |},
          SBegin :: consumes effs ++ [SCommit], None)
       end.

(** First use of a transaction on an existing graph: load the committed heads, capture the stamp. *)
Definition capture (s : store) (t : txn) : txn :=
  match tstamp t with
  | Some _ => t
  | None => {| tstamp := Some (sstamp s); tpersp := tpersp t; tphead := tphead t; tpparents := tpparents t;
               ttips := fold_left (fun l i => tins i l) (sheads s) (ttips t);
               tseen := sncommit s; tadded := tadded t |}
  end.

(** [Transaction::add_commands]. *)
Definition add_commands (so : option store) (t : txn) (cs : list cmd) : option store * txn * list sev * res :=
  match so with
  | Some s =>
    let '(s1, t1, l, r) := add_loop s (capture s t) cs 0 [] in (Some s1, t1, l, r)
  | None =>
    match cs with
    | [] => (None, t, [], RErr EInitError)
    | c :: rest =>
      match init c with
      | (Some s, l0, _) =>
        let '(s1, t1, l, r) := add_loop s (capture s t) rest 1 l0 in (Some s1, t1, l, r)
      | (None, l0, Some err) => (None, t, l0, RErr err)
      | (None, l0, None) => (None, t, l0, RErr EBug)
      end
    end
  end.

(** [Transaction::commit] (consumes the transaction). *)
Definition commit (so : option store) (t : txn) : option store * list sev * res :=
  match so with
  | None => (None, [], RErr (EStorage SNoSuchStorage))
  | Some s =>
    match tstamp t with
    | None => (Some s, [], ROkB false)
    | Some o =>
      if negb (o =? sstamp s)%N then (Some s, [], RErr EConcurrentTransaction)
      else
        let '(s1, t1, e) := write_perspective s t in
        match e with
        | Some err => (Some s1, [], RErr err)
        | None =>
          match ttips t1 with
          | [] => (Some s1, [], ROkB false)
          | _ =>
            let hs := fold_left (fun l i => hs_push i l) (ttips t1) [] in
            match hs with
            | [h] =>
              match wlookup (sW s1) h with
              | Some w => (Some (commit_heads s1 hs (wfacts w)), [], ROkB true)
              | None => (Some s1, [], RErr EBug)
              end
            | _ =>
              let b := braid (reachset (sW s1) hs) hs in
              match b with
              | BOk f _ => (Some (commit_heads s1 hs f), braid_sink b, ROkB true)
              | _ => (Some s1, braid_sink b, RErr (braid_err b))
              end
            end
          end
        end
    end
  end.

(** * Collapse, hello head, actions *)

Definition mk_merge (l r : N) : cmd :=
  {| cid := merge_id l r; cprio := PMerge; cpar := PMerge2 l r; cbody := 0 |}.

(** One step of [collapse_heads]: order the pair by id, braid with a NullSink,
    write the merge segment. *)
Definition collapse_step (s : store) (a b : N) : (store * N) + cerr :=
  if (a =? b)%N then inr EBug                         (* MergeIds::new = None *)
  else
    let '(l, r) := if (b <? a)%N then (b, a) else (a, b) in
    let c := mk_merge l r in
    match braid (reachset (sW s) [l; r]) [l; r] with
    | BOk f _ =>
      match merge_persp (sW s) c l r f with
      | Some p => match write s p with
                  | Some (s', hid) => inl (s', hid)
                  | None => inr (EStorage SEmptyPerspective)
                  end
      | None => inr (EStorage SPerspectiveHeadMismatch)
      end
    | b' => inr (braid_err b')
    end.

(** [collapse_heads] = [fold_merge_pairs] with [collapse_step]: pop two from
    the front, push the merged head at the back; an error aborts the fold
    (segments written so far stay in the store as unreachable garbage).
    [fuel] = number of heads (every step shortens the queue by one). *)
Fixpoint collapse_go (fuel : nat) (s : store) (q : list N) : store * (N + cerr) :=
  match fuel with
  | O => (s, inr EBug)
  | S n =>
    match q with
    | [] => (s, inr EBug)                          (* bug!("head set was empty") *)
    | [x] => (s, inl x)
    | a :: b :: rest =>
      match collapse_step s a b with
      | inl (s', m) => collapse_go n s' (rest ++ [m])
      | inr e => (s, inr e)
      end
    end
  end.
Definition collapse_heads (s : store) (hs : list N) : store * (N + cerr) := collapse_go (length hs) s hs.

(** [synthetic_head] / [hello_head]: the same fold on addresses (id, max cut) only. *)
Definition synth_step (a b : N * N) : option (N * N) :=
  if (fst a =? fst b)%N then None                  (* MergeIds::new = None *)
  else
    let '(l, r) := if (fst b <? fst a)%N then (fst b, fst a) else (fst a, fst b) in
    Some (merge_id l r, (N.max (snd a) (snd b) + 1)%N).
Fixpoint synth_go (fuel : nat) (q : list (N * N)) : option (N * N) :=
  match fuel with
  | O => None
  | S n =>
    match q with
    | [] => None
    | [x] => Some x
    | a :: b :: rest =>
      match synth_step a b with
      | Some m => synth_go n (rest ++ [m])
      | None => None
      end
    end
  end.
Definition hello_head (s : store) : option (N * N) :=
  let entries := map (fun h => (h, wmc_of (sW s) h)) (sheads s) in
  synth_go (length entries) entries.

(** [should_sync_on_hello]. *)
Definition should_sync (so : option store) (a : N * N) : bool :=
  match so with
  | None => true
  | Some s =>
    match hello_head s with
    | Some h => if (fst h =? fst a)%N && (snd h =? snd a)%N then false
                else negb (mem (fst a) (closure (sW s) (sheads s)) && (wmc_of (sW s) (fst a) =? snd a)%N)
    | None => true
    end
  end.

(** The audit policy's [call_action]: optionally dump the visible facts, then
    publish the commands one by one (parent = perspective head; evaluate, then
    add), optionally failing after the k-th. *)
Record pubcmd := { pid : N; pprio : prio; pbody : N }.
Fixpoint publish (p : persp) (cs : list pubcmd) (i : nat) (fail : option nat) (log : list sev)
  : (persp * list sev) + (perr * list sev) :=
  if match fail with Some k => Nat.eqb k i | None => false end then inr (PERejected, log)
  else match cs with
       | [] => inl (p, log)
       | pc :: rest =>
         let c := {| cid := pid pc; cprio := pprio pc; cpar := phead_addr p; cbody := pbody pc |} in
         match eval c (pfacts p) with
         | Fail e _ effs => inr (e, log ++ consumes effs)
         | Accept f effs =>
           match add_command p c f with
           | Some p' => publish p' rest (S i) fail (log ++ consumes effs)
           | None => inr (PEOther 2, log ++ consumes effs)     (* PolicyError::Write *)
           end
         end
       end.

Record action := { adump : bool; acmds : list pubcmd; afail : option nat }.

(** [ClientState::action]. *)
Definition do_action (so : option store) (a : action) : option store * list sev * res :=
  match so with
  | None => (None, [], RErr (EStorage SNoSuchStorage))
  | Some s =>
    match collapse_heads s (sheads s) with
    | (s1, inr e) => (Some s1, [], RErr e)
    | (s1, inl head) =>
      match get_linear_perspective (sW s1) head with
      | None => (Some s1, [], RErr EBug)
      | Some p =>
        let log0 := SBegin :: (if adump a then consumes (facts_effs (pfacts p)) else []) in
        match publish p (acmds a) 0 (afail a) log0 with
        | inr (e, log) => (Some s1, log ++ [SRollback], RErr (EPolicy e))
        | inl (p', log) =>
          match write s1 p' with
          | None => (Some s1, log, RErr (EStorage SEmptyPerspective))
          | Some (s2, hid) =>
            match wlookup (sW s2) hid with
            | Some w => (Some (commit_heads s2 [hid] (wfacts w)), log ++ [SCommit], ROk)
            | None => (Some s2, log, RErr EBug)
            end
          end
        end
      end
    end
  end.

(** * The replica: storage (if the graph exists) + open transactions; client operations *)
Record replica := { rstore : option store; rtxs : list (N * txn) }.
Definition r0 : replica := {| rstore := None; rtxs := [] |}.

Fixpoint tx_get (l : list (N * txn)) (k : N) : option txn :=
  match l with [] => None | (j, t) :: r => if (j =? k)%N then Some t else tx_get r k end.
Fixpoint tx_del (l : list (N * txn)) (k : N) : list (N * txn) :=
  match l with [] => [] | (j, t) :: r => if (j =? k)%N then tx_del r k else (j, t) :: tx_del r k end.
Definition tx_set (l : list (N * txn)) (k : N) (t : txn) : list (N * txn) := (k, t) :: tx_del l k.

Inductive op :=
| Open (t : N) | Add (t : N) (cs : list cmd) | Flush (t : N) | Commit (t : N) | Action (a : action).

Definition step (r : replica) (o : op) : replica * list sev * res :=
  match o with
  | Open k => ({| rstore := rstore r; rtxs := tx_set (rtxs r) k tnew |}, [], ROk)
  | Add k cs =>
    match tx_get (rtxs r) k with
    | None => (r, [], RInvalid)
    | Some t =>
      let '(so, t', l, x) := add_commands (rstore r) t cs in
      ({| rstore := so; rtxs := tx_set (rtxs r) k t' |}, l, x)
    end
  | Flush k =>
    match tx_get (rtxs r) k with
    | None => (r, [], RInvalid)
    | Some t =>
      match rstore r with
      | None => (r, [], RErr (EStorage SNoSuchStorage))
      | Some s =>
        let '(s1, t1, e) := write_perspective s t in
        ({| rstore := Some s1; rtxs := tx_set (rtxs r) k t1 |}, [],
         match e with Some err => RErr err | None => ROk end)
      end
    end
  | Commit k =>
    match tx_get (rtxs r) k with
    | None => (r, [], RInvalid)
    | Some t =>
      let '(so, l, x) := commit (rstore r) t in
      ({| rstore := so; rtxs := tx_del (rtxs r) k |}, l, x)
    end
  | Action a =>
    let '(so, l, x) := do_action (rstore r) a in
    ({| rstore := so; rtxs := rtxs r |}, l, x)
  end.

Fixpoint run (r : replica) (os : list op) : replica :=
  match os with
  | [] => r
  | o :: rest => run (fst (fst (step r o))) rest
  end.

(** The observable trace: after every op, (result, sink log). *)
Fixpoint trace (r : replica) (os : list op) : list (res * list sev * replica) :=
  match os with
  | [] => []
  | o :: rest => let '(r', l, x) := step r o in (x, l, r') :: trace r' rest
  end.

End Txn.

Arguments wc {facts}. Arguments wmc {facts}. Arguments wfacts {facts}. Arguments wid {facts}.
Arguments sg {facts}. Arguments wlookup {facts}. Arguments closure {facts}. Arguments ins_cmd {facts}.
Arguments reachset {facts}. Arguments wmc_of {facts}.
Arguments sW {facts}. Arguments sheads {facts}. Arguments scache {facts}. Arguments sstamp {facts}.
Arguments sfree {facts}. Arguments sncommit {facts}. Arguments sclash {facts}.
Arguments pp {facts}. Arguments pcmds {facts}. Arguments pbase {facts}. Arguments pmc {facts}.
Arguments pfacts {facts}. Arguments phead_addr {facts}. Arguments includes {facts}. Arguments add_command {facts}.
Arguments get_linear_perspective {facts}. Arguments add_all {facts}. Arguments write {facts}.
Arguments tstamp {facts}. Arguments tpersp {facts}. Arguments tphead {facts}. Arguments tpparents {facts}.
Arguments ttips {facts}. Arguments tseen {facts}. Arguments tadded {facts}. Arguments tnew {facts}.
Arguments locate {facts}. Arguments write_perspective {facts}. Arguments set_persp {facts}.
Arguments get_perspective {facts}. Arguments capture {facts}.
Arguments rstore {facts}. Arguments rtxs {facts}. Arguments r0 {facts}.
Arguments tx_get {facts}. Arguments tx_del {facts}. Arguments tx_set {facts}.
Arguments Accept {facts}. Arguments Fail {facts}.
Arguments BOk {facts}. Arguments BParFin {facts}. Arguments BFail {facts}. Arguments BBug {facts}.
Arguments braid_sink {facts}. Arguments braid_err {facts}.
Arguments Build_wcmd {facts}. Arguments Build_store {facts}. Arguments Build_persp {facts}.
Arguments Build_txn {facts}. Arguments Build_replica {facts}.
