(** Wire format of the sync protocol (crates/aranya-runtime/src/sync/wire.rs,
    requester.rs [SyncRequestMessage], responder.rs [SyncResponseMessage],
    mod.rs [SyncIncoming::decode]) as postcard encodes/decodes it.

    Bytes are [N]s below 256; a decoder is a TOTAL function on arbitrary byte
    lists returning the value and the unread rest, or a decode error (every
    postcard/serde error ends up as [SyncError::Serialize]).

    Modelled from the documented postcard 1.x format and the serde impls
    actually used by these types (not verified against those crates' code;
    the correspondence run compares on every run):
    - unsigned integers: LEB128 varint, at most [varint_max] bytes for the
      width (3/5/10/19 for u16/u32/u64/u128), the last permitted byte limited
      to the bits that remain ([max_of_last_byte]); non-canonical (padded)
      encodings are accepted; more continuation bytes than allowed => error;
    - [bool]: one byte 0/1, anything else => error;  [Option]: tag byte 0/1;
    - enum: variant index as varint(u32), out-of-range index => error;
    - [CmdId]/[GraphId] ([Id]): serialize_bytes = varint(usize) length + bytes;
      the visitor accepts exactly 32 bytes;
    - [heapless::Vec<T, N>]: varint(usize) length then the elements; the
      (N+1)-th decoded element makes [push] fail => error (elements are
      decoded before the capacity is noticed, so a truncated input fails
      earlier with unexpected-end);
    - [MaxCut]: transparent u64;  [Duration]: u64 secs, u32 nanos, error when
      [secs + nanos / 10^9] overflows u64 (serde's check before
      [Duration::new]). *)
From Aranya Require Import base.Tactics model.Dag gen.GenSync.
Local Open Scope N_scope.

(** * Decode result *)
Inductive dres (A : Type) := DOk (a : A) (rest : list N) | DErr.
Arguments DOk {A} a rest.
Arguments DErr {A}.

Definition dbind {A B} (r : dres A) (f : A -> list N -> dres B) : dres B :=
  match r with DOk a rest => f a rest | DErr => DErr end.
Notation "'dlet' x , r <- e ; k" := (dbind e (fun x r => k))
  (at level 200, x pattern, r name, e at level 100, k at level 200).

(** * Varints *)
(** [take_varint max_bytes last_max i acc shift bs]: the loop of
    [try_take_varint_uN]; [i] counts down the bytes still allowed. *)
Fixpoint take_varint (left : nat) (last_max : N) (acc shift : N) (bs : list N) : dres N :=
  match left with
  | O => DErr                                         (* DeserializeBadVarint: too many bytes *)
  | S left' =>
    match bs with
    | [] => DErr                                      (* DeserializeUnexpectedEnd *)
    | b :: r =>
      let acc' := acc + (b mod 128) * 2 ^ shift in
      if b <? 128 then
        match left' with
        | O => if last_max <? b then DErr else DOk acc' r   (* last permitted byte *)
        | _ => DOk acc' r
        end
      else take_varint left' last_max acc' (shift + 7) r
    end
  end.

Definition dec_u16 (bs : list N) : dres N := take_varint 3 3 0 0 bs.
Definition dec_u32 (bs : list N) : dres N := take_varint 5 15 0 0 bs.
Definition dec_u64 (bs : list N) : dres N := take_varint 10 1 0 0 bs.
Definition dec_u128 (bs : list N) : dres N := take_varint 19 3 0 0 bs.
Definition dec_usize := dec_u64.

(** canonical encoder ([varint_uN]): 7 bits per byte, little end first. *)
Fixpoint enc_varint (fuel : nat) (n : N) : list N :=
  match fuel with
  | O => []
  | S f => if n <? 128 then [n] else (n mod 128 + 128) :: enc_varint f (n / 128)
  end.
Definition enc_u32 (n : N) := enc_varint 5 n.
Definition enc_u64 (n : N) := enc_varint 10 n.
Definition enc_u128 (n : N) := enc_varint 19 n.

Definition U32_MAX : N := 4294967295.
Definition U64_MAX : N := 18446744073709551615.
Definition U128_MAX : N := 340282366920938463463374607431768211455.

(** * Fixed pieces *)
Definition dec_bool (bs : list N) : dres bool :=
  match bs with
  | 0 :: r => DOk false r
  | 1 :: r => DOk true r
  | _ => DErr
  end.

Fixpoint take_n (n : nat) (bs : list N) : option (list N * list N) :=
  match n with
  | O => Some ([], bs)
  | S n' => match bs with
            | [] => None
            | b :: r => match take_n n' r with Some (a, rest) => Some (b :: a, rest) | None => None end
            end
  end.

(** big-endian value of a byte string *)
Definition be_val (bs : list N) : N := fold_left (fun acc b => acc * 256 + b) bs 0.
Fixpoint be_bytes (n : nat) (v : N) : list N :=
  match n with
  | O => []
  | S n' => be_bytes n' (v / 256) ++ [v mod 256]
  end.

(** an [Id]: length-prefixed bytes, exactly 32 of them.  The length is
    compared as a number first, so a huge claimed length costs nothing. *)
Definition dec_id (bs : list N) : dres N :=
  dlet len, r <- dec_usize bs;
  if (N.of_nat (length r) <? len) then DErr              (* unexpected end *)
  else if negb (len =? 32) then DErr                       (* invalid length for an id *)
  else match take_n 32 r with
       | Some (idb, rest) => DOk (be_val idb) rest
       | None => DErr
       end.
Definition enc_id (v : N) : list N := 32 :: be_bytes 32 v.

(** * The message types *)
Record addr := A { aid : N; amc : N }.
Definition addr_eqb (a b : addr) : bool := (aid a =? aid b) && (amc a =? amc b).

Inductive prior3 (T : Type) := P0 | P1 (a : T) | P2 (a b : T).
Arguments P0 {T}.
Arguments P1 {T} a.
Arguments P2 {T} a b.
Definition prior_list {T} (p : prior3 T) : list T :=
  match p with P0 => [] | P1 a => [a] | P2 a b => [a; b] end.

Record meta := { m_id : N; m_prio : prio; m_parent : prior3 addr; m_plen : N; m_len : N }.

Inductive req_msg :=
| SyncRequest (sid gid max_bytes : N) (cmds : list addr)
| RequestMissing (sid : N) (idxs : list N)
| SyncResume (sid idx max_bytes : N)
| ReqEndSession (sid : N).

Inductive resp_msg :=
| SyncResponse (sid idx : N) (cmds : list meta)
| SyncEnd (sid max_index : N) (remaining : bool)
| Offer (sid head : N)
| RespEndSession (sid : N).

Inductive hello_msg :=
| HSubscribe (gid : N) (d1 d2 d3 : N * N)
| HUnsubscribe (gid : N)
| HHello (gid : N) (head : addr).

Inductive sync_type :=
| TPoll (r : req_msg)
| TSubscribe (remain_open max_bytes : N) (cmds : list addr) (gid : N)
| TUnsubscribe (gid : N)
| TPush (m : resp_msg) (gid : N)
| THello (h : hello_msg).

Definition req_sid (m : req_msg) : N :=
  match m with SyncRequest s _ _ _ => s | RequestMissing s _ => s | SyncResume s _ _ => s | ReqEndSession s => s end.
Definition resp_sid (m : resp_msg) : N :=
  match m with SyncResponse s _ _ => s | SyncEnd s _ _ => s | Offer s _ => s | RespEndSession s => s end.

(** * Decoders *)
Definition dec_addr (bs : list N) : dres addr :=
  dlet i, r <- dec_id bs; dlet m, r <- dec_u64 r; DOk (A i m) r.

Definition dec_prio (bs : list N) : dres prio :=
  dlet v, r <- dec_u32 bs;
  match v with
  | 0 => DOk PMerge r
  | 1 => dlet n, r <- dec_u32 r; DOk (PBasic n) r
  | 2 => DOk PFinalize r
  | 3 => DOk PInit r
  | _ => DErr
  end.

Definition dec_prior (bs : list N) : dres (prior3 addr) :=
  dlet v, r <- dec_u32 bs;
  match v with
  | 0 => DOk P0 r
  | 1 => dlet a, r <- dec_addr r; DOk (P1 a) r
  | 2 => dlet a, r <- dec_addr r; dlet b, r <- dec_addr r; DOk (P2 a b) r
  | _ => DErr
  end.

Definition dec_meta (bs : list N) : dres meta :=
  dlet i, r <- dec_id bs;
  dlet p, r <- dec_prio r;
  dlet par, r <- dec_prior r;
  dlet pl, r <- dec_u32 r;
  dlet l, r <- dec_u32 r;
  DOk {| m_id := i; m_prio := p; m_parent := par; m_plen := pl; m_len := l |} r.

(** [n] elements, structurally on [n] (a [nat] bounded by the capacity check below). *)
Fixpoint dec_elems {T} (dec : list N -> dres T) (n : nat) (bs : list N) : dres (list T) :=
  match n with
  | O => DOk [] bs
  | S n' => dlet x, r <- dec bs; dlet xs, r <- dec_elems dec n' r; DOk (x :: xs) r
  end.

(** [heapless::Vec<T, cap>].  Every element occupies at least one byte, so a
    claimed length above the number of remaining bytes can only fail
    (unexpected end, or capacity) — decided numerically, without iterating. *)
Definition dec_hvec {T} (dec : list N -> dres T) (cap : N) (bs : list N) : dres (list T) :=
  dlet len, r <- dec_usize bs;
  if (cap <? len) then
    (* the first cap+1 elements are decoded, then push fails; or the input ends first: error either way *)
    DErr
  else dec_elems dec (N.to_nat len) r.

Definition dec_req (bs : list N) : dres req_msg :=
  dlet v, r <- dec_u32 bs;
  match v with
  | 0 => dlet s, r <- dec_u128 r; dlet g, r <- dec_id r; dlet mb, r <- dec_u64 r;
         dlet cs, r <- dec_hvec dec_addr COMMAND_SAMPLE_MAX r; DOk (SyncRequest s g mb cs) r
  | 1 => dlet s, r <- dec_u128 r; dlet ix, r <- dec_hvec dec_u64 REQUEST_MISSING_MAX r; DOk (RequestMissing s ix) r
  | 2 => dlet s, r <- dec_u128 r; dlet i, r <- dec_u64 r; dlet mb, r <- dec_u64 r; DOk (SyncResume s i mb) r
  | 3 => dlet s, r <- dec_u128 r; DOk (ReqEndSession s) r
  | _ => DErr
  end.

Definition dec_resp (bs : list N) : dres resp_msg :=
  dlet v, r <- dec_u32 bs;
  match v with
  | 0 => dlet s, r <- dec_u128 r; dlet i, r <- dec_u64 r;
         dlet cs, r <- dec_hvec dec_meta COMMAND_RESPONSE_MAX r; DOk (SyncResponse s i cs) r
  | 1 => dlet s, r <- dec_u128 r; dlet i, r <- dec_u64 r; dlet b, r <- dec_bool r; DOk (SyncEnd s i b) r
  | 2 => dlet s, r <- dec_u128 r; dlet h, r <- dec_id r; DOk (Offer s h) r
  | 3 => dlet s, r <- dec_u128 r; DOk (RespEndSession s) r
  | _ => DErr
  end.

Definition nanos_per_sec : N := 1000000000.
Definition dec_duration (bs : list N) : dres (N * N) :=
  dlet s, r <- dec_u64 bs; dlet n, r <- dec_u32 r;
  if (U64_MAX <? s + n / nanos_per_sec) then DErr else DOk (s, n) r.

Definition dec_hello (bs : list N) : dres hello_msg :=
  dlet v, r <- dec_u32 bs;
  match v with
  | 0 => dlet g, r <- dec_id r; dlet a, r <- dec_duration r; dlet b, r <- dec_duration r; dlet c, r <- dec_duration r;
         DOk (HSubscribe g a b c) r
  | 1 => dlet g, r <- dec_id r; DOk (HUnsubscribe g) r
  | 2 => dlet g, r <- dec_id r; dlet h, r <- dec_addr r; DOk (HHello g h) r
  | _ => DErr
  end.

Definition dec_sync_type (bs : list N) : dres sync_type :=
  dlet v, r <- dec_u32 bs;
  match v with
  | 0 => dlet q, r <- dec_req r; DOk (TPoll q) r
  | 1 => dlet ro, r <- dec_u64 r; dlet mb, r <- dec_u64 r;
         dlet cs, r <- dec_hvec dec_addr COMMAND_SAMPLE_MAX r; dlet g, r <- dec_id r; DOk (TSubscribe ro mb cs g) r
  | 2 => dlet g, r <- dec_id r; DOk (TUnsubscribe g) r
  | 3 => dlet m, r <- dec_resp r; dlet g, r <- dec_id r; DOk (TPush m g) r
  | 4 => dlet h, r <- dec_hello r; DOk (THello h) r
  | _ => DErr
  end.

(** [SubscribeResult] ([SubscribeResponse::decode]) *)
Definition dec_subscribe_result (bs : list N) : dres bool :=
  dlet v, r <- dec_u32 bs;
  match v with 0 => DOk true r | 1 => DOk false r | _ => DErr end.

(** * Encoders (what the responder/requester write; used for message sizes
    and for the round-trip lemma) *)
Definition enc_addr (a : addr) : list N := enc_id (aid a) ++ enc_u64 (amc a).
Definition enc_prio (p : prio) : list N :=
  match p with PMerge => [0] | PBasic n => 1 :: enc_u32 n | PFinalize => [2] | PInit => [3] end.
Definition enc_prior (p : prior3 addr) : list N :=
  match p with P0 => [0] | P1 a => 1 :: enc_addr a | P2 a b => 2 :: enc_addr a ++ enc_addr b end.
Definition enc_meta (m : meta) : list N :=
  enc_id (m_id m) ++ enc_prio (m_prio m) ++ enc_prior (m_parent m) ++ enc_u32 (m_plen m) ++ enc_u32 (m_len m).
Definition enc_seq {T} (enc : T -> list N) (l : list T) : list N :=
  enc_u64 (N.of_nat (length l)) ++ concat (map enc l).
Definition enc_bool (b : bool) : list N := [if b then 1 else 0].

Definition enc_resp (m : resp_msg) : list N :=
  match m with
  | SyncResponse s i cs => 0 :: enc_u128 s ++ enc_u64 i ++ enc_seq enc_meta cs
  | SyncEnd s i b => 1 :: enc_u128 s ++ enc_u64 i ++ enc_bool b
  | Offer s h => 2 :: enc_u128 s ++ enc_id h
  | RespEndSession s => 3 :: enc_u128 s
  end.
Definition enc_req (m : req_msg) : list N :=
  match m with
  | SyncRequest s g mb cs => 0 :: enc_u128 s ++ enc_id g ++ enc_u64 mb ++ enc_seq enc_addr cs
  | RequestMissing s ix => 1 :: enc_u128 s ++ enc_seq enc_u64 ix
  | SyncResume s i mb => 2 :: enc_u128 s ++ enc_u64 i ++ enc_u64 mb
  | ReqEndSession s => 3 :: enc_u128 s
  end.
Definition enc_poll (m : req_msg) : list N := 0 :: enc_req m.

Definition enc_len_resp (m : resp_msg) : N := N.of_nat (length (enc_resp m)).
