(** Executable small-step model of the Aranya policy VM
    ([crates/aranya-policy-vm/src/machine.rs]: [Machine], [RunState::step],
    [RunState::run], the [call_*]/[setup_*] entry points and
    [Machine::from_module]; [stack.rs], [scope.rs], [data.rs] conversions;
    the error-position path through [error.rs] and
    [aranya-policy-module/src/codemap.rs]).

    The data types come from [gen/GenVm.v], which is regenerated from the Rust
    source on every run: [step] matches on the generated [Instruction], so a
    new instruction variant makes this file fail to compile.

    Conventions.  The head of a list is the top of the stack / the innermost
    scope / the last pushed call-state entry.  [BTreeMap<Identifier,_>] is an
    ascending association list ([VmBase.amap_*]).  I/O, FFI and the struct
    codec are an explicit oracle [MachineIO S] of total functions over an
    abstract I/O state [S]; every oracle answer may be an error.

    Every Rust construct of the anchored code that can panic appears as a
    [Panic site] branch whose guard is transcribed; [dbg] is
    [cfg!(debug_assertions)]: [buggy]'s [assume]/[bug!] panic when it is on and
    return [Err(Bug)] when it is off.  Nothing here pre-judges a branch
    unreachable - [proofs/VmTotal.v] does that.

    No proofs in this file. *)
From Aranya Require Import model.VmBase gen.GenVm.
Local Open Scope N_scope.

Definition len {A} (l : list A) : N := N.of_nat (List.length l).
Definition sapp (a b : string) : string := String.append a b.
Infix "+s+" := sapp (at level 60, right associativity).
Notation "s1 =s? s2" := (String.eqb s1 s2) (at level 70).

(** * Panic sites of the anchored code (the hand side of the ledger). *)
Inductive psite : Type :=
  | PS_step_progmem_index          (* machine.rs step: self.machine.progmem[self.pc()] *)
  | PS_step_restore_sp_assume      (* saved_sp.checked_add(1).assume(..)            [debug_assertions] *)
  | PS_step_unreachable_addsub     (* unreachable!() in Add | Sub *)
  | PS_step_unreachable_saturating (* unreachable!() in SaturatingAdd | SaturatingSub *)
  | PS_step_unreachable_cmp        (* unreachable!() in Gt | Lt | Eq *)
  | PS_step_publish_pc_assume      (* Publish: self.pc.checked_add(1).assume(..)    [debug_assertions] *)
  | PS_step_factcount_assume       (* count.checked_add(1).assume(..)               [debug_assertions] *)
  | PS_step_pc_assume              (* end of step: self.pc.checked_add(1).assume(..) [debug_assertions] *)
  | PS_codemap_mapping_index       (* codemap.rs span_from_instruction: self.mapping[idx] *)
  | PS_linecol_assert              (* codemap.rs linecol: assert!(pos <= self.text.len()) *)
  | PS_linecol_slice               (* self.text[0..pos] *)
  | PS_linecol_line_expect         (* line.checked_add(1).expect(..) *)
  | PS_linecol_col_expect          (* col.checked_add(1).expect(..) *)
  | PS_as_str_slice                (* codemap.rs as_str: &self.text[self.start..self.end] *)
  | PS_ctx_with_new_head_bug.      (* context.rs with_new_head: bug!(..)            [debug_assertions] *)

(** * Values *)

Definition bool_eqb := Bool.eqb.

Definition hv_eqb (a b : HashableValue) : bool :=
  match a, b with
  | HV_Int x, HV_Int y => Z.eqb x y
  | HV_Bool x, HV_Bool y => bool_eqb x y
  | HV_String x, HV_String y => x =s? y
  | HV_Id x, HV_Id y => N.eqb x y
  | HV_Enum n x, HV_Enum m y => (n =s? m) && Z.eqb x y
  | _, _ => false
  end.

Definition factkey_eqb (a b : FactKey) : bool :=
  (FactKey_identifier a =s? FactKey_identifier b) && hv_eqb (FactKey_value a) (FactKey_value b).

Fixpoint list_eqb {A} (e : A -> A -> bool) (a b : list A) : bool :=
  match a, b with
  | [], [] => true
  | x :: a', y :: b' => e x y && list_eqb e a' b'
  | _, _ => false
  end.

(** Derived [PartialEq] on [Value]. *)
Fixpoint value_eqb (a b : Value) {struct a} : bool :=
  match a, b with
  | V_Unit, V_Unit => true
  | V_Int x, V_Int y => Z.eqb x y
  | V_Bool x, V_Bool y => bool_eqb x y
  | V_String x, V_String y => x =s? y
  | V_Bytes x, V_Bytes y => list_eqb N.eqb x y
  | V_Struct (mkStruct n1 f1), V_Struct (mkStruct n2 f2) =>
    (n1 =s? n2) &&
    (fix go (l1 l2 : list (ident * Value)) : bool :=
       match l1, l2 with
       | [], [] => true
       | (k1, v1) :: r1, (k2, v2) :: r2 => (k1 =s? k2) && value_eqb v1 v2 && go r1 r2
       | _, _ => false
       end) f1 f2
  | V_Fact (mkFact n1 k1 vs1), V_Fact (mkFact n2 k2 vs2) =>
    (n1 =s? n2) && list_eqb factkey_eqb k1 k2 &&
    (fix go (l1 l2 : list (FactValue_ Value)) : bool :=
       match l1, l2 with
       | [], [] => true
       | mkFactValue i1 v1 :: r1, mkFactValue i2 v2 :: r2 => (i1 =s? i2) && value_eqb v1 v2 && go r1 r2
       | _, _ => false
       end) vs1 vs2
  | V_Id x, V_Id y => N.eqb x y
  | V_Enum n x, V_Enum m y => (n =s? m) && Z.eqb x y
  | V_Identifier x, V_Identifier y => x =s? y
  | V_Option None, V_Option None => true
  | V_Option (Some x), V_Option (Some y) => value_eqb x y
  | V_Result (ROk x), V_Result (ROk y) => value_eqb x y
  | V_Result (RErr x), V_Result (RErr y) => value_eqb x y
  | _, _ => false
  end.

Definition factvalue_eqb (a b : FactValue) : bool :=
  (FactValue_identifier a =s? FactValue_identifier b) && value_eqb (FactValue_value a) (FactValue_value b).

(** [Value::type_name]. *)
Fixpoint type_name (v : Value) : string :=
  match v with
  | V_Unit => "Unit"
  | V_Int _ => "Int"
  | V_Bool _ => "Bool"
  | V_String _ => "String"
  | V_Bytes _ => "Bytes"
  | V_Struct s => "Struct " +s+ Struct_name s
  | V_Fact f => "Fact " +s+ Fact_name f
  | V_Id _ => "Id"
  | V_Enum n _ => "Enum " +s+ n
  | V_Identifier _ => "Identifier"
  | V_Option (Some i) => "Option[" +s+ type_name i +s+ "]"
  | V_Option None => "Option[_]"
  | V_Result (ROk i) => "Result[_, " +s+ type_name i +s+ "]"
  | V_Result (RErr i) => "Result[" +s+ type_name i +s+ ", _]"
  end%string.

(** [Display for TypeKind]. *)
Fixpoint tk_display (t : TypeKind) : string :=
  match t with
  | TK_Unit => "unit" | TK_String => "string" | TK_Bytes => "bytes" | TK_Int => "int"
  | TK_Bool => "bool" | TK_Id => "id"
  | TK_Struct n => "struct " +s+ n
  | TK_Enum n => "enum " +s+ n
  | TK_Optional t => "option[" +s+ tk_display t +s+ "]"
  | TK_Never => "never"
  | TK_Result o e => "result[" +s+ tk_display o +s+ ", " +s+ tk_display e +s+ "]"
  end%string.

(** [Value::fits_type]. *)
Fixpoint fits_type (v : Value) (t : TypeKind) : bool :=
  match v, t with
  | V_Unit, TK_Unit => true
  | V_Int _, TK_Int => true
  | V_Bool _, TK_Bool => true
  | V_String _, TK_String => true
  | V_Bytes _, TK_Bytes => true
  | V_Struct s, TK_Struct i => Struct_name s =s? i
  | V_Id _, TK_Id => true
  | V_Enum n _, TK_Enum i => n =s? i
  | V_Option (Some x), TK_Optional ty => fits_type x ty
  | V_Option None, TK_Optional _ => true
  | V_Result (ROk x), TK_Result o _ => fits_type x o
  | V_Result (RErr x), TK_Result _ e => fits_type x e
  | _, _ => false
  end.

(** [HashableValue::fits_type]. *)
Definition hv_fits_type (v : HashableValue) (t : TypeKind) : bool :=
  match v, t with
  | HV_Int _, TK_Int => true
  | HV_Bool _, TK_Bool => true
  | HV_String _, TK_String => true
  | HV_Id _, TK_Id => true
  | HV_Enum n _, TK_Enum i => n =s? i
  | _, _ => false
  end.

(** [impl From<HashableValue> for Value]. *)
Definition hv_to_value (h : HashableValue) : Value :=
  match h with
  | HV_Int v => V_Int v | HV_Bool v => V_Bool v | HV_String v => V_String v
  | HV_Id v => V_Id v | HV_Enum i v => V_Enum i v
  end.

(** [impl From<ConstValue> for Value] (and [From<ConstStruct> for Struct]). *)
Fixpoint const_to_value (c : ConstValue) : Value :=
  match c with
  | CV_Unit => V_Unit
  | CV_Int n => V_Int n
  | CV_Bool b => V_Bool b
  | CV_String t => V_String t
  | CV_Struct (mkConstStruct n fs) =>
    V_Struct (mkStruct n (amap_of_list
      ((fix go (l : list (ident * ConstValue)) : list (ident * Value) :=
          match l with
          | [] => []
          | (k, v) :: r => (k, const_to_value v) :: go r
          end) fs)))
  | CV_Enum i v => V_Enum i v
  | CV_Option None => V_Option None
  | CV_Option (Some v) => V_Option (Some (const_to_value v))
  | CV_Result (ROk v) => V_Result (ROk (const_to_value v))
  | CV_Result (RErr v) => V_Result (RErr (const_to_value v))
  end.

(** [ValueConversionError::invalid_type] through [From<ValueConversionError> for MachineErrorType]. *)
Definition conv_err (want : string) (v : Value) (msg : string) : MachineErrorType :=
  ME_InvalidType want (type_name v) msg.

Definition as_int (v : Value) : res Z MachineErrorType :=
  match v with V_Int i => ROk i | _ => RErr (conv_err "Int" v "Value -> i64") end.
Definition as_bool (v : Value) : res bool MachineErrorType :=
  match v with V_Bool b => ROk b | _ => RErr (conv_err "Bool" v "Value -> bool") end.
Definition as_identifier (v : Value) : res ident MachineErrorType :=
  match v with V_Identifier i => ROk i | _ => RErr (conv_err "Identifier" v "Value -> Identifier") end.
Definition as_bytes (v : Value) : res (list N) MachineErrorType :=
  match v with V_Bytes b => ROk b | _ => RErr (conv_err "Bytes" v "Value -> Vec<u8>") end.
Definition as_struct (v : Value) : res Struct MachineErrorType :=
  match v with V_Struct s => ROk s | _ => RErr (conv_err "Struct" v "Value -> Struct") end.
Definition as_fact (v : Value) : res Fact MachineErrorType :=
  match v with V_Fact f => ROk f | _ => RErr (conv_err "Fact" v "Value -> Fact") end.
Definition as_hashable (v : Value) : res HashableValue MachineErrorType :=
  match v with
  | V_Int x => ROk (HV_Int x) | V_Bool x => ROk (HV_Bool x) | V_String x => ROk (HV_String x)
  | V_Id x => ROk (HV_Id x) | V_Enum i x => ROk (HV_Enum i x)
  | _ => RErr (conv_err "Int | Bool | String | Id | Enum" v "Value -> HashableValue")
  end.

(** [Fact::set_key], [Fact::set_value]: replace the first entry with that name or push at the end. *)
Fixpoint set_key_list (n : ident) (v : HashableValue) (l : list FactKey) : list FactKey :=
  match l with
  | [] => [mkFactKey n v]
  | k :: r => if FactKey_identifier k =s? n then mkFactKey (FactKey_identifier k) v :: r
              else k :: set_key_list n v r
  end.
Fixpoint set_value_list (n : ident) (v : Value) (l : list FactValue) : list FactValue :=
  match l with
  | [] => [mkFactValue n v]
  | k :: r => if FactValue_identifier k =s? n then mkFactValue (FactValue_identifier k) v :: r
              else k :: set_value_list n v r
  end.

(** [Struct::new(name, fields)]: [collect] into a [BTreeMap]. *)
Definition struct_new (name : ident) (fields : list (ident * Value)) : Struct :=
  mkStruct name (amap_of_list fields).

Definition kv_of_key (k : FactKey) : ident * Value := (FactKey_identifier k, hv_to_value (FactKey_value k)).
Definition kv_of_value (v : FactValue) : ident * Value := (FactValue_identifier v, FactValue_value v).
(** The struct built from a query result: keys then values, later entries overwrite. *)
Definition fact_struct (name : ident) (ks : list FactKey) (vs : list FactValue) : Struct :=
  struct_new name (map kv_of_key ks ++ map kv_of_value vs)%list.

(** [sort_unstable_by(|a, b| a.identifier.cmp(&b.identifier))] (insertion sort; the Rust sort is
    unstable, so entries with equal identifiers have no specified relative order). *)
Fixpoint insert_fv (x : FactValue) (l : list FactValue) : list FactValue :=
  match l with
  | [] => [x]
  | y :: r => match String.compare (FactValue_identifier x) (FactValue_identifier y) with
              | Gt => y :: insert_fv x r
              | _ => x :: l
              end
  end.
Definition sort_fv (l : list FactValue) : list FactValue := fold_right insert_fv [] l.

(** * The machine *)

(** [CodeMap]: the source text (UTF-8 bytes) and the (first instruction, span) table. *)
Record CodeMap : Type := mkCodeMap { cm_text : list N; cm_mapping : list (N * (N * N)) }.

Record Machine : Type := mkMachine {
  progmem : list Instruction;
  labels : list (Label * N);
  action_defs : list ActionDef;
  command_defs : list CommandDef;
  fact_defs : list FactDef;
  struct_defs : list StructDef;
  enum_defs : list EnumDef;
  codemap : option CodeMap;
  globals : list (ident * ConstValue)
}.

(** [ModuleV0]. *)
Record ModuleV0 : Type := mkModuleV0 {
  mod_progmem : list Instruction;
  mod_labels : list (Label * N);
  mod_action_defs : list ActionDef;
  mod_command_defs : list CommandDef;
  mod_fact_defs : list FactDef;
  mod_struct_defs : list StructDef;
  mod_enum_defs : list EnumDef;
  mod_codemap : option CodeMap;
  mod_globals : list (ident * ConstValue)
}.

(** [AutoMap<T>]: a [BTreeMap] keyed by the item's name, kept as the ascending list of items. *)
Section AutoMap.
  Context {T : Type} (name : T -> ident).
  Definition automap_get (k : ident) (m : list T) : option T :=
    find (fun d => name d =s? k) m.
  Fixpoint automap_insert (x : T) (m : list T) : list T :=
    match m with
    | [] => [x]
    | y :: r => match String.compare (name x) (name y) with
                | Lt => x :: m
                | Eq => x :: r
                | Gt => y :: automap_insert x r
                end
    end.
  (** [into_iter().map(|a| (a.name.clone(), a)).collect()] *)
  Definition automap_of_list (l : list T) : list T := fold_left (fun m x => automap_insert x m) l [].
End AutoMap.

(** [Machine::from_module] (the only module version is V0, so the result is always [Ok]). *)
Definition from_module (m : ModuleV0) : Machine :=
  {| progmem := mod_progmem m;
     labels := mod_labels m;
     action_defs := automap_of_list ActionDef_name (mod_action_defs m);
     command_defs := automap_of_list CommandDef_name (mod_command_defs m);
     fact_defs := automap_of_list FactDef_name (mod_fact_defs m);
     struct_defs := automap_of_list StructDef_name (mod_struct_defs m);
     enum_defs := automap_of_list EnumDef_name (mod_enum_defs m);
     codemap := mod_codemap m;
     globals := mod_globals m |}.

Definition labeltype_eqb (a b : LabelType) : bool :=
  match a, b with
  | LT_Action, LT_Action | LT_CommandPolicy, LT_CommandPolicy | LT_CommandRecall, LT_CommandRecall
  | LT_CommandSeal, LT_CommandSeal | LT_CommandOpen, LT_CommandOpen | LT_Temporary, LT_Temporary
  | LT_Function, LT_Function => true
  | _, _ => false
  end.
Definition label_eqb (a b : Label) : bool :=
  (Label_name a =s? Label_name b) && labeltype_eqb (Label_ltype a) (Label_ltype b).
Definition labels_get (l : Label) (m : list (Label * N)) : option N :=
  match find (fun e => label_eqb (fst e) l) m with Some e => Some (snd e) | None => None end.

(** ** Errors with source positions ([error.rs], [codemap.rs]) *)

Record MachineError : Type := mkMachineError {
  err_type : MachineErrorType;
  (** (line, column) and the text of the span *)
  err_source : option ((N * N) * list N)
}.
Definition error_new (t : MachineErrorType) : MachineError := mkMachineError t None.

Definition is_cont_byte (b : N) : bool := (128 <=? b) && (b <? 192).
(** [str::is_char_boundary]. *)
Definition is_char_boundary (t : list N) (i : N) : bool :=
  if i =? 0 then true
  else match N.compare i (len t) with
       | Eq => true
       | Gt => false
       | Lt => match nth_error t (N.to_nat i) with
               | Some b => negb (is_cont_byte b)
               | None => false
               end
       end.
(** [text.get(start..end).is_some()]. *)
Definition str_range_ok (t : list N) (s e : N) : bool :=
  (s <=? e) && is_char_boundary t s && is_char_boundary t e.

(** [<[T]>::binary_search_by] of core (rustc 1.9x), specialised to [|(i, _)| i.cmp(&ip)]. *)
Fixpoint bs_loop (fuel : nat) (keys : list N) (ip base size : N) : N :=
  match fuel with
  | O => base
  | S f =>
    if 1 <? size then
      let half := size / 2 in
      let mid := base + half in
      let base' := match nth_error keys (N.to_nat mid) with
                   | Some k => if ip <? k (* cmp == Greater *) then base else mid
                   | None => base
                   end in
      bs_loop f keys ip base' (size - half)
    else base
  end.
Definition binary_search (keys : list N) (ip : N) : res N N :=
  if len keys =? 0 then RErr 0
  else
    let base := bs_loop (List.length keys) keys ip 0 (len keys) in
    match nth_error keys (N.to_nat base) with
    | Some k => match N.compare k ip with
                | Eq => ROk base
                | Lt => RErr (base + 1)
                | Gt => RErr base
                end
    | None => RErr base
    end.

(** [CodeMap::span_from_instruction]: [None] is [Err(RangeError)]. *)
Definition span_from_instruction (cm : CodeMap) (ip : N) : P psite (option (N * N)) :=
  let idx := match binary_search (map fst (cm_mapping cm)) ip with
             | ROk i => Some i
             | RErr i => if i =? 0 then None else Some (i - 1)   (* checked_sub(1).ok_or(RangeError)? *)
             end in
  match idx with
  | None => Val None
  | Some i =>
    match nth_error (cm_mapping cm) (N.to_nat i) with
    | None => PanicAt PS_codemap_mapping_index
    | Some (_, (s, e)) => Val (if str_range_ok (cm_text cm) s e then Some (s, e) else None)
    end
  end.

(** [SpannedText::linecol]: one step per [char] of [text[0..pos]]. *)
Fixpoint linecol_loop (bytes : list N) (line col : N) : P psite (N * N) :=
  match bytes with
  | [] => Val (line, col)
  | b :: r =>
    if is_cont_byte b then linecol_loop r line col
    else if b =? 10 then
      match usize_checked_add line 1 with
      | Some l => linecol_loop r l 1
      | None => PanicAt PS_linecol_line_expect
      end
    else
      match usize_checked_add col 1 with
      | Some c => linecol_loop r line c
      | None => PanicAt PS_linecol_col_expect
      end
  end.
Definition linecol (text : list N) (pos : N) : P psite (N * N) :=
  if negb (pos <=? len text) then PanicAt PS_linecol_assert
  else if negb (is_char_boundary text pos) then PanicAt PS_linecol_slice
  else linecol_loop (firstn (N.to_nat pos) text) 1 1.
(** [SpannedText::as_str]. *)
Definition span_as_str (text : list N) (s e : N) : P psite (list N) :=
  if str_range_ok text s e then Val (firstn (N.to_nat (e - s)) (skipn (N.to_nat s) text))
  else PanicAt PS_as_str_slice.

(** [MachineError::with_position]. *)
Definition with_position (e : MachineError) (pc : N) (cm : option CodeMap) : P psite MachineError :=
  match err_source e, cm with
  | None, Some cm =>
    match span_from_instruction cm pc with
    | PanicAt s => PanicAt s
    | Val None => Val e
    | Val (Some (s, en)) =>
      match linecol (cm_text cm) s with
      | PanicAt p => PanicAt p
      | Val lc =>
        match span_as_str (cm_text cm) s en with
        | PanicAt p => PanicAt p
        | Val txt => Val (mkMachineError (err_type e) (Some (lc, txt)))
        end
      end
    end
  | _, _ => Val e
  end.

(** ** Run state and the I/O oracle *)

(** What an FFI procedure can do to the stack through [&mut impl Stack]. *)
Inductive stack_op : Type :=
  | SO_Push (v : Value)       (* push_value; fails (ignored by the VM) when the stack is full *)
  | SO_Pop                    (* pop_value *)
  | SO_Replace (v : Value).   (* overwrite through peek_value's &mut *)

Definition query_item : Type := res (list FactKey * list FactValue) MachineIOError.

Record MachineIO (S : Type) : Type := mkMachineIO {
  io_fact_insert : S -> ident -> list FactKey -> list FactValue -> S * res unit MachineIOError;
  io_fact_delete : S -> ident -> list FactKey -> S * res unit MachineIOError;
  (** the iterator returned by [fact_query]: a finite sequence fixed at query time *)
  io_fact_query : S -> ident -> list FactKey -> S * res (list query_item) MachineIOError;
  io_effect : S -> ident -> list (ident * Value) -> N -> bool -> S;
  io_call : S -> N -> N -> list Value -> CommandContext -> S * list stack_op * res unit MachineError;
  (** [Machine::serialize_struct] / [deserialize_struct] ([serialize.rs], property C26) *)
  io_serialize : S -> Struct -> S * res (list N) SerializeError;
  io_deserialize : S -> ident -> list N -> S * res Struct DeserializeError
}.
Arguments io_fact_insert {S}. Arguments io_fact_delete {S}. Arguments io_fact_query {S}.
Arguments io_effect {S}. Arguments io_call {S}. Arguments io_serialize {S}. Arguments io_deserialize {S}.

Definition scope_t : Type := list (list (amap Value)).

Record RunState (S : Type) : Type := mkRunState {
  rs_scope : scope_t;                    (* ScopeManager.locals: functions, each a list of blocks *)
  rs_stack : list Value;                 (* MachineStack, at most STACK_SIZE *)
  rs_call_state : list N;
  rs_pc : N;
  rs_ctx : CommandContext;
  rs_query_iters : list (Fact * list query_item);   (* query_iter_stack: (fact literal, cursor) *)
  rs_io : S
}.
Arguments mkRunState {S}.
Arguments rs_scope {S}. Arguments rs_stack {S}. Arguments rs_call_state {S}. Arguments rs_pc {S}.
Arguments rs_ctx {S}. Arguments rs_query_iters {S}. Arguments rs_io {S}.

Inductive StepResult (S : Type) : Type :=
  | Executing (rs : RunState S)
  | Exited (r : ExitReason) (rs : RunState S)
  | Errored (e : MachineError) (rs : RunState S)
  | Panic (site : psite).
Arguments Executing {S}. Arguments Exited {S}. Arguments Errored {S}. Arguments Panic {S}.

Inductive RunResult (S : Type) : Type :=
  | RunExited (r : ExitReason) (rs : RunState S)
  | RunErrored (e : MachineError) (rs : RunState S)
  | RunPanic (site : psite)
  | RunOutOfFuel (rs : RunState S).
Arguments RunExited {S}. Arguments RunErrored {S}. Arguments RunPanic {S}. Arguments RunOutOfFuel {S}.

Section VM.
  Context {St : Type}.
  (** [cfg!(debug_assertions)] of the build *)
  Variable dbg : bool.
  Variable io : MachineIO St.
  Variable m : Machine.

  Notation RS := (RunState St).

  Definition set_scope (rs : RS) (x : scope_t) : RS :=
    mkRunState x (rs_stack rs) (rs_call_state rs) (rs_pc rs) (rs_ctx rs) (rs_query_iters rs) (rs_io rs).
  Definition set_stack (rs : RS) (x : list Value) : RS :=
    mkRunState (rs_scope rs) x (rs_call_state rs) (rs_pc rs) (rs_ctx rs) (rs_query_iters rs) (rs_io rs).
  Definition set_call_state (rs : RS) (x : list N) : RS :=
    mkRunState (rs_scope rs) (rs_stack rs) x (rs_pc rs) (rs_ctx rs) (rs_query_iters rs) (rs_io rs).
  Definition set_pc (rs : RS) (x : N) : RS :=
    mkRunState (rs_scope rs) (rs_stack rs) (rs_call_state rs) x (rs_ctx rs) (rs_query_iters rs) (rs_io rs).
  Definition set_ctx (rs : RS) (x : CommandContext) : RS :=
    mkRunState (rs_scope rs) (rs_stack rs) (rs_call_state rs) (rs_pc rs) x (rs_query_iters rs) (rs_io rs).
  Definition set_query_iters (rs : RS) (x : list (Fact * list query_item)) : RS :=
    mkRunState (rs_scope rs) (rs_stack rs) (rs_call_state rs) (rs_pc rs) (rs_ctx rs) x (rs_io rs).
  Definition set_io (rs : RS) (x : St) : RS :=
    mkRunState (rs_scope rs) (rs_stack rs) (rs_call_state rs) (rs_pc rs) (rs_ctx rs) (rs_query_iters rs) x.

  (** The step monad: continue with a value and a state, or stop with the step's result. *)
  Inductive outcome (A : Type) : Type :=
    | Go (a : A) (rs : RS)
    | Stop (r : StepResult St).
  Arguments Go {A}. Arguments Stop {A}.
  Definition M (A : Type) : Type := RS -> outcome A.
  Definition ret {A} (a : A) : M A := fun rs => Go a rs.
  Definition bind {A B} (e : M A) (k : A -> M B) : M B :=
    fun rs => match e rs with Go a rs' => k a rs' | Stop r => Stop r end.
  Notation "x <- e ;; k" := (bind e (fun x => k)) (at level 61, e at next level, right associativity).
  Notation "e ;;; k" := (bind e (fun _ => k)) (at level 61, right associativity).

  Definition gets {A} (f : RS -> A) : M A := fun rs => Go (f rs) rs.
  Definition modify (f : RS -> RS) : M unit := fun rs => Go tt (f rs).

  (** [Err(self.err(t))]: an error carrying the source position of the current pc. *)
  Definition fail_pos {A} (t : MachineErrorType) : M A :=
    fun rs => Stop (match with_position (error_new t) (rs_pc rs) (codemap m) with
                    | Val e => Errored e rs
                    | PanicAt s => Panic s
                    end).
  (** [Err(t.into())] / [?] on a [MachineErrorType], [MachineIOError] or [Bug]: no position yet. *)
  Definition fail_nopos {A} (t : MachineErrorType) : M A := fun rs => Stop (Errored (error_new t) rs).
  Definition fail_with {A} (e : MachineError) : M A := fun rs => Stop (Errored e rs).
  Definition panic {A} (s : psite) : M A := fun _ => Stop (Panic s).
  (** [.assume(msg)?] failing / [bug!(msg)] *)
  Definition bug {A} (s : psite) (msg : string) : M A :=
    if dbg then panic s else fail_nopos (ME_Bug msg).
  Definition stop_executing {A} : M A := fun rs => Stop (Executing rs).
  Definition stop_exited {A} (r : ExitReason) : M A := fun rs => Stop (Exited r rs).

  Definition lift_pos {A} (r : res A MachineErrorType) : M A :=
    match r with ROk a => ret a | RErr t => fail_pos t end.
  Definition lift_nopos {A} (r : res A MachineErrorType) : M A :=
    match r with ROk a => ret a | RErr t => fail_nopos t end.

  (** *** [stack.rs] / [MachineStack] *)
  Definition push_value (v : Value) (st : list Value) : res (list Value) MachineErrorType :=
    if len st <? STACK_SIZE then ROk (v :: st) else RErr ME_StackOverflow.
  Definition pop_value (st : list Value) : res (Value * list Value) MachineErrorType :=
    match st with v :: r => ROk (v, r) | [] => RErr ME_StackUnderflow end.

  Definition push_with (failer : MachineErrorType -> M unit) (v : Value) : M unit :=
    st <- gets rs_stack ;;
    match push_value v st with
    | ROk st' => modify (fun rs => set_stack rs st')
    | RErr t => failer t
    end.
  Definition pop_with (failer : MachineErrorType -> M Value) : M Value :=
    st <- gets rs_stack ;;
    match pop_value st with
    | ROk (v, st') => modify (fun rs => set_stack rs st') ;;; ret v
    | RErr t => failer t
    end.
  (** [ipush], [ipop_value], [ipop::<T>], [ipeek_value]: errors through [self.err]. *)
  Definition ipush (v : Value) : M unit := push_with fail_pos v.
  Definition ipop_value : M Value := pop_with fail_pos.
  Definition ipop {A} (conv : Value -> res A MachineErrorType) : M A :=
    v <- ipop_value ;; lift_pos (conv v).
  Definition ipeek_value : M Value :=
    st <- gets rs_stack ;;
    match st with v :: _ => ret v | [] => fail_pos ME_StackUnderflow end.
  (** [self.stack.push_value(v)?] / [self.stack.pop_value()?]: errors without position. *)
  Definition push_nopos (v : Value) : M unit := push_with fail_nopos v.
  Definition pop_nopos : M Value := pop_with fail_nopos.
  (** replace the value on top of the stack (mutation through [ipeek]'s [&mut]) *)
  Definition replace_top (v : Value) : M unit :=
    modify (fun rs => match rs_stack rs with _ :: r => set_stack rs (v :: r) | [] => rs end).

  (** *** [scope.rs] *)
  Definition scope_enter_function (sc : scope_t) : scope_t := [ [] ] :: sc.
  Definition scope_exit_function (sc : scope_t) : res scope_t MachineErrorType :=
    match sc with
    | _ :: r => ROk r
    | [] => RErr (ME_BadState "exit_function: empty function-scope stack")
    end.
  Definition scope_enter_block (sc : scope_t) : res scope_t MachineErrorType :=
    match sc with
    | f :: r => ROk (([] :: f) :: r)
    | [] => RErr (ME_BadState "enter_block: empty function-scope stack")
    end.
  Definition scope_exit_block (sc : scope_t) : res scope_t MachineErrorType :=
    match sc with
    | [] => RErr (ME_BadState "exit_block: empty function-scope stack")
    | [] :: _ => RErr (ME_BadState "exit_block: no block")
    | (_ :: f) :: r => ROk (f :: r)
    end.
  Fixpoint blocks_get (k : ident) (f : list (amap Value)) : option Value :=
    match f with
    | [] => None
    | b :: r => match amap_get k b with Some v => Some v | None => blocks_get k r end
    end.
  Definition scope_get (k : ident) (sc : scope_t) : res Value MachineErrorType :=
    match (match sc with f :: _ => blocks_get k f | [] => None end) with
    | Some v => ROk v
    | None => match amap_get k (globals m) with
              | Some c => ROk (const_to_value c)
              | None => RErr (ME_NotDefined k)
              end
    end.
  Definition scope_set (k : ident) (v : Value) (sc : scope_t) : res scope_t MachineErrorType :=
    if amap_contains k (globals m) then RErr (ME_AlreadyDefined k)
    else match sc with
         | [] => RErr (ME_BadState "set: no local block")
         | f :: r =>
           if existsb (amap_contains k) f then RErr (ME_AlreadyDefined k)
           else match f with
                | [] => RErr (ME_BadState "set: no locals")
                | b :: bs => ROk ((amap_insert k v b :: bs) :: r)
                end
         end.
  (** [ScopeManager::clear] *)
  Definition scope_clear : scope_t := [ [ [] ] ].

  Definition scope_op_pos (f : scope_t -> res scope_t MachineErrorType) : M unit :=
    sc <- gets rs_scope ;;
    match f sc with ROk sc' => modify (fun rs => set_scope rs sc') | RErr t => fail_pos t end.
  Definition scope_op_nopos (f : scope_t -> res scope_t MachineErrorType) : M unit :=
    sc <- gets rs_scope ;;
    match f sc with ROk sc' => modify (fun rs => set_scope rs sc') | RErr t => fail_nopos t end.

  (** *** definitions *)
  Definition struct_def (n : ident) : option StructDef := automap_get StructDef_name n (struct_defs m).
  Definition fact_def (n : ident) : option FactDef := automap_get FactDef_name n (fact_defs m).
  Definition field_named (n : ident) (fs : list Field) : option Field :=
    find (fun f => Field_name f =s? n) fs.

  (** [validate_fact_schema] *)
  Definition validate_fact_schema (f : Fact) (d : FactDef) : bool :=
    (Fact_name f =s? FactDef_name d)
    && forallb (fun k => match field_named (FactKey_identifier k) (FactDef_key d) with
                         | Some fd => hv_fits_type (FactKey_value k) (Field_ty fd)
                         | None => false
                         end) (Fact_keys f)
    && forallb (fun v => match field_named (FactValue_identifier v) (FactDef_value d) with
                         | Some fd => fits_type (FactValue_value v) (Field_ty fd)
                         | None => false
                         end) (Fact_values f).
  (** [validate_fact_literal] (error built with [from_position]) *)
  Definition validate_fact_literal (f : Fact) : M unit :=
    if match fact_def (Fact_name f) with Some d => validate_fact_schema f d | None => false end
    then ret tt else fail_pos (ME_InvalidSchema (Fact_name f)).

  (** [<[T]>::starts_with] *)
  Fixpoint starts_with {A} (e : A -> A -> bool) (l p : list A) : bool :=
    match p, l with
    | [], _ => true
    | x :: p', y :: l' => e y x && starts_with e l' p'
    | _ :: _, [] => false
    end.
  (** [fact_match] *)
  Definition fact_match (q : Fact) (ks : list FactKey) (vs : list FactValue) : bool :=
    starts_with factkey_eqb ks (Fact_keys q)
    && forallb (fun qv => match find (fun v => FactValue_identifier v =s? FactValue_identifier qv) vs with
                          | Some v => value_eqb (FactValue_value v) (FactValue_value qv)
                          | None => false
                          end) (Fact_values q).

  (** [validate_struct_schema] *)
  Definition validate_struct_schema (s : Struct) : M unit :=
    match struct_def (Struct_name s) with
    | None => fail_pos (ME_InvalidSchema (Struct_name s))
    | Some d =>
      if forallb (fun f => existsb (fun v => Field_name v =s? fst f) (StructDef_items d)) (Struct_fields s)
         && forallb (fun f => match amap_get (Field_name f) (Struct_fields s) with
                              | Some v => fits_type v (Field_ty f)
                              | None => false
                              end) (StructDef_items d)
      then ret tt else fail_pos (ME_InvalidSchema (Struct_name s))
    end.

  (** *** I/O *)
  Definition io_lift {A} (r : res A MachineIOError) : M A :=
    match r with ROk a => ret a | RErr e => fail_nopos (ME_IO e) end.
  Definition do_fact_insert (n : ident) (k : list FactKey) (v : list FactValue) : M unit :=
    s <- gets rs_io ;;
    let '(s', r) := io_fact_insert io s n k v in
    modify (fun rs => set_io rs s') ;;; io_lift r.
  Definition do_fact_delete (n : ident) (k : list FactKey) : M unit :=
    s <- gets rs_io ;;
    let '(s', r) := io_fact_delete io s n k in
    modify (fun rs => set_io rs s') ;;; io_lift r.
  Definition do_fact_query (n : ident) (k : list FactKey) : M (list query_item) :=
    s <- gets rs_io ;;
    let '(s', r) := io_fact_query io s n k in
    modify (fun rs => set_io rs s') ;;; io_lift r.

  Definition apply_stack_op (st : list Value) (o : stack_op) : list Value :=
    match o with
    | SO_Push v => match push_value v st with ROk st' => st' | RErr _ => st end
    | SO_Pop => match st with _ :: r => r | [] => [] end
    | SO_Replace v => match st with _ :: r => v :: r | [] => [] end
    end.

  (** [Query]'s [iter.find_map(..)]: the first matching fact or the first error. *)
  Fixpoint query_find (q : Fact) (it : list query_item) : option query_item :=
    match it with
    | [] => None
    | ROk (ks, vs) :: r => if fact_match q ks vs then Some (ROk (ks, vs)) else query_find q r
    | RErr e :: _ => Some (RErr e)
    end.

  (** [QueryNext]'s [iter.find(|r| match r { Ok(f) => fact_match(fact, ..), Err(_) => true })]:
      the first matching fact or error, and the rest of the cursor. *)
  Fixpoint iter_find (q : Fact) (it : list query_item) : option (query_item * list query_item) :=
    match it with
    | [] => None
    | x :: r =>
      if match x with ROk (ks, vs) => fact_match q ks vs | RErr _ => true end
      then Some (x, r) else iter_find q r
    end.

  (** [FactCount]'s loop: [while count < limit { next ... }]; [None] = the counter's [assume] failed. *)
  Fixpoint fact_count_loop (q : Fact) (limit : Z) (it : list query_item) (count : Z)
    : option (res Z MachineIOError) :=
    if (count <? limit)%Z then
      match it with
      | [] => Some (ROk count)
      | ROk (ks, vs) :: r =>
        if fact_match q ks vs then
          match i64_checked (count + 1)%Z with
          | Some c => fact_count_loop q limit r c
          | None => None
          end
        else fact_count_loop q limit r count
      | RErr e :: _ => Some (RErr e)
      end
    else Some (ROk count).

  (** [RestoreSP]'s [while self.stack.len() > saved_sp { pop }] *)
  Fixpoint pop_while_gt (st : list Value) (sp : N) : list Value :=
    match st with
    | [] => []
    | _ :: r => if sp <? len st then pop_while_gt r sp else st
    end.

  (** [MStructSet]: pop [n] (value, name) pairs; the first popped pair comes first. *)
  Fixpoint pop_pairs (n : nat) : M (list (ident * Value)) :=
    match n with
    | O => ret []
    | S n' =>
      v <- ipop_value ;;
      k <- ipop as_identifier ;;
      r <- pop_pairs n' ;;
      ret ((k, v) :: r)
    end.
  (** [MStructGet]: pop [n] identifiers. *)
  Fixpoint pop_idents (n : nat) : M (list ident) :=
    match n with
    | O => ret []
    | S n' => k <- ipop as_identifier ;; r <- pop_idents n' ;; ret (k :: r)
    end.
  (** Both loops stop at the first failing pop, which happens at the latest after [len stack + 1]
      iterations: running [min n (len stack + 1)] iterations is the same computation. *)
  Definition bounded_count (n : N) (rs : RS) : nat :=
    N.to_nat (N.min n (len (rs_stack rs) + 1)).

  Fixpoint mstruct_set_fields (d : StructDef) (pairs : list (ident * Value)) (fields : amap Value)
    : M (amap Value) :=
    match pairs with
    | [] => ret fields
    | (k, v) :: r =>
      match field_named k (StructDef_items d) with
      | None => fail_pos (ME_InvalidStructMember k)
      | Some fd =>
        if fits_type v (Field_ty fd) then mstruct_set_fields d r (amap_insert k v fields)
        else fail_pos (ME_InvalidStructMember k)
      end
    end.
  Fixpoint mstruct_get_fields (names : list ident) (fields : amap Value) : M unit :=
    match names with
    | [] => ret tt
    | k :: r =>
      match amap_remove k fields with
      | None => fail_pos (ME_InvalidStructMember k)
      | Some (v, fields') =>
        ipush (V_Identifier k) ;;; ipush v ;;; mstruct_get_fields r fields'
      end
    end.

  (** [Cast]: the first field of the target definition that is missing or has the wrong type. *)
  Fixpoint cast_check (target : ident) (items : list Field) (fields : amap Value) : M unit :=
    match items with
    | [] => ret tt
    | f :: r =>
      match amap_get (Field_name f) fields with
      | None => fail_pos (ME_Unknown ("cannot cast to `struct " +s+ target +s+ "`: missing field `"
                                      +s+ Field_name f +s+ "`"))
      | Some v =>
        if fits_type v (Field_ty f) then cast_check target r fields
        else fail_pos (ME_Unknown ("cannot cast to `struct " +s+ target +s+ "`: field `" +s+ Field_name f
                                   +s+ "` has wrong type (expected `" +s+ tk_display (Field_ty f)
                                   +s+ "`, found `" +s+ type_name v +s+ "`)"))
      end
    end.

  Definition jump_to (t : Target) : M unit :=
    match t with
    | T_Unresolved l => fail_pos (ME_UnresolvedTarget l)
    | T_Resolved n => modify (fun rs => set_pc rs n) ;;; stop_executing
    end.

  (** [self.pc = self.pc.checked_add(1).assume("self.pc + 1 must not wrap")?] *)
  Definition advance_pc (site : psite) : M unit :=
    pc <- gets rs_pc ;;
    match usize_checked_add pc 1 with
    | Some pc' => modify (fun rs => set_pc rs pc')
    | None => bug site "self.pc + 1 must not wrap"
    end.

  (** The body of the [match instruction] of [RunState::step]. *)
  Definition exec (i : Instruction) : M unit :=
    match i with
    | I_SaveSP =>
      st <- gets rs_stack ;;
      modify (fun rs => set_call_state rs (len st :: rs_call_state rs))
    | I_RestoreSP =>
      cs <- gets rs_call_state ;;
      match cs with
      | [] => fail_pos (ME_BadState "no saved stack pointer")
      | saved_sp :: cs' =>
        modify (fun rs => set_call_state rs cs') ;;;
        match usize_checked_add saved_sp 1 with
        | None => bug PS_step_restore_sp_assume "stack size < isize::MAX"
        | Some sp1 =>
          st <- gets rs_stack ;;
          match N.compare (len st) sp1 with
          | Lt => fail_pos (ME_BadState "callable has consumed too many stack values")
          | Eq => ret tt
          | Gt =>
            v <- pop_nopos ;;
            modify (fun rs => set_stack rs (pop_while_gt (rs_stack rs) saved_sp)) ;;;
            push_nopos v
          end
        end
      end
    | I_Const v => ipush (const_to_value v)
    | I_Identifier v => ipush (V_Identifier v)
    | I_Def key =>
      value <- ipop_value ;;
      scope_op_nopos (scope_set key value)
    | I_Get key =>
      sc <- gets rs_scope ;;
      value <- lift_nopos (scope_get key sc) ;;
      ipush value
    | I_Dup => v <- ipeek_value ;; ipush v
    | I_Pop =>
      modify (fun rs => match pop_value (rs_stack rs) with ROk (_, st') => set_stack rs st' | RErr _ => rs end)
    | I_Block => scope_op_pos scope_enter_block
    | I_End => scope_op_pos scope_exit_block
    | I_Jump t => jump_to t
    | I_Branch t =>
      conditional <- ipop as_bool ;;
      if conditional then jump_to t else ret tt
    | I_Next | I_Last => fail_pos ME_InvalidInstruction
    | I_Call t =>
      match t with
      | T_Unresolved l => fail_pos (ME_UnresolvedTarget l)
      | T_Resolved n =>
        modify (fun rs => set_scope rs (scope_enter_function (rs_scope rs))) ;;;
        modify (fun rs => set_call_state rs (rs_pc rs :: rs_call_state rs)) ;;;
        modify (fun rs => set_pc rs n) ;;;
        stop_executing
      end
    | I_Recall t =>
      match t with
      | T_Unresolved l => fail_pos (ME_UnresolvedTarget l)
      | T_Resolved n =>
        ctx <- gets rs_ctx ;;
        match ctx with
        | CC_Policy c =>
          modify (fun rs => set_ctx rs (CC_Recall c)) ;;;
          modify (fun rs => set_scope rs (scope_enter_function (rs_scope rs))) ;;;
          modify (fun rs => set_call_state rs (rs_pc rs :: rs_call_state rs)) ;;;
          modify (fun rs => set_pc rs n) ;;;
          stop_executing
        | _ => fail_pos (ME_BadState "recall: wrong command context")
        end
      end
    | I_Return =>
      cs <- gets rs_call_state ;;
      match cs with
      | [] => stop_exited ER_Normal
      | ra :: cs' =>
        modify (fun rs => set_pc (set_call_state rs cs') ra) ;;;
        scope_op_pos scope_exit_function
      end
    | I_ExtCall module proc =>
      rs <- gets (fun rs => rs) ;;
      let '(s', ops, r) := io_call io (rs_io rs) module proc (rs_stack rs) (rs_ctx rs) in
      modify (fun rs => set_stack (set_io rs s') (fold_left apply_stack_op ops (rs_stack rs))) ;;;
      match r with ROk _ => ret tt | RErr e => fail_with e end
    | I_Exit reason => stop_exited reason
    | I_Add | I_Sub =>
      b <- ipop as_int ;;
      a <- ipop as_int ;;
      r <- match i with
           | I_Add => ret (i64_checked (a + b)%Z)
           | I_Sub => ret (i64_checked (a - b)%Z)
           | _ => panic PS_step_unreachable_addsub
           end ;;
      ipush (V_Option (option_map V_Int r))
    | I_SaturatingAdd | I_SaturatingSub =>
      b <- ipop as_int ;;
      a <- ipop as_int ;;
      r <- match i with
           | I_SaturatingAdd => ret (i64_saturate (a + b)%Z)
           | I_SaturatingSub => ret (i64_saturate (a - b)%Z)
           | _ => panic PS_step_unreachable_saturating
           end ;;
      ipush (V_Int r)
    | I_Not =>
      v <- ipeek_value ;;
      match v with
      | V_Bool b => replace_top (V_Bool (negb b))
      | _ => fail_pos (conv_err "bool" v "Value -> bool")
      end
    | I_Gt | I_Lt | I_Eq =>
      b <- ipop_value ;;
      a <- ipop_value ;;
      v <- match i with
           | I_Gt => match a, b with
                     | V_Int ia, V_Int ib => ret (Z.ltb ib ia)
                     | _, _ => fail_pos (ME_InvalidType "Int, Int" (type_name a +s+ ", " +s+ type_name b)
                                                        "Greater-than comparison")
                     end
           | I_Lt => match a, b with
                     | V_Int ia, V_Int ib => ret (Z.ltb ia ib)
                     | _, _ => fail_pos (ME_InvalidType "Int, Int" (type_name a +s+ ", " +s+ type_name b)
                                                        "Less-than comparison")
                     end
           | I_Eq => ret (value_eqb a b)
           | _ => panic PS_step_unreachable_cmp
           end ;;
      ipush (V_Bool v)
    | I_FactNew name => ipush (V_Fact (mkFact name [] []))
    | I_FactKeySet varname =>
      v <- ipop as_hashable ;;
      top <- ipeek_value ;;
      match top with
      | V_Fact f => replace_top (V_Fact (mkFact (Fact_name f) (set_key_list varname v (Fact_keys f)) (Fact_values f)))
      | _ => fail_pos (conv_err "Fact" top "Value -> Fact")
      end
    | I_FactValueSet varname =>
      value <- ipop_value ;;
      top <- ipeek_value ;;
      match top with
      | V_Fact f => replace_top (V_Fact (mkFact (Fact_name f) (Fact_keys f) (set_value_list varname value (Fact_values f))))
      | _ => fail_pos (conv_err "Fact" top "Value -> Fact")
      end
    | I_StructNew name => ipush (V_Struct (mkStruct name []))
    | I_StructSet field_name =>
      value <- ipop_value ;;
      s <- ipop as_struct ;;
      match struct_def (Struct_name s) with
      | None => fail_pos (ME_InvalidSchema (Struct_name s))
      | Some d =>
        if existsb (fun f => Field_name f =s? field_name) (StructDef_items d)
        then ipush (V_Struct (mkStruct (Struct_name s) (amap_insert field_name value (Struct_fields s))))
        else fail_pos (ME_InvalidStructMember field_name)
      end
    | I_StructGet varname =>
      s <- ipop as_struct ;;
      match amap_remove varname (Struct_fields s) with
      | None => fail_pos (ME_InvalidStructMember varname)
      | Some (v, _) => ipush v
      end
    | I_MStructSet n =>
      cnt <- gets (bounded_count n) ;;
      pairs <- pop_pairs cnt ;;
      target <- ipop as_struct ;;
      match struct_def (Struct_name target) with
      | None => fail_pos (ME_InvalidSchema (Struct_name target))
      | Some d =>
        fields <- mstruct_set_fields d pairs (Struct_fields target) ;;
        ipush (V_Struct (mkStruct (Struct_name target) fields))
      end
    | I_MStructGet n =>
      cnt <- gets (bounded_count n) ;;
      names <- pop_idents cnt ;;
      s <- ipop as_struct ;;
      mstruct_get_fields names (Struct_fields s)
    | I_Publish =>
      command_struct <- ipop as_struct ;;
      validate_struct_schema command_struct ;;;
      ipush (V_Struct command_struct) ;;;
      advance_pc PS_step_publish_pc_assume ;;;
      stop_exited ER_Yield
    | I_Create =>
      f <- ipop as_fact ;;
      do_fact_insert (Fact_name f) (Fact_keys f) (Fact_values f)
    | I_Delete =>
      f <- ipop as_fact ;;
      do_fact_delete (Fact_name f) (Fact_keys f)
    | I_Update =>
      fact_to <- ipop as_fact ;;
      fact_from <- ipop as_fact ;;
      it <- do_fact_query (Fact_name fact_from) (Fact_keys fact_from) ;;
      replaced <- match it with
                  | [] => fail_pos (ME_InvalidFact (Fact_name fact_from))
                  | ROk kv :: _ => ret kv
                  | RErr e :: _ => fail_nopos (ME_IO e)
                  end ;;
      (match Fact_values fact_from with
       | [] => ret tt
       | _ :: _ =>
         if list_eqb factvalue_eqb (sort_fv (snd replaced)) (sort_fv (Fact_values fact_from))
         then ret tt else fail_pos (ME_InvalidFact (Fact_name fact_from))
       end) ;;;
      do_fact_delete (Fact_name fact_from) (fst replaced) ;;;
      do_fact_insert (Fact_name fact_to) (Fact_keys fact_to) (Fact_values fact_to)
    | I_Emit =>
      s <- ipop as_struct ;;
      validate_struct_schema s ;;;
      ctx <- gets rs_ctx ;;
      match (match ctx with
             | CC_Policy c => Some (PolicyContext_id c, false)
             | CC_Recall c => Some (PolicyContext_id c, true)
             | _ => None
             end) with
      | None => fail_pos (ME_BadState "Emit: wrong command context")
      | Some (command, recall) =>
        modify (fun rs => set_io rs (io_effect io (rs_io rs) (Struct_name s) (Struct_fields s) command recall))
      end
    | I_Query =>
      qf <- ipop as_fact ;;
      validate_fact_literal qf ;;;
      it <- do_fact_query (Fact_name qf) (Fact_keys qf) ;;
      match query_find qf it with
      | Some (RErr e) => fail_nopos (ME_IO e)
      | Some (ROk (ks, vs)) => ipush (V_Option (Some (V_Struct (fact_struct (Fact_name qf) ks vs))))
      | None => ipush (V_Option None)
      end
    | I_FactCount limit =>
      fact <- ipop as_fact ;;
      validate_fact_literal fact ;;;
      it <- do_fact_query (Fact_name fact) (Fact_keys fact) ;;
      match fact_count_loop fact limit it 0%Z with
      | None => bug PS_step_factcount_assume "should be able to increment fact counter"
      | Some (RErr e) => fail_pos (ME_IO e)
      | Some (ROk count) => ipush (V_Int count)
      end
    | I_QueryStart =>
      fact <- ipop as_fact ;;
      validate_fact_literal fact ;;;
      it <- do_fact_query (Fact_name fact) (Fact_keys fact) ;;
      modify (fun rs => set_query_iters rs ((fact, it) :: rs_query_iters rs))
    | I_QueryNext ident =>
      qs <- gets rs_query_iters ;;
      match qs with
      | [] => fail_pos (ME_BadState "QueryNext: no results")
      | (fact, it) :: qs' =>
        match iter_find fact it with
        | Some (result, it') =>
          modify (fun rs => set_query_iters rs ((fact, it') :: qs')) ;;;
          match result with
          | RErr e => fail_nopos (ME_IO e)
          | ROk (k, v) =>
            scope_op_nopos (scope_set ident (V_Struct (fact_struct ident k v))) ;;;
            ipush (V_Bool false)
          end
        | None =>
          modify (fun rs => set_query_iters rs qs') ;;;
          ipush (V_Bool true)
        end
      end
    | I_Serialize =>
      ctx <- gets rs_ctx ;;
      match ctx with
      | CC_Seal sc =>
        command_struct <- ipop as_struct ;;
        if negb (Struct_name command_struct =s? SealContext_name sc)
        then fail_pos (ME_BadState "Serialize: context name doesn't match command name")
        else
          s <- gets rs_io ;;
          let '(s', r) := io_serialize io s command_struct in
          modify (fun rs => set_io rs s') ;;;
          match r with
          | RErr e => fail_pos (ME_Serialize e)
          | ROk bytes => ipush (V_Bytes bytes)
          end
      | _ => fail_pos (ME_BadState "Serialize: expected seal context")
      end
    | I_Deserialize =>
      ctx <- gets rs_ctx ;;
      match ctx with
      | CC_Open oc =>
        bytes <- ipop as_bytes ;;
        s <- gets rs_io ;;
        let '(s', r) := io_deserialize io s (OpenContext_name oc) bytes in
        modify (fun rs => set_io rs s') ;;;
        match r with
        | RErr e => fail_pos (ME_Deserialize e)
        | ROk st => ipush (V_Struct st)
        end
      | _ => fail_pos ME_InvalidInstruction
      end
    | I_Meta _ => ret tt
    | I_Wrap w =>
      value <- ipop_value ;;
      ipush (match w with
             | W_Ok => V_Result (ROk value)
             | W_Err => V_Result (RErr value)
             | W_Some => V_Option (Some value)
             end)
    | I_Is w =>
      value <- ipop_value ;;
      ipush (V_Bool (match w, value with
                     | W_Some, V_Option (Some _) => true
                     | W_Ok, V_Result (ROk _) => true
                     | W_Err, V_Result (RErr _) => true
                     | _, _ => false
                     end))
    | I_Unwrap w =>
      value <- ipop_value ;;
      match w, value with
      | W_Ok, V_Result (ROk inner) => ipush inner
      | W_Err, V_Result (RErr inner) => ipush inner
      | W_Some, V_Option (Some inner) => ipush inner
      | want, got =>
        fail_pos (ME_InvalidType (match want with W_Ok => "ok" | W_Err => "err" | W_Some => "some" end)
                                 (type_name got) "unwrap type mismatch")
      end
    | I_Cast identifier =>
      value <- ipop_value ;;
      match value with
      | V_Struct s =>
        match struct_def identifier with
        | None => fail_pos (ME_NotDefined ("struct `" +s+ identifier +s+ "`"))
        | Some d =>
          cast_check identifier (StructDef_items d) (Struct_fields s) ;;;
          ipush (V_Struct (mkStruct identifier (Struct_fields s)))
        end
      | _ => fail_pos (ME_InvalidType "Struct" (type_name value) "Cast LHS")
      end
    end.

  (** [RunState::step]. *)
  Definition step (rs : RS) : StepResult St :=
    if len (progmem m) <=? rs_pc rs then
      match fail_pos (A := unit) (ME_InvalidAddress "pc") rs with Stop r => r | Go _ rs' => Executing rs' end
    else
      match nth_error (progmem m) (N.to_nat (rs_pc rs)) with
      | None => Panic PS_step_progmem_index
      | Some instruction =>
        match (exec instruction ;;; advance_pc PS_step_pc_assume) rs with
        | Stop r => r
        | Go _ rs' => Executing rs'
        end
      end.

  (** [RunState::run]: errors get the position of the current pc if they have none. *)
  Fixpoint run (fuel : nat) (rs : RS) : RunResult St :=
    match fuel with
    | O => RunOutOfFuel rs
    | S f =>
      match step rs with
      | Executing rs' => run f rs'
      | Exited r rs' => RunExited r rs'
      | Errored e rs' =>
        match with_position e (rs_pc rs') (codemap m) with
        | Val e' => RunErrored e' rs'
        | PanicAt s => RunPanic s
        end
      | Panic s => RunPanic s
      end
    end.

  (** ** Entry points *)

  (** [RunState::new] *)
  Definition new_run_state (s : St) (ctx : CommandContext) : RS :=
    mkRunState scope_clear [] [] 0 ctx [] s.

  Inductive setup_result : Type :=
    | SetupOk (rs : RS)
    | SetupErr (e : MachineError) (rs : RS)
    | SetupPanic (s : psite).
  Definition run_setup (e : M unit) (rs : RS) : setup_result :=
    match e rs with
    | Go _ rs' => SetupOk rs'
    | Stop (Errored er rs') => SetupErr er rs'
    | Stop (Panic s) => SetupPanic s
    | Stop (Executing rs') | Stop (Exited _ rs') => SetupOk rs'
    end.

  (** [set_pc_by_label] + [setup_function] *)
  Definition setup_function (l : Label) : M unit :=
    match labels_get l (labels m) with
    | None => fail_pos (ME_InvalidAddress (Label_name l))
    | Some addr =>
      modify (fun rs => set_scope (set_call_state (set_pc rs addr) []) scope_clear)
    end.

  (** [setup_action] *)
  Fixpoint check_args (args : list Value) (params : list Field) : M unit :=
    match args, params with
    | a :: ar, p :: pr =>
      if fits_type a (Field_ty p) then check_args ar pr
      else fail_nopos (ME_InvalidType (tk_display (Field_ty p)) (type_name a) "invalid function argument")
    | _, _ => ret tt
    end.
  Fixpoint push_all (args : list Value) : M unit :=
    match args with [] => ret tt | a :: r => ipush a ;;; push_all r end.
  Definition setup_action (name : ident) (args : list Value) : M unit :=
    match automap_get ActionDef_name name (action_defs m) with
    | None => fail_nopos (ME_NotDefined name)
    | Some d =>
      if negb (len args =? len (ActionDef_params d))
      then fail_nopos (ME_Unknown ("action `" +s+ name +s+ "` expects "
                                   +s+ N_to_string (len (ActionDef_params d))
                                   +s+ " argument(s), but was called with " +s+ N_to_string (len args)))
      else check_args args (ActionDef_params d) ;;;
           setup_function (mkLabel name LT_Action) ;;;
           push_all args
    end.

  (** [setup_command] *)
  Fixpoint check_fields (fs : list (ident * Value)) (defs : list Field) : M unit :=
    match fs with
    | [] => ret tt
    | (n, v) :: r =>
      match field_named n defs with
      | None => fail_pos (ME_InvalidStructMember n)
      | Some fd =>
        if fits_type v (Field_ty fd) then check_fields r defs
        else fail_pos (ME_InvalidType (tk_display (Field_ty fd)) (type_name v) "invalid function argument")
      end
    end.
  Definition setup_command (l : Label) (this_data : Struct) : M unit :=
    setup_function l ;;;
    match automap_get CommandDef_name (Struct_name this_data) (command_defs m) with
    | None => fail_pos (ME_NotDefined (Label_name l))
    | Some d =>
      if negb (len (Struct_fields this_data) =? len (CommandDef_fields d))
      then fail_pos (ME_Unknown ("command `" +s+ Label_name l +s+ "` expects "
                                 +s+ N_to_string (len (CommandDef_fields d))
                                 +s+ " field(s), but `this` contains "
                                 +s+ N_to_string (len (Struct_fields this_data))))
      else check_fields (Struct_fields this_data) (CommandDef_fields d) ;;;
           ipush (V_Struct this_data)
    end.

  (** after a successful setup, [self.run()] *)
  Definition then_run (fuel : nat) (e : M unit) (rs : RS) : RunResult St :=
    match run_setup e rs with
    | SetupOk rs' => run fuel rs'
    | SetupErr er rs' => RunErrored er rs'
    | SetupPanic s => RunPanic s
    end.

  Definition call_action (fuel : nat) (name : ident) (args : list Value) (rs : RS) : RunResult St :=
    match rs_ctx rs with
    | CC_Action c =>
      if ActionContext_name c =s? name then then_run fuel (setup_action name args) rs
      else RunErrored (error_new ME_ContextMismatch) rs
    | _ => RunErrored (error_new ME_ContextMismatch) rs
    end.
  Definition call_command_policy (fuel : nat) (this_data envelope : Struct) (rs : RS) : RunResult St :=
    match rs_ctx rs with
    | CC_Policy c =>
      if PolicyContext_name c =s? Struct_name this_data then
        then_run fuel (setup_command (mkLabel (Struct_name this_data) LT_CommandPolicy) this_data ;;;
                       ipush (V_Struct envelope)) rs
      else RunErrored (error_new ME_ContextMismatch) rs
    | _ => RunErrored (error_new ME_ContextMismatch) rs
    end.
  Definition call_seal (fuel : nat) (this_data : Struct) (payload : list N) (rs : RS) : RunResult St :=
    match rs_ctx rs with
    | CC_Seal c =>
      if SealContext_name c =s? Struct_name this_data then
        then_run fuel (setup_function (mkLabel (Struct_name this_data) LT_CommandSeal) ;;;
                       ipush (V_Struct this_data) ;;; ipush (V_Bytes payload)) rs
      else RunErrored (error_new ME_ContextMismatch) rs
    | _ => RunErrored (error_new ME_ContextMismatch) rs
    end.
  Definition call_open (fuel : nat) (this_data : Struct) (payload : list N) (envelope : Struct) (rs : RS)
    : RunResult St :=
    match rs_ctx rs with
    | CC_Open c =>
      if OpenContext_name c =s? Struct_name this_data then
        then_run fuel (setup_function (mkLabel (Struct_name this_data) LT_CommandOpen) ;;;
                       ipush (V_Struct this_data) ;;; ipush (V_Bytes payload) ;;;
                       ipush (V_Struct envelope)) rs
      else RunErrored (error_new ME_ContextMismatch) rs
    | _ => RunErrored (error_new ME_ContextMismatch) rs
    end.

  (** [update_context_with_new_head] ([CommandContext::with_new_head] is a [bug!] outside actions). *)
  Definition update_context_with_new_head (new_head : N) : M unit :=
    ctx <- gets rs_ctx ;;
    match ctx with
    | CC_Action c => modify (fun rs => set_ctx rs (CC_Action (mkActionContext (ActionContext_name c) new_head)))
    | _ => bug PS_ctx_with_new_head_bug "Unable to call CommandContext::with_new_head in a non-action context"
    end.
End VM.

Arguments Go {St A}. Arguments Stop {St A}.
