(** Model side of the C25 correspondence run: a scripted, logging instance of the I/O oracle (the
    same script the Rust harness's [ScriptIo] consumes), the observation of a run state the harness
    can make through the public API, and boolean comparison of observations.  Executable
    definitions only; used by generated cases files. *)
From Aranya Require Import base.Harness model.VmBase gen.GenVm model.Vm.
Local Open Scope N_scope.

(** bytes -> string (for texts that are not printable ASCII) *)
Fixpoint bs (l : list N) : string :=
  match l with
  | [] => EmptyString
  | b :: r => String (Ascii.ascii_of_N b) (bs r)
  end.

(** * Scripted I/O *)
Record answer : Type := mkAnswer {
  a_res : option MachineIOError;     (* insert / delete / query: error or ok *)
  a_rows : list query_item;          (* query: the iterator *)
  a_ops : list stack_op;             (* FFI call: what it does to the stack *)
  a_fail : option MachineErrorType   (* FFI call: error or ok *)
}.
Definition default_answer : answer := mkAnswer None [] [] None.

Inductive io_event : Type :=
  | EvInsert (n : ident) (k : list FactKey) (v : list FactValue)
  | EvDelete (n : ident) (k : list FactKey)
  | EvQuery (n : ident) (k : list FactKey)
  | EvEffect (n : ident) (f : list (ident * Value)) (cmd : N) (recall : bool)
  | EvCall (module proc : N) (ctx_kind : N).

Record sio : Type := mkSio {
  s_script : list answer;
  s_codec : list (option Value);     (* results of serialize_struct / deserialize_struct, observed *)
  s_log : list io_event              (* most recent first *)
}.
Definition next_answer (s : sio) : answer * list answer :=
  match s_script s with a :: r => (a, r) | [] => (default_answer, []) end.
Definition ctx_kind (c : CommandContext) : N :=
  match c with CC_Action _ => 0 | CC_Seal _ => 1 | CC_Open _ => 2 | CC_Policy _ => 3 | CC_Recall _ => 4 end.

Definition scripted_io : MachineIO sio :=
  mkMachineIO sio
    (fun s n k v =>
       let '(a, r) := next_answer s in
       (mkSio r (s_codec s) (EvInsert n k v :: s_log s),
        match a_res a with None => ROk tt | Some e => RErr e end))
    (fun s n k =>
       let '(a, r) := next_answer s in
       (mkSio r (s_codec s) (EvDelete n k :: s_log s),
        match a_res a with None => ROk tt | Some e => RErr e end))
    (fun s n k =>
       let '(a, r) := next_answer s in
       (mkSio r (s_codec s) (EvQuery n k :: s_log s),
        match a_res a with None => ROk (a_rows a) | Some e => RErr e end))
    (fun s n f cmd recall => mkSio (s_script s) (s_codec s) (EvEffect n f cmd recall :: s_log s))
    (fun s md pr _ ctx =>
       let '(a, r) := next_answer s in
       (mkSio r (s_codec s) (EvCall md pr (ctx_kind ctx) :: s_log s), a_ops a,
        match a_fail a with None => ROk tt | Some t => RErr (error_new t) end))
    (fun s _ =>
       match s_codec s with
       | Some (V_Bytes b) :: r => (mkSio (s_script s) r (s_log s), ROk b)
       | _ :: r => (mkSio (s_script s) r (s_log s), RErr 0)
       | [] => (s, RErr 0)
       end)
    (fun s _ _ =>
       match s_codec s with
       | Some (V_Struct st) :: r => (mkSio (s_script s) r (s_log s), ROk st)
       | _ :: r => (mkSio (s_script s) r (s_log s), RErr 0)
       | [] => (s, RErr 0)
       end).

(** * Equality on observations *)
Definition exit_eqb (a b : ExitReason) : bool :=
  match a, b with
  | ER_Normal, ER_Normal | ER_Yield, ER_Yield | ER_Check, ER_Check | ER_Panic, ER_Panic => true
  | _, _ => false
  end.
Definition ioerr_eqb (a b : MachineIOError) : bool :=
  match a, b with
  | IOE_FactExists, IOE_FactExists | IOE_FactNotFound, IOE_FactNotFound | IOE_Internal, IOE_Internal
  | IOE_Bug _, IOE_Bug _ => true
  | _, _ => false
  end.
(** error types: constructor and payload; the payloads of [Serialize]/[Deserialize] (opaque here)
    are not compared *)
Definition errtype_eqb (a b : MachineErrorType) : bool :=
  match a, b with
  | ME_StackUnderflow, ME_StackUnderflow | ME_StackOverflow, ME_StackOverflow
  | ME_IntegerOverflow, ME_IntegerOverflow | ME_InvalidInstruction, ME_InvalidInstruction
  | ME_CallStack, ME_CallStack | ME_ContextMismatch, ME_ContextMismatch => true
  | ME_AlreadyDefined x, ME_AlreadyDefined y | ME_NotDefined x, ME_NotDefined y
  | ME_InvalidStructMember x, ME_InvalidStructMember y | ME_InvalidFact x, ME_InvalidFact y
  | ME_InvalidSchema x, ME_InvalidSchema y | ME_InvalidAddress x, ME_InvalidAddress y
  | ME_BadState x, ME_BadState y | ME_Unknown x, ME_Unknown y | ME_Bug x, ME_Bug y => x =s? y
  | ME_InvalidType w g ms, ME_InvalidType w' g' ms' => (w =s? w') && (g =s? g') && (ms =s? ms')
  | ME_UnresolvedTarget x, ME_UnresolvedTarget y => label_eqb x y
  | ME_IO x, ME_IO y => ioerr_eqb x y
  | ME_FfiModuleNotDefined x, ME_FfiModuleNotDefined y => N.eqb x y
  | ME_FfiProcedureNotDefined i x, ME_FfiProcedureNotDefined j y => (i =s? j) && N.eqb x y
  | ME_Serialize _, ME_Serialize _ | ME_Deserialize _, ME_Deserialize _ => true
  | _, _ => false
  end.
Definition merr_eqb (a b : MachineError) : bool :=
  errtype_eqb (err_type a) (err_type b)
  && option_eqb (pair_eqb (pair_eqb N.eqb N.eqb) lN_eqb) (err_source a) (err_source b).

Definition kv_eqb (a b : ident * Value) : bool := (fst a =s? fst b) && value_eqb (snd a) (snd b).
Definition event_eqb (a b : io_event) : bool :=
  match a, b with
  | EvInsert n k v, EvInsert n' k' v' => (n =s? n') && list_eqb factkey_eqb k k' && list_eqb factvalue_eqb v v'
  | EvDelete n k, EvDelete n' k' => (n =s? n') && list_eqb factkey_eqb k k'
  | EvQuery n k, EvQuery n' k' => (n =s? n') && list_eqb factkey_eqb k k'
  | EvEffect n f c r, EvEffect n' f' c' r' => (n =s? n') && list_eqb kv_eqb f f' && N.eqb c c' && Bool.eqb r r'
  | EvCall a b c, EvCall a' b' c' => N.eqb a a' && N.eqb b b' && N.eqb c c'
  | _, _ => false
  end.

(** * What the harness observes *)
Inductive status : Type :=
  | XExecuting | XExited (r : ExitReason) | XError (e : MachineError) | XPanic | XOutOfFuel.
Record observation : Type := mkObs {
  o_status : status;
  o_pc : N;
  o_stack : list Value;             (* bottom first, as [MachineStack::as_slice] *)
  o_locals : list (ident * Value);  (* [ScopeManager::locals] *)
  o_depth : N;                      (* length of call_state *)
  o_log : list io_event             (* oldest first *)
}.
Definition status_eqb (a b : status) : bool :=
  match a, b with
  | XExecuting, XExecuting | XPanic, XPanic | XOutOfFuel, XOutOfFuel => true
  | XExited r, XExited r' => exit_eqb r r'
  | XError e, XError e' => merr_eqb e e'
  | _, _ => false
  end.
Definition obs_eqb (a b : observation) : bool :=
  status_eqb (o_status a) (o_status b) && N.eqb (o_pc a) (o_pc b)
  && list_eqb value_eqb (o_stack a) (o_stack b) && list_eqb kv_eqb (o_locals a) (o_locals b)
  && N.eqb (o_depth a) (o_depth b) && list_eqb event_eqb (o_log a) (o_log b).

Definition observe (st : status) (rs : RunState sio) : observation :=
  mkObs st (rs_pc rs) (rev (rs_stack rs))
        (match rs_scope rs with f :: _ => List.concat f | [] => [] end)
        (len (rs_call_state rs)) (rev (s_log (rs_io rs))).
(** after a panic the harness still reads the run state; the model has none: only the status is compared *)
Definition obs_panic : observation := mkObs XPanic 0 [] [] 0 [].
Definition obs_match (model impl : observation) : bool :=
  match o_status model, o_status impl with
  | XPanic, XPanic => true
  | _, _ => obs_eqb model impl
  end.

Definition observe_step (r : StepResult sio) : observation :=
  match r with
  | Executing rs => observe XExecuting rs
  | Exited x rs => observe (XExited x) rs
  | Errored e rs => observe (XError e) rs
  | Panic _ => obs_panic
  end.
Definition observe_run (r : RunResult sio) : observation :=
  match r with
  | RunExited x rs => observe (XExited x) rs
  | RunErrored e rs => observe (XError e) rs
  | RunOutOfFuel rs => observe XOutOfFuel rs
  | RunPanic _ => obs_panic
  end.

(** [n] calls of [RunState::step], stopping at the first that does not return [Executing]. *)
Fixpoint steps (dbg : bool) (m : Machine) (n : nat) (rs : RunState sio) : StepResult sio :=
  match n with
  | O => Executing rs
  | S k => match step dbg scripted_io m rs with
           | Executing rs' => steps dbg m k rs'
           | r => r
           end
  end.

Inductive entry : Type :=
  | EStep (n : nat)
  | EAction (name : ident) (args : list Value)
  | EPolicy (this_data envelope : Struct)
  | ESeal (this_data : Struct) (payload : list N)
  | EOpen (this_data : Struct) (payload : list N) (envelope : Struct).

Record vcase : Type := mkCase {
  c_machine : Machine;
  c_ctx : CommandContext;
  c_stack : list Value;      (* bottom first *)
  c_pc : N;
  c_script : list answer;
  c_codec : list (option Value);
  c_entry : entry
}.
Definition run_case (dbg : bool) (fuel : nat) (c : vcase) : observation :=
  let rs0 := new_run_state (mkSio (c_script c) (c_codec c) []) (c_ctx c) in
  let rs1 := mkRunState (rs_scope rs0) (rev (c_stack c)) [] 0 (c_ctx c) [] (rs_io rs0) in
  match c_entry c with
  | EStep n => observe_step (steps dbg (c_machine c) n (mkRunState (rs_scope rs1) (rs_stack rs1) [] (c_pc c) (c_ctx c) [] (rs_io rs1)))
  | EAction name args => observe_run (call_action dbg scripted_io (c_machine c) fuel name args rs1)
  | EPolicy t e => observe_run (call_command_policy dbg scripted_io (c_machine c) fuel t e rs1)
  | ESeal t p => observe_run (call_seal dbg scripted_io (c_machine c) fuel t p rs1)
  | EOpen t p e => observe_run (call_open dbg scripted_io (c_machine c) fuel t p e rs1)
  end.
Definition chk_case (dbg : bool) (fuel : nat) (c : vcase * observation) : bool :=
  obs_match (run_case dbg fuel (fst c)) (snd c).
