(** Regular expressions over rule names, Brzozowski derivatives with
    similarity-normalising constructors, a matcher, and a checker for
    language-inclusion certificates.  Used to describe which sequences of child
    rules a pest pair can have (C27). *)
From Coq Require Import String List Bool.
Import ListNotations.

Inductive re : Type :=
| Emp                      (* no word *)
| Eps                      (* the empty word *)
| Sym (s : string)         (* one given rule name *)
| Any                      (* one arbitrary rule name *)
| Cat (a b : re)
| Or (a b : re)
| Star (a : re).

Definition Top : re := Star Any.
Definition OptR (a : re) : re := Or Eps a.

Fixpoint nullable (r : re) : bool :=
  match r with
  | Emp => false
  | Eps => true
  | Sym _ => false
  | Any => false
  | Cat a b => nullable a && nullable b
  | Or a b => nullable a || nullable b
  | Star _ => true
  end.

Fixpoint re_eqb (a b : re) : bool :=
  match a, b with
  | Emp, Emp => true
  | Eps, Eps => true
  | Sym s, Sym t => String.eqb s t
  | Any, Any => true
  | Cat a1 a2, Cat b1 b2 => re_eqb a1 b1 && re_eqb a2 b2
  | Or a1 a2, Or b1 b2 => re_eqb a1 b1 && re_eqb a2 b2
  | Star a1, Star b1 => re_eqb a1 b1
  | _, _ => false
  end.

Definition is_emp (r : re) : bool := match r with Emp => true | _ => false end.
Definition is_eps (r : re) : bool := match r with Eps => true | _ => false end.

(** Normalising constructors (each preserves the language). *)
Definition cat' (a b : re) : re :=
  if is_emp a || is_emp b then Emp
  else if is_eps a then b
  else if is_eps b then a
  else Cat a b.

(** [x] occurs as a summand of the right-nested sum [r]. *)
Fixpoint or_mem (x r : re) : bool :=
  match r with
  | Or a b => re_eqb x a || or_mem x b
  | _ => re_eqb x r
  end.

(** Add the summands of [x] in front of the sum [r], without duplicates and without [Emp]. *)
Fixpoint or_add (x r : re) : re :=
  match x with
  | Or a b => or_add a (or_add b r)
  | Emp => r
  | _ => if or_mem x r then r else if is_emp r then x else Or x r
  end.

Definition or' (a b : re) : re := or_add a (or_add b Emp).

Definition star' (a : re) : re :=
  match a with
  | Emp | Eps => Eps
  | Star _ => a
  | _ => Star a
  end.

Fixpoint deriv (s : string) (r : re) : re :=
  match r with
  | Emp | Eps => Emp
  | Sym t => if String.eqb s t then Eps else Emp
  | Any => Eps
  | Cat a b => or' (cat' (deriv s a) b) (if nullable a then deriv s b else Emp)
  | Or a b => or' (deriv s a) (deriv s b)
  | Star a => cat' (deriv s a) (Star a)
  end.

Definition matches (r : re) (w : list string) : bool :=
  nullable (fold_left (fun r s => deriv s r) w r).

(** Rule names mentioned by a regex; [no_any r] when it has no wildcard. *)
Fixpoint syms (r : re) : list string :=
  match r with
  | Sym s => [s]
  | Cat a b | Or a b => syms a ++ syms b
  | Star a => syms a
  | _ => []
  end.

Fixpoint no_any (r : re) : bool :=
  match r with
  | Any => false
  | Cat a b | Or a b => no_any a && no_any b
  | Star a => no_any a
  | _ => true
  end.

Fixpoint dedup (l : list string) : list string :=
  match l with
  | [] => []
  | x :: r => if existsb (String.eqb x) r then dedup r else x :: dedup r
  end.

(** * Inclusion certificates

    [R] is a candidate simulation: a list of pairs [(a, b)] claimed to satisfy
    L(a) ⊆ L(b) on words over [sigma].  [closed sigma R] checks that the claim is
    self-supporting: nullability is preserved and every derivative pair is
    again in [R] (or has an empty left side). *)
Definition pair_mem (a b : re) (R : list (re * re)) : bool :=
  is_emp a || existsb (fun p => re_eqb a (fst p) && re_eqb b (snd p)) R.

Definition closed (sigma : list string) (R : list (re * re)) : bool :=
  forallb (fun p =>
    implb (nullable (fst p)) (nullable (snd p))
    && forallb (fun s => pair_mem (deriv s (fst p)) (deriv s (snd p)) R) sigma) R.

(** Untrusted search for a certificate: explore derivative pairs breadth-first. *)
Fixpoint explore (fuel : nat) (sigma : list string) (todo : list (re * re)) (R : list (re * re)) : list (re * re) :=
  match fuel with
  | O => R
  | S f =>
    match todo with
    | [] => R
    | (a, b) :: rest =>
      if pair_mem a b R then explore f sigma rest R
      else explore f sigma (rest ++ map (fun s => (deriv s a, deriv s b)) sigma) ((a, b) :: R)
    end
  end.

(** Decide L(a) ⊆ L(b) (sound, see [incl_check_sound]; may answer [false] spuriously). *)
Definition incl_check (a b : re) : bool :=
  let sigma := dedup (syms a) in
  let R := explore 4000 sigma [(a, b)] [] in
  no_any a && pair_mem a b R && closed sigma R.
